#!/bin/sh
# dev helper: ./mut.sh <check-id> <file-under-repo> <sed-expr>   -- applies a mutation to a scratch copy of /repo/src and runs a check on it
cd "$(dirname "$0")"
rm -rf /tmp/m && mkdir -p /tmp/m && cp -r /repo/src /tmp/m/src && (cd /tmp/m && git init -q . 2>/dev/null)
sed -i "$3" /tmp/m/$2
if diff -q /repo/$2 /tmp/m/$2 >/dev/null; then echo "MUTATION DID NOT APPLY"; exit 3; fi
VERIF_REPO=/tmp/m ./check $1 2>&1 | grep -E "^(VIOLATION|INCONCLUSIVE|OK|KNOWN|failed obligation)" | cut -c1-220
