#!/bin/sh
# regression over the seeded corpus on an ISOLATED copy of the repository (for `vp run --with-repo -- ./seedall_iso.sh`):
# works in the snapshot of /verif it is started from and in the repository copy $VP_RUN_REPO (or $1), never in /repo.
cd "$(dirname "$0")"
R=${1:-$VP_RUN_REPO}
[ -n "$R" ] && [ -d "$R" ] || { echo "usage: seedall_iso.sh <repo copy>"; exit 3; }
[ "$R" = "/repo" ] && { echo "refusing to run on /repo"; exit 3; }
sed -i "s|path = \"/repo\"|path = \"$R\"|" replay/Cargo.toml kani/Cargo.toml
export VERIF_REPO=$R
run() {  # run <patch> <props...>
  pf=$(readlink -f "$1"); shift
  git -C $R checkout -q -- . ; git -C $R apply "$pf" || { echo "patch does not apply"; return; }
  for p in "$@"; do ./check $p 2>&1 | grep -E "^(VIOLATION|INCONCLUSIVE|OK|KNOWN|failed obligation)" | cut -c1-200; done
  git -C $R checkout -q -- .
}
fail=0
for d in seeded/*/; do
  id=$(basename $d)
  case $id in benign*) continue;; esac
  [ -n "$ONLY" ] && ! echo "$id" | grep -qE "$ONLY" && continue
  prop=$(python3 -c "import json; print(json.load(open('$d/meta.json'))['breaks_property'])")
  out=$(run $d/patch.diff $prop)
  if echo "$out" | grep -q "^VIOLATION property=$prop"; then
    how=$(echo "$out" | grep "^failed obligation" | head -1 | cut -c1-100)
    echo "seed $id [$prop]: detected  ($how)"
  else
    echo "seed $id [$prop]: MISSED"; echo "$out" | head -3; fail=1
  fi
done
[ -n "$ONLY" ] && exit $fail
i=1
for prop in C01 C16 C16 C01 C01 C08 C02 C02 C13 C14 C15 C05; do
  out=$(run seeded/benign/benign_$i.diff $prop)
  if echo "$out" | grep -q "^VIOLATION"; then echo "benign_$i [$prop]: FALSE ALARM"; fail=1
  elif echo "$out" | grep -q "^OK"; then echo "benign_$i [$prop]: quiet"
  else echo "benign_$i [$prop]: inconclusive"; fi
  i=$((i+1))
done
for spec in "benign2/b1_1:C01 C02 C08 C07" "benign2/b1_2:C01 C02 C08" "benign2/b1_3:C16 C01" "benign2/b1_4:C01 C05" "benign2/b1_5:C01 C05 C02" "benign2/b2_1:C02" "benign2/b2_2:C16" "benign2/b2_3:C14 C01" "benign2/b2_4:C01 C02" "benign2/b2_5:C02" "benign2/b3_1:C13 C07 C11" "benign2/b3_2:C13" "benign2/b3_3:C15 C09" "benign2/b3_4:C15 C09" "benign2/b3_5:C14" "benign2/b3_6:C06" \
            "benign3/b3a_1:C01 C02" "benign3/b3a_2:C05" "benign3/b3a_3:C05" "benign3/b3a_4:C01 C02" "benign3/b3a_5:C01 C02" "benign3/b3a_6:C08 C07" "benign3/b3b_1:C15 C09" "benign3/b3b_2:C15" "benign3/b3b_3:C09" "benign3/b3b_4:C09" "benign3/b3b_5:C14" "benign3/b3b_6:C06" "benign4/b4a_1:C09" "benign4/b4a_2:C09" "benign4/b4a_3:C09" "benign4/b4a_4:C07 C08 C11" "benign4/b4a_5:C07" "benign4/b4a_6:C07 C11" "benign4/b4b_1:C09" "benign4/b4b_2:C09" "benign4/b4b_3:C09" "benign4/b4b_4:C09" "benign4/b4b_5:C07" "benign4/b4b_6:C07 C08" "benign5/b5_1:C17" "benign5/b5_2:C17" "benign5/b5_3:C17" "benign5/b5_4:C17" "benign5/b5_5:C17" "benign5/b5_6:C17" "benign5/b5_7:C17" "benign5/b5_8:C14" "benign6/b6_1:C15" "benign6/b6_2:C15" "benign6/b6_3:C15" "benign6/b6_4:C17" "benign6/b6_5:C17" "benign6/b6_6:C14" "benign7/b7_1:C14" "benign7/b7_2:C14" "benign7/b7_3:C14" "benign7/b7_4:C14" "benign7/b7_5:C17"; do
  f=${spec%%:*}; props=${spec#*:}
  out=$(run seeded/$f.diff $props)
  if echo "$out" | grep -q "^VIOLATION"; then echo "$f [$props]: FALSE ALARM"; echo "$out" | head -4; fail=1
  elif echo "$out" | grep -q "^INCONCLUSIVE"; then echo "$f [$props]: inconclusive"
  else echo "$f [$props]: quiet"; fi
done
exit $fail
