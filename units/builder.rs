//%% unit U-builder: BddBuilder default methods (or_lst, and_lst) and the blanket BottomUpBuilder impl
//%%      (var, and, negate, ite, iff, xor, exists, condition) against the Boolean definition of each operation
use vstd::prelude::*;
use vstd::std_specs::cmp::PartialEqSpec;
use std::fmt::Debug;
verus! {
//%% include prelude/env.rs
//%% include prelude/ddnnfptr.rs
//%% include-assumed inc/bddptr.rs
//%% include-assumed inc/varorder.rs
//%% include trusted/ptreq2.rs
//%% include prelude/bddshape.rs
//%% include prelude/bottomup.rs
//%% include trusted/model_iter.rs
//%% include trusted/heap_stub.rs
//%% include inc/bddbuilder.rs
} // verus!
fn main() {}
