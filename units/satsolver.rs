//%% unit U-satsolver: SATSolver::decide / pop over the contract of the real propagator: soundness and fixpoint for every decide / pop history (C09)
use vstd::prelude::*;
verus! {
//%% include-assumed inc/varlabel.rs
//%% include-assumed inc/cnf.rs
//%% include trusted/vec_contains.rs
//%% include-assumed inc/unitprop.rs
//%% include inc/satsolver.rs
} // verus!
fn main() {}
