//%% unit U-topdown: decision-DNNF conditioning (cond_helper, condition, var) and the standard node store's get_or_insert
use vstd::prelude::*;
use vstd::std_specs::cmp::PartialEqSpec;
use std::fmt::Debug;
verus! {
//%% include prelude/env.rs
//%% include prelude/ddnnfptr.rs
//%% include-assumed inc/bddptr.rs
//%% include-assumed inc/varorder.rs
//%% include trusted/ptreq2.rs
//%% include trusted/literal.rs
//%% include trusted/lit_iter.rs
//%% include trusted/cnf_stub.rs
//%% include trusted/fxhashmap.rs
//%% include trusted/sat_stub.rs
//%% include inc/dnnf.rs
} // verus!
fn main() {}
