//%% unit U-asgiter: AssignmentIter::{new, next} -- the binary counter over assignments that Cnf::wmc iterates (C15)
use vstd::prelude::*;
verus! {
//%% include inc/asgiter.rs
} // verus!
fn main() {}
