//%% unit U-dtree: the structural helpers of DTree::from_cnf (get_vars, init_vars, gen_cutset, balanced)
use vstd::prelude::*;
verus! {
//%% include-assumed inc/varlabel.rs
//%% include inc/dtree.rs
} // verus!
fn main() {}
