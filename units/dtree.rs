//%% unit U-dtree: the structural helpers of DTree::from_cnf (get_vars, init_vars, gen_cutset, balanced)
use vstd::prelude::*;
verus! {
//%% include-assumed inc/varlabel.rs
//%% include prelude/env.rs
//%% include inc/dtree.rs
//%% include trusted/cnf_stub.rs
//%% include trusted/order_iter.rs
//%% include inc/dtree_from_cnf.rs
} // verus!
fn main() {}
