//%% unit U-ledimacs: LogicalExpr::from_dimacs -- the expression tree built from the parsed instance has the models of the text (C17)
use vstd::prelude::*;
verus! {
//%% include trusted/hashmap.rs
//%% include-assumed inc/sexpr.rs
//%% include inc/ledimacs.rs
} // verus!
fn main() {}
