//%% unit U-bottomup: default methods of BottomUpBuilder (or, compose) against the trait contract, generic in the pointer type
use vstd::prelude::*;
use vstd::std_specs::cmp::PartialEqSpec;
verus! {
//%% include prelude/env.rs
//%% include prelude/ddnnfptr.rs
//%% include inc/varlabel.rs
//%% include prelude/bottomup.rs
} // verus!
fn main() {}
