//%% unit U-plan: BottomUpPlan::{and, or, literal, from_dtree}: the plan derived from a dtree means the conjunction of its leaf clauses
use vstd::prelude::*;
verus! {
//%% include prelude/env.rs
//%% include-assumed inc/varlabel.rs
//%% include-assumed inc/dtree.rs
//%% include trusted/cnf_stub.rs
//%% include prelude/plansem.rs
//%% include inc/plan.rs
} // verus!
fn main() {}
