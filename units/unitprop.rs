//%% unit U-unitprop: UnitPropagate::decide -- soundness of unit propagation (C09: every assigned value is entailed; UNSAT only when no model extends)
use vstd::prelude::*;
verus! {
//%% include-assumed inc/varlabel.rs
//%% include-assumed inc/cnf.rs
//%% include trusted/vec_contains.rs
//%% include inc/unitprop.rs
} // verus!
fn main() {}
