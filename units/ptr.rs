//%% unit U-ptr: BddPtr/BddNode accessors and the DDNNFPtr axioms discharged for BddPtr
use vstd::prelude::*;
use vstd::std_specs::cmp::PartialEqSpec;
verus! {
//%% include prelude/env.rs
//%% include prelude/ddnnfptr.rs
//%% include inc/bddptr.rs
} // verus!
fn main() {}
