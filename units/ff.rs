//%% unit U-ff: src/util/semirings/finitefield.rs  FiniteField<P> against integer arithmetic modulo P, ring laws, per-prime side conditions
use vstd::prelude::*;
use std::ops;
use vstd::std_specs::ops::{AddSpecImpl, MulSpecImpl, SubSpecImpl};
use vstd::arithmetic::div_mod::*;
use vstd::arithmetic::mul::*;
verus! {
//%% include prelude/semiring.rs
//%% include inc/ff.rs
} // verus!
fn main() {}
