//%% unit U-polyff: the coefficient laws assumed by the polynomial laws are discharged for FiniteField<P> (every P with ff_ok)
use vstd::prelude::*;
use std::ops;
use vstd::std_specs::ops::{AddSpec, MulSpec, AddSpecImpl, MulSpecImpl, SubSpecImpl};
use vstd::arithmetic::div_mod::*;
use vstd::arithmetic::mul::*;
verus! {
//%% include prelude/semiring.rs
//%% include-assumed inc/ff.rs
//%% include-assumed inc/poly.rs
//%% include prelude/polylaws.rs

/// the reduced residues of FiniteField<P> form a commutative semiring under the operator specifications that unit ff
/// proves for the real `+` and `*`
pub proof fn lemma_csr_ff<const P: u128>()
    requires ff_ok::<P>(),
    ensures csr::<FiniteField<P>>(),
{
    reveal(csr);
    lemma_small_mod(0, P as nat);
    lemma_small_mod(1, P as nat);
    assert forall|a: FiniteField<P>, b: FiniteField<P>| a.valid() && b.valid() implies (#[trigger] AddSpec::add_spec(a, b)).valid() by { lemma_closed(a, b); }
    assert forall|a: FiniteField<P>, b: FiniteField<P>| a.valid() && b.valid() implies (#[trigger] MulSpec::mul_spec(a, b)).valid() by { lemma_closed(a, b); }
    assert forall|a: FiniteField<P>, b: FiniteField<P>| a.valid() && b.valid() implies #[trigger] AddSpec::add_spec(a, b) == AddSpec::add_spec(b, a) by { lemma_add_comm(a, b); }
    assert forall|a: FiniteField<P>, b: FiniteField<P>, c: FiniteField<P>| a.valid() && b.valid() && c.valid() implies #[trigger] AddSpec::add_spec(AddSpec::add_spec(a, b), c) == AddSpec::add_spec(a, AddSpec::add_spec(b, c)) by { lemma_add_assoc(a, b, c); }
    assert forall|a: FiniteField<P>| a.valid() implies #[trigger] AddSpec::add_spec(a, FiniteField::<P>::zero_s()) == a by { lemma_identities(a); }
    assert forall|a: FiniteField<P>, b: FiniteField<P>| a.valid() && b.valid() implies #[trigger] MulSpec::mul_spec(a, b) == MulSpec::mul_spec(b, a) by { lemma_mul_comm(a, b); }
    assert forall|a: FiniteField<P>, b: FiniteField<P>, c: FiniteField<P>| a.valid() && b.valid() && c.valid() implies #[trigger] MulSpec::mul_spec(MulSpec::mul_spec(a, b), c) == MulSpec::mul_spec(a, MulSpec::mul_spec(b, c)) by { lemma_mul_assoc(a, b, c); }
    assert forall|a: FiniteField<P>| a.valid() implies #[trigger] MulSpec::mul_spec(a, FiniteField::<P>::one_s()) == a by { lemma_identities(a); }
    assert forall|a: FiniteField<P>| a.valid() implies #[trigger] MulSpec::mul_spec(a, FiniteField::<P>::zero_s()) == FiniteField::<P>::zero_s() by { lemma_identities(a); }
    assert forall|a: FiniteField<P>, b: FiniteField<P>, c: FiniteField<P>| a.valid() && b.valid() && c.valid() implies #[trigger] MulSpec::mul_spec(a, AddSpec::add_spec(b, c)) == AddSpec::add_spec(MulSpec::mul_spec(a, b), MulSpec::mul_spec(a, c)) by { lemma_distrib(a, b, c); }
}

/// hence, for example: multiplication of truncated polynomials over any exported finite field is associative
pub proof fn poly_ff_mul_assoc<const P: u128>(a: Polynomial<FiniteField<P>>, b: Polynomial<FiniteField<P>>, c: Polynomial<FiniteField<P>>,
        ab: Polynomial<FiniteField<P>>, bc: Polynomial<FiniteField<P>>, r1: Polynomial<FiniteField<P>>, r2: Polynomial<FiniteField<P>>)
    requires ff_ok::<P>(), a.nf(), b.nf(), c.nf(), a.mul_def(b, ab), ab.mul_def(c, r1), b.mul_def(c, bc), a.mul_def(bc, r2),
    ensures r1.peq(r2),
{
    lemma_csr_ff::<P>();
    poly_mul_assoc(a, b, c, ab, bc, r1, r2);
}
} // verus!
fn main() {}
