//%% unit U-polyff: the coefficient laws assumed by the polynomial laws are discharged for FiniteField<P> (every P with ff_ok)
use vstd::prelude::*;
use std::ops;
use vstd::std_specs::ops::{AddSpec, MulSpec, AddSpecImpl, MulSpecImpl, SubSpecImpl};
use vstd::arithmetic::div_mod::*;
use vstd::arithmetic::mul::*;
verus! {
//%% include prelude/semiring.rs
//%% include-assumed inc/ff.rs
//%% include-assumed inc/poly.rs
//%% include prelude/polylaws.rs

//%% include prelude/csrff.rs

/// hence, for example: multiplication of truncated polynomials over any exported finite field is associative
pub proof fn poly_ff_mul_assoc<const P: u128>(a: Polynomial<FiniteField<P>>, b: Polynomial<FiniteField<P>>, c: Polynomial<FiniteField<P>>,
        ab: Polynomial<FiniteField<P>>, bc: Polynomial<FiniteField<P>>, r1: Polynomial<FiniteField<P>>, r2: Polynomial<FiniteField<P>>)
    requires ff_ok::<P>(), a.nf(), b.nf(), c.nf(), a.mul_def(b, ab), ab.mul_def(c, r1), b.mul_def(c, bc), a.mul_def(bc, r2),
    ensures r1.peq(r2),
{
    lemma_csr_ff::<P>();
    poly_mul_assoc(a, b, c, ab, bc, r1, r2);
}
} // verus!
fn main() {}
