//%% unit U-poly: truncated polynomials over a generic coefficient semiring: zero, one, +, * against their definitions
use vstd::prelude::*;
use std::ops;
use vstd::std_specs::ops::{AddSpec, MulSpec};
verus! {
//%% include prelude/semiring.rs
//%% include inc/poly.rs
//%% include prelude/polylaws.rs
} // verus!
fn main() {}
