//%% unit U-satstack: SATSolver decide / pop / cur_hash / is_sat / is_set -- the decision stack is a stack (C09: pop undoes decide)
use vstd::prelude::*;
verus! {
//%% include-assumed inc/varlabel.rs
//%% include inc/satstack.rs
} // verus!
fn main() {}
