//%% unit U-ser: the BDD node table and the vtree mirror built for serialisation denote the diagram / the tree (C17, table part)
use vstd::prelude::*;
use vstd::std_specs::cmp::PartialEqSpec;
verus! {
global size_of usize == 8;
//%% include prelude/env.rs
//%% include prelude/ddnnfptr.rs
//%% include-assumed inc/bddptr.rs
//%% include trusted/hashmap.rs
//%% include inc/serialize.rs
} // verus!
fn main() {}
