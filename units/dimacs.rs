//%% unit U-dimacs: Cnf::from_dimacs -- the conversion of the parsed instance (variable k, sign) into clauses over labels k-1 (C17)
use vstd::prelude::*;
verus! {
//%% include-assumed inc/varlabel.rs
//%% include-assumed inc/cnf.rs
//%% include inc/dimacs.rs
} // verus!
fn main() {}
