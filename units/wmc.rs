//%% unit U-wmc: the memoised fold over BDD / decision-DNNF pointers, the generic weighted count, and the counting theorems
use vstd::prelude::*;
use std::ops;
use std::fmt::Debug;
use vstd::std_specs::cmp::PartialEqSpec;
use vstd::std_specs::ops::{AddSpec, MulSpec, AddSpecImpl, MulSpecImpl};
verus! {
//%% include prelude/env.rs
//%% include prelude/ddnnfptr.rs
//%% include prelude/semiring.rs
//%% include-assumed inc/bddptr.rs
//%% include-assumed inc/varorder.rs
//%% include prelude/bddshape.rs
//%% include prelude/decides.rs
global size_of usize == 8;
impl VarLabel {
//%% extract src/repr/var_label.rs :: impl VarLabel :: fn value_usize
//%% @ret r
//%% @spec
        ensures r == self.0,
//%% end
}
//%% include inc/fold.rs
//%% include prelude/csr.rs
//%% include prelude/wmcthm.rs
//%% include inc/boolsr.rs
} // verus!
fn main() {}
