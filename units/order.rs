//%% unit U-order: VarOrder (mutually inverse position/label maps; first_essential; run-time extension)
use vstd::prelude::*;
use std::fmt::Debug;
verus! {
//%% include inc/varlabel.rs
//%% include prelude/pvo.rs
//%% include inc/varorder.rs
} // verus!
fn main() {}
