//%% unit U-lru: src/util/lru.rs  (pow_cap, Element::new, Lru::{new, insert, get, grow}) + history lemma (C16)
use vstd::prelude::*;
use vstd::std_specs::cmp::PartialEqSpec;
use std::fmt::Debug;
use std::hash::Hash;
verus! {
//%% include inc/lru.rs
} // verus!
fn main() {}
