//%% unit U-ite-std: Ite::new / is_compl_choice, generic over T: DDNNFPtr
use vstd::prelude::*;
use vstd::std_specs::cmp::PartialEqSpec;
verus! {
//%% include prelude/env.rs
//%% include prelude/ddnnfptr.rs
//%% include inc/ite.rs
} // verus!
fn main() {}
