//%% unit U-table: src/backing_store/bump_table.rs -- robin-hood unique table (propagate, grow, get_or_insert_by_hash)
use vstd::prelude::*;
use vstd::std_specs::cmp::PartialEqSpec;
use std::hash::Hash;
use std::mem;
verus! {
//%% include inc/table.rs
} // verus!
fn main() {}
