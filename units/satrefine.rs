//%% unit U-satrefine: the real SATSolver implements the solver interface A-sat of the top-down compiler (refinement lemmas)
use vstd::prelude::*;
verus! {
//%% include prelude/env.rs
//%% include-assumed inc/varlabel.rs
//%% include-assumed inc/cnf.rs
//%% include trusted/vec_contains.rs
//%% include-assumed inc/unitprop.rs
//%% include-assumed inc/satsolver.rs
//%% include inc/satrefine.rs
} // verus!
fn main() {}
