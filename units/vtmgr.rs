//%% unit U-vtmgr: the in-order indexing of the vtree manager (C14, last sentence: in-order indices agree with the shape of the tree)
use vstd::prelude::*;
use std::collections::VecDeque;
verus! {
global size_of usize == 8;
//%% include-assumed inc/varlabel.rs
//%% include inc/vtmgr.rs
} // verus!
fn main() {}
