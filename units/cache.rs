//%% unit U-cache: AllIteTable / LruIteTable adapters against the IteTable contract, generic over T: DDNNFPtr
use vstd::prelude::*;
use vstd::std_specs::cmp::PartialEqSpec;
use std::fmt::Debug;
use std::hash::Hash;
verus! {
//%% include prelude/env.rs
//%% include prelude/ddnnfptr.rs
//%% include-assumed inc/ite.rs
//%% include prelude/itetable.rs
//%% include-assumed inc/lru.rs
//%% include inc/cache.rs
} // verus!
fn main() {}
