//%% unit U-robdd: RobddBuilder::{less_than, get_or_insert, ite_helper, cond_helper, condition_essential, cond_with_alloc}
use vstd::prelude::*;
use vstd::std_specs::cmp::PartialEqSpec;
use std::fmt::Debug;
verus! {
//%% include prelude/env.rs
//%% include prelude/ddnnfptr.rs
//%% include-assumed inc/bddptr.rs
//%% include-assumed inc/varorder.rs
//%% include trusted/ptreq2.rs
//%% include prelude/bddshape.rs
//%% include-assumed inc/ite.rs
//%% include prelude/itetable.rs
//%% include-assumed prelude/bottomup.rs
//%% include-assumed inc/bddbuilder.rs
//%% include trusted/model_iter.rs
//%% include trusted/heap_stub.rs
//%% include inc/robdd.rs
} // verus!
fn main() {}
