//%% unit U-canonthm: the canonicity theorem over the shape predicates (spec-level lemmas only)
use vstd::prelude::*;
use vstd::std_specs::cmp::PartialEqSpec;
use std::fmt::Debug;
verus! {
//%% include prelude/env.rs
//%% include prelude/ddnnfptr.rs
//%% include-assumed inc/bddptr.rs
//%% include-assumed inc/varorder.rs
//%% include trusted/ptreq2.rs
//%% include prelude/bddshape.rs
//%% include prelude/decides.rs
//%% include prelude/canonthm.rs
} // verus!
fn main() {}
