//%% unit U-wmcff: the counting theorems instantiated for FiniteField<P> (every P with ff_ok, hence all seven exported primes)
use vstd::prelude::*;
use std::ops;
use std::fmt::Debug;
use vstd::std_specs::cmp::PartialEqSpec;
use vstd::std_specs::ops::{AddSpec, MulSpec, AddSpecImpl, MulSpecImpl, SubSpecImpl};
use vstd::arithmetic::div_mod::*;
use vstd::arithmetic::mul::*;
verus! {
//%% include prelude/env.rs
//%% include prelude/ddnnfptr.rs
//%% include prelude/semiring.rs
//%% include-assumed inc/bddptr.rs
//%% include-assumed inc/varorder.rs
//%% include prelude/bddshape.rs
//%% include prelude/decides.rs
global size_of usize == 8;
impl VarLabel {
    #[verifier::external_body]
    pub fn value_usize(&self) -> (r: usize) ensures r == self.0 { unimplemented!() }
}
//%% include-assumed inc/fold.rs
//%% include prelude/csr.rs
//%% include prelude/wmcthm.rs
//%% include-assumed inc/ff.rs
//%% include prelude/csrff.rs

/// the exec `+` / `*` of FiniteField<P> compute their specifications on reduced residues and return reduced residues
pub proof fn lemma_sr_ops_ff<const P: u128>()
    requires ff_ok::<P>(),
    ensures sr_ops_ok::<FiniteField<P>>(),
{
    assert forall|a: FiniteField<P>, b: FiniteField<P>| a.valid() && b.valid() implies (#[trigger] AddSpec::add_spec(a, b)).valid() by { lemma_closed(a, b); }
    assert forall|a: FiniteField<P>, b: FiniteField<P>| a.valid() && b.valid() implies (#[trigger] MulSpec::mul_spec(a, b)).valid() by { lemma_closed(a, b); }
}
//%% include inc/semhash.rs

/// C07 for finite-field weights (the weights semantic hashing uses: low + high == 1 mod P): the count the real fold
/// returns for an ordered BDD is the sum over all assignments, for every exported prime
pub proof fn wmc_ff_bdd<const P: u128>(p: BddPtr, w: W<FiniteField<P>>, o: VarOrder, env: Env)
    requires
        ff_ok::<P>(), wv(w), o.wf(), ordered(p, o), o.n() <= u64::MAX,
        forall|l: u64| l < o.n() ==> normalised(w, l),
    ensures
        wmc_spec(p, false, w) == zsum(indf::<FiniteField<P>>(p, false), w, labels(o.n()), env),
{
    lemma_csr_ff::<P>();
    wmc_bdd_corollary(p, false, w, o, env);
}
/// ... and for a decision-DNNF (no path decides a variable twice) over any listing of its variables
pub proof fn wmc_ff_dnnf<const P: u128>(p: BddPtr, w: W<FiniteField<P>>, vs: Seq<u64>, env: Env)
    requires
        ff_ok::<P>(), wv(w), distinct(vs), decides_once(p),
        forall|x: VarLabel| mentions(p, x) ==> vs.contains(x.0),
        forall|i: int| 0 <= i < vs.len() ==> normalised(w, #[trigger] vs[i]),
    ensures
        wmc_spec(p, false, w) == zsum(indf::<FiniteField<P>>(p, false), w, vs, env),
{
    lemma_csr_ff::<P>();
    wmc_theorem(p, false, w, vs, env);
}
/// ... and for a smoothed BDD with arbitrary finite-field weights
pub proof fn wmc_ff_smooth<const P: u128>(p: BddPtr, w: W<FiniteField<P>>, o: VarOrder, env: Env)
    requires
        ff_ok::<P>(), wv(w), o.wf(), ordered(p, o), smooth_from(p, 0, o.n() as int, o),
    ensures
        wmc_spec(p, false, w) == zsum(indf::<FiniteField<P>>(p, false), w, levels(o, 0), env),
{
    lemma_csr_ff::<P>();
    reveal(VarOrder::wf);
    wmc_smooth_theorem(p, false, w, o, 0, env);
}
/// ... and for a BDD smoothed over the first n levels only (any n), with arbitrary weights there and normalised weights below
pub proof fn wmc_ff_partial_smooth<const P: u128>(p: BddPtr, w: W<FiniteField<P>>, o: VarOrder, n: int, env: Env)
    requires
        ff_ok::<P>(), wv(w), o.wf(), ordered(p, o), 0 <= n <= o.n(), smooth_from(p, 0, n, o),
        forall|i: int| n <= i < o.n() ==> normalised(w, #[trigger] o.pos_to_var[i] as u64),
    ensures
        wmc_spec(p, false, w) == zsum(indf::<FiniteField<P>>(p, false), w, levels(o, 0), env),
{
    lemma_csr_ff::<P>();
    reveal(VarOrder::wf);
    wmc_partial_smooth_theorem(p, false, w, o, 0, n, env);
}
} // verus!
fn main() {}
