//%% unit U-sddfold: the memoised fold over SDD pointers (C07: SDD part)
use vstd::prelude::*;
use std::ops;
use std::fmt::Debug;
use vstd::std_specs::ops::{AddSpec, MulSpec};
verus! {
//%% include prelude/env.rs
//%% include prelude/semiring.rs
//%% include-assumed inc/varlabel.rs
//%% include-assumed inc/foldcore.rs
//%% include inc/sddfold.rs
//%% include prelude/csr.rs
//%% include prelude/zsum.rs
//%% include prelude/sddthm.rs
} // verus!
fn main() {}
