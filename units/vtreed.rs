//%% unit U-vtreed: VTree::from_dtree / right_linear_c -- the vtree derived from a dtree holds every variable the ancestors have not cut as exactly one leaf
use vstd::prelude::*;
verus! {
//%% include-assumed inc/varlabel.rs
//%% include-assumed inc/dtree.rs
//%% include trusted/varset_iter.rs
//%% include inc/vtree_from_dtree.rs
} // verus!
fn main() {}
