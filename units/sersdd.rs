//%% unit U-sersdd: the SDD node table built for serialisation denotes the diagram (C17, table part)
use vstd::prelude::*;
use std::ops;
use std::fmt::Debug;
use vstd::std_specs::ops::{AddSpec, MulSpec};
verus! {
global size_of usize == 8;
//%% include prelude/env.rs
//%% include prelude/semiring.rs
//%% include-assumed inc/varlabel.rs
//%% include-assumed inc/foldcore.rs
//%% include-assumed inc/sddfold.rs
//%% include prelude/csr.rs
//%% include prelude/zsum.rs
//%% include-assumed prelude/sddthm.rs
//%% include trusted/hashmap.rs
//%% include inc/sersdd.rs
} // verus!
fn main() {}
