//%% unit U-cnf: VarSet / PartialModel bookkeeping and Cnf::{eval, is_sat_partial} against propositional semantics
use vstd::prelude::*;
verus! {
//%% include-assumed inc/varlabel.rs
//%% include inc/cnf.rs
} // verus!
fn main() {}
