//%% unit U-sexpr: LogicalExpr::from_sexpr's helper -- the expression tree has the models of the s-expression under the given name -> index mapping (C17)
use vstd::prelude::*;
verus! {
//%% include trusted/hashmap.rs
//%% include inc/sexpr.rs
} // verus!
fn main() {}
