//%% unit U-cnfwmc: Cnf::wmc -- the brute-force weighted count equals the sum over all assignments (C15)
use vstd::prelude::*;
use std::ops;
use vstd::std_specs::ops::{AddSpec, MulSpec};
verus! {
//%% include prelude/semiring.rs
//%% include-assumed inc/varlabel.rs
//%% include-assumed inc/cnf.rs
//%% include-assumed inc/asgiter.rs
//%% include inc/cnfwmc.rs
} // verus!
fn main() {}
