#!/bin/sh
# dev helper (round 3, example-style demos): ./seedverify3.sh <id> <worktree> <property>
# expects the src change applied (uncommitted) in the worktree and examples/demo_break.rs present.
# confirms: suite green with the change, demo exits 1 with it, 0 without it; stores patch + demo under /verif/seeded/<id>/
id=$1; wt=$2; prop=$3
cd $wt || exit 3
export CARGO_TARGET_DIR=$wt/target CARGO_NET_OFFLINE=true
git diff -- src > /tmp/seed_$id.diff
[ -s /tmp/seed_$id.diff ] || { echo "$id: no src change"; exit 3; }
suite=$(cargo test --offline --workspace --no-fail-fast 2>&1 | grep -E "^test result" | tr '\n' ' ')
cargo run --offline --example demo_break > /tmp/seed_$id.with 2>/dev/null; with=$?
git apply -R /tmp/seed_$id.diff
cargo run --offline --example demo_break > /tmp/seed_$id.without 2>/dev/null; without=$?
git apply /tmp/seed_$id.diff
echo "$id [$prop] suite-with-change: $suite"
echo "$id [$prop] demo exit with change: $with ; without: $without"
mkdir -p /verif/seeded/$id
cp /tmp/seed_$id.diff /verif/seeded/$id/patch.diff
cp examples/demo_break.rs /verif/seeded/$id/demo_break.rs
{ echo "suite-with-change: $suite"; echo "demo-exit-with-change: $with"; echo "demo-exit-without-change: $without"; echo "--- demo output with change"; cat /tmp/seed_$id.with; } > /verif/seeded/$id/verified.txt
rm -f /tmp/seed_$id.diff /tmp/seed_$id.with /tmp/seed_$id.without
