// ---- the two-watched-literal invariant (C09: "runs to fixpoint"): specification vocabulary and step lemmas ----
pub open spec fn lneg(l: Literal) -> Literal { Literal { lbl: l.lbl, pol: !l.pol } }
pub open spec fn lit_false(l: Literal, m: PartialModel) -> bool { m.val(l.lbl) == Some(!l.pol) }
/// every clause is in the normal form Cnf::new is proved to establish (unit cnf: `norm_lits`); opaque so that the
/// quantifiers of the definition stay out of the propagation loop's verification conditions
#[verifier::opaque]
pub open spec fn norm_ok(cs: Seq<Vec<Literal>>) -> bool { norm_lits(cs) }
pub proof fn lemma_norm_ok(cs: Seq<Vec<Literal>>) ensures norm_ok(cs) == norm_lits(cs) { reveal(norm_ok); }
/// the watch list of a literal
pub open spec fn wl(wlp: Seq<Vec<usize>>, wln: Seq<Vec<usize>>, l: Literal) -> Seq<usize> { if l.pol { wlp[l.lbl.0 as int]@ } else { wln[l.lbl.0 as int]@ } }
/// clause i may sit in the watch list of l: it exists, has at least two literals, and contains l
pub open spec fn entry_ok(cs: Seq<Vec<Literal>>, l: Literal, i: usize) -> bool { i < cs.len() && cs[i as int]@.len() >= 2 && cs[i as int]@.contains(l) }
/// some partial-model facts
pub proof fn lemma_sat_mono(c: Seq<Literal>, m: PartialModel, m2: PartialModel)
    requires clause_true_p(c, m), extends(m2, m),
    ensures clause_true_p(c, m2),
{
    let j = choose|j: int| 0 <= j < c.len() && lit_true_p(#[trigger] c[j], m);
    assert(m.val(c[j].lbl) is Some);
    assert(lit_true_p(c[j], m2));
}

pub proof fn lemma_member_sat(c: Seq<Literal>, l: Literal, m: PartialModel)
    requires c.contains(l), m.val(l.lbl) == Some(l.pol),
    ensures clause_true_p(c, m),
{
    let j = choose|j: int| 0 <= j < c.len() && c[j] == l;
    assert(lit_true_p(c[j], m));
}

impl UnitPropagate {
    pub open spec fn list(&self, l: Literal) -> Seq<usize> { wl(self.watch_list_pos@, self.watch_list_neg@, l) }
    pub open spec fn in_rng(&self, l: Literal) -> bool { l.lbl.0 < self.cnf.num_vars }
    /// every watch-list entry is a clause with at least two literals that contains the watching literal
    #[verifier::opaque]
    pub open spec fn entries_ok(&self) -> bool {
        forall|l: Literal, j: int| self.in_rng(l) && 0 <= j < self.list(l).len() ==> entry_ok(self.cnf.clauses@, l, #[trigger] self.list(l)[j])
    }
    /// clause i is watched by (at least) two different literals
    pub open spec fn two_watched(&self, i: int) -> bool {
        exists|a: Literal, b: Literal| a != b && self.in_rng(a) && self.in_rng(b) && #[trigger] self.list(a).contains(i as usize) && #[trigger] self.list(b).contains(i as usize)
    }
    #[verifier::opaque]
    pub open spec fn all_two_watched(&self) -> bool {
        forall|i: int| 0 <= i < self.cnf.clauses@.len() && (#[trigger] self.cnf.clauses@[i])@.len() >= 2 ==> self.two_watched(i)
    }
    /// the structural part of the two-watched-literal scheme (independent of any partial model)
    pub open spec fn winv(&self) -> bool { self.inv() && norm_ok(self.cnf.clauses@) && self.entries_ok() && self.all_two_watched() }
    /// THE watch invariant relative to a partial model: a clause watched by a literal that the model makes false is satisfied by the model
    #[verifier::opaque]
    pub open spec fn watch_ok(&self, m: PartialModel) -> bool {
        forall|l: Literal, j: int| self.in_rng(l) && lit_false(l, m) && 0 <= j < self.list(l).len() ==> clause_true_p(self.cnf.clauses@[(#[trigger] self.list(l)[j]) as int]@, m)
    }
}
/// frame of `decide`: the watch lists of literals whose variable is already assigned are not touched
pub open spec fn frame_ok(u1: UnitPropagate, u2: UnitPropagate, m: PartialModel) -> bool {
    &&& u2.cnf == u1.cnf
    &&& forall|l: Literal| u1.in_rng(l) && m.val(l.lbl) is Some ==> #[trigger] u2.list(l) == u1.list(l)
}
/// what `decide` establishes for the literals it makes false: every clause they watch is satisfied by the resulting model
#[verifier::opaque]
pub open spec fn newly_ok(u: UnitPropagate, m0: PartialModel, m: PartialModel) -> bool {
    forall|l: Literal, j: int| u.in_rng(l) && m0.val(l.lbl) is None && lit_false(l, m) && 0 <= j < u.list(l).len() ==> clause_true_p(u.cnf.clauses@[(#[trigger] u.list(l)[j]) as int]@, m)
}
/// ... and while the watchers of nl are being processed: the same, except for the watchers of nl from position w on
#[verifier::opaque]
pub open spec fn np(u: UnitPropagate, m0: PartialModel, m: PartialModel, nl: Literal, w: int) -> bool {
    forall|l: Literal, j: int| u.in_rng(l) && m0.val(l.lbl) is None && lit_false(l, m) && 0 <= j < u.list(l).len() && !(l == nl && j >= w)
        ==> clause_true_p(u.cnf.clauses@[(#[trigger] u.list(l)[j]) as int]@, m)
}
/// loop invariant of the propagation loop of `decide` (u0, m0: state at entry; nl: the literal just made false; w: cursor)
pub open spec fn prog(u0: UnitPropagate, u: UnitPropagate, m0: PartialModel, m: PartialModel, nl: Literal, w: int) -> bool {
    &&& u.winv() && frame_ok(u0, u, m0) && np(u, m0, m, nl, w)
    &&& 0 <= w <= u.list(nl).len() && u.in_rng(nl) && m0.val(nl.lbl) is None && lit_false(nl, m) && extends(m, m0) && m.wf()
}

pub proof fn lemma_prog_init(u0: UnitPropagate, m0: PartialModel, m: PartialModel, l: Literal)
    requires
        u0.winv(), m.wf(), m0.val(l.lbl) is None, u0.in_rng(l), m.val(l.lbl) == Some(l.pol),
        forall|x: VarLabel| x != l.lbl ==> #[trigger] m.val(x) == m0.val(x),
    ensures prog(u0, u0, m0, m, lneg(l), 0),
{
    reveal(np);
    assert forall|l2: Literal, j: int| u0.in_rng(l2) && m0.val(l2.lbl) is None && lit_false(l2, m) && 0 <= j < u0.list(l2).len() && !(l2 == lneg(l) && j >= 0)
        implies clause_true_p(u0.cnf.clauses@[(#[trigger] u0.list(l2)[j]) as int]@, m) by {
        if l2.lbl != l.lbl { assert(m.val(l2.lbl) == m0.val(l2.lbl)); }
        assert(l2 == lneg(l));
    }
    assert(extends(m, m0)) by { assert forall|x: VarLabel| (#[trigger] m0.val(x)) is Some implies m.val(x) == m0.val(x) by { } }
}
pub proof fn lemma_prog_sat(u0: UnitPropagate, u: UnitPropagate, m0: PartialModel, m: PartialModel, nl: Literal, w: int)
    requires prog(u0, u, m0, m, nl, w), w < u.list(nl).len(), clause_true_p(u.cnf.clauses@[u.list(nl)[w] as int]@, m),
    ensures prog(u0, u, m0, m, nl, w + 1),
{
    reveal(np);
}
pub proof fn lemma_prog_exit(u0: UnitPropagate, u: UnitPropagate, m0: PartialModel, m: PartialModel, nl: Literal, w: int)
    requires prog(u0, u, m0, m, nl, w), w >= u.list(nl).len(),
    ensures u.winv(), frame_ok(u0, u, m0), newly_ok(u, m0, m),
{
    reveal(np); reveal(newly_ok);
}
pub proof fn lemma_noop_newly(u: UnitPropagate, m0: PartialModel)
    ensures newly_ok(u, m0, m0), frame_ok(u, u, m0),
{
    reveal(newly_ok);
}
/// recursion step: the clause under the cursor was unit, its literal was propagated by a recursive call
pub proof fn lemma_prog_rec(u0: UnitPropagate, u1: UnitPropagate, u2: UnitPropagate, m0: PartialModel, m1: PartialModel, m2: PartialModel, nl: Literal, w: int)
    requires
        prog(u0, u1, m0, m1, nl, w), w < u1.list(nl).len(),
        u2.winv(), frame_ok(u1, u2, m1), newly_ok(u2, m1, m2), extends(m2, m1), m2.wf(),
        clause_true_p(u1.cnf.clauses@[u1.list(nl)[w] as int]@, m2),
    ensures prog(u0, u2, m0, m2, nl, w + 1),
{
    reveal(np); reveal(newly_ok);
    let cs = u1.cnf.clauses@;
    assert(u2.list(nl) == u1.list(nl));
    assert(extends(m2, m0)) by { assert forall|x: VarLabel| (#[trigger] m0.val(x)) is Some implies m2.val(x) == m0.val(x) by { assert(m1.val(x) == m0.val(x)); } }
    assert(frame_ok(u0, u2, m0)) by {
        assert forall|l: Literal| u0.in_rng(l) && m0.val(l.lbl) is Some implies #[trigger] u2.list(l) == u0.list(l) by {
            assert(m1.val(l.lbl) == m0.val(l.lbl)); assert(u1.list(l) == u0.list(l)); assert(u2.list(l) == u1.list(l));
        }
    }
    assert forall|l: Literal, j: int| u2.in_rng(l) && m0.val(l.lbl) is None && lit_false(l, m2) && 0 <= j < u2.list(l).len() && !(l == nl && j >= w + 1)
        implies clause_true_p(cs[(#[trigger] u2.list(l)[j]) as int]@, m2) by {
        if m1.val(l.lbl) is Some {
            assert(m2.val(l.lbl) == m1.val(l.lbl));
            assert(u2.list(l) == u1.list(l));
            if l == nl && j == w { } else {
                assert(clause_true_p(cs[u1.list(l)[j] as int]@, m1));
                lemma_sat_mono(cs[u1.list(l)[j] as int]@, m1, m2);
            }
        }
    }
}

/// two different positions of the list of unassigned literals come from two different positions of the clause
pub proof fn lemma_unassigned_positions(c: Seq<Literal>, m: PartialModel, k: int, i: int, j: int)
    requires 0 <= k <= c.len(), 0 <= i < j < unassigned_upto(c, m, k).len(),
    ensures exists|p: int, q: int| 0 <= p < q < k && #[trigger] c[p] == unassigned_upto(c, m, k)[i] && #[trigger] c[q] == unassigned_upto(c, m, k)[j],
    decreases k,
{
    let u0 = unassigned_upto(c, m, k - 1); let u = unassigned_upto(c, m, k);
    if m.val(c[k - 1].lbl) is None {
        if j < u0.len() {
            lemma_unassigned_positions(c, m, k - 1, i, j);
            let (p, q) = choose|p: int, q: int| 0 <= p < q < k - 1 && #[trigger] c[p] == u0[i] && #[trigger] c[q] == u0[j];
            assert(c[p] == u[i] && c[q] == u[j]);
        } else {
            // u[j] is the literal just added, at clause position k-1; u[i] comes from an earlier position
            lemma_unassigned_members(c, m, k - 1);
            assert(u[i] == u0[i]);
            lemma_unassigned_prefix(c, m, k - 1, i);
            let p = choose|p: int| 0 <= p < k - 1 && #[trigger] c[p] == u0[i];
            assert(c[p] == u[i] && c[k - 1] == u[j]);
        }
    } else {
        lemma_unassigned_positions(c, m, k - 1, i, j);
        let (p, q) = choose|p: int, q: int| 0 <= p < q < k - 1 && #[trigger] c[p] == u0[i] && #[trigger] c[q] == u0[j];
        assert(c[p] == u[i] && c[q] == u[j]);
    }
}
/// every element of unassigned_upto(c, m, k) occurs among the first k literals of c
pub proof fn lemma_unassigned_prefix(c: Seq<Literal>, m: PartialModel, k: int, i: int)
    requires 0 <= k <= c.len(), 0 <= i < unassigned_upto(c, m, k).len(),
    ensures exists|p: int| 0 <= p < k && #[trigger] c[p] == unassigned_upto(c, m, k)[i],
    decreases k,
{
    let u0 = unassigned_upto(c, m, k - 1); let u = unassigned_upto(c, m, k);
    if m.val(c[k - 1].lbl) is None && i == u0.len() {
        assert(c[k - 1] == u[i]);
    } else {
        lemma_unassigned_prefix(c, m, k - 1, i);
        let p = choose|p: int| 0 <= p < k - 1 && #[trigger] c[p] == u0[i];
        assert(c[p] == u[i]);
    }
}

/// what moving the watch of clause i = list(nl)[w] from nl to newl does to the lists (swap_remove + push)
pub open spec fn move_rel(u1: UnitPropagate, u2: UnitPropagate, nl: Literal, w: int, newl: Literal, i: usize) -> bool {
    &&& u2.cnf == u1.cnf
    &&& u2.watch_list_pos@.len() == u1.watch_list_pos@.len() && u2.watch_list_neg@.len() == u1.watch_list_neg@.len()
    &&& forall|l: Literal| u1.in_rng(l) && l != nl && l != newl ==> #[trigger] u2.list(l) == u1.list(l)
    &&& u2.list(newl) == u1.list(newl).push(i)
    &&& taken_out(u1.list(nl), u2.list(nl), w)
}
/// the entry at position w is taken out of a list (by swap_remove, remove, ...): the entries before w stay where they are,
/// every later entry of the new list is a later entry of the old one, and no other entry is lost
pub open spec fn taken_out(s1: Seq<usize>, s2: Seq<usize>, w: int) -> bool {
    &&& s2.len() == s1.len() - 1
    &&& forall|j: int| 0 <= j < w ==> #[trigger] s2[j] == s1[j]
    &&& forall|j: int| w <= j < s2.len() ==> later_entry(s1, w, #[trigger] s2[j])
    &&& forall|k: int| 0 <= k < s1.len() && k != w ==> s2.contains(#[trigger] s1[k])
}
pub open spec fn later_entry(s1: Seq<usize>, w: int, x: usize) -> bool { exists|k: int| w < k < s1.len() && #[trigger] s1[k] == x }
/// Vec::swap_remove and Vec::remove both take the entry out in this sense
pub proof fn lemma_taken_out(s1: Seq<usize>, s2: Seq<usize>, w: int)
    requires
        0 <= w < s1.len(),
        (s2.len() == s1.len() - 1 && (forall|j: int| 0 <= j < s2.len() && j != w ==> #[trigger] s2[j] == s1[j]) && (w < s2.len() ==> s2[w] == s1[s1.len() - 1]))
        || s2 =~= s1.remove(w),
    ensures taken_out(s1, s2, w),
{
    if s2 =~= s1.remove(w) {
        assert forall|j: int| w <= j < s2.len() implies later_entry(s1, w, #[trigger] s2[j]) by { assert(s1[j + 1] == s2[j]); }
        assert forall|k: int| 0 <= k < s1.len() && k != w implies s2.contains(#[trigger] s1[k]) by {
            if k < w { assert(s2[k] == s1[k]); } else { assert(s2[k - 1] == s1[k]); }
        }
    } else {
        assert forall|j: int| w <= j < s2.len() implies later_entry(s1, w, #[trigger] s2[j]) by {
            if j == w { assert(s1[s1.len() - 1] == s2[j]); } else { assert(s1[j] == s2[j]); }
        }
        assert forall|k: int| 0 <= k < s1.len() && k != w implies s2.contains(#[trigger] s1[k]) by {
            if k == s1.len() - 1 { assert(s2[w] == s1[k]); } else { assert(s2[k] == s1[k]); }
        }
    }
}
/// a clause other than the moved one that l watched is still watched by l
pub proof fn lemma_move_keeps(u1: UnitPropagate, u2: UnitPropagate, nl: Literal, w: int, newl: Literal, i: usize, l: Literal, k: usize)
    requires move_rel(u1, u2, nl, w, newl, i), u1.in_rng(l), nl != newl, 0 <= w < u1.list(nl).len(), u1.list(nl)[w] == i, u1.list(l).contains(k), l != nl || k != i,
    ensures u2.list(l).contains(k),
{
    let p = choose|p: int| 0 <= p < u1.list(l).len() && u1.list(l)[p] == k;
    if l == nl {
        assert(p != w);
        assert(u2.list(nl).contains(u1.list(nl)[p]));
    } else if l == newl {
        assert(u2.list(l)[p] == k);
    } else {
        assert(u2.list(l) == u1.list(l));
    }
}
/// every entry of a list after the move was an entry before it, or is the pushed one
pub proof fn lemma_move_entries(u1: UnitPropagate, u2: UnitPropagate, nl: Literal, w: int, newl: Literal, i: usize, l: Literal, j: int)
    requires move_rel(u1, u2, nl, w, newl, i), u1.in_rng(l), nl != newl, 0 <= w < u1.list(nl).len(), 0 <= j < u2.list(l).len(),
    ensures (l == newl && u2.list(l)[j] == i) || u1.list(l).contains(u2.list(l)[j]),
{
    if l == nl {
        if j < w { assert(u1.list(nl)[j] == u2.list(l)[j]); } else {
            assert(later_entry(u1.list(nl), w, u2.list(nl)[j]));
            let k = choose|k: int| w < k < u1.list(nl).len() && #[trigger] u1.list(nl)[k] == u2.list(nl)[j];
            assert(u1.list(nl)[k] == u2.list(l)[j]);
        }
    } else if l == newl {
        if j < u1.list(l).len() { assert(u1.list(l)[j] == u2.list(l)[j]); }
    } else {
        assert(u2.list(l) == u1.list(l)); assert(u1.list(l)[j] == u2.list(l)[j]);
    }
}
pub proof fn lemma_prog_move(u0: UnitPropagate, u1: UnitPropagate, u2: UnitPropagate, m0: PartialModel, m: PartialModel, nl: Literal, w: int, newl: Literal)
    requires
        prog(u0, u1, m0, m, nl, w), w < u1.list(nl).len(),
        ({
            let i = u1.list(nl)[w];
            let c = u1.cnf.clauses@[i as int]@;
            let un = unassigned(c, m);
            &&& un.len() >= 2
            // the new watcher is an unassigned literal of the clause that does not watch it yet -- or, as the code does when the
            // first unassigned literal already watches it, the second unassigned literal
            &&& c.contains(newl) && m.val(newl.lbl) is None
            &&& (!u1.list(newl).contains(i) || (u1.list(un[0]).contains(i) && newl == un[1]))
            &&& move_rel(u1, u2, nl, w, newl, i)
        }),
    ensures prog(u0, u2, m0, m, nl, w),
{
    reveal(np);
    let cs = u1.cnf.clauses@;
    let i = u1.list(nl)[w];
    assert(entry_ok(cs, nl, i)) by { reveal(UnitPropagate::entries_ok); }
    let c = cs[i as int]@;
    let un = unassigned(c, m);
    lemma_unassigned_members(c, m, c.len() as int);
    assert(c.contains(un[0]) && c.contains(un[1]) && m.val(un[0].lbl) is None && m.val(un[1].lbl) is None);
    // labels of the clause are in range
    let pn = choose|p: int| 0 <= p < c.len() && c[p] == newl;
    assert(cs[i as int][pn] == newl);
    assert(u1.in_rng(newl));
    assert(nl != newl);
    assert(m0.val(newl.lbl) is None) by { if m0.val(newl.lbl) is Some { assert(m.val(newl.lbl) == m0.val(newl.lbl)); } }
    // frame
    assert(frame_ok(u0, u2, m0)) by {
        assert forall|l: Literal| u0.in_rng(l) && m0.val(l.lbl) is Some implies #[trigger] u2.list(l) == u0.list(l) by {
            assert(u1.list(l) == u0.list(l)); assert(l != nl && l != newl); assert(u2.list(l) == u1.list(l));
        }
    }
    // np
    assert forall|l: Literal, j: int| u2.in_rng(l) && m0.val(l.lbl) is None && lit_false(l, m) && 0 <= j < u2.list(l).len() && !(l == nl && j >= w)
        implies clause_true_p(cs[(#[trigger] u2.list(l)[j]) as int]@, m) by {
        assert(l != newl);
        if l == nl { assert(u2.list(nl)[j] == u1.list(nl)[j]); } else { assert(u2.list(l) == u1.list(l)); }
    }
    // structural invariant
    lemma_move_winv(u1, u2, m, nl, w, newl);
}
/// the move keeps the structural invariant: entries stay valid, every clause keeps two different watchers
pub proof fn lemma_move_winv(u1: UnitPropagate, u2: UnitPropagate, m: PartialModel, nl: Literal, w: int, newl: Literal)
    requires
        u1.winv(), u1.in_rng(nl), u1.in_rng(newl), nl != newl, 0 <= w < u1.list(nl).len(), m.val(nl.lbl) is Some,
        ({
            let i = u1.list(nl)[w];
            let c = u1.cnf.clauses@[i as int]@;
            let un = unassigned(c, m);
            &&& i < u1.cnf.clauses@.len() && c.len() >= 2 && c.contains(newl)
            &&& un.len() >= 2
            &&& m.val(newl.lbl) is None
            &&& (!u1.list(newl).contains(i) || (u1.list(un[0]).contains(i) && newl == un[1]))
            &&& move_rel(u1, u2, nl, w, newl, i)
        }),
    ensures u2.winv(),
{
    let cs = u1.cnf.clauses@;
    let i = u1.list(nl)[w];
    let c = cs[i as int]@;
    let un = unassigned(c, m);
    lemma_unassigned_members(c, m, c.len() as int);
    // entries
    assert(u2.entries_ok()) by {
        reveal(UnitPropagate::entries_ok);
        assert forall|l: Literal, j: int| u2.in_rng(l) && 0 <= j < u2.list(l).len() implies entry_ok(cs, l, #[trigger] u2.list(l)[j]) by {
            lemma_move_entries(u1, u2, nl, w, newl, i, l, j);
            if !(l == newl && u2.list(l)[j] == i) {
                let p = choose|p: int| 0 <= p < u1.list(l).len() && u1.list(l)[p] == u2.list(l)[j];
                assert(entry_ok(cs, l, u1.list(l)[p]));
            }
        }
    }
    // index validity of the raw vectors
    assert(u2.inv()) by {
        reveal(UnitPropagate::entries_ok);
        assert forall|a: int, b: int| 0 <= a < u2.watch_list_pos@.len() && 0 <= b < u2.watch_list_pos@[a]@.len() implies (#[trigger] u2.watch_list_pos@[a]@[b]) < cs.len() by {
            let l = Literal { lbl: VarLabel(a as u64), pol: true };
            assert(u2.list(l)[b] == u2.watch_list_pos@[a]@[b]);
            assert(entry_ok(cs, l, u2.list(l)[b]));
        }
        assert forall|a: int, b: int| 0 <= a < u2.watch_list_neg@.len() && 0 <= b < u2.watch_list_neg@[a]@.len() implies (#[trigger] u2.watch_list_neg@[a]@[b]) < cs.len() by {
            let l = Literal { lbl: VarLabel(a as u64), pol: false };
            assert(u2.list(l)[b] == u2.watch_list_neg@[a]@[b]);
            assert(entry_ok(cs, l, u2.list(l)[b]));
        }
    }
    // two watchers
    assert(u2.all_two_watched()) by {
        reveal(UnitPropagate::all_two_watched);
        assert forall|k: int| 0 <= k < cs.len() && (#[trigger] cs[k])@.len() >= 2 implies u2.two_watched(k) by {
            assert(u1.two_watched(k));
            let (a, b) = choose|a: Literal, b: Literal| a != b && u1.in_rng(a) && u1.in_rng(b) && #[trigger] u1.list(a).contains(k as usize) && #[trigger] u1.list(b).contains(k as usize);
            if k as usize != i || (a != nl && b != nl) {
                lemma_move_keeps(u1, u2, nl, w, newl, i, a, k as usize);
                lemma_move_keeps(u1, u2, nl, w, newl, i, b, k as usize);
                assert(u2.list(a).contains(k as usize) && u2.list(b).contains(k as usize));
            } else {
                // the moved clause, and nl was one of the two known watchers: o is the other one
                let o = if a == nl { b } else { a };
                lemma_move_keeps(u1, u2, nl, w, newl, i, o, i);
                assert(u2.list(newl)[u1.list(newl).len() as int] == i);
                assert(u2.list(newl).contains(i));
                if newl != o {
                    assert(u2.list(newl).contains(k as usize) && u2.list(o).contains(k as usize));
                } else {
                    // newl == o watches i already, so (second alternative) un[0] watches i and newl is un[1] == o; then un[0] != o watches i
                    assert(u1.list(newl).contains(i));
                    assert(u1.list(un[0]).contains(i));
                    assert(norm1(c)) by { reveal(norm_ok); assert(norm1(cs[i as int]@)); }
                    lemma_first_two_differ(c, m);
                    assert(un[0] != o);
                    let pz = choose|pz: int| 0 <= pz < c.len() && c[pz] == un[0];
                    assert(cs[i as int][pz] == un[0]);
                    assert(u1.in_rng(un[0]));
                    assert(un[0] != nl) by { assert(m.val(un[0].lbl) is None); }
                    lemma_move_keeps(u1, u2, nl, w, newl, i, un[0], i);
                    assert(u2.list(un[0]).contains(k as usize) && u2.list(o).contains(k as usize));
                }
            }
        }
    }
}

// ---- UnitPropagate::new builds the scheme ----
pub open spec fn mk(wlp: Vec<Vec<usize>>, wln: Vec<Vec<usize>>, cnf: Cnf) -> UnitPropagate { UnitPropagate { watch_list_pos: wlp, watch_list_neg: wln, cnf: cnf } }
/// the first n clauses with at least two literals are watched twice
#[verifier::opaque]
pub open spec fn built_upto(u: UnitPropagate, n: int) -> bool {
    forall|i: int| 0 <= i < n && i < u.cnf.clauses@.len() && (#[trigger] u.cnf.clauses@[i])@.len() >= 2 ==> u.two_watched(i)
}
pub proof fn lemma_built_start(u: UnitPropagate)
    requires forall|l: Literal| u.in_rng(l) ==> (#[trigger] u.list(l)).len() == 0,
    ensures u.entries_ok(), built_upto(u, 0),
{
    reveal(UnitPropagate::entries_ok); reveal(built_upto);
}
pub proof fn lemma_built_skip(u: UnitPropagate, n: int)
    requires built_upto(u, n), 0 <= n < u.cnf.clauses@.len(), u.cnf.clauses@[n]@.len() < 2,
    ensures built_upto(u, n + 1),
{
    reveal(built_upto);
}
pub proof fn lemma_built_done(u: UnitPropagate)
    requires built_upto(u, u.cnf.clauses@.len() as int),
    ensures u.all_two_watched(),
{
    reveal(UnitPropagate::all_two_watched); reveal(built_upto);
}
/// one step of the initial scan: clause idx (at least two literals) is entered into the lists of its literals 1 and 0
pub proof fn lemma_built_step(u1: UnitPropagate, u2: UnitPropagate, idx: usize)
    requires
        u1.cnf.wf(), norm_ok(u1.cnf.clauses@), u1.entries_ok(), built_upto(u1, idx as int),
        idx < u1.cnf.clauses@.len(), u1.cnf.clauses@[idx as int]@.len() >= 2,
        u2.cnf == u1.cnf,
        ({
            let a = u1.cnf.clauses@[idx as int]@[1]; let b = u1.cnf.clauses@[idx as int]@[0];
            &&& u2.list(a) == u1.list(a).push(idx) && u2.list(b) == u1.list(b).push(idx)
            &&& forall|l: Literal| u1.in_rng(l) && l != a && l != b ==> #[trigger] u2.list(l) == u1.list(l)
        }),
    ensures u2.entries_ok(), built_upto(u2, idx as int + 1),
{
    reveal(UnitPropagate::entries_ok); reveal(built_upto);
    let cs = u1.cnf.clauses@;
    let c = cs[idx as int]@;
    let a = c[1]; let b = c[0];
    assert(cs[idx as int][1] == a && cs[idx as int][0] == b);
    assert(u1.in_rng(a) && u1.in_rng(b));
    assert(a != b) by { reveal(norm_ok); assert(norm1(cs[idx as int]@)); assert(cs[idx as int]@[0int] != cs[idx as int]@[0int + 1]); }
    assert forall|l: Literal, j: int| u2.in_rng(l) && 0 <= j < u2.list(l).len() implies entry_ok(cs, l, #[trigger] u2.list(l)[j]) by {
        if l == a || l == b {
            if j < u1.list(l).len() { assert(u2.list(l)[j] == u1.list(l)[j]); } else { assert(u2.list(l)[j] == idx); assert(c.contains(l)); }
        } else { assert(u2.list(l) == u1.list(l)); }
    }
    assert forall|i: int| 0 <= i < idx as int + 1 && i < cs.len() && (#[trigger] cs[i])@.len() >= 2 implies u2.two_watched(i) by {
        if i < idx {
            assert(u1.two_watched(i));
            let (x, y) = choose|x: Literal, y: Literal| x != y && u1.in_rng(x) && u1.in_rng(y) && #[trigger] u1.list(x).contains(i as usize) && #[trigger] u1.list(y).contains(i as usize);
            lemma_list_grows(u1, u2, a, b, idx, x, i as usize);
            lemma_list_grows(u1, u2, a, b, idx, y, i as usize);
            assert(u2.list(x).contains(i as usize) && u2.list(y).contains(i as usize));
        } else {
            assert(u2.list(a)[u1.list(a).len() as int] == idx);
            assert(u2.list(b)[u1.list(b).len() as int] == idx);
            assert(u2.list(a).contains(i as usize) && u2.list(b).contains(i as usize));
        }
    }
}
pub proof fn lemma_list_grows(u1: UnitPropagate, u2: UnitPropagate, a: Literal, b: Literal, idx: usize, l: Literal, k: usize)
    requires
        u1.in_rng(l), u1.list(l).contains(k),
        u2.list(a) == u1.list(a).push(idx), u2.list(b) == u1.list(b).push(idx),
        forall|l2: Literal| u1.in_rng(l2) && l2 != a && l2 != b ==> #[trigger] u2.list(l2) == u1.list(l2),
    ensures u2.list(l).contains(k),
{
    let p = choose|p: int| 0 <= p < u1.list(l).len() && u1.list(l)[p] == k;
    if l == a || l == b { assert(u2.list(l)[p] == k); } else { assert(u2.list(l) == u1.list(l)); }
}

// ---- the watch invariant relative to a model: established by decide, kept for every earlier model ----
pub proof fn lemma_watch_empty(u: UnitPropagate, m: PartialModel)
    requires forall|x: VarLabel| m.val(x) is None,
    ensures u.watch_ok(m),
{
    reveal(UnitPropagate::watch_ok);
}
/// after a decide from model m1 that returned m2: the invariant holds for m2
pub proof fn lemma_watch_step(u1: UnitPropagate, u2: UnitPropagate, m1: PartialModel, m2: PartialModel)
    requires u1.watch_ok(m1), frame_ok(u1, u2, m1), newly_ok(u2, m1, m2), extends(m2, m1), u1.inv(),
    ensures u2.watch_ok(m2),
{
    reveal(UnitPropagate::watch_ok); reveal(newly_ok);
    let cs = u1.cnf.clauses@;
    assert forall|l: Literal, j: int| u2.in_rng(l) && lit_false(l, m2) && 0 <= j < u2.list(l).len() implies clause_true_p(cs[(#[trigger] u2.list(l)[j]) as int]@, m2) by {
        if m1.val(l.lbl) is Some {
            assert(m2.val(l.lbl) == m1.val(l.lbl));
            assert(u2.list(l) == u1.list(l));
            assert(clause_true_p(cs[u1.list(l)[j] as int]@, m1));
            lemma_sat_mono(cs[u1.list(l)[j] as int]@, m1, m2);
        }
    }
}
/// ... and it still holds for every model mk that the decided-from model m1 extends (the frames below: what pop returns to),
/// whether the decide succeeded or reported UNSAT
pub proof fn lemma_watch_frame(u1: UnitPropagate, u2: UnitPropagate, m1: PartialModel, mk: PartialModel)
    requires u1.watch_ok(mk), frame_ok(u1, u2, m1), extends(m1, mk),
    ensures u2.watch_ok(mk),
{
    reveal(UnitPropagate::watch_ok);
    let cs = u1.cnf.clauses@;
    assert forall|l: Literal, j: int| u2.in_rng(l) && lit_false(l, mk) && 0 <= j < u2.list(l).len() implies clause_true_p(cs[(#[trigger] u2.list(l)[j]) as int]@, mk) by {
        assert(m1.val(l.lbl) == mk.val(l.lbl));
        assert(u2.list(l) == u1.list(l));
    }
}

/// a clause is not stuck under m: it has a literal assigned true, or at least two unassigned literal positions
pub open spec fn not_stuck(c: Seq<Literal>, m: PartialModel) -> bool {
    clause_true_p(c, m) || exists|j: int, k: int| 0 <= j < k < c.len() && m.val((#[trigger] c[j]).lbl) is None && m.val((#[trigger] c[k]).lbl) is None
}
/// THEOREM (C09, "runs to fixpoint"): under the two-watched-literal scheme and the watch invariant for m, with the literal of
/// every one-literal clause assigned true and no empty clause, NO clause is falsified or left with exactly one unassigned literal
pub proof fn lemma_fixpoint(u: UnitPropagate, m: PartialModel)
    requires
        u.winv(), u.watch_ok(m), m.wf(),
        forall|i: int| 0 <= i < u.cnf.clauses@.len() ==> (#[trigger] u.cnf.clauses@[i])@.len() >= 1,
        forall|i: int| 0 <= i < u.cnf.clauses@.len() && (#[trigger] u.cnf.clauses@[i])@.len() == 1 ==> m.val(u.cnf.clauses@[i]@[0].lbl) == Some(u.cnf.clauses@[i]@[0].pol),
    ensures
        forall|i: int| 0 <= i < u.cnf.clauses@.len() ==> not_stuck((#[trigger] u.cnf.clauses@[i])@, m),
{
    reveal(UnitPropagate::watch_ok); reveal(UnitPropagate::all_two_watched); reveal(UnitPropagate::entries_ok);
    let cs = u.cnf.clauses@;
    assert forall|i: int| 0 <= i < cs.len() implies not_stuck((#[trigger] cs[i])@, m) by {
        let c = cs[i]@;
        if c.len() == 1 {
            assert(lit_true_p(c[0], m));
        } else {
            assert(u.two_watched(i));
            let (a, b) = choose|a: Literal, b: Literal| a != b && u.in_rng(a) && u.in_rng(b) && #[trigger] u.list(a).contains(i as usize) && #[trigger] u.list(b).contains(i as usize);
            let pa = choose|p: int| 0 <= p < u.list(a).len() && u.list(a)[p] == i as usize;
            let pb = choose|p: int| 0 <= p < u.list(b).len() && u.list(b)[p] == i as usize;
            assert(entry_ok(cs, a, u.list(a)[pa]) && entry_ok(cs, b, u.list(b)[pb]));
            let ja = choose|j: int| 0 <= j < c.len() && c[j] == a;
            let jb = choose|j: int| 0 <= j < c.len() && c[j] == b;
            if lit_false(a, m) { assert(clause_true_p(cs[u.list(a)[pa] as int]@, m)); }
            else if lit_false(b, m) { assert(clause_true_p(cs[u.list(b)[pb] as int]@, m)); }
            else if m.val(a.lbl) is Some { assert(lit_true_p(c[ja], m)); }
            else if m.val(b.lbl) is Some { assert(lit_true_p(c[jb], m)); }
            else {
                assert(ja != jb);
                if ja < jb { assert(m.val(c[ja].lbl) is None && m.val(c[jb].lbl) is None); } else { assert(m.val(c[jb].lbl) is None && m.val(c[ja].lbl) is None); }
            }
        }
    }
}

/// the first k literals are all assigned when none of them is in the list of unassigned ones
pub proof fn lemma_none_unassigned(c: Seq<Literal>, m: PartialModel, k: int)
    requires 0 <= k <= c.len(), unassigned_upto(c, m, k).len() == 0,
    ensures forall|r: int| 0 <= r < k ==> m.val((#[trigger] c[r]).lbl) is Some,
    decreases k,
{
    if k > 0 { lemma_none_unassigned(c, m, k - 1); }
}
/// exactly one unassigned literal among the first k: where it sits
pub proof fn lemma_one_unassigned(c: Seq<Literal>, m: PartialModel, k: int)
    requires 0 <= k <= c.len(), unassigned_upto(c, m, k).len() == 1,
    ensures exists|p: int| 0 <= p < k && #[trigger] c[p] == unassigned_upto(c, m, k)[0] && m.val(c[p].lbl) is None
        && forall|r: int| 0 <= r < k && r != p ==> m.val((#[trigger] c[r]).lbl) is Some,
    decreases k,
{
    let u0 = unassigned_upto(c, m, k - 1);
    if m.val(c[k - 1].lbl) is None {
        lemma_none_unassigned(c, m, k - 1);
        assert(c[k - 1] == unassigned_upto(c, m, k)[0]);
    } else {
        lemma_one_unassigned(c, m, k - 1);
        let p = choose|p: int| 0 <= p < k - 1 && #[trigger] c[p] == u0[0] && m.val(c[p].lbl) is None && forall|r: int| 0 <= r < k - 1 && r != p ==> m.val((#[trigger] c[r]).lbl) is Some;
        assert(c[p] == unassigned_upto(c, m, k)[0]);
    }
}
/// the first two unassigned literals: their positions p < q, with every other position before q assigned
pub proof fn lemma_first_two(c: Seq<Literal>, m: PartialModel, k: int)
    requires 0 <= k <= c.len(), unassigned_upto(c, m, k).len() >= 2,
    ensures exists|p: int, q: int| 0 <= p < q < k && #[trigger] c[p] == unassigned_upto(c, m, k)[0] && #[trigger] c[q] == unassigned_upto(c, m, k)[1]
        && m.val(c[p].lbl) is None && forall|r: int| 0 <= r < q && r != p ==> m.val((#[trigger] c[r]).lbl) is Some,
    decreases k,
{
    let u0 = unassigned_upto(c, m, k - 1); let u = unassigned_upto(c, m, k);
    if m.val(c[k - 1].lbl) is None && u0.len() == 1 {
        lemma_one_unassigned(c, m, k - 1);
        let p = choose|p: int| 0 <= p < k - 1 && #[trigger] c[p] == u0[0] && m.val(c[p].lbl) is None && forall|r: int| 0 <= r < k - 1 && r != p ==> m.val((#[trigger] c[r]).lbl) is Some;
        assert(c[p] == u[0] && c[k - 1] == u[1]);
    } else {
        lemma_first_two(c, m, k - 1);
        let (p, q) = choose|p: int, q: int| 0 <= p < q < k - 1 && #[trigger] c[p] == u0[0] && #[trigger] c[q] == u0[1]
            && m.val(c[p].lbl) is None && forall|r: int| 0 <= r < q && r != p ==> m.val((#[trigger] c[r]).lbl) is Some;
        assert(c[p] == u[0] && c[q] == u[1]);
    }
}
/// in a clause in normal form the first two unassigned literals are different literals: two equal literals have their
/// negation (same variable, so unassigned as well) between them
pub proof fn lemma_first_two_differ(c: Seq<Literal>, m: PartialModel)
    requires norm1(c), unassigned(c, m).len() >= 2,
    ensures unassigned(c, m)[0] != unassigned(c, m)[1],
{
    lemma_first_two(c, m, c.len() as int);
    let un = unassigned(c, m);
    let (p, q) = choose|p: int, q: int| 0 <= p < q < c.len() && #[trigger] c[p] == un[0] && #[trigger] c[q] == un[1]
        && m.val(c[p].lbl) is None && forall|r: int| 0 <= r < q && r != p ==> m.val((#[trigger] c[r]).lbl) is Some;
    if c[p] == c[q] {
        assert(c[p] != c[p + 1]);
        // sorted: the label of position p + 1 lies between two equal labels
        assert(c[p].lbl.0 <= c[p + 1].lbl.0 && c[p + 1].lbl.0 <= c[q].lbl.0);
        assert(c[p + 1].lbl == c[p].lbl);
        assert(p + 1 != q);
        assert(m.val(c[p + 1].lbl) is Some);
    }
}
