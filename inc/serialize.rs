// ---- src/serialize/ser_bdd.rs, ser_vtree.rs: the in-memory node tables handed to serde (C17, table part) ----
// The derive(Serialize, Deserialize) lines are not extracted (serde's generated code and the JSON text are outside
// the verified text); what is proved is that the TABLE the real code builds denotes the diagram / mirrors the tree.

impl VarLabel {
//%% extract src/repr/var_label.rs :: impl VarLabel :: fn value_usize
//%% @ret r
//%% @spec
        ensures r == self.0 as usize, r as u64 == self.0,
//%% end
}

//%% extract src/serialize/ser_bdd.rs :: - :: enum SerBDDPtr
//%% end
//%% extract src/serialize/ser_bdd.rs :: - :: struct SerBDD
//%% @pub
//%% end
//%% extract src/serialize/ser_bdd.rs :: - :: struct BDDSerializer
//%% @pub
//%% end

/// a child pointer of table row i points strictly below i (post-order table)
pub open spec fn child_ok(p: SerBDDPtr, i: int) -> bool {
    p matches SerBDDPtr::Ptr { index, compl } ==> (index as int) < i
}
/// the table is a post-order table: every row only points to earlier rows
pub open spec fn tbl_wf(nodes: Seq<SerBDD>) -> bool {
    forall|i: int| 0 <= i < nodes.len() ==> child_ok(#[trigger] nodes[i].low, i) && child_ok(nodes[i].high, i)
}
pub open spec fn tmeasure(p: SerBDDPtr) -> int {
    match p { SerBDDPtr::Ptr { index, compl } => index as int + 1, _ => 0 }
}
/// THE reader: the Boolean function a plain node table denotes at a pointer -- a row tests `topvar`, takes `high` when
/// it is true and `low` otherwise, a `compl` flag negates, `True` / `False` are the constants.
pub open spec fn tsem(nodes: Seq<SerBDD>, p: SerBDDPtr, env: Env) -> bool
    decreases tmeasure(p)
{
    match p {
        SerBDDPtr::True => true,
        SerBDDPtr::False => false,
        SerBDDPtr::Ptr { index, compl } => {
            let i = index as int;
            if i < nodes.len() && child_ok(nodes[i].low, i) && child_ok(nodes[i].high, i) {
                compl != (if env(nodes[i].topvar as u64) { tsem(nodes, nodes[i].high, env) } else { tsem(nodes, nodes[i].low, env) })
            } else { arbitrary() }
        }
    }
}
pub open spec fn ptr_in(p: SerBDDPtr, n: int) -> bool { child_ok(p, n) }
pub open spec fn prefix(a: Seq<SerBDD>, b: Seq<SerBDD>) -> bool {
    a.len() <= b.len() && forall|i: int| 0 <= i < a.len() ==> #[trigger] b[i] == a[i]
}
pub proof fn lemma_tsem_prefix(a: Seq<SerBDD>, b: Seq<SerBDD>, p: SerBDDPtr, env: Env)
    requires prefix(a, b), ptr_in(p, a.len() as int),
    ensures tsem(a, p, env) == tsem(b, p, env),
    decreases tmeasure(p),
{
    match p {
        SerBDDPtr::Ptr { index, compl } => {
            let i = index as int;
            assert(b[i] == a[i]);
            if child_ok(a[i].low, i) && child_ok(a[i].high, i) {
                lemma_tsem_prefix(a, b, a[i].low, env);
                lemma_tsem_prefix(a, b, a[i].high, env);
            }
        }
        _ => {}
    }
}
/// every remembered node sits at a row that denotes it
pub open spec fn tbl_inv<'a>(e: ISet<(&'a BddNode<'a>, usize)>, nodes: Seq<SerBDD>) -> bool {
    forall|n: &'a BddNode<'a>, i: usize| #[trigger] e.contains((n, i)) ==> row_is(nodes, i, *n)
}
pub open spec fn row_is(nodes: Seq<SerBDD>, i: usize, n: BddNode) -> bool {
    (i as int) < nodes.len()
    && forall|env: Env| #[trigger] tr(env) ==> tsem(nodes, SerBDDPtr::Ptr { index: i, compl: false }, env) == node_sem(n, env)
}
pub proof fn lemma_row_prefix(a: Seq<SerBDD>, b: Seq<SerBDD>, i: usize, n: BddNode)
    requires prefix(a, b), row_is(a, i, n),
    ensures row_is(b, i, n),
{
    assert forall|env: Env| #[trigger] tr(env) implies tsem(b, SerBDDPtr::Ptr { index: i, compl: false }, env) == node_sem(n, env) by {
        lemma_tsem_prefix(a, b, SerBDDPtr::Ptr { index: i, compl: false }, env);
    }
}
pub proof fn lemma_inv_prefix<'a>(e: ISet<(&'a BddNode<'a>, usize)>, a: Seq<SerBDD>, b: Seq<SerBDD>)
    requires prefix(a, b), tbl_inv(e, a),
    ensures tbl_inv(e, b),
{
    assert forall|n: &'a BddNode<'a>, i: usize| #[trigger] e.contains((n, i)) implies row_is(b, i, *n) by {
        lemma_row_prefix(a, b, i, *n);
    }
}

impl BDDSerializer {
//%% extract src/serialize/ser_bdd.rs :: impl BDDSerializer :: fn serialize_helper
//%% @ret r
//%% @spec
        requires
            tbl_wf(old(nodes)@), tbl_inv(old(table).entries(), old(nodes)@),
        ensures
            tbl_wf(final(nodes)@), tbl_inv(final(table).entries(), final(nodes)@),
            prefix(old(nodes)@, final(nodes)@),
            ptr_in(r, final(nodes)@.len() as int),
            // THE property: the returned table pointer denotes the diagram's function
            forall|env: Env| #[trigger] tr(env) ==> tsem(final(nodes)@, r, env) == ptr_sem(bdd, env),
        decreases bdd,
//%% @after /let l = BDDSerializer::serialize_helper\(/
                let ghost n1 = nodes@;
//%% @after /let h = BDDSerializer::serialize_helper\(/
                let ghost n2 = nodes@;
                let ghost e2 = table.entries();
//%% @after /table\.insert\(node, [^;]*\);/
                proof {
                    let n3 = nodes@;
                    lemma_inv_prefix(e2, n2, n3);
                    assert forall|env: Env| #[trigger] tr(env) implies
                        tsem(n3, SerBDDPtr::Ptr { index, compl: false }, env) == node_sem(*node, env) by {
                        lemma_tsem_prefix(n1, n2, l, env);
                        lemma_tsem_prefix(n2, n3, l, env);
                        lemma_tsem_prefix(n2, n3, h, env);
                    }
                    assert(row_is(n3, index, *node));
                }
//%% end

//%% extract src/serialize/ser_bdd.rs :: impl BDDSerializer :: fn from_bdd
//%% @ret r
//%% @spec
        ensures
            r.roots@.len() == 1, tbl_wf(r.nodes@), ptr_in(r.roots@[0], r.nodes@.len() as int),
            forall|env: Env| #[trigger] tr(env) ==> tsem(r.nodes@, r.roots@[0], env) == ptr_sem(bdd, env),
//%% end
}

// ---- src/serialize/ser_vtree.rs ----
//%% extract src/util/btree.rs :: - :: enum BTree
//%% end
//%% extract src/repr/vtree.rs :: - :: type VTree
//%% end
//%% extract src/serialize/ser_vtree.rs :: - :: enum SerVTree
//%% end
//%% extract src/serialize/ser_vtree.rs :: - :: struct VTreeSerializer
//%% @pub
//%% end

/// the serialised tree is the vtree itself: leaf for leaf (carrying the variable's number), node for node, children in order
pub open spec fn vt_mirror(s: SerVTree, t: VTree) -> bool
    decreases t
{
    match t {
        BTree::Leaf(v) => s matches SerVTree::Leaf(x) && x as u64 == v.0,
        BTree::Node(n, l, r) => s matches SerVTree::Node { left, right } && vt_mirror(*left, *l) && vt_mirror(*right, *r),
    }
}

// R-hoist: `helper` is a nested fn item inside `from_vtree`'s body; it is extracted as an item of its own.
//%% extract src/serialize/ser_vtree.rs :: impl VTreeSerializer > fn from_vtree :: fn helper
//%% @ret r
//%% @rewrite 2 /crate::util::btree::/ => 
//%% @spec
    ensures vt_mirror(*r, *t),
    decreases t,
//%% end

impl VTreeSerializer {
//%% extract src/serialize/ser_vtree.rs :: impl VTreeSerializer :: fn from_vtree
//%% @ret r
//%% @dropinner fn helper
//%% @spec
        ensures vt_mirror(r.root, *vtree),
//%% end
}
