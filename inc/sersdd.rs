// ---- src/serialize/ser_sdd.rs: the SDD node table handed to serde (C17, table part) ----
impl VarLabel {
//%% extract src/repr/var_label.rs :: impl VarLabel :: fn value_usize
//%% @ret r
//%% @spec
        ensures r == self.0 as usize, r as u64 == self.0,
//%% end
}
#[derive(Clone, Copy)]
//%% extract src/serialize/ser_sdd.rs :: - :: enum SerSDDPtr
//%% end
//%% extract src/serialize/ser_sdd.rs :: - :: struct SDDAnd
//%% @pub
//%% end
//%% extract src/serialize/ser_sdd.rs :: - :: struct SDDOr
//%% @pub
//%% end
//%% extract src/serialize/ser_sdd.rs :: - :: struct SDDSerializer
//%% @pub
//%% end

// `or.iter()` in the serialiser is SddOr::iter, pinned here to be the slice iterator of the element vector
//%% extract src/repr/sdd/sdd_or.rs :: impl<'a> SddOr<'a> :: fn iter
//%% @expect /^pub fn iter\(&self\) -> std::slice::Iter<'_, SddAnd<'_>> \{ self\.nodes\.iter\(\) \}$/
//%% @discard
//%% end

pub open spec fn schild_ok(p: SerSDDPtr, i: int) -> bool {
    p matches SerSDDPtr::Ptr { index, compl } ==> (index as int) < i
}
pub open spec fn smeasure(p: SerSDDPtr) -> int {
    match p { SerSDDPtr::Ptr { index, compl } => index as int + 1, _ => 0 }
}
pub open spec fn srow_ok(row: Seq<SDDAnd>, i: int) -> bool {
    forall|j: int| 0 <= j < row.len() ==> schild_ok((#[trigger] row[j]).prime, i) && schild_ok(row[j].sub, i)
}
/// the table is a post-order table: every row only points to earlier rows
pub open spec fn stbl_wf(nodes: Seq<SDDOr>) -> bool {
    forall|i: int| 0 <= i < nodes.len() ==> srow_ok((#[trigger] nodes[i]).0@, i)
}
/// THE reader: the Boolean function a plain SDD node table denotes at a pointer -- a row is the disjunction of its (prime AND sub)
/// elements, a `compl` flag negates, a literal tests its variable, `True` / `False` are the constants.
pub open spec fn ssem(nodes: Seq<SDDOr>, p: SerSDDPtr, env: Env) -> bool
    decreases smeasure(p), 0int
{
    match p {
        SerSDDPtr::True => true,
        SerSDDPtr::False => false,
        SerSDDPtr::Literal { label, polarity } => env(label as u64) == polarity,
        SerSDDPtr::Ptr { index, compl } => {
            let i = index as int;
            if i < nodes.len() { compl != sex(nodes, i, nodes[i].0@.len() as int, env) } else { arbitrary() }
        }
    }
}
/// some element among the first k of row i has its prime and its sub true
pub open spec fn sex(nodes: Seq<SDDOr>, i: int, k: int, env: Env) -> bool
    decreases i, k + 1
{
    if i < 0 || i >= nodes.len() || k <= 0 || k > nodes[i].0@.len() { false } else {
        let e = nodes[i].0@[k - 1];
        sex(nodes, i, k - 1, env)
        || (if schild_ok(e.prime, i) && schild_ok(e.sub, i) { ssem(nodes, e.prime, env) && ssem(nodes, e.sub, env) } else { arbitrary() })
    }
}
pub open spec fn sprefix(a: Seq<SDDOr>, b: Seq<SDDOr>) -> bool {
    a.len() <= b.len() && forall|i: int| 0 <= i < a.len() ==> #[trigger] b[i] == a[i]
}
pub proof fn lemma_ssem_prefix(a: Seq<SDDOr>, b: Seq<SDDOr>, p: SerSDDPtr, env: Env)
    requires sprefix(a, b), schild_ok(p, a.len() as int),
    ensures ssem(a, p, env) == ssem(b, p, env),
    decreases smeasure(p), 0int,
{
    match p {
        SerSDDPtr::Ptr { index, compl } => {
            let i = index as int;
            assert(b[i] == a[i]);
            lemma_sex_prefix(a, b, i, a[i].0@.len() as int, env);
        }
        _ => {}
    }
}
pub proof fn lemma_sex_prefix(a: Seq<SDDOr>, b: Seq<SDDOr>, i: int, k: int, env: Env)
    requires sprefix(a, b), 0 <= i < a.len(),
    ensures sex(a, i, k, env) == sex(b, i, k, env),
    decreases i, k + 1,
{
    assert(b[i] == a[i]);
    if !(k <= 0 || k > a[i].0@.len()) {
        let e = a[i].0@[k - 1];
        lemma_sex_prefix(a, b, i, k - 1, env);
        if schild_ok(e.prime, i) && schild_ok(e.sub, i) {
            lemma_ssem_prefix(a, b, e.prime, env);
            lemma_ssem_prefix(a, b, e.sub, env);
        }
    }
}
/// row i denotes the (regular) decision node k
pub open spec fn srow_is(nodes: Seq<SDDOr>, i: usize, k: SddPtr) -> bool {
    (i as int) < nodes.len() && (k is BDD || k is Reg)
    && forall|env: Env| #[trigger] tr(env) ==> ssem(nodes, SerSDDPtr::Ptr { index: i, compl: false }, env) == sdd_sem(k, false, env)
}
pub open spec fn stbl_inv<'a>(e: ISet<(SddPtr<'a>, usize)>, nodes: Seq<SDDOr>) -> bool {
    forall|k: SddPtr<'a>, i: usize| #[trigger] e.contains((k, i)) ==> srow_is(nodes, i, k)
}
pub proof fn lemma_srow_prefix(a: Seq<SDDOr>, b: Seq<SDDOr>, i: usize, k: SddPtr)
    requires sprefix(a, b), srow_is(a, i, k),
    ensures srow_is(b, i, k),
{
    assert forall|env: Env| #[trigger] tr(env) implies ssem(b, SerSDDPtr::Ptr { index: i, compl: false }, env) == sdd_sem(k, false, env) by {
        lemma_ssem_prefix(a, b, SerSDDPtr::Ptr { index: i, compl: false }, env);
    }
}
pub proof fn lemma_sinv_prefix<'a>(e: ISet<(SddPtr<'a>, usize)>, a: Seq<SDDOr>, b: Seq<SDDOr>)
    requires sprefix(a, b), stbl_inv(e, a),
    ensures stbl_inv(e, b),
{
    assert forall|k: SddPtr<'a>, i: usize| #[trigger] e.contains((k, i)) implies srow_is(b, i, k) by {
        lemma_srow_prefix(a, b, i, k);
    }
}
/// the serialised elements o[0..k) denote the elements s[0..k) one by one
pub open spec fn elems_match(nodes: Seq<SDDOr>, o: Seq<SDDAnd>, s: Seq<SddAnd>, k: int) -> bool {
    forall|j: int| 0 <= j < k ==> elem_match(nodes, #[trigger] o[j], s[j])
}
pub open spec fn elem_match(nodes: Seq<SDDOr>, a: SDDAnd, e: SddAnd) -> bool {
    schild_ok(a.prime, nodes.len() as int) && schild_ok(a.sub, nodes.len() as int)
    && forall|env: Env| #[trigger] tr(env) ==> ssem(nodes, a.prime, env) == sdd_sem(e.prime, false, env) && ssem(nodes, a.sub, env) == sdd_sem(e.sub, false, env)
}
pub proof fn lemma_elem_prefix(a: Seq<SDDOr>, b: Seq<SDDOr>, x: SDDAnd, e: SddAnd)
    requires sprefix(a, b), elem_match(a, x, e),
    ensures elem_match(b, x, e),
{
    assert forall|env: Env| #[trigger] tr(env) implies ssem(b, x.prime, env) == sdd_sem(e.prime, false, env) && ssem(b, x.sub, env) == sdd_sem(e.sub, false, env) by {
        lemma_ssem_prefix(a, b, x.prime, env);
        lemma_ssem_prefix(a, b, x.sub, env);
    }
}
pub proof fn lemma_elems_prefix(a: Seq<SDDOr>, b: Seq<SDDOr>, o: Seq<SDDAnd>, s: Seq<SddAnd>, k: int)
    requires sprefix(a, b), elems_match(a, o, s, k),
    ensures elems_match(b, o, s, k),
{
    assert forall|j: int| 0 <= j < k implies elem_match(b, #[trigger] o[j], s[j]) by { lemma_elem_prefix(a, b, o[j], s[j]); }
}
/// a freshly pushed row whose elements match the node's elements denotes the node's disjunction
pub proof fn lemma_row_sem(n3: Seq<SDDOr>, i: int, s: Seq<SddAnd>, k: int, env: Env)
    requires
        0 <= i < n3.len(), 0 <= k <= s.len(), n3[i].0@.len() == s.len(), tr(env),
        forall|j: int| 0 <= j < s.len() ==> schild_ok((#[trigger] n3[i].0@[j]).prime, i) && schild_ok(n3[i].0@[j].sub, i),
        forall|j: int| 0 <= j < s.len() ==> ssem(n3, (#[trigger] n3[i].0@[j]).prime, env) == sdd_sem(s[j].prime, false, env)
            && ssem(n3, n3[i].0@[j].sub, env) == sdd_sem(s[j].sub, false, env),
    ensures sex(n3, i, k, env) == ex_el(s, k, false, env),
    decreases k,
{
    if k > 0 {
        lemma_row_sem(n3, i, s, k - 1, env);
        let kk = k - 1;
        assert(schild_ok(n3[i].0@[kk].prime, i));
        assert(ssem(n3, n3[i].0@[kk].prime, env) == sdd_sem(s[kk].prime, false, env));
    }
}

impl SDDSerializer {
// R-matches: `matches!(sdd, A | B | ..)` is its definition `match sdd { A | B | .. => true, _ => false }`.
// R-map-collect: `or.iter().map(|and| { BODY; E }).collect()` is the loop that pushes E for every element in index order
// (`or.iter()` is the slice iterator of `or.nodes`, pinned above); BODY and E are the real text.
//%% extract src/serialize/ser_sdd.rs :: impl SDDSerializer :: fn serialize_helper
//%% @ret r
//%% @rewrite 1 /let compl = matches!\(\s*sdd,\s*([^;]*?),?\s*\);/ => let compl = match sdd { \1 => true, _ => false };
//%% @rewrite 1 /let o: Vec<SDDAnd> = or\n\s*\.iter\(\)\n\s*\.map\(\|and\| \{/ => let mut o: Vec<SDDAnd> = Vec::new(); let or__v = &or.nodes; let mut or__i: usize = 0; while or__i < or__v.len() { let and = &or__v[or__i];
//%% @rewrite 1 /(SDDAnd \{ prime: p, sub: s \})\n\s*\}\)\n\s*\.collect\(\);/ => o.push(\1); or__i += 1; }
//%% @spec
        requires
            stbl_wf(old(nodes)@), stbl_inv(old(table).entries(), old(nodes)@),
        ensures
            stbl_wf(final(nodes)@), stbl_inv(final(table).entries(), final(nodes)@),
            sprefix(old(nodes)@, final(nodes)@),
            schild_ok(r, final(nodes)@.len() as int),
            // THE property: the returned table pointer denotes the diagram's function
            forall|env: Env| #[trigger] tr(env) ==> ssem(final(nodes)@, r, env) == sdd_sem(sdd, false, env),
        decreases sdd,
//%% @entry
        let ghost n0 = nodes@;
//%% @after /let l = SDDSerializer::serialize_helper\(/
                let ghost n1 = nodes@;
//%% @after /let h = SDDSerializer::serialize_helper\(/
                let ghost n2 = nodes@;
                let ghost e2 = table.entries();
                let ghost og = seq![SDDAnd { prime: prime_t, sub: h }, SDDAnd { prime: prime_f, sub: l }];
//%% @after /table\.insert\(SddPtr::BDD\(bdd\), [^;]*\);/
                proof {
                    let n3 = nodes@;
                    assert(n3[index as int].0@ =~= og);
                    lemma_sinv_prefix(e2, n2, n3);
                    assert forall|env: Env| #[trigger] tr(env) implies
                        ssem(n3, SerSDDPtr::Ptr { index, compl: false }, env) == sdd_sem(SddPtr::BDD(bdd), false, env) by {
                        lemma_ssem_prefix(n1, n2, l, env);
                        lemma_ssem_prefix(n2, n3, l, env);
                        lemma_ssem_prefix(n2, n3, h, env);
                        let i = index as int;
                        assert(sex(n3, i, 0, env) == false);
                        assert(sex(n3, i, 1, env) == (sex(n3, i, 0, env) || (ssem(n3, og[0].prime, env) && ssem(n3, og[0].sub, env))));
                        assert(sex(n3, i, 2, env) == (sex(n3, i, 1, env) || (ssem(n3, og[1].prime, env) && ssem(n3, og[1].sub, env))));
                    }
                    assert(srow_is(n3, index, SddPtr::BDD(bdd)));
                }
//%% @loop 1 /^while or__i < or__v\.len\(\)$/
                    invariant
                        or__i <= or__v.len(), or__v@ == or.nodes@, o@.len() == or__i,
                        sdd == SddPtr::Reg(or) || sdd == SddPtr::Compl(or),
                        stbl_wf(nodes@), stbl_inv(table.entries(), nodes@), sprefix(n0, nodes@),
                        elems_match(nodes@, o@, or.nodes@, or__i as int),
                    decreases or__v.len() - or__i,
//%% @loopbody 1
                    let ghost na = nodes@;
                    let ghost oa = o@;
                    proof {
                        let ii = or__i as int;
                        match sdd {
                            SddPtr::Reg(o2) => { assert(decreases_to!(sdd => o2)); assert(decreases_to!(o2 => o2.nodes)); assert(decreases_to!(o2.nodes => o2.nodes@)); },
                            SddPtr::Compl(o2) => { assert(decreases_to!(sdd => o2.nodes@)); },
                            _ => {},
                        }
                        assert(decreases_to!(or.nodes@ => or.nodes@[ii]));
                        assert(decreases_to!(or.nodes@[ii] => or.nodes@[ii].prime));
                        assert(decreases_to!(or.nodes@[ii] => or.nodes@[ii].sub));
                    }
//%% @after /let p = SDDSerializer::serialize_helper\(/
                    let ghost np = nodes@;
//%% @loopend 1
                    proof {
                        let nb = nodes@;
                        lemma_elems_prefix(na, nb, oa, or.nodes@, or__i as int - 1);
                        assert forall|env: Env| #[trigger] tr(env) implies ssem(nb, p, env) == sdd_sem(and.prime, false, env) by {
                            lemma_ssem_prefix(np, nb, p, env);
                        }
                        assert(elem_match(nb, o@[or__i as int - 1], or.nodes@[or__i as int - 1]));
                    }
//%% @before /nodes\.push\(SDDOr\(o\)\);/
                let ghost n2 = nodes@;
                let ghost e2 = table.entries();
                let ghost og = o@;
//%% @after /table\.insert\(SddPtr::Reg\(or\), [^;]*\);/
                proof {
                    let n3 = nodes@;
                    let s = or.nodes@;
                    assert(n3[index as int].0@ =~= og);
                    lemma_sinv_prefix(e2, n2, n3);
                    lemma_elems_prefix(n2, n3, og, s, s.len() as int);
                    assert forall|env: Env| #[trigger] tr(env) implies
                        ssem(n3, SerSDDPtr::Ptr { index, compl: false }, env) == sdd_sem(SddPtr::Reg(or), false, env) by {
                        lemma_row_sem(n3, index as int, s, s.len() as int, env);
                    }
                    assert(srow_is(n3, index, SddPtr::Reg(or)));
                }
//%% end

//%% extract src/serialize/ser_sdd.rs :: impl SDDSerializer :: fn from_sdd
//%% @ret r
//%% @spec
        ensures
            r.roots@.len() == 1, stbl_wf(r.nodes@), schild_ok(r.roots@[0], r.nodes@.len() as int),
            forall|env: Env| #[trigger] tr(env) ==> ssem(r.nodes@, r.roots@[0], env) == sdd_sem(sdd, false, env),
//%% end
}
