// ---- src/util/semirings/finitefield.rs: FiniteField<P> against integer arithmetic modulo P, ring laws, per-prime side conditions ----

#[derive(Clone, Copy, PartialEq, Eq)]
//%% extract src/util/semirings/finitefield.rs :: - :: struct FiniteField
//%% @pub
//%% end

/// side condition on the modulus under which the u128 implementation is exact
pub open spec fn ff_ok<const P: u128>() -> bool {
    P > 1 && 2 * (P as int - 1) <= u128::MAX as int
}

pub open spec fn imod(a: int, p: int) -> int { a % p }

impl<const P: u128> FiniteField<P> {
    /// representation invariant: the stored residue is reduced
    pub open spec fn wf(self) -> bool { self.v < P }
    pub open spec fn val(self) -> int { self.v as int }

//%% extract src/util/semirings/finitefield.rs :: impl<const P: u128> FiniteField<P> :: fn new
//%% @ret r
//%% @spec
        requires P > 0,
        ensures r.val() == imod(v as int, P as int), r.wf(),
//%% end

//%% extract src/util/semirings/finitefield.rs :: impl<const P: u128> FiniteField<P> :: fn value
//%% @ret r
//%% @spec
        ensures r == self.val(),
//%% end

//%% extract src/util/semirings/finitefield.rs :: impl<const P: u128> FiniteField<P> :: fn negate
//%% @ret r
//%% @spec
        requires ff_ok::<P>(), self.wf(),
        ensures r.wf(), r.val() == imod(1 - self.val(), P as int),
//%% @entry
        proof {
            lemma_ff_ok_add::<P>();
            // (P - v + 1) % P == (1 - v) % P
            lemma_mod_add_multiples_vanish(1 - self.v as int, P as int);
        }
//%% end
}

impl<const P: u128> Semiring for FiniteField<P> {
    open spec fn ops_ok() -> bool { ff_ok::<P>() }
    open spec fn one_s() -> Self { fone() }
    open spec fn zero_s() -> Self { fzero() }
    open spec fn valid(self) -> bool { self.wf() }
//%% extract src/util/semirings/finitefield.rs :: impl<const P: u128> Semiring for FiniteField<P> :: fn one
//%% @ret r
//%% @spec
        ensures r.wf(), r.val() == 1,
//%% @entry
        proof { lemma_small_mod(1, P as nat); }
//%% end

//%% extract src/util/semirings/finitefield.rs :: impl<const P: u128> Semiring for FiniteField<P> :: fn zero
//%% @ret r
//%% @spec
        ensures r.wf(), r.val() == 0,
//%% @entry
        proof { lemma_small_mod(0, P as nat); }
//%% end
}

impl<const P: u128> AddSpecImpl<FiniteField<P>> for FiniteField<P> {
    open spec fn obeys_add_spec() -> bool { true }
    open spec fn add_req(self, rhs: FiniteField<P>) -> bool { ff_ok::<P>() && self.wf() && rhs.wf() }
    open spec fn add_spec(self, rhs: FiniteField<P>) -> Self::Output {
        fadd(self, rhs)
    }
}

impl<const P: u128> ops::Add<FiniteField<P>> for FiniteField<P> {
    type Output = FiniteField<P>;
//%% extract src/util/semirings/finitefield.rs :: impl<const P: u128> ops::Add<FiniteField<P>> for FiniteField<P> :: fn add
//%% @ret r
//%% @spec
        ensures r.wf(),
//%% @entry
        proof { lemma_ff_ok_add::<P>(); lemma_mod_twice(self.v as int + rhs.v as int, P as int); }
//%% end
}

impl<const P: u128> MulSpecImpl<FiniteField<P>> for FiniteField<P> {
    open spec fn obeys_mul_spec() -> bool { true }
    open spec fn mul_req(self, rhs: FiniteField<P>) -> bool { ff_ok::<P>() && self.wf() && rhs.wf() }
    open spec fn mul_spec(self, rhs: FiniteField<P>) -> Self::Output {
        fmul(self, rhs)
    }
}

impl<const P: u128> ops::Mul<FiniteField<P>> for FiniteField<P> {
    type Output = FiniteField<P>;
//%% extract src/util/semirings/finitefield.rs :: impl<const P: u128> ops::Mul<FiniteField<P>> for FiniteField<P> :: fn mul
//%% @ret r
//%% @spec
        ensures r.wf(),
//%% @entry
        proof { lemma_mod_twice(self.v as int * rhs.v as int, P as int); }
//%% @loop 1 /^while b > 0$/
                    invariant
                        ff_ok::<P>(), a < P, acc < P,
                        imod(acc as int + a as int * b as int, P as int) == imod(self.v as int * rhs.v as int, P as int),
                    decreases b,
//%% @loopbody 1
                    proof {
                        lemma_mulmod_step(acc as int, a as int, b as int, P as int);
                        assert(b & 1 == b % 2) by(bit_vector);
                        assert(b >> 1 == b / 2) by(bit_vector);
                        assert(a as int * 0 == 0);
                        lemma_small_mod(acc as nat, P as nat);
                    }
//%% end
}

impl<const P: u128> SubSpecImpl<FiniteField<P>> for FiniteField<P> {
    open spec fn obeys_sub_spec() -> bool { true }
    open spec fn sub_req(self, rhs: FiniteField<P>) -> bool { ff_ok::<P>() && self.wf() && rhs.wf() }
    /// ring subtraction: the residue of the integer difference
    open spec fn sub_spec(self, rhs: FiniteField<P>) -> Self::Output {
        fsub(self, rhs)
    }
}

impl<const P: u128> ops::Sub<FiniteField<P>> for FiniteField<P> {
    type Output = FiniteField<P>;
//%% extract src/util/semirings/finitefield.rs :: impl<const P: u128> ops::Sub<FiniteField<P>> for FiniteField<P> :: fn sub
//%% @ret r
//%% @spec
        ensures r.wf(),
//%% @entry
        proof { lemma_mod_add_multiples_vanish(self.v as int - rhs.v as int, P as int); }
//%% end
}

pub proof fn lemma_ff_ok_add<const P: u128>()
    requires ff_ok::<P>(),
    ensures 2 * (P as int - 1) <= u128::MAX as int, P as int + 1 <= u128::MAX as int,
{}

/// one round of double-and-add keeps  acc + a*b  unchanged modulo p
pub proof fn lemma_mulmod_step(acc: int, a: int, b: int, p: int)
    requires p > 0, b > 0, 0 <= a, 0 <= acc,
    ensures
        b % 2 == 1 ==> imod(imod(acc + a, p) + imod(a + a, p) * (b / 2), p) == imod(acc + a * b, p),
        b % 2 == 0 ==> imod(acc + imod(a + a, p) * (b / 2), p) == imod(acc + a * b, p),
{
    let h = b / 2;
    lemma_mul_mod_noop_general(a + a, h, p);
    if b % 2 == 1 {
        assert(b == 2 * h + 1);
        assert(acc + a * b == (acc + a) + (a + a) * h) by(nonlinear_arith) requires b == 2 * h + 1;
        lemma_add_mod_noop(acc + a, (a + a) * h, p);
        lemma_add_mod_noop(imod(acc + a, p), imod(a + a, p) * h, p);
        lemma_mod_twice(acc + a, p);
    } else {
        assert(b == 2 * h);
        assert(acc + a * b == acc + (a + a) * h) by(nonlinear_arith) requires b == 2 * h;
        lemma_add_mod_noop(acc, (a + a) * h, p);
        lemma_add_mod_noop(acc, imod(a + a, p) * h, p);
    }
}

// ---------------------------------------------------------------------------
// ring laws of the operator specifications (what `+`, `*`, `-` are proved to compute)
// ---------------------------------------------------------------------------
pub open spec fn fadd<const P: u128>(a: FiniteField<P>, b: FiniteField<P>) -> FiniteField<P> { FiniteField { v: imod(a.val() + b.val(), P as int) as u128 } }
pub open spec fn fmul<const P: u128>(a: FiniteField<P>, b: FiniteField<P>) -> FiniteField<P> { FiniteField { v: imod(a.val() * b.val(), P as int) as u128 } }
pub open spec fn fsub<const P: u128>(a: FiniteField<P>, b: FiniteField<P>) -> FiniteField<P> { FiniteField { v: imod(a.val() - b.val(), P as int) as u128 } }
pub open spec fn fone<const P: u128>() -> FiniteField<P> { FiniteField { v: 1 } }
pub open spec fn fzero<const P: u128>() -> FiniteField<P> { FiniteField { v: 0 } }

pub proof fn lemma_closed<const P: u128>(a: FiniteField<P>, b: FiniteField<P>)
    requires ff_ok::<P>(), a.wf(), b.wf(),
    ensures fadd(a, b).wf(), fmul(a, b).wf(), fsub(a, b).wf(),
            fadd(a, b).val() == imod(a.val() + b.val(), P as int),
            fmul(a, b).val() == imod(a.val() * b.val(), P as int),
            fsub(a, b).val() == imod(a.val() - b.val(), P as int),
{
    let p = P as int;
    lemma_mod_bound(a.val() + b.val(), p);
    lemma_mod_bound(a.val() * b.val(), p);
    lemma_mod_bound(a.val() - b.val(), p);
}

pub proof fn lemma_add_comm<const P: u128>(a: FiniteField<P>, b: FiniteField<P>)
    ensures fadd(a, b) == fadd(b, a),
{}

pub proof fn lemma_mul_comm<const P: u128>(a: FiniteField<P>, b: FiniteField<P>)
    ensures fmul(a, b) == fmul(b, a),
{
    assert(a.val() * b.val() == b.val() * a.val()) by(nonlinear_arith);
}

pub proof fn lemma_add_assoc<const P: u128>(a: FiniteField<P>, b: FiniteField<P>, c: FiniteField<P>)
    requires ff_ok::<P>(), a.wf(), b.wf(), c.wf(),
    ensures fadd(fadd(a, b), c) == fadd(a, fadd(b, c)),
{
    let p = P as int;
    lemma_closed(a, b); lemma_closed(b, c);
    lemma_add_mod_noop(a.val() + b.val(), c.val(), p);
    lemma_add_mod_noop(a.val(), b.val() + c.val(), p);
    lemma_small_mod(a.val() as nat, p as nat);
    lemma_small_mod(c.val() as nat, p as nat);
}

pub proof fn lemma_mul_assoc<const P: u128>(a: FiniteField<P>, b: FiniteField<P>, c: FiniteField<P>)
    requires ff_ok::<P>(), a.wf(), b.wf(), c.wf(),
    ensures fmul(fmul(a, b), c) == fmul(a, fmul(b, c)),
{
    let p = P as int;
    lemma_closed(a, b); lemma_closed(b, c);
    lemma_mul_mod_noop_general(a.val() * b.val(), c.val(), p);
    lemma_mul_mod_noop_general(a.val(), b.val() * c.val(), p);
    assert((a.val() * b.val()) * c.val() == a.val() * (b.val() * c.val())) by(nonlinear_arith);
}

pub proof fn lemma_identities<const P: u128>(a: FiniteField<P>)
    requires ff_ok::<P>(), a.wf(),
    ensures fadd(a, fzero()) == a, fadd(fzero(), a) == a,
            fmul(a, fone()) == a, fmul(fone(), a) == a,
            fmul(a, fzero()) == fzero::<P>(), fmul(fzero(), a) == fzero::<P>(),
{
    let p = P as int;
    lemma_small_mod(a.val() as nat, p as nat);
    lemma_small_mod(0, p as nat);
    assert(a.val() * 1 == a.val() && 1 * a.val() == a.val() && a.val() * 0 == 0 && 0 * a.val() == 0) by(nonlinear_arith);
}

pub proof fn lemma_distrib<const P: u128>(a: FiniteField<P>, b: FiniteField<P>, c: FiniteField<P>)
    requires ff_ok::<P>(), a.wf(), b.wf(), c.wf(),
    ensures fmul(a, fadd(b, c)) == fadd(fmul(a, b), fmul(a, c)),
            fmul(fadd(b, c), a) == fadd(fmul(b, a), fmul(c, a)),
{
    let p = P as int;
    lemma_closed(b, c); lemma_closed(a, b); lemma_closed(a, c);
    lemma_mul_mod_noop_general(a.val(), b.val() + c.val(), p);
    lemma_add_mod_noop(a.val() * b.val(), a.val() * c.val(), p);
    assert(a.val() * (b.val() + c.val()) == a.val() * b.val() + a.val() * c.val()) by(nonlinear_arith);
    lemma_mul_comm(a, fadd(b, c)); lemma_mul_comm(a, b); lemma_mul_comm(a, c);
}

/// ring subtraction inverts addition
pub proof fn lemma_sub_inverts_add<const P: u128>(a: FiniteField<P>, b: FiniteField<P>)
    requires ff_ok::<P>(), a.wf(), b.wf(),
    ensures fadd(fsub(a, b), b) == a, fsub(fadd(a, b), b) == a,
{
    let p = P as int;
    lemma_closed(a, b);
    lemma_add_mod_noop(a.val() - b.val(), b.val(), p);
    lemma_sub_mod_noop(a.val() + b.val(), b.val(), p);
    lemma_small_mod(a.val() as nat, p as nat);
    lemma_small_mod(b.val() as nat, p as nat);
}

// ---------------------------------------------------------------------------
// side conditions for every exported prime (constants extracted from src/constants.rs)
// ---------------------------------------------------------------------------
//%% extract src/constants.rs :: mod primes :: const U32_TINY
//%% end
//%% extract src/constants.rs :: mod primes :: const U32_SMALL
//%% end
//%% extract src/constants.rs :: mod primes :: const U64_LARGEST
//%% end
//%% extract src/constants.rs :: mod primes :: const U128_LARGE_1
//%% end
//%% extract src/constants.rs :: mod primes :: const U128_LARGE_2
//%% end
//%% extract src/constants.rs :: mod primes :: const U128_LARGE_3
//%% end
//%% extract src/constants.rs :: mod primes :: const U128_LARGE_4
//%% end

pub proof fn prime_ok_U32_TINY() ensures ff_ok::<U32_TINY>() { assert(ff_ok::<U32_TINY>()) by(compute); }
pub proof fn prime_ok_U32_SMALL() ensures ff_ok::<U32_SMALL>() { assert(ff_ok::<U32_SMALL>()) by(compute); }
pub proof fn prime_ok_U64_LARGEST() ensures ff_ok::<U64_LARGEST>() { assert(ff_ok::<U64_LARGEST>()) by(compute); }
pub proof fn prime_ok_U128_LARGE_1() ensures ff_ok::<U128_LARGE_1>() { assert(ff_ok::<U128_LARGE_1>()) by(compute); }
pub proof fn prime_ok_U128_LARGE_2() ensures ff_ok::<U128_LARGE_2>() { assert(ff_ok::<U128_LARGE_2>()) by(compute); }
pub proof fn prime_ok_U128_LARGE_3() ensures ff_ok::<U128_LARGE_3>() { assert(ff_ok::<U128_LARGE_3>()) by(compute); }
pub proof fn prime_ok_U128_LARGE_4() ensures ff_ok::<U128_LARGE_4>() { assert(ff_ok::<U128_LARGE_4>()) by(compute); }

