// ---- src/repr/dtree.rs: the structural helpers of dtree construction (init_vars, gen_cutset, balanced) ----
//%% include trusted/bitset.rs
//%% include trusted/literal.rs
//%% include trusted/clone.rs

global size_of usize == 8;

impl VarLabel {
//%% extract src/repr/var_label.rs :: impl VarLabel :: fn value_usize
//%% @ret r
//%% @spec
        ensures r == self.0,
//%% end
}

#[derive(Clone)]
//%% extract src/repr/var_label.rs :: - :: struct VarSet
//%% @pub
//%% end

impl VarSet {
    pub open spec fn has(self, v: VarLabel) -> bool { self.b@.contains(v.0 as usize) }

//%% extract src/repr/var_label.rs :: impl VarSet :: fn insert
//%% @spec
        ensures final(self).has(v), forall|w: VarLabel| w != v ==> #[trigger] final(self).has(w) == old(self).has(w),
//%% end

//%% extract src/repr/var_label.rs :: impl VarSet :: fn contains
//%% @ret r
//%% @spec
        ensures r == self.has(v),
//%% end
}
//%% include trusted/varset_ops.rs

//%% extract src/repr/dtree.rs :: - :: enum DTree
//%% end

// A-clone: `#[derive(Clone)]` on DTree is a structural copy (Verus rejects the derive on a recursive type as a trait cycle)
impl Clone for DTree {
    #[verifier::external_body]
    fn clone(&self) -> (r: DTree)
        ensures r == *self,
    { unimplemented!() }
}

/// the clauses at the leaves, left to right
pub open spec fn leaves(t: DTree) -> Seq<Seq<Literal>>
    decreases t
{
    match t {
        DTree::Node { l, r, cutset, vars } => leaves(*l) + leaves(*r),
        DTree::Leaf { clause, cutset, vars } => seq![clause@],
    }
}
pub open spec fn tvars(t: DTree) -> VarSet {
    match t { DTree::Node { l, r, cutset, vars } => vars, DTree::Leaf { clause, cutset, vars } => vars }
}
pub open spec fn tcut(t: DTree) -> VarSet {
    match t { DTree::Node { l, r, cutset, vars } => cutset, DTree::Leaf { clause, cutset, vars } => cutset }
}
pub open spec fn clause_has(c: Seq<Literal>, v: VarLabel) -> bool { exists|j: int| 0 <= j < c.len() && (#[trigger] c[j]).lbl == v }

/// every leaf's variable set holds no variable outside its clause (true of a fresh leaf and of an initialised one)
pub open spec fn leaf_vars_sub(t: DTree) -> bool
    decreases t
{
    match t {
        DTree::Node { l, r, cutset, vars } => leaf_vars_sub(*l) && leaf_vars_sub(*r),
        DTree::Leaf { clause, cutset, vars } => forall|v: VarLabel| #[trigger] vars.has(v) ==> clause_has(clause@, v),
    }
}
/// the variable set of a leaf is the set of its clause's variables; of a node, the union of its children's
pub open spec fn vars_ok(t: DTree) -> bool
    decreases t
{
    match t {
        DTree::Node { l, r, cutset, vars } =>
            vars_ok(*l) && vars_ok(*r) && forall|v: VarLabel| #[trigger] vars.has(v) == (tvars(*l).has(v) || tvars(*r).has(v)),
        DTree::Leaf { clause, cutset, vars } => forall|v: VarLabel| #[trigger] vars.has(v) == clause_has(clause@, v),
    }
}
pub open spec fn set_of(s: VarSet) -> spec_fn(VarLabel) -> bool { |v: VarLabel| s.has(v) }
pub open spec fn sor(f: spec_fn(VarLabel) -> bool, g: spec_fn(VarLabel) -> bool) -> spec_fn(VarLabel) -> bool { |v: VarLabel| f(v) || g(v) }
pub proof fn lemma_union_set(a: VarSet, b: VarSet, c: VarSet)
    requires is_union(a, b, c),
    ensures set_of(c) == sor(set_of(a), set_of(b)),
{
    assert(set_of(c) =~= sor(set_of(a), set_of(b)));
}

/// cutset(n) = (vars(l) /\ vars(r)) \ (cutsets of the ancestors); a leaf cuts its remaining variables
pub open spec fn cut_ok(t: DTree, anc: spec_fn(VarLabel) -> bool) -> bool
    decreases t
{
    match t {
        DTree::Node { l, r, cutset, vars } => {
            &&& forall|v: VarLabel| #[trigger] cutset.has(v) == (tvars(*l).has(v) && tvars(*r).has(v) && !anc(v))
            &&& cut_ok(*l, sor(anc, set_of(cutset)))
            &&& cut_ok(*r, sor(anc, set_of(cutset)))
        },
        DTree::Leaf { clause, cutset, vars } => forall|v: VarLabel| #[trigger] cutset.has(v) == (vars.has(v) && !anc(v)),
    }
}
/// same tree shape, same clauses, same variable sets (only cutsets may differ)
pub open spec fn same_but_cut(a: DTree, b: DTree) -> bool
    decreases a
{
    match (a, b) {
        (DTree::Node { l: l1, r: r1, cutset: c1, vars: v1 }, DTree::Node { l: l2, r: r2, cutset: c2, vars: v2 }) =>
            same_but_cut(*l1, *l2) && same_but_cut(*r1, *r2) && v1 == v2,
        (DTree::Leaf { clause: cl1, cutset: c1, vars: v1 }, DTree::Leaf { clause: cl2, cutset: c2, vars: v2 }) => cl1 == cl2 && v1 == v2,
        _ => false,
    }
}
pub proof fn lemma_same_but_cut(a: DTree, b: DTree)
    requires same_but_cut(a, b),
    ensures leaves(a) == leaves(b), tvars(a) == tvars(b), vars_ok(a) == vars_ok(b),
    decreases a,
{
    match (a, b) {
        (DTree::Node { l: l1, r: r1, cutset: c1, vars: v1 }, DTree::Node { l: l2, r: r2, cutset: c2, vars: v2 }) => {
            lemma_same_but_cut(*l1, *l2); lemma_same_but_cut(*r1, *r2);
        },
        _ => {},
    }
}

impl DTree {
//%% extract src/repr/dtree.rs :: impl DTree :: fn get_vars
//%% @pub
//%% @ret r
//%% @spec
        ensures *r == tvars(*self),
//%% end

//%% extract src/repr/dtree.rs :: impl DTree :: fn init_vars
//%% @pub
//%% @rewrite 1 /for c in clause\.iter\(\) \{/ => for c in it: clause.iter() {
//%% @spec
        requires leaf_vars_sub(*old(self)),
        ensures
            // afterwards: vars = vars(l) U vars(r) at every node, the clause's variables at every leaf
            vars_ok(*final(self)), leaf_vars_sub(*final(self)),
            leaves(*final(self)) == leaves(*old(self)),
        decreases *old(self), // #TERM
//%% @loop 1 /^for c in it: clause\.iter\(\)$/
                    invariant
                        forall|v: VarLabel| #[trigger] vars.has(v) ==> clause_has(clause@, v),
                        forall|j: int| 0 <= j < it.index@ ==> vars.has((#[trigger] clause@[j]).lbl),
//%% end

//%% extract src/repr/dtree.rs :: impl DTree :: fn gen_cutset
//%% @pub
//%% @spec
        ensures
            cut_ok(*final(self), set_of(*ancestor_cutset)),
            same_but_cut(*old(self), *final(self)),
        decreases *old(self), // #TERM
//%% @entry
        proof {
            assert forall|a: VarSet, b: VarSet, c: VarSet| #[trigger] is_union(a, b, c) implies set_of(c) == sor(set_of(a), set_of(b)) by {
                lemma_union_set(a, b, c);
            }
        }
//%% end

//%% extract src/repr/dtree.rs :: impl DTree :: fn balanced
//%% @pub
//%% @ret r
//%% @spec
        requires trees.len() > 0, forall|i: int| 0 <= i < trees.len() ==> leaf_vars_sub(#[trigger] trees@[i]),
        ensures
            // the leaves of the composed tree are exactly the leaves of the given trees, in order
            leaves(r) == all_leaves(trees@), leaf_vars_sub(r),
        decreases trees.len(), // #TERM
//%% @entry
        proof {
            let mid = (trees.len() / 2) as int;
            if trees.len() > 1 { lemma_all_leaves_split(trees@, mid); }
            else {
                assert(trees@.drop_last() =~= Seq::<DTree>::empty());
                assert(all_leaves(trees@.drop_last()) =~= Seq::<Seq<Literal>>::empty());
                assert(all_leaves(trees@) =~= leaves(trees@[0]));
            }
            assert forall|i: int| 0 <= i < mid implies leaf_vars_sub(#[trigger] trees@.subrange(0, mid)[i]) by { assert(trees@.subrange(0, mid)[i] == trees@[i]); }
            assert forall|i: int| 0 <= i < trees.len() - mid implies leaf_vars_sub(#[trigger] trees@.subrange(mid, trees.len() as int)[i]) by { assert(trees@.subrange(mid, trees.len() as int)[i] == trees@[i + mid]); }
        }
//%% end
}

/// leaves of a list of trees, concatenated in order
pub open spec fn all_leaves(ts: Seq<DTree>) -> Seq<Seq<Literal>>
    decreases ts.len()
{
    if ts.len() == 0 { Seq::empty() } else { all_leaves(ts.drop_last()) + leaves(ts.last()) }
}
pub proof fn lemma_all_leaves_split(ts: Seq<DTree>, mid: int)
    requires 0 <= mid <= ts.len(),
    ensures all_leaves(ts) == all_leaves(ts.subrange(0, mid)) + all_leaves(ts.subrange(mid, ts.len() as int)),
    decreases ts.len() - mid,
{
    let a = ts.subrange(0, mid);
    let b = ts.subrange(mid, ts.len() as int);
    if mid == ts.len() {
        assert(a =~= ts); assert(b =~= Seq::<DTree>::empty());
        assert(all_leaves(b) =~= Seq::<Seq<Literal>>::empty());
        assert(all_leaves(a) + all_leaves(b) =~= all_leaves(a));
    } else {
        lemma_all_leaves_split(ts.drop_last(), mid);
        assert(ts.drop_last().subrange(0, mid) =~= a);
        assert(ts.drop_last().subrange(mid, ts.len() - 1) =~= b.drop_last());
        assert(b.last() == ts.last());
        assert(all_leaves(a) + (all_leaves(b.drop_last()) + leaves(b.last())) =~= (all_leaves(a) + all_leaves(b.drop_last())) + leaves(b.last()));
    }
}
