// ---- src/repr/ddnnf.rs, src/repr/bdd.rs, src/repr/wmc.rs: the memoised fold over a BDD / decision-DNNF and the generic count ----

//%% include inc/foldcore.rs

/// THE definition of a fold over a diagram: `c` is the complement accumulated on the way down (a complemented edge
/// flips it), a node is `Or(And(Lit(v, false), low), And(Lit(v, true), high), {v})`, and the terminals are True / False
/// exchanged when the accumulated complement is odd.  No memo, no sharing: plain structural recursion.
pub open spec fn bfs<T>(p: BddPtr, c: bool, g: Alg<T>) -> T
    decreases p
{
    match p {
        BddPtr::Reg(n) => g(DV::Or(g(DV::And(g(DV::Lit(n.var, false)), bfs(n.low, c, g))),
                 g(DV::And(g(DV::Lit(n.var, true)), bfs(n.high, c, g))),
                 ISet::<u64>::empty().insert(n.var.0))),
        BddPtr::Compl(n) => g(DV::Or(g(DV::And(g(DV::Lit(n.var, false)), bfs(n.low, !c, g))),
                 g(DV::And(g(DV::Lit(n.var, true)), bfs(n.high, !c, g))),
                 ISet::<u64>::empty().insert(n.var.0))),
        BddPtr::PtrTrue => if c { g(DV::False) } else { g(DV::True) },
        BddPtr::PtrFalse => if c { g(DV::True) } else { g(DV::False) },
    }
}
pub open spec fn bdd_fold_spec<T>(p: BddPtr, g: Alg<T>) -> T { bfs(p, false, g) }
pub proof fn lemma_bfs_neg<T>(p: BddPtr, c: bool, g: Alg<T>)
    ensures bfs(p.neg_s(), c, g) == bfs(p, !c, g)
{}
/// the closure is only ever asked about literals on variables of the diagram
pub open spec fn x_ok<T>(p: BddPtr, x: DDNNF<T>) -> bool { x matches DDNNF::Lit(v, _) ==> mentions(p, v) }
pub open spec fn f_pre<T: Semiring, F: Fn(DDNNF<T>) -> T>(f: F, p: BddPtr) -> bool { forall|x: DDNNF<T>| x_ok(p, x) && args_valid(x) ==> #[trigger] f.requires((x,)) }
pub proof fn lemma_mentions_neg(p: BddPtr, v: VarLabel)
    ensures mentions(p.neg_s(), v) == mentions(p, v)
{}

//%% include trusted/fold_scratch.rs

// R-hoist: `bottomup_pass_h` is a nested fn item inside `fold`'s body; it is extracted as an item of its own.
//%% extract src/repr/bdd.rs :: impl<'a> DDNNFPtr<'a> for BddPtr<'a> > fn fold :: fn bottomup_pass_h
//%% @ret r
//%% @rewrite 1 /<T: Clone \+ Copy \+ Debug, F: Fn\(DDNNF<T>\) -> T>/ => <T: Semiring, F: Fn(DDNNF<T>) -> T>
//%% @rewrite 1 /let bottomup_helper = \|cached\| \{/ => let bottomup_helper = |cached: Option<T>| -> (res: T) requires (cached matches Some(v) ==> v.valid() && forall|g: Alg<T>| #[trigger] f_det(*f, g) ==> v == bfs(ptr, true, g)) ensures res.valid(), forall|g: Alg<T>| #[trigger] f_det(*f, g) ==> res == bdd_fold_spec(ptr, g) {
//%% @rewrite 2 /ptr\.set_scratch::<DDNNFCache<T>>\(/ => verif_fold_set_scratch::<T, F>(&ptr, f, 
//%% @rewrite 1 /ptr\.scratch::<DDNNFCache<T>>\(\)/ => verif_fold_scratch::<T, F>(&ptr, f)
//%% @spec
        requires f_pre(*f, ptr), f_val(*f),
        ensures r.valid(), forall|g: Alg<T>| #[trigger] f_det(*f, g) ==> r == bdd_fold_spec(ptr, g),
        decreases height(ptr),
//%% @entry
    proof {
        if is_node(ptr) {
            let n = node_of(ptr);
            lemma_height_neg(n.low); lemma_height_neg(n.high);
            assert forall|g: Alg<T>| true implies #[trigger] bfs(n.low.neg_s(), false, g) == bfs(n.low, true, g) by { lemma_bfs_neg(n.low, false, g); }
            assert forall|g: Alg<T>| true implies #[trigger] bfs(n.high.neg_s(), false, g) == bfs(n.high, true, g) by { lemma_bfs_neg(n.high, false, g); }
            assert forall|v: VarLabel| true implies #[trigger] mentions(n.low.neg_s(), v) == mentions(n.low, v) by { lemma_mentions_neg(n.low, v); }
            assert forall|v: VarLabel| true implies #[trigger] mentions(n.high.neg_s(), v) == mentions(n.high, v) by { lemma_mentions_neg(n.high, v); }
        }
    }
//%% end

impl<'a> DDNNFFold for BddPtr<'a> {
    open spec fn fold_s<T>(self, g: Alg<T>) -> T { bdd_fold_spec(self, g) }
    open spec fn has_var(self, v: VarLabel) -> bool { mentions(self, v) }

//%% extract src/repr/bdd.rs :: impl<'a> DDNNFPtr<'a> for BddPtr<'a> :: fn fold
//%% @ret r
//%% @dropinner fn bottomup_pass_h
//%% @rewrite 1 /<T: Clone \+ Copy \+ Debug, F: Fn\(DDNNF<T>\) -> T>/ => <T: Semiring, F: Fn(DDNNF<T>) -> T>
//%% @rewrite 1 /debug_assert!\(self\.is_scratch_cleared\(\)\);/ => 
//%% end
}


// ---- the second memoised fold over a BDD: `bdd_fold` / `bdd_fold_h` (src/repr/bdd.rs), on which the optimisation queries are built ----
pub type Alg3<T> = spec_fn(VarLabel, T, T) -> T;
pub open spec fn f3_det<T, F: Fn(VarLabel, T, T) -> T>(f: F, g: Alg3<T>) -> bool {
    forall|v: VarLabel, a: T, b: T, r: T| #[trigger] f.ensures((v, a, b), r) ==> r == g(v, a, b)
}
/// structural definition: a node is g(var, low, high); a complemented edge flips the accumulated complement c; the terminals yield
/// high_v (true) / low_v (false), exchanged when c is set
pub open spec fn bff<T>(p: BddPtr, c: bool, g: Alg3<T>, lv: T, hv: T) -> T
    decreases p
{
    match p {
        BddPtr::Reg(n) => g(n.var, bff(n.low, c, g, lv, hv), bff(n.high, c, g, lv, hv)),
        BddPtr::Compl(n) => g(n.var, bff(n.low, !c, g, lv, hv), bff(n.high, !c, g, lv, hv)),
        BddPtr::PtrTrue => if c { lv } else { hv },
        BddPtr::PtrFalse => if c { hv } else { lv },
    }
}
pub proof fn lemma_bff_neg<T>(p: BddPtr, c: bool, g: Alg3<T>, lv: T, hv: T)
    ensures bff(p.neg_s(), c, g, lv, hv) == bff(p, !c, g, lv, hv)
{}
/// A-scratch-fold for bdd_fold: slot 0 = value of the complemented pointer, slot 1 = value of the regular pointer, for this closure
/// and these terminal values; assumed at the read, proved at the write
pub open spec fn memo3_ok<T, F: Fn(VarLabel, T, T) -> T>(p: BddPtr, f: F, lv: T, hv: T, m: DDNNFCache<T>) -> bool {
    forall|g: Alg3<T>| #[trigger] f3_det(f, g) ==>
        (m.0 matches Some(v) ==> v == bff(p, !(p is Compl), g, lv, hv))
        && (m.1 matches Some(v) ==> v == bff(p, p is Compl, g, lv, hv))
}
#[verifier::external_body]
pub fn verif_bfold_scratch<T: Clone + 'static, F: Fn(VarLabel, T, T) -> T>(p: &BddPtr, f: &F, lv: T, hv: T) -> (r: Option<DDNNFCache<T>>)
    ensures r matches Some(m) ==> memo3_ok(*p, *f, lv, hv, m)
{ unimplemented!() }
#[verifier::external_body]
pub fn verif_bfold_set_scratch<T: 'static, F: Fn(VarLabel, T, T) -> T>(p: &BddPtr, f: &F, lv: T, hv: T, m: DDNNFCache<T>)
    requires is_node(*p), memo3_ok(*p, *f, lv, hv, m)
{ unimplemented!() }

impl<'a> BddPtr<'a> {
//%% extract src/repr/bdd.rs :: impl<'a> BddPtr<'a> :: fn bdd_fold_h
//%% @pub
//%% @ret r
//%% @rewrite 1 /<T: Clone \+ Copy \+ Debug, F: Fn\(VarLabel, T, T\) -> T>/ => <T: Clone + Copy, F: Fn(VarLabel, T, T) -> T>
//%% @rewrite 1 /let fold_helper = \|prev_low, prev_high\| \{/ => let fold_helper = |prev_low: Option<T>, prev_high: Option<T>| -> (res: T) requires memo3_ok(*self, *f, low_v, high_v, (prev_low, prev_high)) ensures forall|g: Alg3<T>| #[trigger] f3_det(*f, g) ==> res == bff(*self, false, g, low_v, high_v) {
//%% @rewrite 2 /self\.set_scratch::<\(Option<T>, Option<T>\)>\(/ => verif_bfold_set_scratch::<T, F>(self, f, low_v, high_v, 
//%% @rewrite 1 /self\.scratch::<\(Option<T>, Option<T>\)>\(\)/ => verif_bfold_scratch::<T, F>(self, f, low_v, high_v)
//%% @spec
        requires forall|v: VarLabel, a: T, b: T| #[trigger] f.requires((v, a, b)),
        ensures forall|g: Alg3<T>| #[trigger] f3_det(*f, g) ==> r == bff(*self, false, g, low_v, high_v),
        decreases height(*self),
//%% @entry
        proof {
            if is_node(*self) {
                let n = node_of(*self);
                lemma_height_neg(n.low); lemma_height_neg(n.high);
                assert forall|g: Alg3<T>| true implies #[trigger] bff(n.low.neg_s(), false, g, low_v, high_v) == bff(n.low, true, g, low_v, high_v) by { lemma_bff_neg(n.low, false, g, low_v, high_v); }
                assert forall|g: Alg3<T>| true implies #[trigger] bff(n.high.neg_s(), false, g, low_v, high_v) == bff(n.high, true, g, low_v, high_v) by { lemma_bff_neg(n.high, false, g, low_v, high_v); }
            }
        }
//%% end

//%% extract src/repr/bdd.rs :: impl<'a> BddPtr<'a> :: fn bdd_fold
//%% @ret r
//%% @rewrite 1 /<T: Clone \+ Copy \+ Debug, F: Fn\(VarLabel, T, T\) -> T>/ => <T: Clone + Copy, F: Fn(VarLabel, T, T) -> T>
//%% @spec
        requires forall|v: VarLabel, a: T, b: T| #[trigger] f.requires((v, a, b)),
        ensures forall|g: Alg3<T>| #[trigger] f3_det(*f, g) ==> r == bff(*self, false, g, low_v, high_v),
//%% end
}
