// ---- src/repr/ddnnf.rs, src/repr/bdd.rs, src/repr/wmc.rs: the memoised fold over a BDD / decision-DNNF and the generic count ----

//%% include inc/foldcore.rs

/// THE definition of a fold over a diagram: `c` is the complement accumulated on the way down (a complemented edge
/// flips it), a node is `Or(And(Lit(v, false), low), And(Lit(v, true), high), {v})`, and the terminals are True / False
/// exchanged when the accumulated complement is odd.  No memo, no sharing: plain structural recursion.
pub open spec fn bfs<T>(p: BddPtr, c: bool, g: Alg<T>) -> T
    decreases p
{
    match p {
        BddPtr::Reg(n) => g(DV::Or(g(DV::And(g(DV::Lit(n.var, false)), bfs(n.low, c, g))),
                 g(DV::And(g(DV::Lit(n.var, true)), bfs(n.high, c, g))),
                 ISet::<u64>::empty().insert(n.var.0))),
        BddPtr::Compl(n) => g(DV::Or(g(DV::And(g(DV::Lit(n.var, false)), bfs(n.low, !c, g))),
                 g(DV::And(g(DV::Lit(n.var, true)), bfs(n.high, !c, g))),
                 ISet::<u64>::empty().insert(n.var.0))),
        BddPtr::PtrTrue => if c { g(DV::False) } else { g(DV::True) },
        BddPtr::PtrFalse => if c { g(DV::True) } else { g(DV::False) },
    }
}
pub open spec fn bdd_fold_spec<T>(p: BddPtr, g: Alg<T>) -> T { bfs(p, false, g) }
pub proof fn lemma_bfs_neg<T>(p: BddPtr, c: bool, g: Alg<T>)
    ensures bfs(p.neg_s(), c, g) == bfs(p, !c, g)
{}
/// the closure is only ever asked about literals on variables of the diagram
pub open spec fn x_ok<T>(p: BddPtr, x: DDNNF<T>) -> bool { x matches DDNNF::Lit(v, _) ==> mentions(p, v) }
pub open spec fn f_pre<T: Semiring, F: Fn(DDNNF<T>) -> T>(f: F, p: BddPtr) -> bool { forall|x: DDNNF<T>| x_ok(p, x) && args_valid(x) ==> #[trigger] f.requires((x,)) }
pub proof fn lemma_mentions_neg(p: BddPtr, v: VarLabel)
    ensures mentions(p.neg_s(), v) == mentions(p, v)
{}

//%% include trusted/fold_scratch.rs

// R-hoist: `bottomup_pass_h` is a nested fn item inside `fold`'s body; it is extracted as an item of its own.
//%% extract src/repr/bdd.rs :: impl<'a> DDNNFPtr<'a> for BddPtr<'a> > fn fold :: fn bottomup_pass_h
//%% @ret r
//%% @rewrite 1 /<T: Clone \+ Copy \+ Debug, F: Fn\(DDNNF<T>\) -> T>/ => <T: Semiring, F: Fn(DDNNF<T>) -> T>
//%% @rewrite 1 /let bottomup_helper = \|cached\| \{/ => let bottomup_helper = |cached: Option<T>| -> (res: T) requires (cached matches Some(v) ==> v.valid() && forall|g: Alg<T>| #[trigger] f_det(*f, g) ==> v == bfs(ptr, true, g)) ensures res.valid(), forall|g: Alg<T>| #[trigger] f_det(*f, g) ==> res == bdd_fold_spec(ptr, g) {
//%% @rewrite 2 /ptr\.set_scratch::<DDNNFCache<T>>\(/ => verif_fold_set_scratch::<T, F>(&ptr, f, 
//%% @rewrite 1 /ptr\.scratch::<DDNNFCache<T>>\(\)/ => verif_fold_scratch::<T, F>(&ptr, f)
//%% @spec
        requires f_pre(*f, ptr), f_val(*f),
        ensures r.valid(), forall|g: Alg<T>| #[trigger] f_det(*f, g) ==> r == bdd_fold_spec(ptr, g),
        decreases height(ptr),
//%% @entry
    proof {
        if is_node(ptr) {
            let n = node_of(ptr);
            lemma_height_neg(n.low); lemma_height_neg(n.high);
            assert forall|g: Alg<T>| true implies #[trigger] bfs(n.low.neg_s(), false, g) == bfs(n.low, true, g) by { lemma_bfs_neg(n.low, false, g); }
            assert forall|g: Alg<T>| true implies #[trigger] bfs(n.high.neg_s(), false, g) == bfs(n.high, true, g) by { lemma_bfs_neg(n.high, false, g); }
            assert forall|v: VarLabel| true implies #[trigger] mentions(n.low.neg_s(), v) == mentions(n.low, v) by { lemma_mentions_neg(n.low, v); }
            assert forall|v: VarLabel| true implies #[trigger] mentions(n.high.neg_s(), v) == mentions(n.high, v) by { lemma_mentions_neg(n.high, v); }
        }
    }
//%% end

impl<'a> DDNNFFold for BddPtr<'a> {
    open spec fn fold_s<T>(self, g: Alg<T>) -> T { bdd_fold_spec(self, g) }
    open spec fn has_var(self, v: VarLabel) -> bool { mentions(self, v) }

//%% extract src/repr/bdd.rs :: impl<'a> DDNNFPtr<'a> for BddPtr<'a> :: fn fold
//%% @ret r
//%% @dropinner fn bottomup_pass_h
//%% @rewrite 1 /<T: Clone \+ Copy \+ Debug, F: Fn\(DDNNF<T>\) -> T>/ => <T: Semiring, F: Fn(DDNNF<T>) -> T>
//%% @rewrite 1 /debug_assert!\(self\.is_scratch_cleared\(\)\);/ => 
//%% end
}

