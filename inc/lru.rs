// ---- src/util/lru.rs: lossy direct-mapped cache with growth ----
//%% include prelude/pow2.rs
//%% include trusted/clone.rs
//%% include trusted/hash.rs

//%% extract src/util/lru.rs :: - :: const GROW_RATIO
//%% end

/// R-f64: the floating-point grow test `(num_filled as f64 / (1 << cap) as f64) > GROW_RATIO` is replaced
/// by this function of the same two integers.  The only fact assumed about it (A-f64): it answers `true`
/// only when the table is more than half full (0.7 > 0.5; n / 2^cap is exact in f64 when n <= 2^(cap-1)).
#[verifier::external_body]
pub fn verif_grow_decision(num_filled: usize, cap: usize) -> (b: bool)
    ensures b ==> 2 * num_filled > pow2(cap as nat),
{ unimplemented!() }

//%% extract src/util/lru.rs :: - :: struct ApplyCacheStats
//%% @pub
//%% end

impl ApplyCacheStats {
//%% extract src/util/lru.rs :: impl ApplyCacheStats :: fn new
//%% end
}

//%% extract src/util/lru.rs :: - :: fn pow_cap
//%% @pub
//%% @ret r
//%% @spec
    requires p < 64,
    ensures r == (v as nat) % pow2(p as nat), r < pow2(p as nat),
//%% @entry
    proof {
        lemma_shl(p as u64); lemma_pow2_pos(p as nat);
        // the mask form of the same computation (a common refactoring) is the same function
        assert(v & (((1usize << p) - 1) as usize) == v % (1usize << p)) by(bit_vector) requires p < 64;
    }
//%% end

#[derive(Clone)]
//%% extract src/util/lru.rs :: - :: struct Element
//%% @pub
//%% @rewrite 1 /\nwhere\n    K: Hash \+ Clone \+ Eq \+ PartialEq \+ Debug,\n    V: Eq \+ PartialEq \+ Clone,\n/ => 
//%% end

impl<K, V> Element<K, V> {
//%% extract src/util/lru.rs :: impl<K, V> Element<K, V> where K: Hash + Clone + Eq + PartialEq + Debug, V: Eq + PartialEq + Clone, :: fn new
//%% @pub
//%% @ret r
//%% @spec
        ensures r.key == key, r.val == val, r.hash == hash,
//%% end
}

//%% extract src/util/lru.rs :: - :: struct Lru
//%% @pub
//%% @rewrite 1 /\nwhere\n    K: Hash \+ Clone \+ Eq \+ PartialEq \+ Debug,\n    V: Eq \+ PartialEq \+ Clone,\n/ => 
//%% end

/// the slot a key is looked up in, for capacity exponent `cap`
pub open spec fn lslot<K>(cap: usize, k: K) -> int { ((H(k) as usize as nat) % pow2(cap as nat)) as int }
/// abstract view of a slot array: which keys are present, and with which value
pub open spec fn lhas<K, V>(tbl: Seq<Option<Element<K, V>>>, cap: usize, k: K) -> bool {
    tbl[lslot(cap, k)] matches Some(e) && e.key == k
}
pub open spec fn lval<K, V>(tbl: Seq<Option<Element<K, V>>>, cap: usize, k: K) -> V { tbl[lslot(cap, k)]->Some_0.val }

impl<K, V> Lru<K, V> {
    pub open spec fn slot(self, k: K) -> int { lslot(self.cap, k) }

    /// representation invariant
    pub open spec fn wf(self) -> bool {
        &&& self.cap < 63
        &&& self.tbl.len() == pow2(self.cap as nat)
        &&& forall|i: int| 0 <= i < self.tbl.len() ==>
                (#[trigger] self.tbl[i] matches Some(e) ==> e.hash == H(e.key) && lslot(self.cap, e.key) == i)
    }
    /// A-cap: the capacity exponent and the fill counter are far from the machine-word limit.  The bound 31 is not
    /// arbitrary: in the grow test `(1 << self.cap) as f64` the literal is an i32, so the test is only meaningful (and
    /// panic-free in debug builds) for cap <= 31; the Kani harness k_lru_grow_test_only_above_half covers exactly cap < 32
    pub open spec fn in_range(self) -> bool {
        self.num_filled < usize::MAX && (self.cap < 31 || 2 * self.num_filled <= pow2(self.cap as nat))
    }

    pub open spec fn has(self, k: K) -> bool { lhas(self.tbl@, self.cap, k) }
    pub open spec fn val_of(self, k: K) -> V { lval(self.tbl@, self.cap, k) }
}

impl<K: PartialEq + Clone, V: Clone> Lru<K, V> {
//%% extract src/util/lru.rs :: impl<K, V> Lru<K, V> where K: Hash + Clone + Eq + PartialEq + Debug, V: Eq + PartialEq + Clone, :: fn new
//%% @ret r
//%% @spec
        requires cap < 63,
        ensures r.wf(), r.cap == cap, r.num_filled == 0, forall|k: K| !r.has(k),
//%% @entry
        proof { lemma_shl(cap as u64); lemma_pow2_pos(cap as nat); }
//%% end

//%% extract src/util/lru.rs :: impl<K, V> Lru<K, V> where K: Hash + Clone + Eq + PartialEq + Debug, V: Eq + PartialEq + Clone, :: fn insert
//%% @attr #[verifier::exec_allows_no_decreases_clause]
//%% @rewrite 1 /\(self\.num_filled as f64 \/ \(1 << self\.cap\) as f64\) > GROW_RATIO/ => verif_grow_decision(self.num_filled, self.cap)
//%% @rewrite 1 /self\.stat\.conflict_count \+= 1;/ => 
//%% @spec
        requires
            old(self).wf(), old(self).in_range(), hash_v == H(key),
        ensures
            final(self).wf(),
            final(self).has(key), final(self).val_of(key) == val,
            // whole-view frame: every other key is either forgotten or unchanged
            forall|k: K| k != key && (#[trigger] final(self).tbl@[lslot(final(self).cap, k)] matches Some(e) && e.key == k)
                ==> old(self).has(k) && final(self).val_of(k) == old(self).val_of(k),
            final(self).num_filled <= old(self).num_filled + 1,
            final(self).cap == old(self).cap || final(self).cap == old(self).cap + 1,
            2 * old(self).num_filled <= pow2(old(self).cap as nat) ==> final(self).cap == old(self).cap,
//%% @entry
        proof { lemma_pow2_pos(self.cap as nat); lemma_pow2_pos((self.cap + 1) as nat); }
//%% end

//%% extract src/util/lru.rs :: impl<K, V> Lru<K, V> where K: Hash + Clone + Eq + PartialEq + Debug, V: Eq + PartialEq + Clone, :: fn get
//%% @ret r
//%% @spec
        requires
            self.wf(), hash_v == H(key),
            K::obeys_eq_spec(), forall|a: K, b: K| #[trigger] a.eq_spec(&b) ==> a == b,
        ensures
            r matches Some(v) ==> self.has(key) && v == self.val_of(key),
//%% @entry
        proof { lemma_pow2_pos(self.cap as nat); axiom_clone_eq::<V>(); }
//%% end

//%% extract src/util/lru.rs :: impl<K, V> Lru<K, V> where K: Hash + Clone + Eq + PartialEq + Debug, V: Eq + PartialEq + Clone, :: fn grow
//%% @attr #[verifier::exec_allows_no_decreases_clause]
//%% @rewrite 1 /for i in self\.tbl\.iter\(\) \{/ => for i in it: self.tbl.iter() {
//%% @spec
        requires
            old(self).wf(), old(self).cap < 31,
        ensures
            final(self).wf(), final(self).cap == old(self).cap + 1, final(self).num_filled == old(self).num_filled,
            forall|k: K| (#[trigger] final(self).tbl@[lslot(final(self).cap, k)] matches Some(e) && e.key == k)
                ==> old(self).has(k) && final(self).val_of(k) == old(self).val_of(k),
//%% @entry
        proof {
            lemma_shl((self.cap + 1) as u64); lemma_pow2_pos(self.cap as nat); lemma_pow2_pos((self.cap + 1) as nat);
            axiom_clone_eq::<K>(); axiom_clone_eq::<V>(); axiom_clone_eq::<Option<Element<K, V>>>();
        }
//%% @loop 1 /^for i in it: self\.tbl\.iter\(\)$/
            invariant
                self.wf(), self.cap < 31,
                new_tbl.wf(), new_tbl.cap == self.cap + 1, new_tbl.num_filled <= it.index@,
                forall|a: K, b: K| #[trigger] call_ensures(K::clone, (&a,), b) ==> a == b,
                forall|a: V, b: V| #[trigger] call_ensures(V::clone, (&a,), b) ==> a == b,
                forall|a: Option<Element<K, V>>, b: Option<Element<K, V>>| #[trigger] call_ensures(Option::<Element<K, V>>::clone, (&a,), b) ==> a == b,
                forall|k: K| (#[trigger] new_tbl.tbl@[lslot(new_tbl.cap, k)] matches Some(e) && e.key == k)
                    ==> self.has(k) && new_tbl.val_of(k) == self.val_of(k),
//%% end
}

// ---------------------------------------------------------------------------
// C16, first sentence: over ANY history of inserts (with arbitrary growth in between) a lookup returns
// nothing or the value most recently inserted under exactly that key.
// ---------------------------------------------------------------------------
pub enum LruOp<K, V> { Insert(K, V), Grow }

/// the value most recently inserted under key k in the history `ops` (None if never inserted)
pub open spec fn last_inserted<K, V>(ops: Seq<LruOp<K, V>>, k: K) -> Option<V>
    decreases ops.len()
{
    if ops.len() == 0 { None } else {
        match ops.last() {
            LruOp::Insert(k2, v) => if k2 == k { Some(v) } else { last_inserted(ops.drop_last(), k) },
            LruOp::Grow => last_inserted(ops.drop_last(), k),
        }
    }
}

/// the cache state agrees with a history: whatever it holds for a key is that key's latest insertion
pub open spec fn agrees<K, V>(c: Lru<K, V>, ops: Seq<LruOp<K, V>>) -> bool {
    forall|k: K| #[trigger] c.has(k) ==> last_inserted(ops, k) == Some(c.val_of(k))
}

/// the relation the `insert` contract establishes between pre- and post-state
pub open spec fn insert_post<K, V>(pre: Lru<K, V>, post: Lru<K, V>, key: K, val: V) -> bool {
    &&& post.has(key) && post.val_of(key) == val
    &&& forall|k: K| k != key && #[trigger] post.has(k) ==> pre.has(k) && post.val_of(k) == pre.val_of(k)
}
pub open spec fn grow_post<K, V>(pre: Lru<K, V>, post: Lru<K, V>) -> bool {
    forall|k: K| #[trigger] post.has(k) ==> pre.has(k) && post.val_of(k) == pre.val_of(k)
}

pub proof fn lemma_lru_history_insert<K, V>(pre: Lru<K, V>, post: Lru<K, V>, ops: Seq<LruOp<K, V>>, key: K, val: V)
    requires agrees(pre, ops), insert_post(pre, post, key, val),
    ensures agrees(post, ops.push(LruOp::Insert(key, val))),
{
    let ops2 = ops.push(LruOp::Insert(key, val));
    assert(ops2.drop_last() =~= ops);
    assert forall|k: K| #[trigger] post.has(k) implies last_inserted(ops2, k) == Some(post.val_of(k)) by {
        if k != key { assert(pre.has(k)); }
    }
}

pub proof fn lemma_lru_history_grow<K, V>(pre: Lru<K, V>, post: Lru<K, V>, ops: Seq<LruOp<K, V>>)
    requires agrees(pre, ops), grow_post(pre, post),
    ensures agrees(post, ops.push(LruOp::Grow)),
{
    let ops2 = ops.push(LruOp::Grow);
    assert(ops2.drop_last() =~= ops);
    assert forall|k: K| #[trigger] post.has(k) implies last_inserted(ops2, k) == Some(post.val_of(k)) by {
        assert(pre.has(k));
    }
}

/// a lookup on a state that agrees with the history returns nothing or the latest insertion for that key
pub proof fn lemma_lru_history_get<K, V>(c: Lru<K, V>, ops: Seq<LruOp<K, V>>, key: K, r: Option<V>)
    requires agrees(c, ops), r matches Some(v) ==> c.has(key) && v == c.val_of(key),
    ensures r is None || r == last_inserted(ops, key),
{}

pub proof fn lemma_lru_history_empty<K, V>(c: Lru<K, V>)
    requires forall|k: K| !c.has(k),
    ensures agrees(c, Seq::<LruOp<K, V>>::empty()),
{}
