// ---- src/repr/unit_prop.rs: the two-watched-literal propagator (UnitPropagate::decide): SOUNDNESS ----
pub type Asg = spec_fn(u64) -> bool;
pub open spec fn lit_holds(l: Literal, a: Asg) -> bool { a(l.lbl.0) == l.pol }
pub open spec fn clause_holds(c: Seq<Literal>, a: Asg) -> bool { exists|j: int| 0 <= j < c.len() && lit_holds(#[trigger] c[j], a) }
pub open spec fn cnf_holds(cs: Seq<Vec<Literal>>, a: Asg) -> bool { forall|i: int| 0 <= i < cs.len() ==> clause_holds((#[trigger] cs[i])@, a) }
/// the assignment gives every variable the partial model assigns that value
pub open spec fn agrees(a: Asg, m: PartialModel) -> bool { forall|x: VarLabel| (#[trigger] m.val(x)) matches Some(b) ==> a(x.0) == b }
/// m2 keeps every assignment of m
pub open spec fn extends(m2: PartialModel, m: PartialModel) -> bool { forall|x: VarLabel| (#[trigger] m.val(x)) is Some ==> m2.val(x) == m.val(x) }
/// every total assignment that satisfies the formula, agrees with m0 and makes l true also agrees with m:
/// everything m assigns is ENTAILED by the formula together with m0 and l
pub open spec fn entailed(cs: Seq<Vec<Literal>>, m0: PartialModel, l: Literal, m: PartialModel) -> bool {
    forall|a: Asg| #![trigger agrees(a, m)] #![trigger cnf_holds(cs, a), agrees(a, m0)] cnf_holds(cs, a) && agrees(a, m0) && lit_holds(l, a) ==> agrees(a, m)
}
/// no total assignment that agrees with m0 and makes l true satisfies the formula
pub open spec fn refuted(cs: Seq<Vec<Literal>>, m0: PartialModel, l: Literal) -> bool {
    forall|a: Asg| #![trigger cnf_holds(cs, a)] agrees(a, m0) && lit_holds(l, a) ==> !cnf_holds(cs, a)
}

impl Cnf {
//%% extract src/repr/cnf.rs :: impl Cnf :: fn clauses
//%% @ret r
//%% @spec
        ensures r@ == self.clauses@,
//%% end
}

//%% extract src/repr/unit_prop.rs :: - :: struct UnitPropagate
//%% @pub
//%% end
//%% extract src/repr/unit_prop.rs :: - :: enum UnitPropResult
//%% @pub
//%% end
//%% extract src/repr/unit_prop.rs :: - :: type ClauseIdx
//%% end
//%% extract src/repr/unit_prop.rs :: - :: type LitIdx
//%% end

/// m assigns, besides what m0 assigns, only variables below nv
pub open spec fn ranged(m: PartialModel, m0: PartialModel, nv: int) -> bool { forall|x: VarLabel| (#[trigger] m.val(x)) is Some ==> m0.val(x) is Some || x.0 < nv }
/// what `decide` promises about its result (soundness; nothing about completeness of the propagation)
pub open spec fn decide_sound(cs: Seq<Vec<Literal>>, m0: PartialModel, l: Literal, r: UnitPropResult) -> bool {
    match r {
        UnitPropResult::PartialSAT(m) => m.wf() && extends(m, m0) && m.val(l.lbl) == Some(l.pol) && entailed(cs, m0, l, m),
        UnitPropResult::UNSAT => refuted(cs, m0, l),
    }
}
/// the literals of c that come before position k and are unassigned in m, in order
pub open spec fn unassigned_upto(c: Seq<Literal>, m: PartialModel, k: int) -> Seq<Literal>
    decreases k
{
    if k <= 0 { Seq::empty() } else if m.val(c[k - 1].lbl) is None { unassigned_upto(c, m, k - 1).push(c[k - 1]) } else { unassigned_upto(c, m, k - 1) }
}
pub proof fn lemma_unassigned_members(c: Seq<Literal>, m: PartialModel, k: int)
    requires 0 <= k <= c.len(),
    ensures
        forall|i: int| 0 <= i < unassigned_upto(c, m, k).len() ==> m.val((#[trigger] unassigned_upto(c, m, k)[i]).lbl) is None && c.contains(unassigned_upto(c, m, k)[i]),
        forall|j: int| 0 <= j < k && m.val((#[trigger] c[j]).lbl) is None ==> unassigned_upto(c, m, k).contains(c[j]),
    decreases k,
{
    if k > 0 {
        lemma_unassigned_members(c, m, k - 1);
        let u0 = unassigned_upto(c, m, k - 1); let u = unassigned_upto(c, m, k);
        if m.val(c[k - 1].lbl) is None {
            assert(u[u.len() - 1] == c[k - 1]);
            assert forall|i: int| 0 <= i < u.len() implies m.val((#[trigger] u[i]).lbl) is None && c.contains(u[i]) by {
                if i < u0.len() { assert(u[i] == u0[i]); }
            }
            assert forall|j: int| 0 <= j < k && m.val((#[trigger] c[j]).lbl) is None implies u.contains(c[j]) by {
                if j < k - 1 { let i = choose|i: int| 0 <= i < u0.len() && u0[i] == c[j]; assert(u[i] == c[j]); }
            }
        }
    }
}
/// a clause no literal of which is assigned true, with no unassigned literal, is false under every agreeing assignment
pub proof fn lemma_all_false(c: Seq<Literal>, m: PartialModel, a: Asg)
    requires
        forall|j: int| 0 <= j < c.len() ==> m.val((#[trigger] c[j]).lbl) != Some(c[j].pol),
        forall|j: int| 0 <= j < c.len() ==> m.val((#[trigger] c[j]).lbl) is Some,
        agrees(a, m),
    ensures !clause_holds(c, a),
{
    assert forall|j: int| 0 <= j < c.len() implies !lit_holds(#[trigger] c[j], a) by { assert(m.val(c[j].lbl) is Some); }
}
/// ... and with exactly one unassigned literal u, every agreeing assignment that satisfies the clause makes u true
pub proof fn lemma_unit(c: Seq<Literal>, m: PartialModel, u: Literal, a: Asg)
    requires
        forall|j: int| 0 <= j < c.len() ==> m.val((#[trigger] c[j]).lbl) != Some(c[j].pol),
        forall|j: int| 0 <= j < c.len() && m.val((#[trigger] c[j]).lbl) is None ==> c[j] == u,
        agrees(a, m), clause_holds(c, a),
    ensures lit_holds(u, a),
{
    let j = choose|j: int| 0 <= j < c.len() && lit_holds(#[trigger] c[j], a);
    if m.val(c[j].lbl) is Some { assert(false); }
}


/// no literal of c before position k is assigned true by m
pub open spec fn none_true_upto(c: Seq<Literal>, m: PartialModel, k: int) -> bool {
    forall|j: int| 0 <= j < k && j < c.len() ==> m.val((#[trigger] c[j]).lbl) != Some(c[j].pol)
}
/// c is one of the clauses
pub open spec fn clause_of(cs: Seq<Vec<Literal>>, c: Seq<Literal>) -> bool { exists|i: int| 0 <= i < cs.len() && (#[trigger] cs[i])@ == c }
/// all unassigned literals of c under m, in order
pub open spec fn unassigned(c: Seq<Literal>, m: PartialModel) -> Seq<Literal> { unassigned_upto(c, m, c.len() as int) }

/// step lemma, conflict: a clause without a true literal and without an unassigned literal refutes the decision
pub proof fn lemma_step_unsat(cs: Seq<Vec<Literal>>, m0: PartialModel, l: Literal, m: PartialModel, c: Seq<Literal>)
    requires entailed(cs, m0, l, m), clause_of(cs, c), none_true_upto(c, m, c.len() as int), unassigned(c, m).len() == 0,
    ensures refuted(cs, m0, l),
{
    lemma_unassigned_members(c, m, c.len() as int);
    let i = choose|i: int| 0 <= i < cs.len() && (#[trigger] cs[i])@ == c;
    assert forall|a: Asg| agrees(a, m0) && lit_holds(l, a) implies !#[trigger] cnf_holds(cs, a) by {
        if cnf_holds(cs, a) {
            assert(agrees(a, m));
            assert forall|j: int| 0 <= j < c.len() implies m.val((#[trigger] c[j]).lbl) is Some by {
                if m.val(c[j].lbl) is None { assert(unassigned(c, m).contains(c[j])); }
            }
            lemma_all_false(c, m, a);
            assert(clause_holds(cs[i]@, a));
        }
    }
}
/// step lemma, unit: a clause without a true literal whose only unassigned literal is u: whatever a sound propagation of u
/// from m returns is sound for the original decision
pub proof fn lemma_step_unit(cs: Seq<Vec<Literal>>, m0: PartialModel, l: Literal, m: PartialModel, c: Seq<Literal>, r2: UnitPropResult)
    requires
        entailed(cs, m0, l, m), extends(m, m0), clause_of(cs, c), none_true_upto(c, m, c.len() as int), unassigned(c, m).len() == 1,
        decide_sound(cs, m, unassigned(c, m)[0], r2),
    ensures
        r2 is UNSAT ==> refuted(cs, m0, l),
        r2 matches UnitPropResult::PartialSAT(m2) ==> entailed(cs, m0, l, m2) && extends(m2, m0),
{
    lemma_unassigned_members(c, m, c.len() as int);
    let u = unassigned(c, m)[0];
    let i = choose|i: int| 0 <= i < cs.len() && (#[trigger] cs[i])@ == c;
    // every model of the formula that agrees with m makes u true
    assert forall|a: Asg| cnf_holds(cs, a) && agrees(a, m) implies lit_holds(u, a) by {
        assert(clause_holds(cs[i]@, a));
        assert forall|j: int| 0 <= j < c.len() && m.val((#[trigger] c[j]).lbl) is None implies c[j] == u by {
            let k = choose|k: int| 0 <= k < unassigned(c, m).len() && unassigned(c, m)[k] == c[j];
        }
        lemma_unit(c, m, u, a);
    }
    match r2 {
        UnitPropResult::UNSAT => {
            assert forall|a: Asg| agrees(a, m0) && lit_holds(l, a) implies !#[trigger] cnf_holds(cs, a) by {
                if cnf_holds(cs, a) { assert(agrees(a, m)); assert(lit_holds(u, a)); }
            }
        },
        UnitPropResult::PartialSAT(m2) => {
            assert forall|a: Asg| cnf_holds(cs, a) && agrees(a, m0) && lit_holds(l, a) implies #[trigger] agrees(a, m2) by {
                assert(agrees(a, m)); assert(lit_holds(u, a));
            }
        },
    }
}

/// every model of the formula agrees with m: everything m assigns is entailed by the formula alone
pub open spec fn implied_by(cs: Seq<Vec<Literal>>, m: PartialModel) -> bool { forall|a: Asg| #[trigger] cnf_holds(cs, a) ==> agrees(a, m) }
pub open spec fn unsat(cs: Seq<Vec<Literal>>) -> bool { forall|a: Asg| !#[trigger] cnf_holds(cs, a) }
pub open spec fn unit_lit_ok(cs: Seq<Vec<Literal>>, l: Literal) -> bool { forall|a: Asg| #[trigger] cnf_holds(cs, a) ==> lit_holds(l, a) }
pub proof fn lemma_unit_clause(cs: Seq<Vec<Literal>>, i: int)
    requires 0 <= i < cs.len(),
    ensures cs[i]@.len() == 0 ==> unsat(cs), cs[i]@.len() == 1 ==> unit_lit_ok(cs, cs[i]@[0]),
{
    assert forall|a: Asg| #[trigger] cnf_holds(cs, a) implies (cs[i]@.len() != 0 && (cs[i]@.len() == 1 ==> lit_holds(cs[i]@[0], a))) by {
        assert(clause_holds(cs[i]@, a));
    }
}
pub proof fn lemma_push_contains(s: Seq<Literal>, x: Literal)
    ensures s.push(x).contains(x), forall|y: Literal| s.contains(y) ==> #[trigger] s.push(x).contains(y),
{
    assert(s.push(x)[s.len() as int] == x);
    assert forall|y: Literal| s.contains(y) implies #[trigger] s.push(x).contains(y) by {
        let i = choose|i: int| 0 <= i < s.len() && s[i] == y; assert(s.push(x)[i] == y);
    }
}
pub proof fn lemma_step_initial(cs: Seq<Vec<Literal>>, m: PartialModel, l: Literal, r: UnitPropResult)
    requires implied_by(cs, m), unit_lit_ok(cs, l), decide_sound(cs, m, l, r),
    ensures r is UNSAT ==> unsat(cs), r matches UnitPropResult::PartialSAT(m2) ==> implied_by(cs, m2),
{
    match r {
        UnitPropResult::UNSAT => { assert forall|a: Asg| !#[trigger] cnf_holds(cs, a) by { if cnf_holds(cs, a) { assert(agrees(a, m)); assert(lit_holds(l, a)); } } },
        UnitPropResult::PartialSAT(m2) => { assert forall|a: Asg| #[trigger] cnf_holds(cs, a) implies agrees(a, m2) by { assert(agrees(a, m)); assert(lit_holds(l, a)); } },
    }
}

impl UnitPropagate {
    /// watch lists: one per variable and polarity, holding clause indices
    pub open spec fn inv(&self) -> bool {
        &&& self.cnf.wf()
        &&& self.watch_list_pos@.len() == self.cnf.num_vars && self.watch_list_neg@.len() == self.cnf.num_vars
        &&& forall|i: int, j: int| 0 <= i < self.watch_list_pos@.len() && 0 <= j < self.watch_list_pos@[i]@.len() ==> (#[trigger] self.watch_list_pos@[i]@[j]) < self.cnf.clauses@.len()
        &&& forall|i: int, j: int| 0 <= i < self.watch_list_neg@.len() && 0 <= j < self.watch_list_neg@[i]@.len() ==> (#[trigger] self.watch_list_neg@[i]@[j]) < self.cnf.clauses@.len()
    }

// R-enumerate / R-for-while: `for (idx, c) in cnf.clauses().iter().enumerate() {` (the body uses `continue`) becomes an indexed
// while over the same slice; `for i in implied {` iterates the vector by reference and copies each element.
//%% extract src/repr/unit_prop.rs :: impl UnitPropagate :: fn new
//%% @ret r
//%% @attr #[verifier::loop_isolation(false)]
//%% @rewrite 1 /for _ in 0\.\.cnf\.num_vars\(\) \{/ => for w__k in 0..cnf.num_vars() {
//%% @rewrite 1 /for \(idx, c\) in cnf\.clauses\(\)\.iter\(\)\.enumerate\(\) \{/ => let mut idx__n: usize = 0; while idx__n < cnf.clauses().len() { let idx = idx__n; let c = &cnf.clauses()[idx]; idx__n += 1;
//%% @rewrite 1 /for i in implied \{/ => for i__r in it: implied.iter() { let i = *i__r;
//%% @spec
        requires cnf.wf(),
        ensures
            r is None ==> unsat(cnf.clauses@),
            r matches Some((up, m)) ==> up.inv() && up.cnf == cnf && m.wf() && implied_by(cnf.clauses@, m),
            r matches Some((up, m)) ==> forall|x: VarLabel| (#[trigger] m.val(x)) is Some ==> x.0 < cnf.num_vars,
            // (necessary parts of "no clause is left falsified or with exactly one unassigned literal") there is no empty clause, and
            // the literal of every unit clause is assigned
            r is Some ==> forall|i: int| 0 <= i < cnf.clauses@.len() ==> (#[trigger] cnf.clauses@[i])@.len() >= 1,
            r matches Some((up, m)) ==> forall|i: int| 0 <= i < cnf.clauses@.len() && (#[trigger] cnf.clauses@[i])@.len() == 1 ==> m.val(cnf.clauses@[i]@[0].lbl) == Some(cnf.clauses@[i]@[0].pol),
            // for a formula whose clauses are in the normal form Cnf::new establishes (norm_lits: proved there): the two-watched-literal scheme is
            // set up and the watch invariant holds for the returned model -- with the two clauses above, lemma_fixpoint applies
            norm_ok(cnf.clauses@) ==> (r matches Some((up, m)) ==> up.winv() && up.watch_ok(m)),
//%% @entry
        let ghost cs = cnf.clauses@;
//%% @loop 1 /^for w__k in 0\.\.cnf\.num_vars\(\)$/
            invariant
                watch_list_pos@.len() == w__k, watch_list_neg@.len() == w__k,
                forall|i: int| 0 <= i < w__k ==> (#[trigger] watch_list_pos@[i])@.len() == 0,
                forall|i: int| 0 <= i < w__k ==> (#[trigger] watch_list_neg@[i])@.len() == 0,
//%% @loop 2 /^while idx__n < cnf\.clauses\(\)\.len\(\)$/
            invariant
                idx__n <= cs.len(),
                watch_list_pos@.len() == cnf.num_vars, watch_list_neg@.len() == cnf.num_vars,
                forall|i: int, j: int| 0 <= i < watch_list_pos@.len() && 0 <= j < watch_list_pos@[i]@.len() ==> (#[trigger] watch_list_pos@[i]@[j]) < cs.len(),
                forall|i: int, j: int| 0 <= i < watch_list_neg@.len() && 0 <= j < watch_list_neg@[i]@.len() ==> (#[trigger] watch_list_neg@[i]@[j]) < cs.len(),
                forall|k: int| 0 <= k < implied@.len() ==> unit_lit_ok(cs, #[trigger] implied@[k]) && implied@[k].lbl.0 < cnf.num_vars,
                forall|i: int| 0 <= i < idx__n && (#[trigger] cs[i])@.len() == 1 ==> implied@.contains(cs[i]@[0]),
                forall|i: int| 0 <= i < idx__n ==> (#[trigger] cs[i])@.len() >= 1,
                norm_ok(cs) ==> mk(watch_list_pos, watch_list_neg, cnf).entries_ok() && built_upto(mk(watch_list_pos, watch_list_neg, cnf), idx__n as int),
            decreases cs.len() - idx__n,
//%% @loopbody 2
            let ghost u1 = mk(watch_list_pos, watch_list_neg, cnf);
            proof {
                assert forall|i: int| 0 <= i < cs.len() implies (#[trigger] cs[i]@.len() == 0 ==> unsat(cs)) && (cs[i]@.len() == 1 ==> unit_lit_ok(cs, cs[i]@[0])) by { lemma_unit_clause(cs, i); }
                assert forall|x: Literal| #![trigger implied@.push(x)] implied@.push(x).contains(x) && (forall|y: Literal| implied@.contains(y) ==> #[trigger] implied@.push(x).contains(y)) by { lemma_push_contains(implied@, x); }
            }
//%% @loop 3 /^for i__r in it: implied\.iter\(\)$/
            invariant
                cur.inv(), cur.cnf == cnf, cur_state.wf(), implied_by(cs, cur_state),
                forall|x: VarLabel| (#[trigger] cur_state.val(x)) is Some ==> x.0 < cnf.num_vars,
                forall|k: int| 0 <= k < implied@.len() ==> unit_lit_ok(cs, #[trigger] implied@[k]) && implied@[k].lbl.0 < cnf.num_vars,
                forall|i: int| 0 <= i < cs.len() && (#[trigger] cs[i])@.len() == 1 ==> implied@.contains(cs[i]@[0]),
                forall|k: int| 0 <= k < it.index@ ==> cur_state.val((#[trigger] implied@[k]).lbl) == Some(implied@[k].pol),
                norm_ok(cs) ==> cur.winv() && cur.watch_ok(cur_state),
//%% @loopbody 3
            let ghost u1 = cur;
            let ghost m1 = cur_state;
            proof {
                let m = cur_state;
                assert forall|l: Literal, r2: UnitPropResult| implied_by(cs, m) && unit_lit_ok(cs, l) && #[trigger] decide_sound(cs, m, l, r2)
                    implies (r2 is UNSAT ==> unsat(cs)) && (r2 matches UnitPropResult::PartialSAT(m2) ==> implied_by(cs, m2)) by { lemma_step_initial(cs, m, l, r2); }
            }
//%% @before /let mut implied: Vec<Literal> = Vec::new\(\);/
        proof { if norm_ok(cs) { lemma_built_start(mk(watch_list_pos, watch_list_neg, cnf)); } }
//%% @after /implied\.push\(c\[0\]\);/
                proof { if norm_ok(cs) { lemma_built_skip(mk(watch_list_pos, watch_list_neg, cnf), idx as int); } }
//%% @loopend 2
            proof {
                if norm_ok(cs) {
                    let u2 = mk(watch_list_pos, watch_list_neg, cnf);
                    assert(cs[idx as int][1] == c@[1] && cs[idx as int][0] == c@[0]);
                    assert(c@[0] != c@[1]) by { reveal(norm_ok); assert(norm1(cs[idx as int]@)); assert(cs[idx as int]@[0int] != cs[idx as int]@[0int + 1]); }
                    assert(u2.list(c@[1]) =~= u1.list(c@[1]).push(idx));
                    assert(u2.list(c@[0]) =~= u1.list(c@[0]).push(idx));
                    lemma_built_step(u1, u2, idx);
                }
            }
//%% @after /let mut cur_state = PartialModel::new\(cur\.cnf\.num_vars\(\)\);/
        proof { if norm_ok(cs) { lemma_built_done(cur); lemma_watch_empty(cur, cur_state); } }
//%% @after /cur_state = r;/
                    proof { if norm_ok(cs) { lemma_watch_step(u1, cur, m1, cur_state); } }
//%% end

// R-filter: `clause.iter().filter(|x| P)` is replaced by the vector of the references the filter yields (an indexed loop over the
// same clause, the predicate text P verbatim); on it `.clone().count()` is the length, and `.next().unwrap()` / `.nth(1).unwrap()`
// -- each applied, on every path, to the iterator in its INITIAL position (the only other uses go through `.clone()`) -- are
// elements 0 and 1.  `Vec::contains` is the stub of A-vec-contains.  R-for-while for the `for lit in clause.iter()` loop (it breaks).
//%% extract src/repr/unit_prop.rs :: impl UnitPropagate :: fn decide
//%% @pub
//%% @ret r
//%% @attr #[verifier::exec_allows_no_decreases_clause]
//%% @attr #[verifier::loop_isolation(false)] #[verifier::allow_complex_invariants]
//%% @rewrite 1 /for lit in clause\.iter\(\) \{/ => let mut lit__i: usize = 0; while lit__i < clause.len() { let lit = &clause[lit__i]; lit__i += 1;
//%% @rewrite 1 /let mut remaining_lits = clause\.iter\(\)\.filter\(\|x\| (.*?)\);\n/ => let mut remaining_lits: Vec<&Literal> = Vec::new(); let mut flt__i: usize = 0; while flt__i < clause.len() { let x = &clause[flt__i]; flt__i += 1; if \1 { remaining_lits.push(x); } }\n
//%% @rewrite 1 /remaining_lits\.clone\(\)\.count\(\)/ => remaining_lits.len()
//%% @rewrite 1..3 /remaining_lits\.clone\(\)\.next\(\)\.unwrap\(\)/ => remaining_lits[0]
//%% @rewrite 1..5 /remaining_lits\.next\(\)\.unwrap\(\)/ => remaining_lits[0]
//%% @rewrite 0..4 /remaining_lits\.nth\(1\)\.unwrap\(\)/ => remaining_lits[1]
//%% @rewrite 1 /self\.watch_list_pos\[candidate_unwatched\]\.contains\(&prev_watcher\)/ => verif_vec_contains(&self.watch_list_pos[candidate_unwatched], &prev_watcher)
//%% @rewrite 1 /self\.watch_list_neg\[candidate_unwatched\]\.contains\(&prev_watcher\)/ => verif_vec_contains(&self.watch_list_neg[candidate_unwatched], &prev_watcher)
//%% @spec
        requires old(self).inv(), cur_state.wf(), new_assignment.lbl.0 < old(self).cnf.num_vars,
        ensures
            final(self).inv(), final(self).cnf == old(self).cnf,
            decide_sound(old(self).cnf.clauses@, cur_state, new_assignment, r),
            r matches UnitPropResult::PartialSAT(m) ==> ranged(m, cur_state, old(self).cnf.num_vars as int),
            // two-watched-literal scheme: the structural invariant is kept; lists of literals on assigned variables are not
            // touched; every clause watched by a literal that this call makes false is satisfied by the returned model
            old(self).winv() ==> final(self).winv() && frame_ok(*old(self), *final(self), cur_state)
                && (r matches UnitPropResult::PartialSAT(m) ==> newly_ok(*final(self), cur_state, m)),
//%% @entry
        let ghost m0 = cur_state;
        let ghost cs = self.cnf.clauses@;
        let ghost u0 = *self;
        let ghost nl = lneg(new_assignment);
        proof {
            assert(extends(m0, m0));
            assert(entailed(cs, m0, new_assignment, m0));
        }
//%% @loop 1 /^loop$/
            invariant
                self.inv(), self.cnf == old(self).cnf, cs == self.cnf.clauses@,
                cur_state.wf(), extends(cur_state, m0), cur_state.val(new_assignment.lbl) == Some(new_assignment.pol),
                entailed(cs, m0, new_assignment, cur_state),
                ranged(cur_state, m0, self.cnf.num_vars as int),
                var_idx == new_assignment.lbl.0, var_idx < self.cnf.num_vars,
                u0.winv() ==> prog(u0, *self, m0, cur_state, nl, watcher_idx as int),
//%% @loopbody 1
            let ghost w0 = watcher_idx as int;
            proof {
                let m = cur_state;
                assert forall|c: Seq<Literal>| clause_of(cs, c) && #[trigger] none_true_upto(c, m, c.len() as int) && unassigned(c, m).len() == 0
                    implies refuted(cs, m0, new_assignment) by { lemma_step_unsat(cs, m0, new_assignment, m, c); }
                assert forall|c: Seq<Literal>, r2: UnitPropResult| clause_of(cs, c) && none_true_upto(c, m, c.len() as int) && unassigned(c, m).len() == 1
                    && #[trigger] decide_sound(cs, m, unassigned(c, m)[0], r2)
                    implies (r2 is UNSAT ==> refuted(cs, m0, new_assignment))
                        && (r2 matches UnitPropResult::PartialSAT(m2) ==> entailed(cs, m0, new_assignment, m2) && extends(m2, m0)) by { lemma_step_unit(cs, m0, new_assignment, m, c, r2); }
                assert forall|c: Seq<Literal>| #![trigger unassigned(c, m)] forall|i: int| 0 <= i < unassigned(c, m).len() ==> c.contains(#[trigger] unassigned(c, m)[i]) && m.val(unassigned(c, m)[i].lbl) is None by { lemma_unassigned_members(c, m, c.len() as int); }
            }
//%% @loop 2 /^while lit__i < clause\.len\(\)$/
                invariant_except_break
                    lit__i <= clause.len(), !is_sat, watcher_idx == w0,
                    none_true_upto(clause@, cur_state, lit__i as int),
                    (if new_assignment.pol { watcher_idx < self.watch_list_neg@[var_idx as int]@.len() } else { watcher_idx < self.watch_list_pos@[var_idx as int]@.len() }),
                ensures
                    is_sat ==> watcher_idx == w0 + 1 && clause_true_p(clause@, cur_state),
                    !is_sat ==> watcher_idx == w0 && none_true_upto(clause@, cur_state, clause@.len() as int),
//%% @loop 3 /^while flt__i < clause\.len\(\)$/
                invariant
                    flt__i <= clause.len(),
                    remaining_lits@.len() == unassigned_upto(clause@, cur_state, flt__i as int).len(),
                    forall|i: int| 0 <= i < remaining_lits@.len() ==> *(#[trigger] remaining_lits@[i]) == unassigned_upto(clause@, cur_state, flt__i as int)[i],
//%% @after /^\s*Some\(v\) => \{$/
                proof { lemma_noop_newly(*self, cur_state); }
//%% @after /let var_idx = new_assignment\.label\(\)\.value\(\) as usize;/
        proof { if u0.winv() { lemma_prog_init(u0, m0, cur_state, new_assignment); } }
//%% @after /^\s*if is_sat \{$/
                proof { if u0.winv() { lemma_prog_sat(u0, *self, m0, cur_state, nl, w0); } }
//%% @after /let new_unit = remaining_lits\[0\];/
                let ghost u1 = *self;
                let ghost m1 = cur_state;
                let ghost uu = *new_unit;
                let ghost cl = clause@;
//%% @after /cur_state = new_state;/
                        proof {
                            if u0.winv() {
                                lemma_unassigned_members(cl, m1, cl.len() as int);
                                lemma_member_sat(cl, uu, cur_state);
                                lemma_prog_rec(u0, u1, *self, m0, m1, cur_state, nl, w0);
                            }
                        }
//%% @after /let \w+ = new_lit\.label\(\)\.value_usize\(\);/
                let ghost u1 = *self;
                let ghost nlit = *new_lit;
//%% @before /\/\/ do not increment watcher_idx/
                proof {
                    if u0.winv() {
                        assert(self.list(nlit) =~= u1.list(nlit).push(u1.list(nl)[w0]));
                        lemma_taken_out(u1.list(nl), self.list(nl), w0);
                        lemma_prog_move(u0, u1, *self, m0, cur_state, nl, w0, nlit);
                    }
                }
//%% @before /^\s*UnitPropResult::PartialSAT\(cur_state\)$/
        proof { if u0.winv() { lemma_prog_exit(u0, *self, m0, cur_state, nl, watcher_idx as int); } }
//%% end
}

//%% include inc/unitprop_fix.rs
