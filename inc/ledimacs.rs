// ---- src/repr/logical_expr.rs: LogicalExpr::from_dimacs -- parsed DIMACS instance -> expression tree (C17) ----
//%% include trusted/dimacs_stub.rs

/// the meaning of a parsed DIMACS literal / clause / instance when variable k of the text is read at index k + d of the assignment
pub open spec fn xlit(l: Lit, env: IEnv, d: int) -> bool { env((l.v as int + d) as usize) == (l.s is Pos) }
pub open spec fn xclause(c: Seq<Lit>, k: int, env: IEnv, d: int) -> bool { exists|j: int| 0 <= j < k && xlit(#[trigger] c[j], env, d) }
pub open spec fn xcnf(cs: Seq<Clause>, k: int, env: IEnv, d: int) -> bool { forall|i: int| 0 <= i < k ==> xclause((#[trigger] cs[i]).ls@, cs[i].ls@.len() as int, env, d) }
/// at least one clause, no empty clause (the expression type has neither the empty conjunction nor the empty disjunction: the real
/// function panics on them), variable numbers fit usize
pub open spec fn xdimacs_ok(cs: Seq<Clause>) -> bool {
    cs.len() >= 1 && forall|i: int| 0 <= i < cs.len() ==> (#[trigger] cs[i]).ls@.len() >= 1
}
/// the literals lv[0..k) are the conversions of c[0..k)
pub open spec fn xconv(c: Seq<Lit>, lv: Seq<LogicalExpr>, k: int) -> bool {
    forall|j: int| 0 <= j < k ==> #[trigger] lv[j] == LogicalExpr::Literal(c[j].v as usize, c[j].s is Pos)
}
pub proof fn lemma_xclause_step(c: Seq<Lit>, k: int, env: IEnv, d: int)
    requires 0 <= k < c.len(),
    ensures xclause(c, k + 1, env, d) == (xclause(c, k, env, d) || xlit(c[k], env, d)),
{
    if xclause(c, k + 1, env, d) { let j = choose|j: int| 0 <= j < k + 1 && xlit(#[trigger] c[j], env, d); if j < k { assert(xclause(c, k, env, d)); } }
    if xclause(c, k, env, d) { let j = choose|j: int| 0 <= j < k && xlit(#[trigger] c[j], env, d); assert(xlit(c[j], env, d)); }
    if xlit(c[k], env, d) { assert(xclause(c, k + 1, env, d)); }
}

pub proof fn lemma_xcnf_step(cs: Seq<Clause>, k: int, env: IEnv, d: int)
    requires 0 <= k < cs.len(),
    ensures xcnf(cs, k + 1, env, d) == (xcnf(cs, k, env, d) && xclause(cs[k].ls@, cs[k].ls@.len() as int, env, d)),
{
    if xcnf(cs, k, env, d) && xclause(cs[k].ls@, cs[k].ls@.len() as int, env, d) {
        assert forall|i: int| 0 <= i < k + 1 implies xclause((#[trigger] cs[i]).ls@, cs[i].ls@.len() as int, env, d) by { if i < k { } }
    }
    if xcnf(cs, k + 1, env, d) { assert(xclause(cs[k].ls@, cs[k].ls@.len() as int, env, d)); }
}
/// the expression e means the clause c (all of it)
pub open spec fn cl_is(e: LogicalExpr, c: Seq<Lit>) -> bool { forall|env: IEnv| #[trigger] tri(env) ==> le_sem(e, env) == xclause(c, c.len() as int, env, 0) }
pub open spec fn cls_are(cv: Seq<LogicalExpr>, cs: Seq<Clause>, k: int) -> bool { forall|i: int| 0 <= i < k ==> cl_is(#[trigger] cv[i], cs[i].ls@) }
/// the expression e means: literal `last` or one of the first k literals of c
pub open spec fn cl_part(e: LogicalExpr, c: Seq<Lit>, last: int, k: int) -> bool {
    forall|env: IEnv| #[trigger] tri(env) ==> le_sem(e, env) == (xlit(c[last], env, 0) || xclause(c, k, env, 0))
}
/// the expression e means: clause `last` and the first k clauses
pub open spec fn cnf_part(e: LogicalExpr, cs: Seq<Clause>, last: int, k: int) -> bool {
    forall|env: IEnv| #[trigger] tri(env) ==> le_sem(e, env) == (xclause(cs[last].ls@, cs[last].ls@.len() as int, env, 0) && xcnf(cs, k, env, 0))
}

impl LogicalExpr {
// R-parse: the `match parse_dimacs(input).unwrap() { .. }` prologue is the stub verif_parse_dimacs_cnf (A-dimacs).
// R-for-while: `for x in xs.iter()` -> indexed loop over the same elements; `for x in v` (consuming a Vec) -> indexed loop over the same
// elements in order, `x` bound to a clone of the element (A-clone: the derived Clone of LogicalExpr is a structural copy).
//%% extract src/repr/logical_expr.rs :: impl LogicalExpr :: fn from_dimacs
//%% @ret res
//%% @rewrite 1 /let \(_, cvec\) = match parse_dimacs\(input\)\.unwrap\(\) \{.*?\n        \};/ => let cvec = verif_parse_dimacs_cnf(input);
//%% @rewrite 1 /for itm in cvec\.iter\(\) \{/ => let mut c__i: usize = 0; while c__i < cvec.len() { let itm = &cvec[c__i]; c__i += 1;
//%% @rewrite 1 /for l in itm\.lits\(\)\.iter\(\) \{/ => let l__s = itm.lits(); let mut l__i: usize = 0; while l__i < l__s.len() { let l = &l__s[l__i]; l__i += 1;
//%% @rewrite 1 /for lit in lit_vec \{/ => let mut v__i: usize = 0; while v__i < lit_vec.len() { let lit = verif_clone_le(&lit_vec[v__i]); v__i += 1;
//%% @rewrite 1 /for clause in clause_vec \{/ => let mut w__i: usize = 0; while w__i < clause_vec.len() { let clause = verif_clone_le(&clause_vec[w__i]); w__i += 1;
//%% @rewrite 1 /(e = LogicalExpr::\w+\(Box::new\(\w+\), Box::new\(\w+\)\))\n/ => \1;\n
//%% @spec
        requires xdimacs_ok(parsed(input)),
        ensures
            // THE property: the expression has the models of the text, variable k of the text being index k of the assignment
            forall|env: IEnv| #[trigger] tri(env) ==> le_sem(res, env) == xcnf(parsed(input), parsed(input).len() as int, env, 0),
//%% @loop 1 /^while c__i < cvec\.len\(\)$/
            invariant
                c__i <= cvec.len(), cvec@ == parsed(input), xdimacs_ok(cvec@),
                clause_vec@.len() == c__i, cls_are(clause_vec@, cvec@, c__i as int),
            decreases cvec.len() - c__i,
//%% @loop 2 /^while l__i < l__s\.len\(\)$/
                invariant
                    l__i <= l__s.len(), l__s@ == itm.ls@, lit_vec@.len() == l__i, xconv(l__s@, lit_vec@, l__i as int),
                decreases l__s.len() - l__i,
//%% @before /^\s*if lit_vec\.len\(\) \S+ \d+ \{$/
            let ghost c = itm.ls@;
            let ghost n = c.len() as int;
            let ghost lv0 = lit_vec@;
            proof {
                assert(itm.ls@.len() >= 1);
                assert forall|env: IEnv| tri(env) implies #[trigger] xclause(c, 0, env, 0) == false by {}
                assert forall|env: IEnv, j: int| #![trigger tri(env), lv0[j]] tri(env) && 0 <= j < n implies le_sem(lv0[j], env) == xlit(c[j], env, 0) by {}
                if n == 1 { assert forall|env: IEnv| #[trigger] tri(env) implies le_sem(lv0[0], env) == xclause(c, 1, env, 0) by { lemma_xclause_step(c, 0, env, 0); } }
            }
//%% @loop 3 /^while v__i < lit_vec\.len\(\)$/
                    invariant
                        v__i <= lit_vec.len(), lit_vec@ == lv0.drop_last(), n == c.len(), n >= 2, lv0.len() == n, xconv(c, lv0, n),
                        cl_part(clause, c, n - 1, v__i as int),
                    decreases lit_vec.len() - v__i,
//%% @loopbody 3
                    let ghost cl0 = clause;
//%% @loopend 3
                    proof {
                        let k = v__i as int - 1;
                        assert forall|env: IEnv| #[trigger] tri(env) implies le_sem(clause, env) == (xlit(c[n - 1], env, 0) || xclause(c, k + 1, env, 0)) by {
                            lemma_xclause_step(c, k, env, 0);
                            assert(le_sem(clause, env) == (le_sem(cl0, env) || le_sem(lit, env)));
                            assert(lit == lv0[k]);
                        }
                    }
//%% @after /^\s*clause_vec\.push\(clause\);$/
                proof {
                    assert forall|env: IEnv| #[trigger] tri(env) implies le_sem(clause_vec@[c__i as int - 1], env) == xclause(c, n, env, 0) by { lemma_xclause_step(c, n - 1, env, 0); }
                }
//%% @before /^\s*if clause_vec\.len\(\) \S+ \d+ \{$/
        let ghost cs = cvec@;
        let ghost m = cs.len() as int;
        let ghost cv0 = clause_vec@;
        proof {
            assert forall|env: IEnv| tri(env) implies #[trigger] xcnf(cs, 0, env, 0) == true by {}
            if m == 1 { assert forall|env: IEnv| #[trigger] tri(env) implies le_sem(cv0[0], env) == xcnf(cs, 1, env, 0) by { lemma_xcnf_step(cs, 0, env, 0); assert(cl_is(cv0[0], cs[0].ls@)); } }
            else { assert(cl_is(cv0[m - 1], cs[m - 1].ls@)); }
        }
//%% @loop 4 /^while w__i < clause_vec\.len\(\)$/
                invariant
                    w__i <= clause_vec.len(), clause_vec@ == cv0.drop_last(), cv0.len() == m, m == cs.len(), m >= 2, cls_are(cv0, cs, m),
                    cnf_part(e, cs, m - 1, w__i as int),
                decreases clause_vec.len() - w__i,
//%% @loopbody 4
                let ghost e0 = e;
//%% @loopend 4
                proof {
                    let k = w__i as int - 1;
                    assert(cl_is(cv0[k], cs[k].ls@));
                    assert forall|env: IEnv| #[trigger] tri(env) implies le_sem(e, env) == (xclause(cs[m - 1].ls@, cs[m - 1].ls@.len() as int, env, 0) && xcnf(cs, k + 1, env, 0)) by {
                        lemma_xcnf_step(cs, k, env, 0);
                        assert(le_sem(e, env) == (le_sem(e0, env) && le_sem(clause, env)));
                        assert(clause == cv0[k]);
                    }
                }
//%% @before /^\s*e$/
            proof {
                assert forall|env: IEnv| #[trigger] tri(env) implies le_sem(e, env) == xcnf(cs, m, env, 0) by { lemma_xcnf_step(cs, m - 1, env, 0); }
            }
//%% end
}
/// A-clone
#[verifier::external_body]
pub fn verif_clone_le(e: &LogicalExpr) -> (r: LogicalExpr)
    ensures r == *e,
{ unimplemented!() }
