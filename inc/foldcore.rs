// ---- the vocabulary every fold shares: the DDNNF argument type, its ghost view, aggregating functions at spec level ----
//%% include trusted/varset_view.rs

//%% extract src/repr/ddnnf.rs :: - :: enum DDNNF
//%% end
//%% extract src/repr/bdd.rs :: - :: type DDNNFCache
//%% @pub
//%% end

/// ghost mirror of `DDNNF<T>` with the `VarSet` of an `Or` seen as a set (two VarSet values with the same elements are
/// the same argument for the purposes of a contract)
pub ghost enum DV<T> { Or(T, T, ISet<u64>), And(T, T), Lit(VarLabel, bool), True, False }
pub open spec fn dview<T>(x: DDNNF<T>) -> DV<T> {
    match x {
        DDNNF::Or(a, b, vs) => DV::Or(a, b, vs@),
        DDNNF::And(a, b) => DV::And(a, b),
        DDNNF::Lit(v, b) => DV::Lit(v, b),
        DDNNF::True => DV::True,
        DDNNF::False => DV::False,
    }
}
/// an aggregating function at spec level
pub type Alg<T> = spec_fn(DV<T>) -> T;
/// the closure `f` computes the function `g` (wherever it returns at all)
pub open spec fn f_det<T, F: Fn(DDNNF<T>) -> T>(f: F, g: Alg<T>) -> bool {
    forall|x: DDNNF<T>, r: T| #[trigger] f.ensures((x,), r) ==> r == g(dview(x))
}
/// the values inside the argument satisfy the representation invariant of the semiring type
pub open spec fn args_valid<T: Semiring>(x: DDNNF<T>) -> bool {
    match x { DDNNF::Or(a, b, _) => a.valid() && b.valid(), DDNNF::And(a, b) => a.valid() && b.valid(), _ => true }
}
/// whatever the closure returns is a valid element
pub open spec fn f_val<T: Semiring, F: Fn(DDNNF<T>) -> T>(f: F) -> bool { forall|x: DDNNF<T>, r: T| #[trigger] f.ensures((x,), r) ==> r.valid() }

/// mirror of the part of `DDNNFPtr` (src/repr/ddnnf.rs) that concerns counting: `fold` (implemented per pointer type) and
/// the default method `unsmoothed_wmc`, generic in the pointer type and the semiring
pub trait DDNNFFold: Sized {
    /// the value of the structural fold of this diagram under the aggregating function g
    spec fn fold_s<T>(self, g: Alg<T>) -> T;
    /// the diagram tests variable v somewhere
    spec fn has_var(self, v: VarLabel) -> bool;

    fn fold<T: Semiring, F: Fn(DDNNF<T>) -> T>(&self, f: F) -> (r: T)
        where T: 'static
        requires
            forall|x: DDNNF<T>| (x matches DDNNF::Lit(v, _) ==> self.has_var(v)) && args_valid(x) ==> #[trigger] f.requires((x,)),
            f_val(f),
        ensures r.valid(), forall|g: Alg<T>| #![trigger f_det(f, g)] #![trigger self.fold_s(g)] f_det(f, g) ==> r == self.fold_s(g);

//%% extract src/repr/ddnnf.rs :: trait DDNNFPtr<'a>: Clone + Debug + PartialEq + Eq + Hash + Copy :: fn unsmoothed_wmc
//%% @ret r
//%% @rewrite 1 /self\.fold\(\|ddnnf\| \{/ => self.fold(|ddnnf: DDNNF<T>| -> (res: T) requires (ddnnf matches DDNNF::Lit(v, _) ==> params.has_weight(v)), args_valid(ddnnf) ensures res.valid(), res == wmc_alg(params.wview(), params.one, params.zero)(dview(ddnnf)) {
//%% @spec
        requires
            sr_ops_ok::<T>(), params.wf(),
            forall|v: VarLabel| self.has_var(v) ==> params.has_weight(v),
        ensures r.valid(), r == self.fold_s(wmc_alg(params.wview(), params.one, params.zero)),
//%% end
}

/// the exec operators of the semiring type compute their specifications on valid elements and stay inside them
pub open spec fn sr_ops_ok<T: Semiring>() -> bool {
    &&& T::obeys_add_spec() && T::obeys_mul_spec()
    &&& forall|a: T, b: T| a.valid() && b.valid() ==> #[trigger] a.add_req(b)
    &&& forall|a: T, b: T| a.valid() && b.valid() ==> #[trigger] a.mul_req(b)
    &&& forall|a: T, b: T| a.valid() && b.valid() ==> (#[trigger] a.add_spec(b)).valid()
    &&& forall|a: T, b: T| a.valid() && b.valid() ==> (#[trigger] a.mul_spec(b)).valid()
}
/// (low, high) weight per variable label
pub type W<T> = spec_fn(u64) -> (T, T);
/// the aggregating function of a weighted count: Or = +, And = *, a literal = its weight, True / False = the constants
pub open spec fn wmc_alg<T: Semiring>(w: W<T>, one: T, zero: T) -> Alg<T> {
    |x: DV<T>| match x {
        DV::Or(l, r, _) => l.add_spec(r),
        DV::And(l, r) => l.mul_spec(r),
        DV::True => one,
        DV::False => zero,
        DV::Lit(v, b) => if b { w(v.0).1 } else { w(v.0).0 },
    }
}

//%% extract src/repr/wmc.rs :: - :: struct WmcParams
//%% @pub
//%% end

impl<T: Semiring> WmcParams<T> {
    pub open spec fn has_weight(&self, v: VarLabel) -> bool { v.0 < self.var_to_val@.len() && self.var_to_val@[v.0 as int] is Some }
    /// the weights as a function of the label (arbitrary where none is set)
    pub open spec fn wview(&self) -> W<T> { |l: u64| if l < self.var_to_val@.len() && self.var_to_val@[l as int] is Some { self.var_to_val@[l as int]->Some_0 } else { arbitrary() } }
    /// every stored value is a valid element of the semiring type
    pub open spec fn wf(&self) -> bool {
        &&& self.one.valid() && self.zero.valid()
        &&& forall|i: int| 0 <= i < self.var_to_val@.len() ==> (#[trigger] self.var_to_val@[i] matches Some(p) ==> p.0.valid() && p.1.valid())
    }
    /// the constants are the semiring's (true of `new` and `default`; the fields are public)
    pub open spec fn consts_ok(&self) -> bool { self.one == T::one_s() && self.zero == T::zero_s() }

//%% extract src/repr/wmc.rs :: impl<T: Semiring> WmcParams<T> :: fn var_weight
//%% @ret r
//%% @spec
        requires self.has_weight(label),
        ensures *r == self.wview()(label.0),
//%% end

//%% extract src/repr/wmc.rs :: impl<T: Semiring> WmcParams<T> :: fn set_weight
//%% @spec
        requires lbl.0 < usize::MAX,
        ensures
            final(self).has_weight(lbl), final(self).wview()(lbl.0) == (low, high),
            forall|v: VarLabel| v != lbl && old(self).has_weight(v) ==> #[trigger] final(self).has_weight(v) && final(self).wview()(v.0) == old(self).wview()(v.0),
            final(self).one == old(self).one, final(self).zero == old(self).zero,
//%% @loop 1 /^while n .*self\.var_to_val\.len\(\)$/
            invariant
                n == lbl.0, n < usize::MAX, self.one == old(self).one, self.zero == old(self).zero,
                old(self).var_to_val@.len() <= self.var_to_val@.len(),
                forall|i: int| 0 <= i < old(self).var_to_val@.len() ==> self.var_to_val@[i] == old(self).var_to_val@[i],
                forall|i: int| old(self).var_to_val@.len() <= i < self.var_to_val@.len() ==> self.var_to_val@[i] is None,
            decreases usize::MAX - self.var_to_val@.len(),
//%% end
}

// `Default::default` / `WmcParams::new` (which set `one` / `zero` from `T::one()` / `T::zero()`) are not under contract:
// a trait-method implementation cannot carry the precondition `T::ops_ok()` that the semiring mirror puts on the
// constants, and `new` iterates a HashMap.  `consts_ok` is therefore a premise of the counting theorems.
