// ---- src/repr/cnf.rs: Cnf::from_dimacs -- the conversion of a parsed DIMACS instance into clauses (C17: "1-based to 0-based") ----
//%% include trusted/dimacs_stub.rs

/// the meaning of a parsed DIMACS literal under an assignment of the variables 1..n, given as a[0..n): variable k is a[k-1]
pub open spec fn dlit_true(l: Lit, a: Seq<bool>) -> bool { a[l.v as int - 1] == (l.s is Pos) }
pub open spec fn dclause_true(c: Seq<Lit>, a: Seq<bool>) -> bool { exists|j: int| 0 <= j < c.len() && dlit_true(#[trigger] c[j], a) }
pub open spec fn dimacs_true(cs: Seq<Clause>, a: Seq<bool>) -> bool { forall|i: int| 0 <= i < cs.len() ==> dclause_true((#[trigger] cs[i]).ls@, a) }
/// variable numbers are at least 1 (DIMACS) and fit the 63 bits of a packed literal
pub open spec fn dimacs_ok(cs: Seq<Clause>) -> bool {
    forall|i: int, j: int| 0 <= i < cs.len() && 0 <= j < cs[i].ls@.len() ==> 1 <= (#[trigger] cs[i].ls@[j]).v <= 0x8000_0000_0000_0000
}
/// literal j of the converted clause is literal j of the parsed clause: label = number - 1, polarity = positive sign
pub open spec fn conv_lit(l: Lit, r: Literal) -> bool { r.lbl.0 == l.v - 1 && r.pol == (l.s is Pos) }
pub open spec fn conv_clause(c: Seq<Lit>, r: Seq<Literal>, k: int) -> bool { forall|j: int| 0 <= j < k ==> conv_lit(#[trigger] c[j], r[j]) }
pub open spec fn conv_cnf(cs: Seq<Clause>, r: Seq<Vec<Literal>>, k: int) -> bool {
    forall|i: int| 0 <= i < k ==> (#[trigger] r[i])@.len() == cs[i].ls@.len() && conv_clause(cs[i].ls@, r[i]@, cs[i].ls@.len() as int)
}
pub proof fn lemma_conv_meaning(cs: Seq<Clause>, r: Seq<Vec<Literal>>, a: Seq<bool>)
    requires r.len() == cs.len(), conv_cnf(cs, r, cs.len() as int),
    ensures cnf_true(r, a) == dimacs_true(cs, a),
{
    assert forall|i: int| 0 <= i < cs.len() implies clause_true((#[trigger] r[i])@, a) == dclause_true(cs[i].ls@, a) by {
        let c = cs[i].ls@; let q = r[i]@;
        assert(conv_clause(c, q, c.len() as int));
        if clause_true(q, a) { let j = choose|j: int| 0 <= j < q.len() && lit_true(#[trigger] q[j], a); assert(conv_lit(c[j], q[j])); assert(dlit_true(c[j], a)); }
        if dclause_true(c, a) { let j = choose|j: int| 0 <= j < c.len() && dlit_true(#[trigger] c[j], a); assert(conv_lit(c[j], q[j])); assert(lit_true(q[j], a)); }
    }
    if cnf_true(r, a) { assert forall|i: int| 0 <= i < cs.len() implies dclause_true((#[trigger] cs[i]).ls@, a) by { assert(clause_true(r[i]@, a)); } }
    if dimacs_true(cs, a) { assert forall|i: int| 0 <= i < r.len() implies clause_true((#[trigger] r[i])@, a) by { assert(dclause_true(cs[i].ls@, a)); } }
}

impl Cnf {
// R-parse: `use dimacs::*;` and the `match parse_dimacs(input).unwrap() { .. }` prologue are the stub verif_parse_dimacs_cnf (A-dimacs).
// R-for-while: the two `for x in xs.iter()` loops are indexed loops over the same elements, bodies verbatim.
//%% extract src/repr/cnf.rs :: impl Cnf :: fn from_dimacs
//%% @ret r
//%% @rewrite 1 /use dimacs::\*;\n/ => 
//%% @rewrite 1 /let \(_, cvec\) = match parse_dimacs\(input\)\.unwrap\(\) \{.*?\n        \};/ => let cvec = verif_parse_dimacs_cnf(input);
//%% @rewrite 1 /for itm in cvec\.iter\(\) \{/ => let mut c__i: usize = 0; while c__i < cvec.len() { let itm = &cvec[c__i]; c__i += 1;
//%% @rewrite 1 /for l in itm\.lits\(\)\.iter\(\) \{/ => let l__s = itm.lits(); let mut l__i: usize = 0; while l__i < l__s.len() { let l = &l__s[l__i]; l__i += 1;
//%% @spec
        requires dimacs_ok(parsed(input)),
        ensures
            r.clauses.len() == parsed(input).len(),
            // THE property: the formula has the models the text has, variable k of the text being position k-1
            forall|a: Seq<bool>| #[trigger] cnf_true(r.clauses@, a) == dimacs_true(parsed(input), a),
//%% @loop 1 /^while c__i < cvec\.len\(\)$/
            invariant
                c__i <= cvec.len(), cvec@ == parsed(input), dimacs_ok(cvec@),
                clause_vec@.len() == c__i, conv_cnf(cvec@, clause_vec@, c__i as int), small(clause_vec@),
            decreases cvec.len() - c__i,
//%% @loop 2 /^while l__i < l__s\.len\(\)$/
                invariant
                    l__i <= l__s.len(), l__s@ == itm.ls@, 0 < c__i <= cvec.len(), *itm == cvec@[c__i as int - 1], dimacs_ok(cvec@),
                    lit_vec@.len() == l__i, conv_clause(l__s@, lit_vec@, l__i as int), small1(lit_vec@),
                decreases l__s.len() - l__i,
//%% @before /Cnf::new\(&clause_vec\)/
        proof {
            assert forall|a: Seq<bool>| true implies #[trigger] cnf_true(clause_vec@, a) == dimacs_true(parsed(input), a) by { lemma_conv_meaning(parsed(input), clause_vec@, a); }
        }
//%% end
}
