// ---- src/util/semirings/boolean.rs: the Boolean semiring (the semiring `evaluate` counts in) ----
#[derive(Clone, Copy)]
//%% extract src/util/semirings/boolean.rs :: - :: struct BooleanSemiring
//%% end

impl Semiring for BooleanSemiring {
    open spec fn ops_ok() -> bool { true }
    open spec fn one_s() -> Self { BooleanSemiring(true) }
    open spec fn zero_s() -> Self { BooleanSemiring(false) }
    open spec fn valid(self) -> bool { true }
//%% extract src/util/semirings/boolean.rs :: impl Semiring for BooleanSemiring :: fn one
//%% end
//%% extract src/util/semirings/boolean.rs :: impl Semiring for BooleanSemiring :: fn zero
//%% end
}
impl AddSpecImpl<BooleanSemiring> for BooleanSemiring {
    open spec fn obeys_add_spec() -> bool { true }
    open spec fn add_req(self, rhs: BooleanSemiring) -> bool { true }
    open spec fn add_spec(self, rhs: BooleanSemiring) -> Self::Output { BooleanSemiring(self.0 || rhs.0) }
}
impl ops::Add<BooleanSemiring> for BooleanSemiring {
    type Output = BooleanSemiring;
//%% extract src/util/semirings/boolean.rs :: impl ops::Add<BooleanSemiring> for BooleanSemiring :: fn add
//%% end
}
impl MulSpecImpl<BooleanSemiring> for BooleanSemiring {
    open spec fn obeys_mul_spec() -> bool { true }
    open spec fn mul_req(self, rhs: BooleanSemiring) -> bool { true }
    open spec fn mul_spec(self, rhs: BooleanSemiring) -> Self::Output { BooleanSemiring(self.0 && rhs.0) }
}
impl ops::Mul<BooleanSemiring> for BooleanSemiring {
    type Output = BooleanSemiring;
//%% extract src/util/semirings/boolean.rs :: impl ops::Mul<BooleanSemiring> for BooleanSemiring :: fn mul
//%% end
}

/// the Boolean semiring is a commutative semiring, and its exec operators are total and compute their specifications
pub proof fn lemma_csr_bool()
    ensures csr::<BooleanSemiring>(), sr_ops_ok::<BooleanSemiring>(),
{
    reveal(csr);
}
/// the weights `evaluate` builds from an assignment: variable v gets (not a(v), a(v))
pub open spec fn eval_weights(a: Env) -> W<BooleanSemiring> { |l: u64| (BooleanSemiring(!a(l)), BooleanSemiring(a(l))) }
/// THEOREM (C07, "Boolean evaluation of an assignment agrees with the denoted function"): counting in the Boolean
/// semiring under the weights of an assignment yields the value of the diagram's function on that assignment -- for any
/// diagram whatsoever (no shape condition)
pub proof fn eval_theorem(p: BddPtr, c: bool, a: Env)
    ensures wmc_spec(p, c, eval_weights(a)).0 == (ptr_sem(p, a) != c),
    decreases p,
{
    match p {
        BddPtr::Reg(n) => { eval_theorem(n.low, c, a); eval_theorem(n.high, c, a); },
        BddPtr::Compl(n) => { eval_theorem(n.low, !c, a); eval_theorem(n.high, !c, a); },
        _ => {},
    }
}
