// ---- src/plan/bottom_up_plan.rs: the constructors and BottomUpPlan::from_dtree ----
/// what a dtree means as a formula: every leaf clause holds
pub open spec fn dtree_holds(t: DTree, env: Env) -> bool {
    forall|i: int| 0 <= i < leaves(t).len() ==> clause_holds(#[trigger] leaves(t)[i], env)
}
/// every literal at a leaf is on a variable b accepts
pub open spec fn dtree_lbls_ok(b: spec_fn(VarLabel) -> bool, t: DTree) -> bool {
    forall|i: int, j: int| 0 <= i < leaves(t).len() && 0 <= j < leaves(t)[i].len() ==> b((#[trigger] leaves(t)[i][j]).lbl)
}
pub proof fn lemma_dtree_node(l: DTree, r: DTree, t: DTree, env: Env)
    requires leaves(t) == leaves(l) + leaves(r),
    ensures dtree_holds(t, env) == (dtree_holds(l, env) && dtree_holds(r, env)),
{
    let (a, b) = (leaves(l), leaves(r));
    if dtree_holds(t, env) {
        assert forall|i: int| 0 <= i < a.len() implies clause_holds(#[trigger] a[i], env) by { assert(leaves(t)[i] == a[i]); }
        assert forall|i: int| 0 <= i < b.len() implies clause_holds(#[trigger] b[i], env) by { assert(leaves(t)[i + a.len()] == b[i]); }
    }
    if dtree_holds(l, env) && dtree_holds(r, env) {
        assert forall|i: int| 0 <= i < leaves(t).len() implies clause_holds(#[trigger] leaves(t)[i], env) by {
            if i < a.len() { assert(leaves(t)[i] == a[i]); } else { assert(leaves(t)[i] == b[i - a.len()]); }
        }
    }
}
pub proof fn lemma_dtree_node_ok(b: spec_fn(VarLabel) -> bool, l: DTree, r: DTree, t: DTree)
    requires leaves(t) == leaves(l) + leaves(r), dtree_lbls_ok(b, t),
    ensures dtree_lbls_ok(b, l), dtree_lbls_ok(b, r),
{
    let (x, y) = (leaves(l), leaves(r));
    assert forall|i: int, j: int| 0 <= i < x.len() && 0 <= j < x[i].len() implies b((#[trigger] x[i][j]).lbl) by { assert(leaves(t)[i] == x[i]); }
    assert forall|i: int, j: int| 0 <= i < y.len() && 0 <= j < y[i].len() implies b((#[trigger] y[i][j]).lbl) by { assert(leaves(t)[i + x.len()] == y[i]); }
}

impl BottomUpPlan {
//%% extract src/plan/bottom_up_plan.rs :: impl BottomUpPlan :: fn and
//%% @ret r
//%% @spec
        ensures r == BottomUpPlan::And(Box::new(p1), Box::new(p2)),
//%% end

//%% extract src/plan/bottom_up_plan.rs :: impl BottomUpPlan :: fn or
//%% @ret r
//%% @spec
        ensures r == BottomUpPlan::Or(Box::new(p1), Box::new(p2)),
//%% end

//%% extract src/plan/bottom_up_plan.rs :: impl BottomUpPlan :: fn literal
//%% @ret r
//%% @spec
        ensures r == BottomUpPlan::Literal(label, polarity),
//%% end

// R-fold: `clause.iter().skip(1).fold(first_lit, |acc, i| BODY)` is replaced by the definition of `fold` over the same elements:
// `{ let mut acc = first_lit; <indexed while over clause[1..]> { let i = &clause[k]; acc = BODY; } acc }`; BODY is the real closure text.
//%% extract src/plan/bottom_up_plan.rs :: impl BottomUpPlan :: fn from_dtree
//%% @props C05
//%% @attr #[verifier::loop_isolation(false)]
//%% @ret r
//%% @rewrite 1 /clause\.iter\(\)\.skip\(1\)\.fold\(first_lit, \|acc, i\| \{/ => { let mut acc = first_lit; let mut i__k: usize = 1; while i__k < clause.len() { let i = &clause[i__k]; i__k += 1; acc = {
//%% @rewrite 1 /\n                    \}\)\n/ => \n                    }; } acc }\n
//%% @spec
        ensures
            // the plan means the conjunction of the leaf clauses
            forall|env: Env| #[trigger] tr(env) ==> plan_sem(r, env) == dtree_holds(*dtree, env), // #SEM
            // and mentions only variables that occur at the leaves
            forall|b: spec_fn(VarLabel) -> bool| dtree_lbls_ok(b, *dtree) ==> #[trigger] plan_ok(b, r),
        decreases *dtree, // #TERM
//%% @entry
        proof {
            tr_all();
            reveal_with_fuel(plan_sem, 3); reveal_with_fuel(plan_ok, 3);
            // plan_ok over the constructors, stated so that the sub-plans' plan_ok terms are present (they trigger the hypotheses about them)
            assert forall|b: spec_fn(VarLabel) -> bool, x: BottomUpPlan, y: BottomUpPlan| #![trigger plan_ok(b, BottomUpPlan::Or(Box::new(x), Box::new(y)))]
                plan_ok(b, BottomUpPlan::Or(Box::new(x), Box::new(y))) == (plan_ok(b, x) && plan_ok(b, y)) by { }
            assert forall|b: spec_fn(VarLabel) -> bool, x: BottomUpPlan, y: BottomUpPlan| #![trigger plan_ok(b, BottomUpPlan::And(Box::new(x), Box::new(y)))]
                plan_ok(b, BottomUpPlan::And(Box::new(x), Box::new(y))) == (plan_ok(b, x) && plan_ok(b, y)) by { }
            assert forall|b: spec_fn(VarLabel) -> bool, l: VarLabel, p: bool| #![trigger plan_ok(b, BottomUpPlan::Literal(l, p))] plan_ok(b, BottomUpPlan::Literal(l, p)) == b(l) by { }
            match dtree {
                DTree::Node { l, r, cutset, vars } => {
                    assert forall|env: Env| #[trigger] tr(env) implies dtree_holds(*dtree, env) == (dtree_holds(**l, env) && dtree_holds(**r, env)) by { lemma_dtree_node(**l, **r, *dtree, env); }
                    assert forall|b: spec_fn(VarLabel) -> bool| dtree_lbls_ok(b, *dtree) implies dtree_lbls_ok(b, **l) && dtree_lbls_ok(b, **r) by { lemma_dtree_node_ok(b, **l, **r, *dtree); }
                }
                DTree::Leaf { clause, cutset, vars } => {
                    assert(leaves(*dtree)[0] == clause@);
                    assert forall|env: Env| #[trigger] tr(env) implies dtree_holds(*dtree, env) == clause_holds(clause@, env) by {
                        if clause_holds(clause@, env) { assert forall|i: int| 0 <= i < leaves(*dtree).len() implies clause_holds(#[trigger] leaves(*dtree)[i], env) by { } }
                    }
                }
            }
        }
//%% @loop 1 /^while i__k < clause\.len\(\)$/
                        invariant
                            1 <= i__k <= clause.len(),
                            forall|env: Env| #[trigger] tr(env) ==> plan_sem(acc, env) == (exists|j: int| 0 <= j < i__k && lit_holds(#[trigger] clause@[j], env)), // #SEM
                            forall|b: spec_fn(VarLabel) -> bool| (forall|j: int| 0 <= j < clause.len() ==> b((#[trigger] clause@[j]).lbl)) ==> #[trigger] plan_ok(b, acc),
                        decreases clause.len() - i__k,
//%% end
}
