// ---- src/repr/{var_label,model,cnf}.rs: VarSet, PartialModel, Cnf::{eval, is_sat_partial} ----
//%% include trusted/bitset.rs
//%% include trusted/literal.rs
//%% include trusted/clone.rs

global size_of usize == 8;

impl VarLabel {
//%% extract src/repr/var_label.rs :: impl VarLabel :: fn value_usize
//%% @ret r
//%% @spec
        ensures r == self.0,
//%% end

//%% extract src/repr/var_label.rs :: impl VarLabel :: fn new_usize
//%% @ret r
//%% @spec
        ensures r.0 == v,
//%% end
}

//%% extract src/repr/var_label.rs :: - :: struct VarSet
//%% @pub
//%% end

impl VarSet {
    /// the set of labels
    pub open spec fn has(self, v: VarLabel) -> bool { self.b@.contains(v.0 as usize) }

//%% extract src/repr/var_label.rs :: impl VarSet :: fn new
//%% @ret r
//%% @spec
        ensures forall|v: VarLabel| !r.has(v),
//%% end

//%% extract src/repr/var_label.rs :: impl VarSet :: fn new_with_num_vars
//%% @ret r
//%% @spec
        ensures forall|v: VarLabel| !r.has(v),
//%% end

//%% extract src/repr/var_label.rs :: impl VarSet :: fn insert
//%% @spec
        ensures final(self).has(v), forall|w: VarLabel| w != v ==> #[trigger] final(self).has(w) == old(self).has(w),
//%% end

//%% extract src/repr/var_label.rs :: impl VarSet :: fn contains
//%% @ret r
//%% @spec
        ensures r == self.has(v),
//%% end

//%% extract src/repr/var_label.rs :: impl VarSet :: fn remove
//%% @spec
        ensures !final(self).has(v), forall|w: VarLabel| w != v ==> #[trigger] final(self).has(w) == old(self).has(w),
//%% end
}

//%% extract src/repr/model.rs :: - :: struct PartialModel
//%% end

/// the value the LAST literal on x in the list gives x (None if the list has no literal on x)
pub open spec fn last_assign(s: Seq<Literal>, x: VarLabel) -> Option<bool>
    decreases s.len()
{
    if s.len() == 0 { None } else if s.last().lbl == x { Some(s.last().pol) } else { last_assign(s.drop_last(), x) }
}

/// the value two variable sets give a variable (PartialModel::val on the sets before they are put into the struct)
pub open spec fn val2(t: VarSet, f: VarSet, x: VarLabel) -> Option<bool> { if t.has(x) { Some(true) } else if f.has(x) { Some(false) } else { None } }

impl PartialModel {
    /// the value the model gives a variable (None if unset)
    pub open spec fn val(self, x: VarLabel) -> Option<bool> {
        if self.true_assignments.has(x) { Some(true) } else if self.false_assignments.has(x) { Some(false) } else { None }
    }
    /// no variable is assigned both values
    pub open spec fn wf(self) -> bool {
        forall|x: VarLabel| !(#[trigger] self.true_assignments.has(x) && self.false_assignments.has(x))
    }

//%% extract src/repr/model.rs :: impl PartialModel :: fn new
//%% @ret r
//%% @spec
        ensures r.wf(), forall|x: VarLabel| r.val(x) is None,
//%% end

// R-enumerate: `for (i, assignment) in assignments.iter().enumerate() {` -> `for i in 0..assignments.len() { let assignment = &assignments[i];`
//%% extract src/repr/model.rs :: impl PartialModel :: fn from_assignments
//%% @ret r
//%% @rewrite 1 /for \(i, assignment\) in assignments\.iter\(\)\.enumerate\(\) \{/ => for i in 0..assignments.len() {\n            let assignment = &assignments[i];
//%% @spec
        ensures
            r.wf(),
            // variable i gets exactly the i-th entry; variables beyond the slice are unset
            forall|x: VarLabel| #![trigger r.true_assignments.has(x)] #![trigger r.false_assignments.has(x)] x.0 < assignments.len() ==> r.val(x) == assignments@[x.0 as int],
            forall|x: VarLabel| #![trigger r.true_assignments.has(x)] #![trigger r.false_assignments.has(x)] x.0 >= assignments.len() ==> r.val(x) is None,
//%% @loop 1 /^for i in 0\.\.assignments\.len\(\)$/
            invariant
                forall|x: VarLabel| #![trigger true_v.has(x)] #![trigger false_v.has(x)] !(true_v.has(x) && false_v.has(x)),
                forall|x: VarLabel| #![trigger true_v.has(x)] #![trigger false_v.has(x)] x.0 < i ==> val2(true_v, false_v, x) == assignments@[x.0 as int],
                forall|x: VarLabel| #![trigger true_v.has(x)] #![trigger false_v.has(x)] x.0 >= i ==> !true_v.has(x) && !false_v.has(x),
//%% end

// R-map-collect: `assignments.iter().map(|x| Some(*x)).collect::<Vec<_>>()` -> push the closure's value for every element, in order
//%% extract src/repr/model.rs :: impl PartialModel :: fn from_total_model
//%% @ret r
//%% @rewrite 1 /Self::from_assignments\(&assignments\.iter\(\)\.map\(\|x\| (.*?)\)\.collect::<Vec<_>>\(\)\)/ => { let mut mc__out: Vec<Option<bool>> = Vec::new(); for x in mc__it: assignments.iter() { let mc__x = \1; mc__out.push(mc__x); } Self::from_assignments(&mc__out) }
//%% @spec
        ensures
            r.wf(),
            forall|x: VarLabel| #![trigger r.true_assignments.has(x)] #![trigger r.false_assignments.has(x)] x.0 < assignments.len() ==> r.val(x) == Some(assignments@[x.0 as int]),
            forall|x: VarLabel| #![trigger r.true_assignments.has(x)] #![trigger r.false_assignments.has(x)] x.0 >= assignments.len() ==> r.val(x) is None,
//%% @loop 1 /^for x in mc__it: assignments\.iter\(\)$/
            invariant
                mc__out@.len() == mc__it.index@,
                forall|k: int| 0 <= k < mc__out@.len() ==> #[trigger] mc__out@[k] == Some(assignments@[k]),
//%% end

//%% extract src/repr/model.rs :: impl PartialModel :: fn from_litvec
//%% @attr #[verifier::loop_isolation(false)]
//%% @ret r
//%% @rewrite 1 /for assgn in assignments \{/ => for assgn in it: assignments.iter() {
//%% @spec
        requires forall|j: int| 0 <= j < assignments.len() ==> (#[trigger] assignments@[j]).lbl.0 < num_vars,
        ensures
            r.wf(),
            // every variable gets the value of the last literal on it
            forall|x: VarLabel| #![trigger r.true_assignments.has(x)] #![trigger r.false_assignments.has(x)] x.0 < num_vars ==> r.val(x) == last_assign(assignments@, x),
            forall|x: VarLabel| #![trigger r.true_assignments.has(x)] #![trigger r.false_assignments.has(x)] x.0 >= num_vars ==> r.val(x) is None,
//%% @entry
        let ghost a0 = assignments@;
        proof {
            assert forall|s: Seq<Literal>, i: int, j: int| #![trigger s.take(i), s.take(j)] 0 <= i < s.len() && j == i + 1 implies s.take(j).drop_last() == s.take(i) && s.take(j).last() == s[i] by {
                assert(s.take(j).drop_last() =~= s.take(i));
            }
            assert(a0.take(a0.len() as int) =~= a0);
        }
//%% @loop 1 /^for assgn in it: assignments\.iter\(\)$/
            invariant
                init_assgn@.len() == num_vars,
                forall|k: int| 0 <= k < num_vars ==> #[trigger] init_assgn@[k] == last_assign(a0.take(it.index@ as int), VarLabel(k as u64)),
//%% @loopbody 1
            proof {
                let i = it.index@ as int;
                assert(*assgn == a0[i]);
                assert(a0.take(i + 1).drop_last() == a0.take(i) && a0.take(i + 1).last() == a0[i]);
            }
//%% end

//%% extract src/repr/model.rs :: impl PartialModel :: fn unset
//%% @spec
        requires old(self).wf(),
        ensures final(self).wf(), final(self).val(label) is None,
            forall|x: VarLabel| x != label ==> #[trigger] final(self).val(x) == old(self).val(x),
//%% end

//%% extract src/repr/model.rs :: impl PartialModel :: fn set
//%% @spec
        requires old(self).wf(),
        ensures final(self).wf(), final(self).val(label) == Some(value),
            forall|x: VarLabel| x != label ==> #[trigger] final(self).val(x) == old(self).val(x),
//%% end

//%% extract src/repr/model.rs :: impl PartialModel :: fn get
//%% @ret r
//%% @spec
        ensures r == self.val(label),
//%% end

//%% extract src/repr/model.rs :: impl PartialModel :: fn lit_implied
//%% @ret r
//%% @spec
        ensures r == (self.val(lit.lbl) == Some(lit.pol)),
//%% end

//%% extract src/repr/model.rs :: impl PartialModel :: fn lit_neg_implied
//%% @ret r
//%% @spec
        ensures r == (self.val(lit.lbl) == Some(!lit.pol)),
//%% end

//%% extract src/repr/model.rs :: impl PartialModel :: fn is_set
//%% @ret r
//%% @spec
        ensures r == (self.val(label) is Some),
//%% end
}

// R-hasher: the `hasher: CnfHasher` field (prime-product residual hash; its code uses labelled `continue`) is deleted
//%% extract src/repr/cnf.rs :: - :: struct Cnf
//%% @pub
//%% @rewrite 1 /\n    hasher: CnfHasher,/ => 
//%% end

/// propositional semantics of a clause list (the definition, independent of the code)
pub open spec fn lit_true(l: Literal, a: Seq<bool>) -> bool { a[l.lbl.0 as int] == l.pol }
pub open spec fn clause_true(c: Seq<Literal>, a: Seq<bool>) -> bool { exists|j: int| 0 <= j < c.len() && lit_true(#[trigger] c[j], a) }
pub open spec fn cnf_true(cs: Seq<Vec<Literal>>, a: Seq<bool>) -> bool { forall|i: int| 0 <= i < cs.len() ==> clause_true((#[trigger] cs[i])@, a) }
/// ... and under a partial model: a clause counts only if some literal is ASSIGNED true
pub open spec fn lit_true_p(l: Literal, m: PartialModel) -> bool { m.val(l.lbl) == Some(l.pol) }
pub open spec fn clause_true_p(c: Seq<Literal>, m: PartialModel) -> bool { exists|j: int| 0 <= j < c.len() && lit_true_p(#[trigger] c[j], m) }
pub open spec fn cnf_true_p(cs: Seq<Vec<Literal>>, m: PartialModel) -> bool { forall|i: int| 0 <= i < cs.len() ==> clause_true_p((#[trigger] cs[i])@, m) }

pub open spec fn small1(c: Seq<Literal>) -> bool { forall|j: int| 0 <= j < c.len() ==> (#[trigger] c[j]).lbl.0 < 0x8000_0000_0000_0000 }
/// every label fits the 63 bits a packed Literal has (A-lit): `label + 1` cannot overflow
pub open spec fn small(cs: Seq<Vec<Literal>>) -> bool {
    forall|i: int, j: int| 0 <= i < cs.len() && 0 <= j < cs[i].len() ==> (#[trigger] cs[i][j]).lbl.0 < 0x8000_0000_0000_0000
}
/// the two clauses have the same set of literals
pub open spec fn same_lits(a: Seq<Literal>, b: Seq<Literal>) -> bool {
    forall|l: Literal| #![trigger a.contains(l)] #![trigger b.contains(l)] a.contains(l) == b.contains(l)
}
/// literals in non-decreasing order of their labels
pub open spec fn sorted_by_label(c: Seq<Literal>) -> bool { forall|j: int, k: int| 0 <= j <= k < c.len() ==> (#[trigger] c[j]).lbl.0 <= (#[trigger] c[k]).lbl.0 }
/// the normal form Cnf::new gives every clause: sorted by label, no two NEIGHBOURS equal.  (A literal may still occur twice -- the
/// sort key is the label only, so `x, !x, x` stays as it is -- but then its negation sits in between.)
pub open spec fn norm1(c: Seq<Literal>) -> bool { sorted_by_label(c) && forall|j: int| 0 <= j < c.len() - 1 ==> (#[trigger] c[j]) != c[j + 1] }
pub open spec fn norm_lits(cs: Seq<Vec<Literal>>) -> bool { forall|i: int| 0 <= i < cs.len() ==> norm1((#[trigger] cs[i])@) }
#[verifier::external_body]
pub fn verif_sort_by_key(v: &mut Vec<Literal>)
    ensures same_lits(final(v)@, old(v)@), forall|j: int| 0 <= j < final(v)@.len() ==> old(v)@.contains(#[trigger] final(v)@[j]),
        sorted_by_label(final(v)@),
{ unimplemented!() }
#[verifier::external_body]
pub fn verif_dedup(v: &mut Vec<Literal>)
    ensures same_lits(final(v)@, old(v)@), forall|j: int| 0 <= j < final(v)@.len() ==> old(v)@.contains(#[trigger] final(v)@[j]),
        // removes repeated NEIGHBOURS and keeps the order of what remains
        sorted_by_label(old(v)@) ==> sorted_by_label(final(v)@),
        forall|j: int| 0 <= j < final(v)@.len() - 1 ==> (#[trigger] final(v)@[j]) != final(v)@[j + 1],
{ unimplemented!() }
pub proof fn lemma_same_lits_true(a: Seq<Literal>, b: Seq<Literal>, asg: Seq<bool>)
    requires same_lits(a, b),
    ensures clause_true(a, asg) == clause_true(b, asg),
{
    if clause_true(a, asg) {
        let j = choose|j: int| 0 <= j < a.len() && lit_true(#[trigger] a[j], asg);
        assert(a.contains(a[j]));
        assert(b.contains(a[j]));
        let k = choose|k: int| 0 <= k < b.len() && b[k] == a[j];
        assert(lit_true(b[k], asg));
    }
    if clause_true(b, asg) {
        let k = choose|k: int| 0 <= k < b.len() && lit_true(#[trigger] b[k], asg);
        assert(b.contains(b[k]));
        assert(a.contains(b[k]));
        let j = choose|j: int| 0 <= j < a.len() && a[j] == b[k];
        assert(lit_true(a[j], asg));
    }
}
pub proof fn lemma_clause_push(c: Seq<Literal>, l: Literal, a: Seq<bool>)
    ensures clause_true(c.push(l), a) == (clause_true(c, a) || lit_true(l, a)),
{
    let t = c.push(l);
    if clause_true(t, a) {
        let j = choose|j: int| 0 <= j < t.len() && lit_true(#[trigger] t[j], a);
        if j < c.len() { assert(t[j] == c[j]); } else { assert(t[j] == l); }
    }
    if clause_true(c, a) {
        let j = choose|j: int| 0 <= j < c.len() && lit_true(#[trigger] c[j], a);
        assert(t[j] == c[j]);
    }
    if lit_true(l, a) { assert(t[c.len() as int] == l); }
}
pub proof fn lemma_cnf_push(cs: Seq<Vec<Literal>>, c: Vec<Literal>, a: Seq<bool>)
    ensures cnf_true(cs.push(c), a) == (cnf_true(cs, a) && clause_true(c@, a)),
{
    let t = cs.push(c);
    if cnf_true(t, a) {
        assert forall|i: int| 0 <= i < cs.len() implies clause_true((#[trigger] cs[i])@, a) by { assert(t[i] == cs[i]); }
        assert(t[cs.len() as int] == c);
    }
    if cnf_true(cs, a) && clause_true(c@, a) {
        assert forall|i: int| 0 <= i < t.len() implies clause_true((#[trigger] t[i])@, a) by {
            if i < cs.len() { assert(t[i] == cs[i]); } else { assert(t[i] == c); }
        }
    }
}

impl Cnf {
    /// every literal's label is below num_vars
    pub open spec fn wf(self) -> bool {
        forall|i: int, j: int| 0 <= i < self.clauses.len() && 0 <= j < self.clauses[i].len() ==> (#[trigger] self.clauses[i][j]).lbl.0 < self.num_vars
    }

//%% extract src/repr/cnf.rs :: impl Cnf :: fn num_vars
//%% @ret r
//%% @spec
        ensures r == self.num_vars,
//%% end

//%% extract src/repr/cnf.rs :: impl Cnf :: fn eval
//%% @ret r
//%% @rewrite 1 /for clause in self\.clauses\.iter\(\) \{/ => for clause in it: self.clauses.iter() {
//%% @rewrite 1 /for lit in clause\.iter\(\) \{/ => for lit in jt: clause.iter() {
//%% @spec
        requires self.wf(), assignment.len() >= self.num_vars,
        ensures r == cnf_true(self.clauses@, assignment@),
//%% @loop 1 /^for clause in it: self\.clauses\.iter\(\)$/
            invariant
                self.wf(), assignment.len() >= self.num_vars,
                forall|i: int| 0 <= i < it.index@ ==> clause_true((#[trigger] self.clauses@[i])@, assignment@),
//%% @loop 2 /^for lit in jt: clause\.iter\(\)$/
                invariant
                    self.wf(), assignment.len() >= self.num_vars,
                    0 <= it.index@ < self.clauses.len(), clause@ == self.clauses@[it.index@ as int]@,
                    clause_sat == (exists|j: int| 0 <= j < jt.index@ && lit_true(#[trigger] clause@[j], assignment@)),
//%% end

//%% extract src/repr/cnf.rs :: impl Cnf :: fn is_sat_partial
//%% @ret r
//%% @rewrite 1 /for clause in self\.clauses\.iter\(\) \{/ => for clause in it: self.clauses.iter() {
//%% @rewrite 1 /for lit in clause\.iter\(\) \{/ => for lit in jt: clause.iter() {
//%% @spec
        ensures r == cnf_true_p(self.clauses@, *partial_assignment),
//%% @loop 1 /^for clause in it: self\.clauses\.iter\(\)$/
            invariant
                forall|i: int| 0 <= i < it.index@ ==> clause_true_p((#[trigger] self.clauses@[i])@, *partial_assignment),
//%% @loop 2 /^for lit in jt: clause\.iter\(\)$/
                invariant
                    0 <= it.index@ < self.clauses.len(), clause@ == self.clauses@[it.index@ as int]@,
                    clause_sat == (exists|j: int| 0 <= j < jt.index@ && lit_true_p(#[trigger] clause@[j], *partial_assignment)),
//%% end

    // Cnf::new -- declared rewrites (std adaptors replaced by their definitions over the same elements, closure bodies verbatim):
    //   R-map-collect for the normalising `map(..).collect()`;
    //   R-max: `xs.iter().map(|x| F).max().unwrap_or(0)` over unsigned values -> `{ let mut m = 0; for x in xs.iter() { let y = F; if y > m { m = y; } } m }`
    //   (twice, nested); the `hasher:` field initialiser is dropped with the field (R-hasher).
    // A-std-sort-dedup: `clause.sort_by_key(..)` and `clause.dedup()` are std code without a Verus specification; they are the stubs
    // verif_sort_by_key / verif_dedup, which promise that the vector keeps exactly its SET of elements and, for the normal form the
    // solver's watch scheme relies on, the documented std semantics: the sort orders by the key (the label), dedup leaves no two equal
    // neighbours and keeps the order of what remains.  Nothing is assumed about the relative order of literals with equal labels.
//%% extract src/repr/cnf.rs :: impl Cnf :: fn new
//%% @attr #[verifier::loop_isolation(false)]
//%% @ret r
//%% @rewrite 1 /clauses\n\s*\.iter\(\)\n\s*\.map\(\|clause\| \{(?=\n\s*let mut clause)/ => { let mut mc__out: Vec<Vec<Literal>> = Vec::new(); for clause in mc__it: clauses.iter() { let mc__x = {
//%% @rewrite 1 /\n            \}\)\n            \.collect\(\);/ => \n            }; mc__out.push(mc__x); } mc__out };
//%% @rewrite 1 /clause\.sort_by_key\(\|a\| a\.label\(\)\.value\(\)\);/ => verif_sort_by_key(&mut clause);
//%% @rewrite 1 /clause\.dedup\(\);/ => verif_dedup(&mut clause);
//%% @rewrite 1 /let num_vars = clauses\n\s*\.iter\(\)\n\s*\.map\(\|clause\| \{\n\s*clause\n\s*\.iter\(\)\n\s*\.map\(\|lit\| (.*?)\)\n\s*\.max\(\)\n\s*\.unwrap_or\(0\)\n\s*\}\)\n\s*\.max\(\)\n\s*\.unwrap_or\(0\) as usize;/ => let num_vars = { let mut mx__o: u64 = 0; for clause in mx__it: clauses.iter() { let mx__y = { let mut mx__i: u64 = 0; for lit in mx__jt: clause.iter() { let mx__z = \1; if mx__z > mx__i { mx__i = mx__z; } } mx__i }; if mx__y > mx__o { mx__o = mx__y; } } mx__o } as usize;
//%% @rewrite 1 /\n            hasher: CnfHasher::new\(&clauses, num_vars\),/ => 
//%% @spec
        requires small(clauses@),
        ensures
            r.wf(), small(r.clauses@),
            // num_vars is exact: 0 for a formula without literals, otherwise the largest label + 1
            r.num_vars == 0 || exists|i: int, j: int| 0 <= i < r.clauses@.len() && 0 <= j < r.clauses@[i].len() && (#[trigger] r.clauses@[i][j]).lbl.0 + 1 == r.num_vars,
            // normalisation keeps the meaning of every clause, hence of the formula
            r.clauses.len() == clauses.len(),
            forall|a: Seq<bool>| #[trigger] cnf_true(r.clauses@, a) == cnf_true(clauses@, a),
            // every clause is sorted by label with no two equal neighbours (what the watch scheme of the solver relies on)
            norm_lits(r.clauses@),
//%% @entry
        let ghost cls0 = clauses@;
        proof {
            axiom_clone_eq::<Literal>();
            assert forall|x: Seq<Literal>, y: Seq<Literal>, asg: Seq<bool>| #![trigger same_lits(x, y), clause_true(x, asg)] same_lits(x, y) implies clause_true(x, asg) == clause_true(y, asg) by { lemma_same_lits_true(x, y, asg); }
        }
//%% @loop 1 /^for clause in mc__it: clauses\.iter\(\)$/
            invariant
                mc__out@.len() == mc__it.index@, mc__it.index@ <= cls0.len(),
                forall|k: int| #![trigger mc__out@[k]] #![trigger cls0[k]] 0 <= k < mc__out@.len() ==> same_lits(mc__out@[k]@, cls0[k]@),
                small(mc__out@),
                norm_lits(mc__out@),
//%% @loop 2 /^for clause in mx__it: clauses\.iter\(\)$/
            invariant
                forall|k: int, j: int| 0 <= k < mx__it.index@ && 0 <= j < clauses@[k].len() ==> (#[trigger] clauses@[k][j]).lbl.0 < mx__o,
                mx__o == 0 || exists|k: int, j: int| 0 <= k < mx__it.index@ && 0 <= j < clauses@[k].len() && (#[trigger] clauses@[k][j]).lbl.0 + 1 == mx__o,
                forall|k: int, j: int| 0 <= k < clauses@.len() && 0 <= j < clauses@[k].len() ==> (#[trigger] clauses@[k][j]).lbl.0 < 0x8000_0000_0000_0000,
//%% @loop 3 /^for lit in mx__jt: clause\.iter\(\)$/
                invariant
                    forall|j: int| 0 <= j < mx__jt.index@ ==> (#[trigger] clause@[j]).lbl.0 < mx__i,
                    mx__i == 0 || exists|j: int| 0 <= j < mx__jt.index@ && (#[trigger] clause@[j]).lbl.0 + 1 == mx__i,
                    forall|j: int| 0 <= j < clause@.len() ==> (#[trigger] clause@[j]).lbl.0 < 0x8000_0000_0000_0000,
//%% end

// R-for-while: both loops use labelled `continue`, which Verus accepts only in `while` loops: each
// `for x in v.iter()` becomes an indexed `while` over the same Vec; the loop bodies are the real text.
//%% extract src/repr/cnf.rs :: impl Cnf :: fn condition
//%% @attr #[verifier::loop_isolation(false)]
//%% @ret r
//%% @rewrite 1 /'cnf: for clause in self\.clauses\.iter\(\) \{/ => let mut cnf__i: usize = 0;\n        'cnf: while cnf__i < self.clauses.len() {\n            let clause = &self.clauses[cnf__i];\n            cnf__i += 1;
//%% @rewrite 1 /'clause: for l in clause\.iter\(\) \{/ => let mut cl__j: usize = 0;\n            'clause: while cl__j < clause.len() {\n                let l = &clause[cl__j];\n                cl__j += 1;
//%% @spec
        requires self.wf(), small(self.clauses@),
        ensures
            r.wf(), small(r.clauses@),
            // (F | lit) evaluates on `a` like F on `a` with lit's variable set to lit's polarity
            forall|a: Seq<bool>| #![trigger cnf_true(r.clauses@, a)] lit.lbl.0 < a.len() && self.num_vars <= a.len() ==>
                cnf_true(r.clauses@, a) == cnf_true(self.clauses@, a.update(lit.lbl.0 as int, lit.pol)),
//%% @entry
        proof {
            assert forall|c: Seq<Literal>, l: Literal, a: Seq<bool>| #![trigger clause_true(c.push(l), a)]
                clause_true(c.push(l), a) == (clause_true(c, a) || lit_true(l, a)) by { lemma_clause_push(c, l, a); }
            assert forall|cs: Seq<Vec<Literal>>, c: Vec<Literal>, a: Seq<bool>| #![trigger cnf_true(cs.push(c), a)]
                cnf_true(cs.push(c), a) == (cnf_true(cs, a) && clause_true(c@, a)) by { lemma_cnf_push(cs, c, a); }
        }
//%% @loop 1 /^while cnf__i < self\.clauses\.len\(\)$/
            invariant
                cnf__i <= self.clauses.len(), small(new_cnf@),
                forall|a: Seq<bool>| #![trigger cnf_true(new_cnf@, a)] lit.lbl.0 < a.len() && self.num_vars <= a.len() ==>
                    cnf_true(new_cnf@, a) == (forall|i: int| 0 <= i < cnf__i ==> clause_true((#[trigger] self.clauses@[i])@, a.update(lit.lbl.0 as int, lit.pol))),
            decreases self.clauses.len() - cnf__i,
//%% @loop 2 /^while cl__j < clause\.len\(\)$/
                invariant
                    cl__j <= clause.len(),
                    small1(new_clause@),
                    // no literal seen so far is `lit`; new_clause holds the seen literals on other variables
                    forall|j: int| 0 <= j < cl__j ==> (#[trigger] clause@[j]) != lit,
                    forall|a: Seq<bool>| #![trigger clause_true(new_clause@, a)] lit.lbl.0 < a.len() && self.num_vars <= a.len() ==>
                        clause_true(new_clause@, a) == (exists|j: int| 0 <= j < cl__j && lit_true(#[trigger] clause@[j], a.update(lit.lbl.0 as int, lit.pol))),
                decreases clause.len() - cl__j,
//%% end
}
