// ---- src/repr/var_order.rs: VarOrder ----
//%% extract src/repr/var_order.rs :: - :: struct VarOrder
//%% @pub
//%% end

/// label x occurs among the first k entries of the sequence
pub open spec fn covered_upto(order: Seq<VarLabel>, x: int, k: int) -> bool {
    exists|j: int| 0 <= j < k && (#[trigger] order[j]).0 == x
}

impl VarOrder {
    pub open spec fn n(self) -> nat { self.var_to_pos.len() as nat }
    /// position of a label
    pub open spec fn pos(self, v: VarLabel) -> int { self.var_to_pos[v.0 as int] as int }
    pub open spec fn has(self, v: VarLabel) -> bool { (v.0 as int) < self.var_to_pos.len() }
    /// the two maps are mutually inverse permutations of 0..n
    #[verifier::opaque]
    pub open spec fn wf(self) -> bool {
        &&& self.var_to_pos.len() == self.pos_to_var.len()
        &&& forall|i: int| 0 <= i < self.var_to_pos.len() ==>
                (#[trigger] self.var_to_pos[i]) < self.pos_to_var.len() && self.pos_to_var[self.var_to_pos[i] as int] == i
        &&& forall|i: int| 0 <= i < self.pos_to_var.len() ==>
                (#[trigger] self.pos_to_var[i]) < self.var_to_pos.len() && self.var_to_pos[self.pos_to_var[i] as int] == i
    }

//%% extract src/repr/var_order.rs :: impl VarOrder :: fn new
//%% @ret r
//%% @spec
        requires
            // `order` is a permutation of the labels 0..n
            forall|j: int| 0 <= j < order.len() ==> (#[trigger] order@[j]).0 < order.len(),
            forall|j: int, k: int| 0 <= j < k < order.len() ==> (#[trigger] order@[j]).0 != (#[trigger] order@[k]).0,
            forall|x: int| 0 <= x < order.len() ==> #[trigger] covered_upto(order@, x, order.len() as int),
        ensures
            r.wf(), r.n() == order.len(),
            forall|j: int| 0 <= j < order.len() ==> r.pos(#[trigger] order@[j]) == j,
            // and conversely: the label at a label's position is that label
            forall|v: VarLabel| r.has(v) ==> 0 <= #[trigger] r.pos(v) < order.len() && order@[r.pos(v)] == v,
//%% @entry
        proof { reveal(VarOrder::wf); }
//%% @loop 1 /^for i in 0\.\.order\.len\(\)$/
            invariant
                v.len() == order.len(), pos_to_var.len() == i,
                forall|j: int| 0 <= j < order.len() ==> (#[trigger] order@[j]).0 < order.len(),
                forall|j: int, k: int| 0 <= j < k < order.len() ==> (#[trigger] order@[j]).0 != (#[trigger] order@[k]).0,
                forall|j: int| #![trigger pos_to_var[j]] #![trigger order@[j]] 0 <= j < i ==> pos_to_var[j] == order@[j].0 && v[order@[j].0 as int] == j,
                forall|x: int| 0 <= x < order.len() ==> (covered_upto(order@, x, i as int) ==> (#[trigger] v[x]) < i && pos_to_var[v[x] as int] == x),
//%% end

// R-map-collect: `(0..num_vars).map(|i| VarLabel::new(i as u64)).collect()` is replaced by the definition of map + collect into a
// Vec (push the closure's value for every element of the range, in order); the closure body is the real text.
//%% extract src/repr/var_order.rs :: impl VarOrder :: fn linear_order
//%% @ret r
//%% @rewrite 1 /\(0\.\.num_vars\)\.map\(\|i\| (.*?)\)\.collect\(\);/ => { let mut mc__out: Vec<VarLabel> = Vec::new(); for i in 0..num_vars { let mc__x = \1; mc__out.push(mc__x); } mc__out };
//%% @spec
        ensures
            // the identity order: label v sits at level v
            r.wf(), r.n() == num_vars,
            forall|v: VarLabel| r.has(v) ==> r.pos(v) == v.0,
//%% @entry
        proof {
            // a sequence that holds label x at index x covers every label below its length
            assert forall|s: Seq<VarLabel>, x: int| #![trigger covered_upto(s, x, s.len() as int)] 0 <= x < s.len() && s[x].0 == x implies covered_upto(s, x, s.len() as int) by { }
        }
//%% @loop 1 /^for i in 0\.\.num_vars$/
            invariant
                mc__out@.len() == i,
                forall|x: int| 0 <= x < i ==> (#[trigger] mc__out@[x]).0 == x,
//%% end

//%% extract src/repr/var_order.rs :: impl VarOrder :: fn num_vars
//%% @ret r
//%% @spec
        ensures r == self.n(),
//%% end

//%% extract src/repr/var_order.rs :: impl VarOrder :: fn get
//%% @ret r
//%% @spec
        requires self.has(var),
        ensures r == self.pos(var),
//%% end

//%% extract src/repr/var_order.rs :: impl VarOrder :: fn var_at_level
//%% @ret r
//%% @spec
        requires pos < self.pos_to_var.len(),
        ensures r.0 == self.pos_to_var[pos as int],
//%% end

//%% extract src/repr/var_order.rs :: impl VarOrder :: fn lt
//%% @ret r
//%% @spec
        requires self.has(a), self.has(b),
        ensures r == (self.pos(a) < self.pos(b)),
//%% end

//%% extract src/repr/var_order.rs :: impl VarOrder :: fn lte
//%% @ret r
//%% @spec
        requires self.has(a), self.has(b),
        ensures r == (self.pos(a) <= self.pos(b)),
//%% end

    /// position of an optional label: constants (None) come last
    pub open spec fn opos(self, v: Option<VarLabel>) -> int {
        match v { Some(l) => self.pos(l), None => self.var_to_pos.len() as int + usize::MAX as int }
    }

//%% extract src/repr/var_order.rs :: impl VarOrder :: fn first
//%% @ret r
//%% @spec
        requires
            a.var_s() matches Some(l) ==> self.has(l),
            b.var_s() matches Some(l) ==> self.has(l),
            self.wf(),
        ensures
            r == a || r == b,
            self.opos(r.var_s()) <= self.opos(a.var_s()), self.opos(r.var_s()) <= self.opos(b.var_s()),
//%% @entry
        proof { reveal(VarOrder::wf); }
//%% end

//%% extract src/repr/var_order.rs :: impl VarOrder :: fn first_essential
//%% @ret r
//%% @spec
        requires
            self.wf(),
            a.var_s() matches Some(l) ==> self.has(l),
            b.var_s() matches Some(l) ==> self.has(l),
            c.var_s() matches Some(l) ==> self.has(l),
            a.var_s() is Some || b.var_s() is Some || c.var_s() is Some,
        ensures
            Some(r) == a.var_s() || Some(r) == b.var_s() || Some(r) == c.var_s(),
            self.has(r),
            self.pos(r) <= self.opos(a.var_s()), self.pos(r) <= self.opos(b.var_s()), self.pos(r) <= self.opos(c.var_s()),
//%% @entry
        proof { reveal(VarOrder::wf); }
//%% end

//%% extract src/repr/var_order.rs :: impl VarOrder :: fn new_last
//%% @ret r
//%% @spec
        requires old(self).wf(), old(self).n() < usize::MAX,
        ensures
            final(self).wf(), final(self).n() == old(self).n() + 1,
            r.0 == old(self).n(), final(self).pos(r) == old(self).n(),
            // every old label keeps its position
            forall|v: VarLabel| old(self).has(v) ==> final(self).has(v) && #[trigger] final(self).pos(v) == old(self).pos(v),
//%% @entry
        proof { reveal(VarOrder::wf); }
//%% end

//%% extract src/repr/var_order.rs :: impl VarOrder :: fn sort
//%% @ret r
//%% @spec
        requires
            self.wf(),
            a.var_s() matches Some(l) ==> self.has(l),
            b.var_s() matches Some(l) ==> self.has(l),
        ensures
            (r.0 == a && r.1 == b) || (r.0 == b && r.1 == a),
            self.opos(r.0.var_s()) <= self.opos(r.1.var_s()),
//%% @entry
        proof { reveal(VarOrder::wf); }
//%% end

//%% extract src/repr/var_order.rs :: impl VarOrder :: fn above
//%% @ret r
//%% @spec
        requires self.wf(), self.has(a),
        ensures
            r is None <==> self.pos(a) == 0,
            r matches Some(v) ==> self.has(v) && self.pos(v) == self.pos(a) - 1,
//%% @entry
        proof { reveal(VarOrder::wf); }
//%% end

//%% extract src/repr/var_order.rs :: impl VarOrder :: fn below
//%% @ret r
//%% @spec
        requires self.wf(), self.has(a),
        ensures
            r is None <==> self.pos(a) + 1 >= self.n(),
            r matches Some(v) ==> self.has(v) && self.pos(v) == self.pos(a) + 1,
//%% @entry
        proof { reveal(VarOrder::wf); }
//%% end
}
