// ---- src/util/btree.rs (in-order traversal) and src/repr/vtree.rs: VTreeManager::{new, var_index, vtree, is_prime_index} (C14, last sentence) ----
//%% extract src/util/btree.rs :: - :: enum BTree
//%% end
//%% extract src/repr/vtree.rs :: - :: type VTree
//%% end
//%% extract src/util/btree.rs :: - :: struct InOrderDepthFirstIter
//%% @pub
//%% end
//%% extract src/repr/vtree.rs :: - :: struct VTreeIndex
//%% @pub
//%% end

// A-clone: the derived Clone of the tree is a structural copy
impl<N: PartialEq + Eq + Clone, L: PartialEq + Eq + Clone> Clone for BTree<N, L> {
    #[verifier::external_body]
    fn clone(&self) -> (r: BTree<N, L>)
        ensures r == *self,
    { unimplemented!() }
}

/// THE in-order (left subtree, node, right subtree) listing of the subtrees of a tree -- the indexing scheme of the vtree manager
pub open spec fn inorder<N: PartialEq + Eq + Clone, L: PartialEq + Eq + Clone>(t: BTree<N, L>) -> Seq<BTree<N, L>>
    decreases t
{
    match t {
        BTree::Leaf(x) => seq![t],
        BTree::Node(n, l, r) => inorder(*l) + seq![t] + inorder(*r),
    }
}
/// the view of a queue of references as the sequence of the trees they point to
pub open spec fn deref_seq<N: PartialEq + Eq + Clone, L: PartialEq + Eq + Clone>(s: Seq<&BTree<N, L>>) -> Seq<BTree<N, L>> { Seq::new(s.len(), |i: int| *s[i]) }

impl<N, L> BTree<N, L>
where
    N: PartialEq + Eq + Clone,
    L: PartialEq + Eq + Clone,
{
//%% extract src/util/btree.rs :: impl<N, L> BTree<N, L> where N: PartialEq + Eq + Clone, L: PartialEq + Eq + Clone, :: fn dfs_recurse
//%% @spec
        ensures deref_seq(final(v)@) =~= deref_seq(old(v)@) + inorder(*self),
        decreases self,
//%% @entry
        let ghost v0 = v@;
//%% @before /^\s*v\.push_back\(self\);$/
                let ghost v1 = v@;
//%% @after /^\s*v\.push_back\(self\);$/
                let ghost v2 = v@;
                proof { assert(deref_seq(v2) =~= deref_seq(v1).push(*self)); }
//%% end
}
impl<N, L> BTree<N, L>
where
    N: PartialEq + Eq + Clone,
    L: PartialEq + Eq + Clone,
{
//%% extract src/util/btree.rs :: impl<N, L> BTree<N, L> where N: PartialEq + Eq + Clone, L: PartialEq + Eq + Clone, :: fn inorder_dfs_iter
//%% @ret r
//%% @spec
        ensures deref_seq(r.v@) == inorder(*self),
//%% @before /^\s*InOrderDepthFirstIter \{ v \}$/
        proof { assert(deref_seq(v@) =~= inorder(*self)); }
//%% end

// R-matches: `matches!(self, Self::Leaf(_))` is `match self { Self::Leaf(_) => true, _ => false }`
//%% extract src/util/btree.rs :: impl<N, L> BTree<N, L> where N: PartialEq + Eq + Clone, L: PartialEq + Eq + Clone, :: fn is_leaf
//%% @ret r
//%% @rewrite 1 /matches!\(self, Self::Leaf\(_\)\)/ => match self { Self::Leaf(_) => true, _ => false }
//%% @spec
        ensures r == (*self is Leaf),
//%% end

//%% extract src/util/btree.rs :: impl<N, L> BTree<N, L> where N: PartialEq + Eq + Clone, L: PartialEq + Eq + Clone, :: fn extract_leaf
//%% @ret r
//%% @rewrite 1 /panic!\("extracting non-leaf"\)/ => vstd::pervasive::unreached()
//%% @spec
        requires *self is Leaf,
        ensures *self == BTree::<N, L>::Leaf(*r),
//%% end
}
// R-trait-inherent: `impl Iterator for InOrderDepthFirstIter { type Item = &'a BTree<N, L>; fn next .. }` is emitted as an inherent method
impl<'a, N, L> InOrderDepthFirstIter<'a, N, L>
where
    N: PartialEq + Eq + Clone,
    L: PartialEq + Eq + Clone,
{
//%% extract src/util/btree.rs :: impl<'a, N, L> Iterator for InOrderDepthFirstIter<'a, N, L> where N: PartialEq + Eq + Clone, L: PartialEq + Eq + Clone, :: fn next
//%% @pub
//%% @ret r
//%% @rewrite 1 /Option<Self::Item>/ => Option<&'a BTree<N, L>>
//%% @spec
        ensures
            old(self).v@.len() > 0 ==> r == Some(old(self).v@[0]) && final(self).v@ == old(self).v@.subrange(1, old(self).v@.len() as int),
            old(self).v@.len() == 0 ==> r is None && final(self).v@ == old(self).v@,
//%% end
}

impl VarLabel {
//%% extract src/repr/var_label.rs :: impl VarLabel :: fn value_usize
//%% @ret r
//%% @spec
        ensures r == self.0,
//%% end
}
/// largest label + 1 among the leaves
pub open spec fn vmax(t: VTree) -> nat
    decreases t
{
    match t { BTree::Leaf(v) => (v.0 + 1) as nat, BTree::Node(n, l, r) => if vmax(*l) >= vmax(*r) { vmax(*l) } else { vmax(*r) } }
}
pub open spec fn vsmall(t: VTree) -> bool
    decreases t
{
    match t { BTree::Leaf(v) => v.0 < usize::MAX, BTree::Node(n, l, r) => vsmall(*l) && vsmall(*r) }
}
/// std: usize::max
#[verifier::external_body]
pub fn verif_usize_max(a: usize, b: usize) -> (r: usize) ensures r == (if a >= b { a } else { b }), { unimplemented!() }
/// every leaf listed by the in-order traversal has a label below vmax
pub proof fn lemma_inorder_vmax(t: VTree, j: int)
    requires 0 <= j < inorder(t).len(), inorder(t)[j] is Leaf,
    ensures inorder(t)[j]->Leaf_0.0 < vmax(t),
    decreases t,
{
    match t {
        BTree::Leaf(v) => {},
        BTree::Node(n, l, r) => {
            let a = inorder(*l); let b = inorder(*r);
            if j < a.len() { assert(inorder(t)[j] == a[j]); lemma_inorder_vmax(*l, j); }
            else if j == a.len() { assert(inorder(t)[j] == t); }
            else { assert(inorder(t)[j] == b[j - a.len() - 1]); lemma_inorder_vmax(*r, j - a.len() - 1); }
        },
    }
}
/// no variable occurs at two leaves (the debug assertion of VTreeManager::new)
pub open spec fn leaves_distinct(t: VTree) -> bool {
    forall|i: int, j: int| #![trigger inorder(t)[i], inorder(t)[j]] 0 <= i < j < inorder(t).len() && inorder(t)[i] is Leaf && inorder(t)[j] is Leaf
        ==> inorder(t)[i]->Leaf_0 != inorder(t)[j]->Leaf_0
}
// A-lca / A-bfs: the least-common-ancestor structure (segment-tree crate) and the two BFS/DFS index maps (HashMap<*const Self, usize>: raw
// pointer keys) are outside the verifier: opaque values, nothing assumed; `lca` is not under contract.
#[verifier::external_body]
pub struct LeastCommonAncestor { x: usize }
impl LeastCommonAncestor {
    #[verifier::external_body]
    pub fn new(tree: &VTree) -> (r: LeastCommonAncestor) { unimplemented!() }
}
impl VTree {
    #[verifier::external_body]
    pub fn dfs_to_bfs_mapping(&self) -> (r: Vec<usize>) { unimplemented!() }
    #[verifier::external_body]
    pub fn bfs_to_dfs_mapping(&self) -> (r: Vec<usize>) { unimplemented!() }

// R-std: `usize::max(a, b)` is the stub verif_usize_max.
//%% extract src/repr/vtree.rs :: impl VTree :: fn num_vars
//%% @ret r
//%% @rewrite 1 /usize::max\(/ => verif_usize_max(
//%% @spec
        requires vsmall(*self),
        ensures r == vmax(*self),
        decreases self,
//%% end
}
//%% extract src/repr/vtree.rs :: - :: struct VTreeManager
//%% @pub
//%% end

/// the manager's tables describe the in-order numbering of its tree
pub open spec fn mgr_ok(m: VTreeManager) -> bool {
    &&& m.index_lookup@ == inorder(m.tree)
    &&& m.vtree_index@.len() == vmax(m.tree)
    &&& forall|j: int| 0 <= j < inorder(m.tree).len() && (#[trigger] inorder(m.tree)[j]) is Leaf ==> m.vtree_index@[inorder(m.tree)[j]->Leaf_0.0 as int] == j
}
#[verifier::external_body]
pub fn verif_vec_zeros(n: usize) -> (r: Vec<usize>)
    ensures r@.len() == n,
{ unimplemented!() }

impl VTreeManager {
// R-debug-assert: the `debug_assert!(!tree.check_redundant_vars(..), ..)` is dropped; what it asserts is the precondition leaves_distinct.
// R-vec-macro: `vec![0; n]` is the stub verif_vec_zeros (a vector of length n; the initial values are never read by the contract).
// R-for-while / R-enumerate: `for (idx, v) in tree.inorder_dfs_iter().enumerate()` is the protocol of `for` over the iterator whose `next`
// is under contract, with the running index written out; the body is the real text.
//%% extract src/repr/vtree.rs :: impl VTreeManager :: fn new
//%% @ret r
//%% @rewrite 1 /debug_assert!\(.*?\n        \);\n/ => 
//%% @rewrite 1 /vec!\[0; tree\.num_vars\(\)\]/ => verif_vec_zeros(tree.num_vars())
//%% @rewrite 1 /for \(idx, (\w+)\) in tree\.inorder_dfs_iter\(\)\.enumerate\(\) \{/ => let mut it__v = tree.inorder_dfs_iter(); let mut idx: usize = 0; let mut nx__v = it__v.next();\n        while nx__v.is_some() { let \1 = nx__v.unwrap();
//%% @rewrite 1 /\n        \}\n(        (?:VTreeManager \{|let ))/ => \n        idx += 1; nx__v = it__v.next(); }\n\1
//%% @spec
        requires vsmall(tree), leaves_distinct(tree),
        ensures mgr_ok(r), r.tree == tree,
//%% @before /^\s*while nx__v\.is_some\(\) \{/
        let ghost io = inorder(tree);
//%% @loop 1 /^while nx__v\.is_some\(\)$/
            invariant
                io == inorder(tree), leaves_distinct(tree), idx <= io.len(),
                vtree_lookup@.len() == vmax(tree), index_lookup@ == io.subrange(0, idx as int),
                nx__v matches Some(v) ==> idx < io.len() && *v == io[idx as int] && deref_seq(it__v.v@) == io.subrange(idx as int + 1, io.len() as int),
                nx__v is None ==> idx == io.len(),
                forall|j: int| 0 <= j < idx && (#[trigger] io[j]) is Leaf ==> vtree_lookup@[io[j]->Leaf_0.0 as int] == j,
            decreases io.len() - idx,
//%% @before /^\s*VTreeManager \{$/
        proof { assert(index_lookup@ =~= io); }
//%% @loopbody 1
            let ghost q0 = it__v.v@;
            let ghost k0 = idx as int;
            proof {
                if io[k0] is Leaf { lemma_inorder_vmax(tree, k0); }
                assert(deref_seq(q0).len() == io.len() - k0 - 1);
            }
//%% @before /^\s*idx \+= 1; nx__v = it__v\.next\(\); \}$/
        proof { assert(index_lookup@.len() == k0 + 1); assert(index_lookup.len() <= usize::MAX); }
//%% @loopend 1
            proof {
                let n = io.len() as int;
                assert(idx == k0 + 1);
                assert(index_lookup@ =~= io.subrange(0, k0 + 1));
                let rest = io.subrange(k0 + 1, n);
                assert(deref_seq(q0) == rest);
                if q0.len() > 0 {
                    assert(deref_seq(q0)[0] == rest[0]);
                    assert(it__v.v@ == q0.subrange(1, q0.len() as int));
                    assert forall|i: int| 0 <= i < it__v.v@.len() implies deref_seq(it__v.v@)[i] == io.subrange(k0 + 2, n)[i] by {
                        assert(it__v.v@[i] == q0[i + 1]);
                        assert(deref_seq(q0)[i + 1] == rest[i + 1]);
                    }
                    assert(deref_seq(it__v.v@) =~= io.subrange(k0 + 2, n));
                }
            }
//%% end

//%% extract src/repr/vtree.rs :: impl VTreeManager :: fn vtree
//%% @ret r
//%% @spec
        requires idx.0 < self.index_lookup@.len(),
        ensures *r == self.index_lookup@[idx.0 as int],
//%% end

//%% extract src/repr/vtree.rs :: impl VTreeManager :: fn var_index
//%% @ret r
//%% @spec
        requires lbl.0 < self.vtree_index@.len(),
        ensures r.0 == self.vtree_index@[lbl.0 as int],
//%% end

//%% extract src/repr/vtree.rs :: impl VTreeManager :: fn vtree_root
//%% @ret r
//%% @spec
        ensures *r == self.tree,
//%% end

// the number of variables the manager allocates: largest label + 1 (the defect fixed in ad19bb4 returned the largest label)
//%% extract src/repr/vtree.rs :: impl VTreeManager :: fn num_vars
//%% @ret r
//%% @spec
        requires vsmall(self.tree),
        ensures r == vmax(self.tree),
//%% end

//%% extract src/repr/vtree.rs :: impl VTreeManager :: fn is_prime_index
//%% @ret b
//%% @spec
        ensures b == (l.0 < r.0),
//%% end
}
impl VTreeManager {
//%% extract src/repr/vtree.rs :: impl VTreeManager :: fn is_prime_var
//%% @ret r
//%% @spec
        requires a.0 < self.vtree_index@.len(), b.0 < self.vtree_index@.len(),
        ensures r == (self.vtree_index@[a.0 as int] < self.vtree_index@[b.0 as int]),
//%% end
}
/// for a well-formed manager: variable a is "prime to" variable b exactly when a's leaf comes before b's leaf in the in-order listing
pub proof fn lemma_prime_var(m: VTreeManager, i: int, j: int)
    requires
        mgr_ok(m), 0 <= i < inorder(m.tree).len(), 0 <= j < inorder(m.tree).len(),
        inorder(m.tree)[i] is Leaf, inorder(m.tree)[j] is Leaf,
    ensures
        (m.vtree_index@[inorder(m.tree)[i]->Leaf_0.0 as int] < m.vtree_index@[inorder(m.tree)[j]->Leaf_0.0 as int]) == (i < j),
{
    lemma_mgr_leaf(m, i); lemma_mgr_leaf(m, j);
}
/// what the tables mean: the index of a variable is the in-order position of its leaf, and looking that index up gives the leaf back
pub proof fn lemma_mgr_leaf(m: VTreeManager, j: int)
    requires mgr_ok(m), 0 <= j < inorder(m.tree).len(), inorder(m.tree)[j] is Leaf,
    ensures
        inorder(m.tree)[j]->Leaf_0.0 < m.vtree_index@.len(),
        m.vtree_index@[inorder(m.tree)[j]->Leaf_0.0 as int] == j,
        m.index_lookup@[j] == inorder(m.tree)[j],
{
    lemma_inorder_vmax(m.tree, j);
}
/// in-order numbering and the shape of the tree: every subtree of the left child is numbered before the node, every subtree of the right
/// child after it (so "prime to" -- left of -- is `<` on indices: is_prime_index)
pub proof fn lemma_inorder_shape<N: PartialEq + Eq + Clone, L: PartialEq + Eq + Clone>(t: BTree<N, L>)
    requires t is Node,
    ensures
        inorder(t)[inorder(*t->Node_1).len() as int] == t,
        forall|i: int| 0 <= i < inorder(*t->Node_1).len() ==> inorder(t)[i] == #[trigger] inorder(*t->Node_1)[i],
        forall|i: int| 0 <= i < inorder(*t->Node_2).len() ==> inorder(t)[inorder(*t->Node_1).len() + 1 + i] == #[trigger] inorder(*t->Node_2)[i],
        inorder(t).len() == inorder(*t->Node_1).len() + 1 + inorder(*t->Node_2).len(),
{
}
