// ---- src/repr/cnf.rs: Cnf::wmc -- the brute-force weighted count over the assignment iterator (C15) ----
//%% extract src/repr/wmc.rs :: - :: struct WmcParams
//%% @pub
//%% end
/// (low, high) weight per variable label
pub type W<T> = spec_fn(u64) -> (T, T);
impl<T: Semiring> WmcParams<T> {
    pub open spec fn has_weight(&self, v: VarLabel) -> bool { v.0 < self.var_to_val@.len() && self.var_to_val@[v.0 as int] is Some }
    pub open spec fn wview(&self) -> W<T> { |l: u64| if l < self.var_to_val@.len() && self.var_to_val@[l as int] is Some { self.var_to_val@[l as int]->Some_0 } else { arbitrary() } }
    pub open spec fn wf(&self) -> bool {
        &&& self.one.valid() && self.zero.valid()
        &&& forall|i: int| 0 <= i < self.var_to_val@.len() ==> (#[trigger] self.var_to_val@[i] matches Some(p) ==> p.0.valid() && p.1.valid())
    }
//%% extract src/repr/wmc.rs :: impl<T: Semiring> WmcParams<T> :: fn var_weight
//%% @ret r
//%% @spec
        requires self.has_weight(label),
        ensures *r == self.wview()(label.0),
//%% end
}
/// the exec operators of the semiring type compute their specifications on valid elements and stay inside them
pub open spec fn sr_ops_ok<T: Semiring>() -> bool {
    &&& T::obeys_add_spec() && T::obeys_mul_spec()
    &&& forall|a: T, b: T| a.valid() && b.valid() ==> #[trigger] a.add_req(b)
    &&& forall|a: T, b: T| a.valid() && b.valid() ==> #[trigger] a.mul_req(b)
    &&& forall|a: T, b: T| a.valid() && b.valid() ==> (#[trigger] a.add_spec(b)).valid()
    &&& forall|a: T, b: T| a.valid() && b.valid() ==> (#[trigger] a.mul_spec(b)).valid()
}

/// the weight of an assignment: the chosen literal weights of variables 0..k multiplied up in index order, starting from one
pub open spec fn aprod<T: Semiring>(w: W<T>, a: Seq<bool>, k: int) -> T
    decreases k
{
    if k <= 0 { T::one_s() } else { aprod(w, a, k - 1).mul_spec(if a[k - 1] { w((k - 1) as u64).1 } else { w((k - 1) as u64).0 }) }
}
/// the brute-force sum over the first k assignments of a listing: the weights of those that satisfy the formula, added up in order from zero
pub open spec fn bsum<T: Semiring>(cs: Seq<Vec<Literal>>, w: W<T>, asg: Seq<Seq<bool>>, k: int) -> T
    decreases k
{
    if k <= 0 { T::zero_s() } else if cnf_true(cs, asg[k - 1]) { bsum(cs, w, asg, k - 1).add_spec(aprod(w, asg[k - 1], asg[k - 1].len() as int)) } else { bsum(cs, w, asg, k - 1) }
}
/// the listing is ALL assignments of n variables, each once, in counting order: entry j is the n-bit vector that spells j
pub open spec fn all_asg(asg: Seq<Seq<bool>>, n: nat) -> bool {
    asg.len() == pow2(n) && forall|j: int| 0 <= j < asg.len() ==> (#[trigger] asg[j]).len() == n && bval(asg[j]) == j
}
pub open spec fn asg_upto(asg: Seq<Seq<bool>>, n: nat) -> bool {
    forall|j: int| 0 <= j < asg.len() ==> (#[trigger] asg[j]).len() == n && bval(asg[j]) == j
}
pub open spec fn wvalid<T: Semiring>(w: W<T>, n: nat) -> bool { forall|i: int| 0 <= i < n ==> (#[trigger] w(i as u64)).0.valid() && w(i as u64).1.valid() }
pub proof fn lemma_bsum_push<T: Semiring>(cs: Seq<Vec<Literal>>, w: W<T>, asg: Seq<Seq<bool>>, a: Seq<bool>)
    ensures
        bsum(cs, w, asg.push(a), asg.len() as int) == bsum(cs, w, asg, asg.len() as int),
    decreases asg.len(),
{
    lemma_bsum_ext(cs, w, asg, asg.push(a), asg.len() as int);
}
pub proof fn lemma_bsum_ext<T: Semiring>(cs: Seq<Vec<Literal>>, w: W<T>, a1: Seq<Seq<bool>>, a2: Seq<Seq<bool>>, k: int)
    requires k <= a1.len(), k <= a2.len(), forall|j: int| 0 <= j < k ==> a1[j] == a2[j],
    ensures bsum(cs, w, a1, k) == bsum(cs, w, a2, k),
    decreases k,
{
    if k > 0 { lemma_bsum_ext(cs, w, a1, a2, k - 1); }
}
pub proof fn lemma_aprod_valid<T: Semiring>(w: W<T>, a: Seq<bool>, k: int, n: nat)
    requires sr_ops_ok::<T>(), T::one_s().valid(), 0 <= k <= n, wvalid(w, n),
    ensures aprod(w, a, k).valid(),
    decreases k,
{
    if k > 0 { lemma_aprod_valid(w, a, k - 1, n); let kk = k - 1; assert(w(kk as u64).0.valid()); }
}

impl Cnf {
// R-for-while: `for assgn in AssignmentIter::new(n)` is the protocol of `for` over the iterator whose `next` is under contract (unit asgiter):
// call next until it answers None.  R-fold: `assgn.iter().enumerate().fold(T::one(), |v, (idx, &polarity)| BODY)` is the loop threading v
// through BODY for idx = 0, 1, ..; BODY verbatim up to R-method-op (`v.mul(x)` is `v * x`).  R-type: `let mut weight_vec = Vec::new()` gets its
// inferred type `Vec<&(T, T)>` written out (the invariants mention it before the first push).
//%% extract src/repr/cnf.rs :: impl Cnf :: fn wmc
//%% @attr #[verifier::loop_isolation(false)]
//%% @ret r
//%% @rewrite 1 /<T: Semiring \+ std::ops::Mul<Output = T> \+ std::ops::Add<Output = T>>/ => <T: Semiring>
//%% @rewrite 1 /let mut weight_vec = Vec::new\(\);/ => let mut weight_vec: Vec<&(T, T)> = Vec::new();
//%% @rewrite 1 /for assgn in AssignmentIter::new\(([\w.]+(?:\(\))?)\) \{/ => let mut as__it = AssignmentIter::new(\1); let mut as__nx = as__it.next();\n        while as__nx.is_some() { let assgn = as__nx.unwrap();
//%% @rewrite 1 /let assgn_w = assgn\n\s*\.iter\(\)\n\s*\.enumerate\(\)\n\s*\.fold\(T::one\(\), \|v, \(idx, &polarity\)\| \{/ => let assgn_w = { let mut fold__v: T = T::one(); let mut fold__i: usize = 0; while fold__i < assgn.len() { let (idx, polarity) = (fold__i, assgn[fold__i]); let v = fold__v; fold__v = {
//%% @rewrite 1 /v\.mul\(([^;]*?)\)\n\s*\}\);/ => v * (\1) }; fold__i += 1; } fold__v };
//%% @rewrite 1 /total = total \+ assgn_w;\n\s*\}\n(\s*)\}\n/ => total = total + assgn_w;\n            }\n\1as__nx = as__it.next(); }\n
//%% @spec
        requires
            self.wf(), sr_ops_ok::<T>(), T::ops_ok(), weights.wf(), T::one_s().valid(), T::zero_s().valid(),
            forall|v: VarLabel| v.0 < self.num_vars ==> #[trigger] weights.has_weight(v),
        ensures
            // THE property: the sum, over ALL assignments of the formula's variables (each once, in counting order), of the weight of
            // the assignment if it satisfies the formula -- for the empty formula the single empty assignment, weight one
            exists|asg: Seq<Seq<bool>>| all_asg(asg, self.num_vars as nat) && r == bsum(self.clauses@, weights.wview(), asg, asg.len() as int),
//%% @entry
        let ghost n__g = self.num_vars as nat;
        let ghost w__g = weights.wview();
        let ghost cs__g = self.clauses@;
        proof {
            assert forall|i: int| 0 <= i < n__g implies (#[trigger] w__g(i as u64)).0.valid() && w__g(i as u64).1.valid() by {
                assert(weights.has_weight(VarLabel(i as u64)));
                assert(weights.var_to_val@[i] is Some);
            }
        }
//%% @loop 1 /^for i in 0\.\.[\w.]+(\(\))?$/
            invariant
                n__g == self.num_vars, w__g == weights.wview(),
                forall|v: VarLabel| v.0 < self.num_vars ==> #[trigger] weights.has_weight(v),
                weight_vec@.len() == i,
                forall|j: int| 0 <= j < i ==> *(#[trigger] weight_vec@[j]) == w__g(j as u64),
//%% @before /let mut as__it = AssignmentIter::new/
        let ghost mut done: Seq<Seq<bool>> = Seq::empty();
        proof { lemma_pow2_pos(n__g); }
//%% @before /^\s*while as__nx\.is_some\(\) \{/
        proof { if as__nx is Some { lemma_bval_zero(as__nx->Some_0@); } }
//%% @before /^\s*total$/
        proof { assert(all_asg(done, n__g)); }
//%% @loop 2 /^while as__nx\.is_some\(\)$/
            invariant
                n__g == self.num_vars, w__g == weights.wview(), cs__g == self.clauses@,
                self.wf(), sr_ops_ok::<T>(), T::ops_ok(), T::one_s().valid(), T::zero_s().valid(), wvalid(w__g, n__g),
                it_ok(as__it), as__it.num_vars == n__g,
                weight_vec@.len() == n__g, forall|j: int| 0 <= j < n__g ==> *(#[trigger] weight_vec@[j]) == w__g(j as u64),
                asg_upto(done, n__g), done.len() <= pow2(n__g),
                as__nx matches Some(a) ==> a@.len() == n__g && bval(a@) == done.len() && as__it.cur == Some(a) && done.len() < pow2(n__g),
                as__nx is None ==> done.len() == pow2(n__g),
                total.valid(), total == bsum(cs__g, w__g, done, done.len() as int),
            decreases pow2(n__g) - done.len(),
//%% @loopbody 2
            let ghost done0 = done;
            let ghost total0 = total;
//%% @loop 3 /^while fold__i < assgn\.len\(\)$/
                    invariant
                        fold__i <= assgn.len(), assgn@.len() == n__g, w__g == weights.wview(),
                        sr_ops_ok::<T>(), wvalid(w__g, n__g), T::one_s().valid(),
                        weight_vec@.len() == n__g, forall|j: int| 0 <= j < n__g ==> *(#[trigger] weight_vec@[j]) == w__g(j as u64),
                        fold__v == aprod(w__g, assgn@, fold__i as int), fold__v.valid(),
                    decreases assgn.len() - fold__i,
//%% @loopbody 3
                    proof { let kk = fold__i as int; assert(w__g(kk as u64).0.valid() && w__g(kk as u64).1.valid()); }
//%% @before /^\s*as__nx = as__it\.next\(\); \}$/
        proof {
            done = done0.push(assgn@);
            lemma_bsum_push(cs__g, w__g, done0, assgn@);
            lemma_aprod_valid(w__g, assgn@, n__g as int, n__g);
            assert(done[done0.len() as int] == assgn@);
        }
//%% @loopend 2
        proof {
            if as__nx is Some { vstd::arithmetic::div_mod::lemma_small_mod((done0.len() + 1) as nat, pow2(n__g)); }
        }
//%% end
}
