// ---- src/builder/bdd/builder.rs: trait BddBuilder (contract + default methods) and the blanket
//      impl of BottomUpBuilder for every BddBuilder ----
/// p is the diagram of the clause c
pub open spec fn clause_diagram(p: BddPtr, c: Seq<Literal>) -> bool {
    forall|env: Env| #[trigger] tr(env) ==> ptr_sem(p, env) == clause_holds(c, env)
}

pub trait BddBuilder<'a>: BottomUpBuilder<'a, BddPtr<'a>> {
    /// the builder's current variable order (ghost view of the RefCell field; A-cell)
    spec fn order_s(&self) -> VarOrder;
    spec fn binv(&self) -> bool;

    fn less_than(&self, a: VarLabel, b: VarLabel) -> (r: bool)
        requires self.binv(), self.order_s().has(a), self.order_s().has(b),
        ensures r == (self.order_s().pos(a) < self.order_s().pos(b));

    /// Normalizes and fetches a node from the store
    fn get_or_insert(&'a self, bdd: BddNode<'a>) -> (r: BddPtr<'a>)
        requires self.binv(), ordered_node(bdd, self.order_s()),
        ensures
            forall|env: Env| #[trigger] tr(env) ==> ptr_sem(r, env) == node_sem(bdd, env), // #SEM
            ordered(r, self.order_s()),
            is_node(r), node_of(r).var == bdd.var,
            // the stored node has the argument's children, both negated when the result is a complemented pointer
            node_of(r).low == (if r is Compl { bdd.low.neg_s() } else { bdd.low }),
            node_of(r).high == (if r is Compl { bdd.high.neg_s() } else { bdd.high }),
            // (C08) smoothness of the children survives the normalisation
            forall|k: int, n: int| #[trigger] smooth_from(bdd.low, k, n, self.order_s()) ==> smooth_from(node_of(r).low, k, n, self.order_s()), // #C08
            forall|k: int, n: int| #[trigger] smooth_from(bdd.high, k, n, self.order_s()) ==> smooth_from(node_of(r).high, k, n, self.order_s()), // #C08
            // C02: the stored node is complement-normalised; canonical children give a canonical node
            !(node_of(r).high is Compl) && !(node_of(r).high is PtrFalse), // #C02
            (canon(bdd.low) && canon(bdd.high) && !PartialEqSpec::eq_spec(&bdd.low, &bdd.high)) ==> canon(r); // #C02

    fn ite_helper(&'a self, f: BddPtr<'a>, g: BddPtr<'a>, h: BddPtr<'a>) -> (r: BddPtr<'a>)
        requires
            self.binv(), ordered(f, self.order_s()), ordered(g, self.order_s()), ordered(h, self.order_s()),
        ensures
            forall|env: Env| #[trigger] tr(env) ==> ptr_sem(r, env) == ite3(ptr_sem(f, env), ptr_sem(g, env), ptr_sem(h, env)), // #SEM
            res_shape(f, g, h, r, self.order_s()),
            res_canon(f, g, h, r); // #C02

    fn cond_helper(&'a self, bdd: BddPtr<'a>, lbl: VarLabel, value: bool) -> (r: BddPtr<'a>)
        requires
            self.binv(), ordered(bdd, self.order_s()), self.order_s().has(lbl),
        ensures
            forall|env: Env| #[trigger] tr(env) ==> ptr_sem(r, env) == ptr_sem(bdd, upd(env, lbl.0, value)), // #SEM
            ordered(r, self.order_s()),
            top(r, self.order_s()) >= top(bdd, self.order_s()),
            canon(bdd) ==> canon(r); // #C02

//%% extract src/builder/bdd/builder.rs :: trait BddBuilder<'a>: BottomUpBuilder<'a, BddPtr<'a>> :: fn or_lst
//%% @ret r
//%% @rewrite 1 /for &itm in f \{/ => for itm__r in it: f.iter() {\n            let itm = *itm__r;
//%% @spec
        requires self.bu_inv(), forall|i: int| 0 <= i < f.len() ==> self.ok(#[trigger] f@[i]),
        ensures self.ok(r),
            (forall|i: int| 0 <= i < f.len() ==> self.shape2(#[trigger] f@[i])) ==> self.shape2(r), // #C02
            forall|env: Env| #[trigger] tr(env) ==> r.sem(env) == (exists|i: int| 0 <= i < f.len() && (#[trigger] f@[i]).sem(env)), // #SEM
//%% @entry
        proof { self.consts_ok(); }
//%% @loop 1 /^for itm__r in it: f\.iter\(\)$/
            invariant
                self.bu_inv(), self.ok(cur_bdd),
                forall|i: int| 0 <= i < f.len() ==> self.ok(#[trigger] f@[i]),
                (forall|i: int| 0 <= i < f.len() ==> self.shape2(#[trigger] f@[i])) ==> self.shape2(cur_bdd),
                forall|env: Env| #[trigger] tr(env) ==> cur_bdd.sem(env) == (exists|i: int| 0 <= i < it.index@ && (#[trigger] f@[i]).sem(env)), // #SEM
//%% end

//%% extract src/builder/bdd/builder.rs :: trait BddBuilder<'a>: BottomUpBuilder<'a, BddPtr<'a>> :: fn and_lst
//%% @ret r
//%% @rewrite 1 /for &itm in f \{/ => for itm__r in it: f.iter() {\n            let itm = *itm__r;
//%% @spec
        requires self.bu_inv(), forall|i: int| 0 <= i < f.len() ==> self.ok(#[trigger] f@[i]),
        ensures self.ok(r),
            (forall|i: int| 0 <= i < f.len() ==> self.shape2(#[trigger] f@[i])) ==> self.shape2(r), // #C02
            forall|env: Env| #[trigger] tr(env) ==> r.sem(env) == (forall|i: int| 0 <= i < f.len() ==> (#[trigger] f@[i]).sem(env)), // #SEM
//%% @entry
        proof { self.consts_ok(); }
//%% @loop 1 /^for itm__r in it: f\.iter\(\)$/
            invariant
                self.bu_inv(), self.ok(cur_bdd),
                forall|i: int| 0 <= i < f.len() ==> self.ok(#[trigger] f@[i]),
                (forall|i: int| 0 <= i < f.len() ==> self.shape2(#[trigger] f@[i])) ==> self.shape2(cur_bdd),
                forall|env: Env| #[trigger] tr(env) ==> cur_bdd.sem(env) == (forall|i: int| 0 <= i < it.index@ ==> (#[trigger] f@[i]).sem(env)), // #SEM
//%% end

// R-for-while: Verus accepts `continue` only in `while` loops, so the inner `for lit in clause.iter()` (which uses
// `break` and `continue`) is desugared to an indexed `while` over the same Vec; the loop body is the real text.
// A-heap (trusted/heap_stub.rs): the BinaryHeap is a stub whose `pop` returns some held element, so the proof covers
// every conjunction order.  `count_nodes` is unverified (A-count) and only feeds the heap priority.
//%% extract src/builder/bdd/builder.rs :: trait BddBuilder<'a>: BottomUpBuilder<'a, BddPtr<'a>> :: fn compile_cnf_with_assignments
//%% @props C05 C01 C02
//%% @attr #[verifier::loop_isolation(false)] #[verifier::allow_complex_invariants]
//%% @ret r
//%% @rewrite 1 /for clause in clauses\.iter\(\) \{/ => for clause in it: clauses.iter() {
//%% @rewrite 1 /for lit in clause\.iter\(\) \{/ => let mut lit__i: usize = 0;\n            while lit__i < clause.len() {\n                let lit = &clause[lit__i];\n                lit__i += 1;
//%% @spec
        requires
            self.bu_inv(),
            forall|i: int, j: int| 0 <= i < cnf.cls().len() && 0 <= j < cnf.cls()[i].len() ==> self.lbl_ok((#[trigger] cnf.cls()[i][j]).lbl),
        ensures
            self.ok(r), self.shape2(r), // #C02
            // the diagram of the formula with the assigned variables fixed to their values
            forall|env: Env| #[trigger] tr(env) ==> r.sem(env) == cnf_holds_under(cnf.cls(), assgn, env), // #SEM
            forall|env: Env| #[trigger] tr(env) ==> r.sem(env) == cnf_holds(cnf.cls(), over(env, assgn)), // #SEM
//%% @entry
        let ghost cls0 = cnf.cls();
        proof {
            tr_all(); self.consts_ok();
            assert forall|env: Env| #[trigger] tr(env) implies cnf_holds_under(cls0, assgn, env) == cnf_holds(cls0, over(env, assgn)) by {
                lemma_under_is_override(cls0, assgn, env);
            }
            assert forall|s: Seq<CompiledCNF>, x: CompiledCNF, env: Env| #![trigger all_sem(s.push(x), env)]
                all_sem(s.push(x), env) == (all_sem(s, env) && x.ptr.sem(env)) by { lemma_all_sem_push(s, x, env); }
            assert forall|s: Seq<CompiledCNF>, i: int, env: Env| #![trigger all_sem(s.remove(i), env)]
                0 <= i < s.len() implies all_sem(s, env) == (s[i].ptr.sem(env) && all_sem(s.remove(i), env)) by { lemma_all_sem_remove(s, i, env); }
        }
//%% @loop 1 /^for clause in it: clauses\.iter\(\)$/
            invariant
                self.bu_inv(), clauses@ == cls0, compiled_heap@.len() == it.index@,
                forall|k: int| 0 <= k < compiled_heap@.len() ==> self.ok((#[trigger] compiled_heap@[k]).ptr) && self.shape2(compiled_heap@[k].ptr),
                forall|env: Env| #[trigger] tr(env) ==> all_sem(compiled_heap@, env) == (forall|i: int| 0 <= i < it.index@ ==> clause_holds_under((#[trigger] cls0[i])@, assgn, env)), // #SEM
//%% @loopbody 1
            proof {
                assert(clause@ == cls0[it.index@ as int]@);
                assert forall|j: int| 0 <= j < clause.len() implies self.lbl_ok((#[trigger] clause@[j]).lbl) by { assert(clause@[j] == cls0[it.index@ as int][j]); }
            }
//%% @loop 2 /^while lit__i < clause\.len\(\)$/
                invariant_except_break
                    forall|env: Env| #[trigger] tr(env) ==> cur_ptr.sem(env) == (exists|j: int| 0 <= j < lit__i && lit_under(#[trigger] clause@[j], assgn, env)), // #SEM
                invariant
                    lit__i <= clause.len(), self.ok(cur_ptr), self.shape2(cur_ptr),
                ensures
                    forall|env: Env| #[trigger] tr(env) ==> cur_ptr.sem(env) == clause_holds_under(clause@, assgn, env), // #SEM
                decreases clause.len() - lit__i,
//%% @loop 3 /^while compiled_heap\.len\(\)/
            invariant
                compiled_heap@.len() >= 1,
                forall|k: int| 0 <= k < compiled_heap@.len() ==> self.ok((#[trigger] compiled_heap@[k]).ptr) && self.shape2(compiled_heap@[k].ptr),
                forall|env: Env| #[trigger] tr(env) ==> all_sem(compiled_heap@, env) == cnf_holds_under(cls0, assgn, env), // #SEM
            decreases compiled_heap@.len(),
//%% end

//%% extract src/builder/bdd/builder.rs :: trait BddBuilder<'a>: BottomUpBuilder<'a, BddPtr<'a>> :: fn collapse_clauses
//%% @attr #[verifier::exec_allows_no_decreases_clause]
//%% @ret r
//%% @spec
        requires self.bu_inv(), forall|i: int| 0 <= i < vec.len() ==> self.ok(#[trigger] vec@[i]),
        ensures
            // None exactly for the empty slice; otherwise the conjunction of the slice
            (r is None) == (vec.len() == 0),
            r matches Some(x) ==> self.ok(x),
            r matches Some(x) ==> ((forall|i: int| 0 <= i < vec.len() ==> self.shape2(#[trigger] vec@[i])) ==> self.shape2(x)), // #C02
            r matches Some(x) ==> (forall|env: Env| #[trigger] tr(env) ==> x.sem(env) == (forall|i: int| 0 <= i < vec.len() ==> (#[trigger] vec@[i]).sem(env))), // #SEM
//%% @entry
        proof {
            let mid = (vec.len() / 2) as int;
            assert forall|env: Env| #[trigger] tr(env) implies
                (forall|i: int| 0 <= i < vec.len() ==> (#[trigger] vec@[i]).sem(env))
                == ((forall|i: int| 0 <= i < mid ==> (#[trigger] vec@.subrange(0, mid)[i]).sem(env))
                    && (forall|i: int| 0 <= i < vec.len() - mid ==> (#[trigger] vec@.subrange(mid, vec.len() as int)[i]).sem(env))) by {
                if (forall|i: int| 0 <= i < vec.len() ==> (#[trigger] vec@[i]).sem(env)) {
                    assert forall|i: int| 0 <= i < mid implies (#[trigger] vec@.subrange(0, mid)[i]).sem(env) by { assert(vec@.subrange(0, mid)[i] == vec@[i]); }
                    assert forall|i: int| 0 <= i < vec.len() - mid implies (#[trigger] vec@.subrange(mid, vec.len() as int)[i]).sem(env) by { assert(vec@.subrange(mid, vec.len() as int)[i] == vec@[i + mid]); }
                }
                if (forall|i: int| 0 <= i < mid ==> (#[trigger] vec@.subrange(0, mid)[i]).sem(env))
                    && (forall|i: int| 0 <= i < vec.len() - mid ==> (#[trigger] vec@.subrange(mid, vec.len() as int)[i]).sem(env)) {
                    assert forall|i: int| 0 <= i < vec.len() implies (#[trigger] vec@[i]).sem(env) by {
                        if i < mid { assert(vec@.subrange(0, mid)[i] == vec@[i]); } else { assert(vec@.subrange(mid, vec.len() as int)[i - mid] == vec@[i]); }
                    }
                }
            }
            assert forall|i: int| 0 <= i < mid implies self.ok(#[trigger] vec@.subrange(0, mid)[i]) by { assert(vec@.subrange(0, mid)[i] == vec@[i]); }
            assert forall|i: int| 0 <= i < vec.len() - mid implies self.ok(#[trigger] vec@.subrange(mid, vec.len() as int)[i]) by { assert(vec@.subrange(mid, vec.len() as int)[i] == vec@[i + mid]); }
            if (forall|i: int| 0 <= i < vec.len() ==> self.shape2(#[trigger] vec@[i])) {
                assert forall|i: int| 0 <= i < mid implies self.shape2(#[trigger] vec@.subrange(0, mid)[i]) by { assert(vec@.subrange(0, mid)[i] == vec@[i]); }
                assert forall|i: int| 0 <= i < vec.len() - mid implies self.shape2(#[trigger] vec@.subrange(mid, vec.len() as int)[i]) by { assert(vec@.subrange(mid, vec.len() as int)[i] == vec@[i + mid]); }
            }
        }
//%% end
}

impl<'a, T> BottomUpBuilder<'a, BddPtr<'a>> for T
where
    T: BddBuilder<'a>,
{
    open spec fn bu_inv(&self) -> bool { self.binv() }
    open spec fn ok(&self, p: BddPtr<'a>) -> bool { ordered(p, self.order_s()) }
    open spec fn lbl_ok(&self, l: VarLabel) -> bool { self.order_s().has(l) }
    open spec fn shape2(&self, p: BddPtr<'a>) -> bool { canon(p) }
    proof fn consts_ok(&self) {}

//%% extract src/builder/bdd/builder.rs :: impl<'a, T> BottomUpBuilder<'a, BddPtr<'a>> for T where T: BddBuilder<'a>, :: fn true_ptr
//%% end

//%% extract src/builder/bdd/builder.rs :: impl<'a, T> BottomUpBuilder<'a, BddPtr<'a>> for T where T: BddBuilder<'a>, :: fn false_ptr
//%% end

//%% extract src/builder/bdd/builder.rs :: impl<'a, T> BottomUpBuilder<'a, BddPtr<'a>> for T where T: BddBuilder<'a>, :: fn var
//%% @entry
        proof { axiom_bddptr_eq(); }
//%% end

//%% extract src/builder/bdd/builder.rs :: impl<'a, T> BottomUpBuilder<'a, BddPtr<'a>> for T where T: BddBuilder<'a>, :: fn eq
//%% end

//%% extract src/builder/bdd/builder.rs :: impl<'a, T> BottomUpBuilder<'a, BddPtr<'a>> for T where T: BddBuilder<'a>, :: fn and
//%% end

//%% extract src/builder/bdd/builder.rs :: impl<'a, T> BottomUpBuilder<'a, BddPtr<'a>> for T where T: BddBuilder<'a>, :: fn negate
//%% end

//%% extract src/builder/bdd/builder.rs :: impl<'a, T> BottomUpBuilder<'a, BddPtr<'a>> for T where T: BddBuilder<'a>, :: fn ite
//%% end

//%% extract src/builder/bdd/builder.rs :: impl<'a, T> BottomUpBuilder<'a, BddPtr<'a>> for T where T: BddBuilder<'a>, :: fn iff
//%% end

//%% extract src/builder/bdd/builder.rs :: impl<'a, T> BottomUpBuilder<'a, BddPtr<'a>> for T where T: BddBuilder<'a>, :: fn xor
//%% end

//%% extract src/builder/bdd/builder.rs :: impl<'a, T> BottomUpBuilder<'a, BddPtr<'a>> for T where T: BddBuilder<'a>, :: fn exists
//%% @entry
        proof { tr_all(); }
//%% end

// R-iter-std / R-sort (trusted/cnf_stub.rs): the empty-clause test `cnf.clauses().iter().any(|x| x.is_empty())` and the
// clause-sorting prologue (`to_vec` + `sort_by` with a comparator built from `max_by` closures) are replaced by stubs
// with the std semantics; the sort stub returns SOME rearrangement of the clauses, so the comparator -- a heuristic that
// only decides in which order clauses are conjoined -- is outside the proof and nothing is assumed about it.
//%% extract src/builder/bdd/builder.rs :: impl<'a, T> BottomUpBuilder<'a, BddPtr<'a>> for T where T: BddBuilder<'a>, :: fn compile_cnf
//%% @props C05 C01 C02
//%% @attr #[verifier::loop_isolation(false)]
//%% @ret r
//%% @rewrite 1 /cnf\.clauses\(\)\.iter\(\)\.any\(\|x\| x\.is_empty\(\)\)/ => verif_any_empty_clause(cnf.clauses())
//%% @rewrite 1 /let mut cnf_sorted = cnf\.clauses\(\)\.to_vec\(\);\n        cnf_sorted\.sort_by\(\|c1, c2\| \{.*?\n        \}\);/ => let cnf_sorted = verif_sort_clauses(cnf.clauses());
//%% @rewrite 1 /for lit_vec in cnf_sorted\.iter\(\) \{/ => for lit_vec in it: cnf_sorted.iter() {
//%% @rewrite 1 /for lit in lit_vec \{/ => for lit in it2: lit_vec.iter() {
//%% @entry
        let ghost cls0 = cnf.cls();
        let ghost perm = sort_perm(cnf.cls());
        let ghost inv = sort_inv(cnf.cls());
        proof {
            tr_all(); self.consts_ok();
            // conjunction over the rearranged clauses == conjunction over the clauses, for any rearrangement
            assert forall|env: Env| #[trigger] tr(env) implies
                ((perm.len() == cls0.len() && inv.len() == cls0.len()
                  && (forall|i: int| 0 <= i < cls0.len() ==> 0 <= #[trigger] perm[i] < cls0.len())
                  && (forall|k: int| 0 <= k < cls0.len() ==> 0 <= #[trigger] inv[k] < cls0.len() && perm[inv[k]] == k))
                 ==> ((forall|i: int| 0 <= i < cls0.len() ==> clause_holds(cls0[#[trigger] perm[i]]@, env)) == cnf_holds(cls0, env))) by {
                if perm.len() == cls0.len() && inv.len() == cls0.len()
                    && (forall|i: int| 0 <= i < cls0.len() ==> 0 <= #[trigger] perm[i] < cls0.len())
                    && (forall|k: int| 0 <= k < cls0.len() ==> 0 <= #[trigger] inv[k] < cls0.len() && perm[inv[k]] == k) {
                    if (forall|i: int| 0 <= i < cls0.len() ==> clause_holds(cls0[#[trigger] perm[i]]@, env)) {
                        assert forall|k: int| 0 <= k < cls0.len() implies clause_holds((#[trigger] cls0[k])@, env) by {
                            assert(perm[inv[k]] == k);
                        }
                    }
                    if cnf_holds(cls0, env) {
                        assert forall|i: int| 0 <= i < cls0.len() implies clause_holds(cls0[#[trigger] perm[i]]@, env) by {}
                    }
                }
            }
        }
//%% @loop 1 /^for lit_vec in it: cnf_sorted\.iter\(\)$/
            invariant
                self.bu_inv(), cvec.len() == it.index@, cnf_sorted.len() == cls0.len(), perm.len() == cls0.len(),
                forall|i: int, j: int| 0 <= i < cls0.len() && 0 <= j < cls0[i].len() ==> self.lbl_ok((#[trigger] cls0[i][j]).lbl),
                forall|i: int| 0 <= i < cls0.len() ==> (#[trigger] cls0[i]).len() > 0,
                forall|i: int| 0 <= i < cnf_sorted.len() ==> 0 <= #[trigger] perm[i] < cls0.len() && cnf_sorted@[i]@ == cls0[perm[i]]@,
                forall|i: int| 0 <= i < cvec.len() ==> self.ok(#[trigger] cvec@[i]) && self.shape2(cvec@[i]),
                forall|i: int| #![trigger cvec@[i]] #![trigger perm[i]] 0 <= i < cvec.len() ==> clause_diagram(cvec@[i], cls0[perm[i]]@), // #SEM
//%% @loopbody 1
            proof {
                tr_all();
                // the clause being compiled is one of the CNF's clauses: non-empty, labels known to the builder
                let k0 = perm[it.index@ as int];
                assert(lit_vec@ == cls0[k0]@);
                assert(cls0[k0].len() > 0);
                assert forall|j: int| 0 <= j < lit_vec.len() implies self.lbl_ok((#[trigger] lit_vec@[j]).lbl) by { assert(lit_vec@[j] == cls0[k0][j]); }
            }
//%% @loop 2 /^for lit in it2: lit_vec\.iter\(\)$/
                invariant
                    self.bu_inv(), self.ok(bdd), self.shape2(bdd), lit_vec.len() > 0,
                    forall|j: int| 0 <= j < lit_vec.len() ==> self.lbl_ok((#[trigger] lit_vec@[j]).lbl),
                    forall|env: Env| #[trigger] tr(env) ==> bdd.sem(env) == (lit_holds(lit_vec@[0], env) || exists|j: int| 0 <= j < it2.index@ && lit_holds(#[trigger] lit_vec@[j], env)), // #SEM
//%% @loopbody 2
                proof { tr_all(); }
//%% end

// R-scratch: `r.clear_scratch(); bdd.clear_scratch();` reset the per-node memo fields deleted by R-scratch
//%% extract src/builder/bdd/builder.rs :: impl<'a, T> BottomUpBuilder<'a, BddPtr<'a>> for T where T: BddBuilder<'a>, :: fn condition
//%% @rewrite 1 /\n        r\.clear_scratch\(\);\n        bdd\.clear_scratch\(\);/ => 
//%% end
}
