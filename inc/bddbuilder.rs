// ---- src/builder/bdd/builder.rs: trait BddBuilder (contract + default methods) and the blanket
//      impl of BottomUpBuilder for every BddBuilder ----
pub trait BddBuilder<'a>: BottomUpBuilder<'a, BddPtr<'a>> {
    /// the builder's current variable order (ghost view of the RefCell field; A-cell)
    spec fn order_s(&self) -> VarOrder;
    spec fn binv(&self) -> bool;

    fn less_than(&self, a: VarLabel, b: VarLabel) -> (r: bool)
        requires self.binv(), self.order_s().has(a), self.order_s().has(b),
        ensures r == (self.order_s().pos(a) < self.order_s().pos(b));

    /// Normalizes and fetches a node from the store
    fn get_or_insert(&'a self, bdd: BddNode<'a>) -> (r: BddPtr<'a>)
        requires self.binv(), ordered_node(bdd, self.order_s()),
        ensures
            forall|env: Env| #[trigger] tr(env) ==> ptr_sem(r, env) == node_sem(bdd, env), // #SEM
            ordered(r, self.order_s()),
            is_node(r), node_of(r).var == bdd.var,
            // the stored node has the argument's children, both negated when the result is a complemented pointer
            node_of(r).low == (if r is Compl { bdd.low.neg_s() } else { bdd.low }),
            node_of(r).high == (if r is Compl { bdd.high.neg_s() } else { bdd.high }),
            // (C08) smoothness of the children survives the normalisation
            forall|k: int, n: int| #[trigger] smooth_from(bdd.low, k, n, self.order_s()) ==> smooth_from(node_of(r).low, k, n, self.order_s()), // #C08
            forall|k: int, n: int| #[trigger] smooth_from(bdd.high, k, n, self.order_s()) ==> smooth_from(node_of(r).high, k, n, self.order_s()), // #C08
            // C02: the stored node is complement-normalised; canonical children give a canonical node
            !(node_of(r).high is Compl) && !(node_of(r).high is PtrFalse), // #C02
            (canon(bdd.low) && canon(bdd.high) && !PartialEqSpec::eq_spec(&bdd.low, &bdd.high)) ==> canon(r); // #C02

    fn ite_helper(&'a self, f: BddPtr<'a>, g: BddPtr<'a>, h: BddPtr<'a>) -> (r: BddPtr<'a>)
        requires
            self.binv(), ordered(f, self.order_s()), ordered(g, self.order_s()), ordered(h, self.order_s()),
        ensures
            forall|env: Env| #[trigger] tr(env) ==> ptr_sem(r, env) == ite3(ptr_sem(f, env), ptr_sem(g, env), ptr_sem(h, env)), // #SEM
            res_shape(f, g, h, r, self.order_s()),
            res_canon(f, g, h, r); // #C02

    fn cond_helper(&'a self, bdd: BddPtr<'a>, lbl: VarLabel, value: bool) -> (r: BddPtr<'a>)
        requires
            self.binv(), ordered(bdd, self.order_s()), self.order_s().has(lbl),
        ensures
            forall|env: Env| #[trigger] tr(env) ==> ptr_sem(r, env) == ptr_sem(bdd, upd(env, lbl.0, value)), // #SEM
            ordered(r, self.order_s()),
            top(r, self.order_s()) >= top(bdd, self.order_s()),
            canon(bdd) ==> canon(r); // #C02

//%% extract src/builder/bdd/builder.rs :: trait BddBuilder<'a>: BottomUpBuilder<'a, BddPtr<'a>> :: fn or_lst
//%% @ret r
//%% @rewrite 1 /for &itm in f \{/ => for itm__r in it: f.iter() {\n            let itm = *itm__r;
//%% @spec
        requires self.bu_inv(), forall|i: int| 0 <= i < f.len() ==> self.ok(#[trigger] f@[i]),
        ensures self.ok(r),
            (forall|i: int| 0 <= i < f.len() ==> self.shape2(#[trigger] f@[i])) ==> self.shape2(r), // #C02
            forall|env: Env| #[trigger] tr(env) ==> r.sem(env) == (exists|i: int| 0 <= i < f.len() && (#[trigger] f@[i]).sem(env)), // #SEM
//%% @entry
        proof { self.consts_ok(); }
//%% @loop 1 /^for itm__r in it: f\.iter\(\)$/
            invariant
                self.bu_inv(), self.ok(cur_bdd),
                forall|i: int| 0 <= i < f.len() ==> self.ok(#[trigger] f@[i]),
                (forall|i: int| 0 <= i < f.len() ==> self.shape2(#[trigger] f@[i])) ==> self.shape2(cur_bdd),
                forall|env: Env| #[trigger] tr(env) ==> cur_bdd.sem(env) == (exists|i: int| 0 <= i < it.index@ && (#[trigger] f@[i]).sem(env)), // #SEM
//%% end

//%% extract src/builder/bdd/builder.rs :: trait BddBuilder<'a>: BottomUpBuilder<'a, BddPtr<'a>> :: fn and_lst
//%% @ret r
//%% @rewrite 1 /for &itm in f \{/ => for itm__r in it: f.iter() {\n            let itm = *itm__r;
//%% @spec
        requires self.bu_inv(), forall|i: int| 0 <= i < f.len() ==> self.ok(#[trigger] f@[i]),
        ensures self.ok(r),
            (forall|i: int| 0 <= i < f.len() ==> self.shape2(#[trigger] f@[i])) ==> self.shape2(r), // #C02
            forall|env: Env| #[trigger] tr(env) ==> r.sem(env) == (forall|i: int| 0 <= i < f.len() ==> (#[trigger] f@[i]).sem(env)), // #SEM
//%% @entry
        proof { self.consts_ok(); }
//%% @loop 1 /^for itm__r in it: f\.iter\(\)$/
            invariant
                self.bu_inv(), self.ok(cur_bdd),
                forall|i: int| 0 <= i < f.len() ==> self.ok(#[trigger] f@[i]),
                (forall|i: int| 0 <= i < f.len() ==> self.shape2(#[trigger] f@[i])) ==> self.shape2(cur_bdd),
                forall|env: Env| #[trigger] tr(env) ==> cur_bdd.sem(env) == (forall|i: int| 0 <= i < it.index@ ==> (#[trigger] f@[i]).sem(env)), // #SEM
//%% end

//%% extract src/builder/bdd/builder.rs :: trait BddBuilder<'a>: BottomUpBuilder<'a, BddPtr<'a>> :: fn collapse_clauses
//%% @attr #[verifier::exec_allows_no_decreases_clause]
//%% @ret r
//%% @spec
        requires self.bu_inv(), forall|i: int| 0 <= i < vec.len() ==> self.ok(#[trigger] vec@[i]),
        ensures
            // None exactly for the empty slice; otherwise the conjunction of the slice
            (r is None) == (vec.len() == 0),
            r matches Some(x) ==> self.ok(x),
            r matches Some(x) ==> ((forall|i: int| 0 <= i < vec.len() ==> self.shape2(#[trigger] vec@[i])) ==> self.shape2(x)), // #C02
            r matches Some(x) ==> (forall|env: Env| #[trigger] tr(env) ==> x.sem(env) == (forall|i: int| 0 <= i < vec.len() ==> (#[trigger] vec@[i]).sem(env))), // #SEM
//%% @entry
        proof {
            let mid = (vec.len() / 2) as int;
            assert forall|env: Env| #[trigger] tr(env) implies
                (forall|i: int| 0 <= i < vec.len() ==> (#[trigger] vec@[i]).sem(env))
                == ((forall|i: int| 0 <= i < mid ==> (#[trigger] vec@.subrange(0, mid)[i]).sem(env))
                    && (forall|i: int| 0 <= i < vec.len() - mid ==> (#[trigger] vec@.subrange(mid, vec.len() as int)[i]).sem(env))) by {
                if (forall|i: int| 0 <= i < vec.len() ==> (#[trigger] vec@[i]).sem(env)) {
                    assert forall|i: int| 0 <= i < mid implies (#[trigger] vec@.subrange(0, mid)[i]).sem(env) by { assert(vec@.subrange(0, mid)[i] == vec@[i]); }
                    assert forall|i: int| 0 <= i < vec.len() - mid implies (#[trigger] vec@.subrange(mid, vec.len() as int)[i]).sem(env) by { assert(vec@.subrange(mid, vec.len() as int)[i] == vec@[i + mid]); }
                }
                if (forall|i: int| 0 <= i < mid ==> (#[trigger] vec@.subrange(0, mid)[i]).sem(env))
                    && (forall|i: int| 0 <= i < vec.len() - mid ==> (#[trigger] vec@.subrange(mid, vec.len() as int)[i]).sem(env)) {
                    assert forall|i: int| 0 <= i < vec.len() implies (#[trigger] vec@[i]).sem(env) by {
                        if i < mid { assert(vec@.subrange(0, mid)[i] == vec@[i]); } else { assert(vec@.subrange(mid, vec.len() as int)[i - mid] == vec@[i]); }
                    }
                }
            }
            assert forall|i: int| 0 <= i < mid implies self.ok(#[trigger] vec@.subrange(0, mid)[i]) by { assert(vec@.subrange(0, mid)[i] == vec@[i]); }
            assert forall|i: int| 0 <= i < vec.len() - mid implies self.ok(#[trigger] vec@.subrange(mid, vec.len() as int)[i]) by { assert(vec@.subrange(mid, vec.len() as int)[i] == vec@[i + mid]); }
            if (forall|i: int| 0 <= i < vec.len() ==> self.shape2(#[trigger] vec@[i])) {
                assert forall|i: int| 0 <= i < mid implies self.shape2(#[trigger] vec@.subrange(0, mid)[i]) by { assert(vec@.subrange(0, mid)[i] == vec@[i]); }
                assert forall|i: int| 0 <= i < vec.len() - mid implies self.shape2(#[trigger] vec@.subrange(mid, vec.len() as int)[i]) by { assert(vec@.subrange(mid, vec.len() as int)[i] == vec@[i + mid]); }
            }
        }
//%% end
}

impl<'a, T> BottomUpBuilder<'a, BddPtr<'a>> for T
where
    T: BddBuilder<'a>,
{
    open spec fn bu_inv(&self) -> bool { self.binv() }
    open spec fn ok(&self, p: BddPtr<'a>) -> bool { ordered(p, self.order_s()) }
    open spec fn lbl_ok(&self, l: VarLabel) -> bool { self.order_s().has(l) }
    open spec fn shape2(&self, p: BddPtr<'a>) -> bool { canon(p) }
    proof fn consts_ok(&self) {}

//%% extract src/builder/bdd/builder.rs :: impl<'a, T> BottomUpBuilder<'a, BddPtr<'a>> for T where T: BddBuilder<'a>, :: fn true_ptr
//%% end

//%% extract src/builder/bdd/builder.rs :: impl<'a, T> BottomUpBuilder<'a, BddPtr<'a>> for T where T: BddBuilder<'a>, :: fn false_ptr
//%% end

//%% extract src/builder/bdd/builder.rs :: impl<'a, T> BottomUpBuilder<'a, BddPtr<'a>> for T where T: BddBuilder<'a>, :: fn var
//%% @entry
        proof { axiom_bddptr_eq(); }
//%% end

//%% extract src/builder/bdd/builder.rs :: impl<'a, T> BottomUpBuilder<'a, BddPtr<'a>> for T where T: BddBuilder<'a>, :: fn eq
//%% end

//%% extract src/builder/bdd/builder.rs :: impl<'a, T> BottomUpBuilder<'a, BddPtr<'a>> for T where T: BddBuilder<'a>, :: fn and
//%% end

//%% extract src/builder/bdd/builder.rs :: impl<'a, T> BottomUpBuilder<'a, BddPtr<'a>> for T where T: BddBuilder<'a>, :: fn negate
//%% end

//%% extract src/builder/bdd/builder.rs :: impl<'a, T> BottomUpBuilder<'a, BddPtr<'a>> for T where T: BddBuilder<'a>, :: fn ite
//%% end

//%% extract src/builder/bdd/builder.rs :: impl<'a, T> BottomUpBuilder<'a, BddPtr<'a>> for T where T: BddBuilder<'a>, :: fn iff
//%% end

//%% extract src/builder/bdd/builder.rs :: impl<'a, T> BottomUpBuilder<'a, BddPtr<'a>> for T where T: BddBuilder<'a>, :: fn xor
//%% end

//%% extract src/builder/bdd/builder.rs :: impl<'a, T> BottomUpBuilder<'a, BddPtr<'a>> for T where T: BddBuilder<'a>, :: fn exists
//%% @entry
        proof { tr_all(); }
//%% end

// R-scratch: `r.clear_scratch(); bdd.clear_scratch();` reset the per-node memo fields deleted by R-scratch
//%% extract src/builder/bdd/builder.rs :: impl<'a, T> BottomUpBuilder<'a, BddPtr<'a>> for T where T: BddBuilder<'a>, :: fn condition
//%% @rewrite 1 /\n        r\.clear_scratch\(\);\n        bdd\.clear_scratch\(\);/ => 
//%% end
}
