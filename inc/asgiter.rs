// ---- src/repr/cnf.rs: AssignmentIter -- the binary counter behind the brute-force count (C15) ----
pub open spec fn pow2(p: nat) -> nat decreases p { if p == 0 { 1 } else { 2 * pow2((p - 1) as nat) } }
pub proof fn lemma_pow2_pos(p: nat) ensures pow2(p) > 0 decreases p { if p > 0 { lemma_pow2_pos((p - 1) as nat); } }
//%% extract src/repr/cnf.rs :: - :: struct AssignmentIter
//%% @pub
//%% end

/// the number a bit vector spells, least significant bit first
pub open spec fn bval(s: Seq<bool>) -> nat
    decreases s.len()
{
    if s.len() == 0 { 0 } else { bval(s.drop_last()) + (if s.last() { pow2((s.len() - 1) as nat) } else { 0 }) }
}
pub proof fn lemma_bval_bound(s: Seq<bool>)
    ensures bval(s) < pow2(s.len())
    decreases s.len()
{
    if s.len() > 0 { lemma_bval_bound(s.drop_last()); }
}
pub open spec fn all_false(s: Seq<bool>) -> bool { forall|i: int| 0 <= i < s.len() ==> !#[trigger] s[i] }
pub proof fn lemma_bval_zero(s: Seq<bool>)
    requires all_false(s),
    ensures bval(s) == 0,
    decreases s.len()
{
    if s.len() > 0 { lemma_bval_zero(s.drop_last()); }
}
/// the counter's state: nothing yet, or a vector of num_vars bits
pub open spec fn it_ok(it: AssignmentIter) -> bool { it.cur matches Some(v) ==> v@.len() == it.num_vars }

impl AssignmentIter {
//%% extract src/repr/cnf.rs :: impl AssignmentIter :: fn new
//%% @ret r
//%% @spec
        ensures r.cur is None, r.num_vars == num_vars,
//%% end

// R-trait-inherent: `impl Iterator for AssignmentIter { type Item = Vec<bool>; fn next .. }` is emitted as an inherent method.
// R-map-collect: `(0..n).map(|_| false).collect()` pushes the closure's value n times.  R-fold: `xs.iter().fold(init, |(mut cur_l, carry),
// cur_assgn| BODY)` is the loop that threads the accumulator through BODY for every element in order, BODY (the half-adder) verbatim.
// R-xor: `a ^ b` on bool (rejected by Verus) is `a != b`.  A-clone: `Option<Vec<bool>>::clone` returns an equal value (stub verif_clone_opt).
//%% extract src/repr/cnf.rs :: impl Iterator for AssignmentIter :: fn next
//%% @pub
//%% @ret r
//%% @rewrite 1 /Option<Self::Item>/ => Option<Vec<bool>>
//%% @rewrite 1 /Some\(\((\w+)\.\.self\.num_vars\)\.map\(\|_\| (\w+)\)\.collect\(\)\)/ => Some({ let mut mc__out: Vec<bool> = Vec::new(); let mut mc__i: usize = \1; while mc__i < self.num_vars invariant mc__i <= self.num_vars, mc__out@.len() == mc__i, all_false(mc__out@) decreases self.num_vars - mc__i { mc__out.push(\2); mc__i += 1; } mc__out })
//%% @rewrite 2 /self\.cur\.clone\(\)/ => verif_clone_opt(&self.cur)
//%% @rewrite 1 /let \(new_c, carry\) = self\.cur\.as_ref\(\)\.unwrap\(\)\.iter\(\)\.fold\(\n\s*\(Vec::new\(\), (\w+)\),\n\s*\|\(mut cur_l, carry\), cur_assgn\| \{/ => let fold__v = self.cur.as_ref().unwrap(); let mut fold__acc: (Vec<bool>, bool) = (Vec::new(), \1); let mut fold__i: usize = 0; while fold__i < fold__v.len() { let cur_assgn = &fold__v[fold__i]; let (mut cur_l, carry) = fold__acc;
//%% @rewrite 1 /\(cur_l, new_carry\)\n\s*\},\n\s*\);/ => fold__acc = (cur_l, new_carry); fold__i += 1; } let (new_c, carry) = fold__acc;
//%% @rewrite 1 /cur_assgn \^ carry/ => (*cur_assgn != carry)
//%% @spec
        requires it_ok(*old(self)),
        ensures
            it_ok(*final(self)), final(self).num_vars == old(self).num_vars,
            // first call: the all-false assignment
            old(self).cur is None ==> (r matches Some(a) && a@.len() == old(self).num_vars && all_false(a@) && final(self).cur == Some(a)),
            // afterwards: the binary successor; None (and a wrapped-around state) exactly after the all-true assignment
            old(self).cur matches Some(v) ==> (final(self).cur matches Some(w)
                && bval(w@) == (bval(v@) + 1) % pow2(v@.len())
                && (r is None <==> bval(v@) + 1 == pow2(v@.len()))
                && (r matches Some(a) ==> a == w)),
//%% @before /self\.cur = Some\(new_c\);/
            proof {
                let v = fold__v@; let n = v.len();
                assert(v.take(n as int) =~= v);
                lemma_bval_bound(new_c@); lemma_bval_bound(v); lemma_pow2_pos(n);
                if carry {
                    vstd::arithmetic::div_mod::lemma_mod_self_0(pow2(n) as int);
                } else {
                    vstd::arithmetic::div_mod::lemma_small_mod((bval(v) + 1) as nat, pow2(n));
                }
            }
//%% @loop 2 /^while fold__i < fold__v\.len\(\)$/
                invariant
                    fold__i <= fold__v.len(), fold__acc.0@.len() == fold__i,
                    bval(fold__acc.0@) + (if fold__acc.1 { pow2(fold__i as nat) } else { 0 }) == bval(fold__v@.take(fold__i as int)) + 1,
                decreases fold__v.len() - fold__i,
//%% @loopbody 2
                let ghost cur__l0 = fold__acc.0@;
                proof {
                    let i = fold__i as int;
                    assert(fold__v@.take(i + 1).drop_last() =~= fold__v@.take(i));
                    assert(fold__v@.take(i + 1).last() == fold__v@[i]);
                }
//%% @loopend 2
                proof {
                    let i = fold__i as int - 1;
                    assert(fold__acc.0@.drop_last() =~= cur__l0);
                    assert(pow2((i + 1) as nat) == 2 * pow2(i as nat));
                }
//%% end
}
/// A-clone
#[verifier::external_body]
pub fn verif_clone_opt(o: &Option<Vec<bool>>) -> (r: Option<Vec<bool>>)
    ensures r == *o,
{ unimplemented!() }
/// a bit vector of a given length is determined by the number it spells: so a listing whose entry j spells j, for j = 0 .. 2^n - 1,
/// holds every assignment of n variables exactly once
pub proof fn lemma_bval_inj(a: Seq<bool>, b: Seq<bool>)
    requires a.len() == b.len(), bval(a) == bval(b),
    ensures a == b,
    decreases a.len(),
{
    if a.len() > 0 {
        lemma_bval_bound(a.drop_last()); lemma_bval_bound(b.drop_last());
        lemma_bval_inj(a.drop_last(), b.drop_last());
        assert(a =~= a.drop_last().push(a.last()));
        assert(b =~= b.drop_last().push(b.last()));
    } else {
        assert(a =~= b);
    }
}
