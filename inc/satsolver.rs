// ---- src/repr/unit_prop.rs: SATSolver::decide / pop composed with the contract of the real propagator (C09) ----
//%% include trusted/pm_clone.rs
//%% include trusted/sat_iters.rs
//%% include trusted/sat_new_stub.rs

/// the literal occurs among the first k entries of a weighted clause
pub open spec fn wcontains_upto(c: Seq<(Literal, u128)>, k: int, l: Literal) -> bool { exists|j: int| 0 <= j < k && j < c.len() && (#[trigger] c[j]).0 == l }
/// a weighted clause contains the literal / has a literal that m makes true
pub open spec fn wcontains(c: Seq<(Literal, u128)>, l: Literal) -> bool { exists|j: int| 0 <= j < c.len() && (#[trigger] c[j]).0 == l }
pub open spec fn wclause_true(c: Seq<(Literal, u128)>, m: PartialModel) -> bool { exists|j: int| 0 <= j < c.len() && m.val((#[trigger] c[j]).0.lbl) == Some(c[j].0.pol) }

//%% extract src/repr/unit_prop.rs :: - :: enum DecisionResult
//%% end
//%% extract src/repr/unit_prop.rs :: - :: struct SatState
//%% @pub
//%% end
//%% extract src/repr/unit_prop.rs :: - :: struct SATSolver
//%% @pub
//%% end

/// the literal of every one-literal clause is assigned true
pub open spec fn units_assigned(cs: Seq<Vec<Literal>>, m: PartialModel) -> bool {
    forall|i: int| 0 <= i < cs.len() && (#[trigger] cs[i])@.len() == 1 ==> m.val(cs[i]@[0].lbl) == Some(cs[i]@[0].pol)
}
pub open spec fn no_empty(cs: Seq<Vec<Literal>>) -> bool { forall|i: int| 0 <= i < cs.len() ==> (#[trigger] cs[i])@.len() >= 1 }
/// THE fixpoint statement of the property for one model
pub open spec fn at_fixpoint(cs: Seq<Vec<Literal>>, m: PartialModel) -> bool { forall|i: int| 0 <= i < cs.len() ==> not_stuck((#[trigger] cs[i])@, m) }

impl SATSolver {
    pub open spec fn cs(&self) -> Seq<Vec<Literal>> { self.up.cnf.clauses@ }
    pub open spec fn frame(&self, k: int) -> PartialModel { self.state_stack@[k].model }
    pub open spec fn top(&self) -> PartialModel { self.frame(self.state_stack@.len() - 1) }
    /// invariant of the solver over its whole decision stack: frame 0 is the (empty) start model, frame 1 the initially
    /// propagated one, every later frame the result of a decision; each frame extends the ones below; the two-watched-literal
    /// scheme is intact and the watch invariant holds for EVERY frame (pop may return to any of them, with the lists as they are now)
    pub open spec fn solver_ok(&self) -> bool {
        &&& self.state_stack@.len() >= 1
        &&& self.up.winv() && no_empty(self.cs())
        &&& forall|k: int| 0 <= k < self.state_stack@.len() ==> (#[trigger] self.frame(k)).wf() && self.up.watch_ok(self.frame(k))
        &&& forall|j: int, k: int| 0 <= j <= k < self.state_stack@.len() ==> extends(#[trigger] self.frame(k), #[trigger] self.frame(j))
        &&& forall|k: int| 1 <= k < self.state_stack@.len() ==> units_assigned(self.cs(), #[trigger] self.frame(k))
        // the satisfied-clause bookkeeping: the index built by `new` (proved there), one exact set per frame, models over the formula's variables
        &&& self.idx_ok()
        &&& forall|k: int| 0 <= k < self.state_stack@.len() ==> #[trigger] self.sat_inv(k)
        &&& forall|k: int, x: VarLabel| 0 <= k < self.state_stack@.len() && (#[trigger] self.frame(k).val(x)) is Some ==> x.0 < self.up.cnf.num_vars
    }

    /// the literal -> clauses index and the weighted clause list as SATSolver::new is proved to build them
    pub open spec fn idx_ok(&self) -> bool {
        &&& self.contains_pos_lit@.len() == self.up.cnf.num_vars && self.contains_neg_lit@.len() == self.up.cnf.num_vars
        &&& self.clauses@.len() <= usize::MAX   // (true of every Vec; stated because a proof context cannot call `len()`)
        &&& forall|i: int, j: int| 0 <= i < self.clauses@.len() && 0 <= j < self.clauses@[i]@.len() ==> (#[trigger] self.clauses@[i]@[j]).0.lbl.0 < self.up.cnf.num_vars
        &&& forall|v: int, i: usize| 0 <= v < self.contains_pos_lit@.len() ==>
                ((#[trigger] self.contains_pos_lit@[v]@.contains(i)) == (i < self.clauses@.len() && wcontains(self.clauses@[i as int]@, Literal { lbl: VarLabel(v as u64), pol: true })))
        &&& forall|v: int, i: usize| 0 <= v < self.contains_neg_lit@.len() ==>
                ((#[trigger] self.contains_neg_lit@[v]@.contains(i)) == (i < self.clauses@.len() && wcontains(self.clauses@[i as int]@, Literal { lbl: VarLabel(v as u64), pol: false })))
    }
    /// every clause of the solver's (normalised, weighted) clause list has a literal that m makes true
    pub open spec fn all_wtrue(&self, m: PartialModel) -> bool { forall|i: int| 0 <= i < self.clauses@.len() ==> wclause_true((#[trigger] self.clauses@[i])@, m) }
    /// the satisfied-clause set of frame k holds exactly the (weighted) clauses with a literal that the frame's model makes true
    pub open spec fn sat_inv(&self, k: int) -> bool {
        forall|i: usize| #[trigger] self.state_stack@[k].sat_clauses@.contains(i) == (i < self.clauses@.len() && wclause_true(self.clauses@[i as int]@, self.frame(k)))
    }

// R-for-while / A-sat-iters: the six `for` loops (two of them over `new_model.difference(..)`, two over a BitSet, two over a weighted
// clause with a tuple pattern) become indexed `while` loops over the stub vectors / the clause vector; bodies verbatim.
//%% extract src/repr/unit_prop.rs :: impl SATSolver :: fn update_hash_and_sat_set
//%% @ret r
//%% @attr #[verifier::loop_isolation(false)]
//%% @attr #[verifier::exec_allows_no_decreases_clause]
//%% @rewrite 2 /for lit in new_model\.difference\(&self\.top_state\(\)\.model\) \{/ => let diff__v = verif_difference_vec(new_model, &self.top_state().model); let mut d__i: usize = 0; while d__i < diff__v.len() { let lit = diff__v[d__i]; d__i += 1;
//%% @rewrite 1 /for clause_idx in matching_polarity\[lit\.label\(\)\.value_usize\(\)\]\.iter\(\) \{/ => let bs__v = verif_bitset_vec(&matching_polarity[lit.label().value_usize()]); let mut b__i: usize = 0; while b__i < bs__v.len() { let clause_idx = bs__v[b__i]; b__i += 1;
//%% @rewrite 1 /for clause_idx in opposite_polarity\[lit\.label\(\)\.value_usize\(\)\]\.iter\(\) \{/ => let bs__v = verif_bitset_vec(&opposite_polarity[lit.label().value_usize()]); let mut b__i: usize = 0; while b__i < bs__v.len() { let clause_idx = bs__v[b__i]; b__i += 1;
//%% @rewrite 2 /for \(clause_lit, weight\) in self\.clauses\[clause_idx\]\.iter\(\) \{/ => let cl__v = &self.clauses[clause_idx]; let mut c__i: usize = 0; while c__i < cl__v.len() { let (clause_lit, weight) = (&cl__v[c__i].0, &cl__v[c__i].1); c__i += 1;
//%% @rewrite 2 /hash = hash\.wrapping_mul\(\*weight\);/ => hash = verif_wrapping_mul(hash, *weight);
//%% @spec
        requires
            self.state_stack@.len() >= 1, self.idx_ok(), self.sat_inv(self.state_stack@.len() - 1),
            new_model.wf(), self.top().wf(), extends(*new_model, self.top()),
            forall|x: VarLabel| (#[trigger] new_model.val(x)) is Some ==> x.0 < self.up.cnf.num_vars,
        ensures
            forall|i: usize| #[trigger] r.1@.contains(i) == (i < self.clauses@.len() && wclause_true(self.clauses@[i as int]@, *new_model)),
//%% @entry
        let ghost old_m = self.top();
        let ghost nm = *new_model;
//%% @loop 1 /^while d__i < diff__v\.len\(\)$/
            invariant
                d__i <= diff__v@.len(),
                forall|i: usize| #[trigger] new_set@.contains(i) ==> i < self.clauses@.len() && wclause_true(self.clauses@[i as int]@, nm),
                forall|i: usize| i < self.clauses@.len() && wclause_true(self.clauses@[i as int]@, old_m) ==> #[trigger] new_set@.contains(i),
                forall|i: usize, k: int| 0 <= k < d__i && i < self.clauses@.len() && wcontains(self.clauses@[i as int]@, #[trigger] diff__v@[k]) ==> #[trigger] new_set@.contains(i),
//%% @loopend 1
            proof {
                let lbl = lit.lbl.0 as int;
                assert(lit == Literal { lbl: VarLabel(lit.lbl.0), pol: lit.pol });
                assert forall|i: usize| i < self.clauses@.len() && wcontains(self.clauses@[i as int]@, lit) implies new_set@.contains(i) by {
                    assert(matching_polarity@[lbl]@.contains(i));
                    let k = choose|k: int| 0 <= k < bs__v@.len() && #[trigger] bs__v@[k] == i;
                    assert(new_set@.contains(bs__v@[k]));
                }
            }
//%% @loop 2 /^while b__i < bs__v\.len\(\)$/
                invariant
                    b__i <= bs__v@.len(), 0 < d__i <= diff__v@.len(), lit == diff__v@[d__i - 1],
                    forall|i: usize| #[trigger] new_set@.contains(i) ==> i < self.clauses@.len() && wclause_true(self.clauses@[i as int]@, nm),
                    forall|i: usize| i < self.clauses@.len() && wclause_true(self.clauses@[i as int]@, old_m) ==> #[trigger] new_set@.contains(i),
                    forall|i: usize, k: int| 0 <= k < d__i - 1 && i < self.clauses@.len() && wcontains(self.clauses@[i as int]@, #[trigger] diff__v@[k]) ==> #[trigger] new_set@.contains(i),
                    forall|k: int| 0 <= k < b__i ==> new_set@.contains(#[trigger] bs__v@[k]),
//%% @loop 3 /^while c__i < cl__v\.len\(\)$/
                    invariant c__i <= cl__v@.len(),
//%% @loop 4 /^while d__i < diff__v\.len\(\)$/
            invariant d__i <= diff__v@.len(),
//%% @loop 5 /^while b__i < bs__v\.len\(\)$/
                invariant b__i <= bs__v@.len(),
//%% @loop 6 /^while c__i < cl__v\.len\(\)$/
                    invariant c__i <= cl__v@.len(),
//%% end

// R-map-collect (twice), R-filter, A-primes: the normalisation prologue of `new` is rewritten by the definitions of its iterator adaptors --
// `cnf.clauses().iter().map(|clause| BODY).collect()` -> push BODY for every clause; `clauses.iter().filter(|clause| BODY)` -> the closure
// (BODY verbatim, with its nested loops and early `return false`) bound to a name and called for every clause, keeping the references it
// accepts; the weighting `i.map({|clause| clause.iter().map(|lit| E).collect()}).collect()` -> two nested push loops with E verbatim.
// `c.sort()` / `c.dedup()` are the std stubs (same set of literals); `primal::Primes` (external sieve) is a stub yielding SOME number.
// R-enumerate for the index-building loop; `for _ in` gets a named index.
//%% extract src/repr/unit_prop.rs :: impl SATSolver :: fn new
//%% @ret r
//%% @rewrite 1 /let clauses: Vec<Vec<Literal>> = cnf\n\s*\.clauses\(\)\n\s*\.iter\(\)\n\s*\.map\(\|clause\| \{\n(.*?)\n\s*\}\)\n\s*\.collect\(\);/ => let clauses: Vec<Vec<Literal>> = { let mut mc__o: Vec<Vec<Literal>> = Vec::new(); let cl__s = cnf.clauses(); for clause in mc__it: cl__s.iter() { let mc__x = {\n\1\n }; mc__o.push(mc__x); } mc__o };
//%% @rewrite 1 /c\.sort\(\);/ => verif_sort_full(&mut c);
//%% @rewrite 1 /c\.dedup\(\);/ => verif_dedup(&mut c);
//%% @rewrite 1 /let i = clauses\.iter\(\)\.filter\(\|clause\| \{/ => let keep = |clause: &Vec<Literal>| -> (kb: bool) ensures kb == !has_clash(clause@) {
//%% @rewrite 1 /\n(\s*)true\n\s*\}\);/ => \n\1true\n\1}; let mut i: Vec<&Vec<Literal>> = Vec::new(); for clause in flt__it: clauses.iter() { if keep(clause) { i.push(clause); } }
//%% @rewrite 1 /let mut primes = primal::Primes::all\(\);/ => let mut primes = verif_primes_all();
//%% @rewrite 1 /let clauses: Vec<Vec<\(Literal, u128\)>> = i\n\s*\.map\(\{\n\s*\|clause\| \{\n\s*clause\n\s*\.iter\(\)\n\s*\.map\(\|lit\| (.*?)\)\n\s*\.collect\(\)\n\s*\}\n\s*\}\)\n\s*\.collect\(\);/ => let clauses1 = Ghost(clauses@); let clauses: Vec<Vec<(Literal, u128)>> = { let mut wm__o: Vec<Vec<(Literal, u128)>> = Vec::new(); for clause in wm__it: i.iter() { let mut wm__c: Vec<(Literal, u128)> = Vec::new(); for lit in wm__jt: clause.iter() { let wm__x = \1; wm__c.push(wm__x); } wm__o.push(wm__c); } wm__o };
//%% @rewrite 1 /primes\.next\(\)\.unwrap\(\) as u128/ => verif_next_prime(&mut primes)
//%% @rewrite 1 /let mut pos_lit = Vec::new\(\);/ => let mut pos_lit: Vec<BitSet> = Vec::new();
//%% @rewrite 1 /let mut neg_lit = Vec::new\(\);/ => let mut neg_lit: Vec<BitSet> = Vec::new();
//%% @rewrite 1 /for _ in 0\.\.\(cnf\.num_vars\(\)\) \{/ => for nv__k in 0..(cnf.num_vars()) {
//%% @rewrite 1 /for \(clause_idx, clause\) in clauses\.iter\(\)\.enumerate\(\) \{/ => for clause_idx in 0..clauses.len() { let clause = &clauses[clause_idx];
//%% @rewrite 1 /for lit in clause\.iter\(\) \{/ => for lit in lt__it: clause.iter() {
//%% @spec
        requires cnf.wf(), norm_lits(cnf.clauses@),
        ensures
            r is None ==> unsat(cnf.clauses@),
            r matches Some(s) ==> s.solver_ok() && s.state_stack@.len() == 2 && s.up.cnf == cnf && wnorm(s)
                && implied_by(cnf.clauses@, s.top()) && at_fixpoint(s.cs(), s.top()),
//%% @entry
        let ghost cs0 = cnf.clauses@;
        let ghost mut kept: Seq<int> = Seq::empty();
        proof { lemma_norm_ok(cnf.clauses@); axiom_clone_eq::<Literal>(); }
//%% @loop 1 /^for clause in mc__it: cl__s\.iter\(\)$/
                    invariant
                        mc__o@.len() == mc__it.index@, cl__s@ == cs0,
                        forall|k: int| 0 <= k < mc__o@.len() ==> same_lits((#[trigger] mc__o@[k])@, cs0[k]@),
//%% @loop 2 /^for i in 0\.\.clause\.len\(\)$/
                        invariant forall|x: int, y: int| 0 <= x < i && x < y < clause@.len() ==> !clash(#[trigger] clause@[x], #[trigger] clause@[y]),
//%% @loop 3 /^for j in \(i \+ 1\)\.\.clause\.len\(\)$/
                            invariant
                                i < clause@.len(),
                                forall|x: int, y: int| 0 <= x < i && x < y < clause@.len() ==> !clash(#[trigger] clause@[x], #[trigger] clause@[y]),
                                forall|y: int| i < y < j ==> !clash(clause@[i as int], #[trigger] clause@[y]),
//%% @loop 4 /^for clause in flt__it: clauses\.iter\(\)$/
                    invariant

                        forall|x: &Vec<Literal>| #[trigger] keep.requires((x,)),
                        forall|x: &Vec<Literal>, kb: bool| #[trigger] keep.ensures((x,), kb) ==> kb == !has_clash(x@),
                        kept.len() == i@.len(),
                        forall|k: int| 0 <= k < kept.len() ==> 0 <= #[trigger] kept[k] < flt__it.index@ && *i@[k] == clauses@[kept[k]] && !has_clash(clauses@[kept[k]]@),
                        forall|j: int| 0 <= j < flt__it.index@ && !has_clash((#[trigger] clauses@[j])@) ==> kept.contains(j),
//%% @loopend 4
                    proof {
                        let j = flt__it.index@ as int;
                        if i@.len() > kept.len() {
                            lemma_push_contains_int(kept, j);
                            kept = kept.push(j);
                        }
                    }
//%% @loop 5 /^for clause in wm__it: i\.iter\(\)$/
                    invariant
                        wm__o@.len() == wm__it.index@,
                        forall|k: int| 0 <= k < wm__o@.len() ==> wproj((#[trigger] wm__o@[k])@) =~= (*i@[k])@,
//%% @loop 6 /^for lit in wm__jt: clause\.iter\(\)$/
                        invariant
                            wm__c@.len() == wm__jt.index@,
                            forall|t: int| 0 <= t < wm__c@.len() ==> (#[trigger] wm__c@[t]).0 == clause@[t],
//%% @before /^\s*\/\/ initialize pos_lit and neg_lit$/
                proof { lemma_wnorm_from_parts(cnf, clauses1@, kept, i@, clauses@); }
//%% @loop 7 /^for nv__k in 0\.\.\(cnf\.num_vars\(\)\)$/
                    invariant
                        pos_lit@.len() == nv__k, neg_lit@.len() == nv__k,
                        forall|v: int, i: usize| 0 <= v < nv__k ==> !(#[trigger] pos_lit@[v]@.contains(i)),
                        forall|v: int, i: usize| 0 <= v < nv__k ==> !(#[trigger] neg_lit@[v]@.contains(i)),
//%% @loop 8 /^for clause_idx in 0\.\.clauses\.len\(\)$/
                    invariant
                        pos_lit@.len() == cnf.num_vars, neg_lit@.len() == cnf.num_vars,
                        forall|a: int, b: int| 0 <= a < clauses@.len() && 0 <= b < clauses@[a]@.len() ==> (#[trigger] clauses@[a]@[b]).0.lbl.0 < cnf.num_vars,
                        forall|v: int, i: usize| 0 <= v < pos_lit@.len() ==> ((#[trigger] pos_lit@[v]@.contains(i)) == (i < clause_idx && wcontains(clauses@[i as int]@, Literal { lbl: VarLabel(v as u64), pol: true }))),
                        forall|v: int, i: usize| 0 <= v < neg_lit@.len() ==> ((#[trigger] neg_lit@[v]@.contains(i)) == (i < clause_idx && wcontains(clauses@[i as int]@, Literal { lbl: VarLabel(v as u64), pol: false }))),
//%% @loop 9 /^for lit in lt__it: clause\.iter\(\)$/
                        invariant
                            pos_lit@.len() == cnf.num_vars, neg_lit@.len() == cnf.num_vars, clause@ == clauses@[clause_idx as int]@, clause_idx < clauses@.len(),
                            forall|a: int, b: int| 0 <= a < clauses@.len() && 0 <= b < clauses@[a]@.len() ==> (#[trigger] clauses@[a]@[b]).0.lbl.0 < cnf.num_vars,
                            forall|v: int, i: usize| 0 <= v < pos_lit@.len() ==> ((#[trigger] pos_lit@[v]@.contains(i)) ==
                                ((i < clause_idx && wcontains(clauses@[i as int]@, Literal { lbl: VarLabel(v as u64), pol: true }))
                                 || (i == clause_idx && wcontains_upto(clause@, lt__it.index@, Literal { lbl: VarLabel(v as u64), pol: true })))),
                            forall|v: int, i: usize| 0 <= v < neg_lit@.len() ==> ((#[trigger] neg_lit@[v]@.contains(i)) ==
                                ((i < clause_idx && wcontains(clauses@[i as int]@, Literal { lbl: VarLabel(v as u64), pol: false }))
                                 || (i == clause_idx && wcontains_upto(clause@, lt__it.index@, Literal { lbl: VarLabel(v as u64), pol: false })))),
//%% @before /^\s*let \(new_hash, new_sat_set\) = solver\.update_hash_and_sat_set\(&state\);$/
                proof {
                    lemma_watch_empty(solver.up, solver.frame(0));
                    assert(extends(state, solver.frame(0)));
                    assert(solver.sat_inv(0)) by {
                        assert forall|i: usize| #[trigger] solver.state_stack@[0].sat_clauses@.contains(i) == (i < solver.clauses@.len() && wclause_true(solver.clauses@[i as int]@, solver.frame(0))) by { }
                    }
                }
//%% @before /^\s*Some\(solver\)$/
                proof {
                    assert(solver.sat_inv(1));
                    assert(solver.sat_inv(0));
                    lemma_initial_solver_ok(solver, solver.frame(1));
                }
//%% end

//%% extract src/repr/unit_prop.rs :: impl SATSolver :: fn top_state
//%% @ret r
//%% @spec
        requires self.state_stack@.len() >= 1,
        ensures *r == self.state_stack@[self.state_stack@.len() - 1],
//%% end

//%% extract src/repr/unit_prop.rs :: impl SATSolver :: fn pop
//%% @spec
        requires old(self).solver_ok(),
        ensures
            old(self).state_stack@.len() >= 2 ==> final(self).solver_ok(),
            final(self).state_stack@ =~= old(self).state_stack@.drop_last(), final(self).up == old(self).up,
//%% @entry
        let ghost s0 = *self;
//%% @after /self\.state_stack\.pop\(\);/
        proof {
            if s0.state_stack@.len() >= 2 {
                assert forall|k: int| 0 <= k < self.state_stack@.len() implies #[trigger] self.frame(k) == s0.frame(k) by { }
                assert forall|k: int| 0 <= k < self.state_stack@.len() implies (#[trigger] self.frame(k)).wf() && self.up.watch_ok(self.frame(k)) by { assert(s0.frame(k).wf()); }
                assert forall|j: int, k: int| 0 <= j <= k < self.state_stack@.len() implies extends(#[trigger] self.frame(k), #[trigger] self.frame(j)) by { assert(extends(s0.frame(k), s0.frame(j))); }
                assert forall|k: int| 1 <= k < self.state_stack@.len() implies units_assigned(self.cs(), #[trigger] self.frame(k)) by { assert(units_assigned(s0.cs(), s0.frame(k))); }
                assert forall|k: int| 0 <= k < self.state_stack@.len() implies #[trigger] self.sat_inv(k) by { assert(s0.sat_inv(k)); assert(self.state_stack@[k] == s0.state_stack@[k]); }
                assert forall|k: int, x: VarLabel| 0 <= k < self.state_stack@.len() && (#[trigger] self.frame(k).val(x)) is Some implies x.0 < self.up.cnf.num_vars by { assert(s0.frame(k).val(x) is Some); }
            }
        }
//%% end

//%% extract src/repr/unit_prop.rs :: impl SATSolver :: fn decide
//%% @ret r
//%% @spec
        // (a decision is never made on the bare start frame: SATSolver::new leaves [start, initially propagated] and a caller pops only its own decisions)
        requires old(self).solver_ok(), old(self).state_stack@.len() >= 2, assignment.lbl.0 < old(self).up.cnf.num_vars,
        ensures
            final(self).solver_ok(), final(self).cs() == old(self).cs(),
            // UNSAT: nothing is pushed, and no total assignment that agrees with the current model and the literal satisfies the formula
            r is UNSAT ==> final(self).state_stack@ =~= old(self).state_stack@ && refuted(old(self).cs(), old(self).top(), assignment),
            // otherwise one frame is pushed whose model extends the current one by the literal and by ENTAILED values only ...
            !(r is UNSAT) ==> final(self).state_stack@.drop_last() =~= old(self).state_stack@
                && extends(final(self).top(), old(self).top()) && final(self).top().val(assignment.lbl) == Some(assignment.pol)
                && entailed(old(self).cs(), old(self).top(), assignment, final(self).top()),
            // ... and (from the initially propagated frame on) propagation has run to FIXPOINT: no clause is falsified or has
            // exactly one unassigned literal
            !(r is UNSAT) ==> at_fixpoint(final(self).cs(), final(self).top()),
            // the satisfied flag: SAT is answered exactly when every clause of the solver's clause list has a true literal
            !(r is UNSAT) ==> ((r is SAT) == final(self).all_wtrue(final(self).top())),
// R-ghost-arm: the match arm `UnitPropResult::UNSAT => DecisionResult::UNSAT,` becomes a block holding a proof block and the same value
//%% @rewrite 1 /UnitPropResult::UNSAT => DecisionResult::UNSAT,/ => UnitPropResult::UNSAT => { proof { lemma_decide_unsat_keeps(s0, *self); } DecisionResult::UNSAT }
//%% @entry
        let ghost s0 = *self;
        proof { assert(self.frame(self.state_stack@.len() - 1).wf()); assert(self.sat_inv(self.state_stack@.len() - 1)); }
//%% @after /UnitPropResult::PartialSAT\(new_model\) => \{/
                proof {
                    let u1 = s0.up; let u2 = self.up; let m1 = s0.top();
                    assert forall|k: int| 0 <= k < s0.state_stack@.len() implies u2.watch_ok(#[trigger] s0.frame(k)) by {
                        lemma_watch_frame(u1, u2, m1, s0.frame(k));
                    }
                    lemma_watch_step(u1, u2, m1, new_model);
                    lemma_extends_units(s0.cs(), m1, new_model);
                    if s0.state_stack@.len() >= 2 { lemma_fixpoint(u2, new_model); }
                    assert forall|j: int| 0 <= j < s0.state_stack@.len() implies extends(new_model, #[trigger] s0.frame(j)) by {
                        lemma_extends_trans(new_model, m1, s0.frame(j));
                    }
                }
//%% @before /^\s*if num_set /
                proof {
                    lemma_decide_pushed(s0, *self);
                    let n = s0.state_stack@.len() as int;
                    assert(self.sat_inv(n));
                    axiom_bitset_full(self.state_stack@[n].sat_clauses, self.clauses@.len() as nat);
                    lemma_flag_full(*self, n);
                }
//%% end
}
/// a decide that reported UNSAT: the lists may have been rearranged, the stack is as it was -- the invariant still holds
pub proof fn lemma_decide_unsat_keeps(s0: SATSolver, s1: SATSolver)
    requires s0.solver_ok(), s1.state_stack == s0.state_stack, s1.up.winv(), frame_ok(s0.up, s1.up, s0.top()),
        s1.clauses == s0.clauses, s1.contains_pos_lit == s0.contains_pos_lit, s1.contains_neg_lit == s0.contains_neg_lit,
    ensures s1.solver_ok(),
{
    let n = s0.state_stack@.len() as int;
    assert forall|k: int| 0 <= k < n implies (#[trigger] s1.frame(k)).wf() && s1.up.watch_ok(s1.frame(k)) by {
        assert(s0.frame(k).wf()); assert(extends(s0.frame(n - 1), s0.frame(k)));
        lemma_watch_frame(s0.up, s1.up, s0.top(), s0.frame(k));
    }
    assert forall|j: int, k: int| 0 <= j <= k < n implies extends(#[trigger] s1.frame(k), #[trigger] s1.frame(j)) by { assert(extends(s0.frame(k), s0.frame(j))); }
    assert forall|k: int| 1 <= k < n implies units_assigned(s1.cs(), #[trigger] s1.frame(k)) by { assert(units_assigned(s0.cs(), s0.frame(k))); }
    assert forall|k: int| 0 <= k < n implies #[trigger] s1.sat_inv(k) by { assert(s0.sat_inv(k)); }
    assert forall|k: int, x: VarLabel| 0 <= k < n && (#[trigger] s1.frame(k).val(x)) is Some implies x.0 < s1.up.cnf.num_vars by { assert(s0.frame(k).val(x) is Some); }
}
/// a decide that pushed a frame
pub proof fn lemma_decide_pushed(s0: SATSolver, s1: SATSolver)
    requires
        s0.solver_ok(), s0.state_stack@.len() >= 2, s1.state_stack@.len() == s0.state_stack@.len() + 1, s1.state_stack@.drop_last() =~= s0.state_stack@,
        s1.up.winv(), s1.up.cnf == s0.up.cnf, frame_ok(s0.up, s1.up, s0.top()),
        s1.top().wf(), s1.up.watch_ok(s1.top()), extends(s1.top(), s0.top()),
        forall|k: int| 0 <= k < s0.state_stack@.len() ==> s1.up.watch_ok(#[trigger] s0.frame(k)),
        s1.clauses == s0.clauses, s1.contains_pos_lit == s0.contains_pos_lit, s1.contains_neg_lit == s0.contains_neg_lit,
        s1.sat_inv(s0.state_stack@.len() as int), ranged(s1.top(), s0.top(), s0.up.cnf.num_vars as int),
    ensures s1.solver_ok(),
{
    let n = s0.state_stack@.len() as int;
    assert forall|k: int| 0 <= k < n implies #[trigger] s1.frame(k) == s0.frame(k) by { assert(s1.state_stack@.drop_last()[k] == s1.state_stack@[k]); }
    assert forall|k: int| 0 <= k < n + 1 implies (#[trigger] s1.frame(k)).wf() && s1.up.watch_ok(s1.frame(k)) by {
        if k < n { assert(s0.frame(k).wf()); assert(s1.up.watch_ok(s0.frame(k))); }
    }
    assert forall|j: int, k: int| 0 <= j <= k < n + 1 implies extends(#[trigger] s1.frame(k), #[trigger] s1.frame(j)) by {
        if k < n { assert(extends(s0.frame(k), s0.frame(j))); }
        else if j < n { assert(extends(s0.frame(n - 1), s0.frame(j))); lemma_extends_trans(s1.top(), s0.top(), s0.frame(j)); }
        else { }
    }
    assert forall|k: int| 1 <= k < n + 1 implies units_assigned(s1.cs(), #[trigger] s1.frame(k)) by {
        if k < n { assert(units_assigned(s0.cs(), s0.frame(k))); }
        else { assert(units_assigned(s0.cs(), s0.frame(n - 1))); lemma_extends_units(s0.cs(), s0.top(), s1.top()); }
    }
    assert forall|k: int| 0 <= k < n + 1 implies #[trigger] s1.sat_inv(k) by {
        if k < n { assert(s0.sat_inv(k)); assert(s1.state_stack@[k] == s0.state_stack@[k]); }
    }
    assert forall|k: int, x: VarLabel| 0 <= k < n + 1 && (#[trigger] s1.frame(k).val(x)) is Some implies x.0 < s1.up.cnf.num_vars by {
        if k < n { assert(s0.frame(k).val(x) is Some); } else { if s0.top().val(x) is Some { assert(s0.frame(n - 1).val(x) is Some); } }
    }
}
pub proof fn lemma_extends_trans(m3: PartialModel, m2: PartialModel, m1: PartialModel)
    requires extends(m3, m2), extends(m2, m1),
    ensures extends(m3, m1),
{
    assert forall|x: VarLabel| (#[trigger] m1.val(x)) is Some implies m3.val(x) == m1.val(x) by { assert(m2.val(x) == m1.val(x)); }
}
pub proof fn lemma_extends_units(cs: Seq<Vec<Literal>>, m1: PartialModel, m2: PartialModel)
    requires extends(m2, m1),
    ensures units_assigned(cs, m1) ==> units_assigned(cs, m2),
{
    if units_assigned(cs, m1) {
        assert forall|i: int| 0 <= i < cs.len() && (#[trigger] cs[i])@.len() == 1 implies m2.val(cs[i]@[0].lbl) == Some(cs[i]@[0].pol) by {
            assert(m1.val(cs[i]@[0].lbl) is Some);
        }
    }
}
/// what SATSolver::new is (it is not under contract: iterator chains, an external prime sieve): the stack [empty model, the model
/// UnitPropagate::new returned] over the propagator it returned.  Given the contract proved for UnitPropagate::new, such a
/// solver satisfies the invariant and is at fixpoint.
pub proof fn lemma_initial_solver_ok(s: SATSolver, m: PartialModel)
    requires
        s.state_stack@.len() == 2, forall|x: VarLabel| s.frame(0).val(x) is None, s.frame(0).wf(), s.frame(1) == m,
        s.up.winv(), s.up.watch_ok(m), m.wf(), no_empty(s.cs()), units_assigned(s.cs(), m),
        s.idx_ok(), s.sat_inv(0), s.sat_inv(1), forall|x: VarLabel| (#[trigger] m.val(x)) is Some ==> x.0 < s.up.cnf.num_vars,
    ensures s.solver_ok(), at_fixpoint(s.cs(), s.top()),
{
    lemma_watch_empty(s.up, s.frame(0));
    assert(extends(m, s.frame(0)));
    assert(extends(m, m)); assert(extends(s.frame(0), s.frame(0)));
    lemma_fixpoint(s.up, m);
}
/// C09: the fixpoint holds again after pop (the frame popped to was a fixpoint of the scheme when it was pushed, and the
/// watch invariant has been kept for it through every later decide)
pub proof fn lemma_fixpoint_every_frame(s: SATSolver, k: int)
    requires s.solver_ok(), 1 <= k < s.state_stack@.len(),
    ensures at_fixpoint(s.cs(), s.frame(k)),
{
    lemma_fixpoint(s.up, s.frame(k));
}
/// COROLLARY (what the top-down compiler relies on at its leaves, assumed there as part of A-sat): at a fixpoint, a model that
/// assigns every variable occurring in the formula makes every clause true
pub proof fn lemma_total_model_satisfies(cs: Seq<Vec<Literal>>, m: PartialModel)
    requires at_fixpoint(cs, m), forall|i: int, j: int| 0 <= i < cs.len() && 0 <= j < cs[i]@.len() ==> m.val((#[trigger] cs[i]@[j]).lbl) is Some,
    ensures cnf_true_p(cs, m),
{
    assert forall|i: int| 0 <= i < cs.len() implies clause_true_p((#[trigger] cs[i])@, m) by {
        assert(not_stuck(cs[i]@, m));
    }
}

impl SATSolver {
// the two one-line readers of the top frame
//%% extract src/repr/unit_prop.rs :: impl SATSolver :: fn is_set
//%% @ret r
//%% @spec
        requires self.state_stack@.len() >= 1,
        ensures r == (self.top().val(var) is Some),
//%% end
//%% extract src/repr/unit_prop.rs :: impl SATSolver :: fn cur_hash
//%% @ret r
//%% @spec
        requires self.state_stack@.len() >= 1,
        ensures r == self.state_stack@[self.state_stack@.len() - 1].hash,
//%% end

//%% extract src/repr/unit_prop.rs :: impl SATSolver :: fn is_sat
//%% @ret r
//%% @spec
        requires self.solver_ok(),
        ensures r == self.all_wtrue(self.top()),
//%% @entry
        proof {
            let n = self.state_stack@.len() - 1;
            assert(self.sat_inv(n));
            axiom_bitset_full(self.state_stack@[n].sat_clauses, self.clauses@.len() as nat);
            lemma_flag_full(*self, n);
        }
//%% end
}
/// with the exact satisfied-clause set of frame k: the set is full iff every clause has a true literal
pub proof fn lemma_flag_full(s: SATSolver, k: int)
    requires 0 <= k < s.state_stack@.len(), s.sat_inv(k), s.clauses@.len() <= usize::MAX,
    ensures
        forall|x: usize| s.state_stack@[k].sat_clauses@.contains(x) ==> x < s.clauses@.len(),
        (forall|x: usize| x < s.clauses@.len() ==> s.state_stack@[k].sat_clauses@.contains(x)) == s.all_wtrue(s.frame(k)),
{
    if s.all_wtrue(s.frame(k)) {
        assert forall|x: usize| x < s.clauses@.len() implies s.state_stack@[k].sat_clauses@.contains(x) by { assert(wclause_true(s.clauses@[x as int]@, s.frame(k))); }
    }
    if forall|x: usize| x < s.clauses@.len() ==> s.state_stack@[k].sat_clauses@.contains(x) {
        assert forall|i: int| 0 <= i < s.clauses@.len() implies wclause_true((#[trigger] s.clauses@[i])@, s.frame(k)) by { let x = i as usize; assert(x as int == i); assert(s.state_stack@[k].sat_clauses@.contains(x)); }
    }
}

// ---- what the flag means for the FORMULA: relative to wnorm, which SATSolver::new is proved to ensure ----
/// the clause contains a literal and its negation
#[verifier::opaque]
pub open spec fn taut(c: Seq<Literal>) -> bool { exists|j: int, k: int| 0 <= j < c.len() && 0 <= k < c.len() && (#[trigger] c[j]).lbl == (#[trigger] c[k]).lbl && c[j].pol != c[k].pol }
/// same literals
#[verifier::opaque]
pub open spec fn wsame(wc: Seq<(Literal, u128)>, c: Seq<Literal>) -> bool {
    (forall|j: int| 0 <= j < wc.len() ==> c.contains((#[trigger] wc[j]).0)) && (forall|j: int| 0 <= j < c.len() ==> wcontains(wc, #[trigger] c[j]))
}
/// the weighted clause list is the formula's non-tautological clauses, literal set by literal set
pub open spec fn wnorm_rel(wcs: Seq<Vec<(Literal, u128)>>, cs: Seq<Vec<Literal>>) -> bool {
    &&& forall|i: int| 0 <= i < wcs.len() ==> #[trigger] wn1(wcs, cs, i)
    &&& forall|j: int| 0 <= j < cs.len() && !taut(cs[j]@) ==> #[trigger] wn2(wcs, cs, j)
}
pub open spec fn wnorm(s: SATSolver) -> bool { wnorm_rel(s.clauses@, s.cs()) }
pub proof fn lemma_wsame_true(wc: Seq<(Literal, u128)>, c: Seq<Literal>, m: PartialModel)
    requires wsame(wc, c),
    ensures wclause_true(wc, m) == clause_true_p(c, m),
{
    reveal(wsame);
    if wclause_true(wc, m) {
        let j = choose|j: int| 0 <= j < wc.len() && m.val((#[trigger] wc[j]).0.lbl) == Some(wc[j].0.pol);
        assert(c.contains(wc[j].0));
        let k = choose|k: int| 0 <= k < c.len() && c[k] == wc[j].0;
        assert(lit_true_p(c[k], m));
    }
    if clause_true_p(c, m) {
        let k = choose|k: int| 0 <= k < c.len() && lit_true_p(#[trigger] c[k], m);
        assert(wcontains(wc, c[k]));
        let j = choose|j: int| 0 <= j < wc.len() && (#[trigger] wc[j]).0 == c[k];
        assert(m.val(wc[j].0.lbl) == Some(wc[j].0.pol));
    }
}
/// C09, fifth clause: the flag is raised exactly when every NON-TAUTOLOGICAL clause of the formula contains a true literal
pub open spec fn nontaut_true(cs: Seq<Vec<Literal>>, m: PartialModel) -> bool { forall|j: int| 0 <= j < cs.len() && !taut((#[trigger] cs[j])@) ==> clause_true_p(cs[j]@, m) }
pub proof fn lemma_flag_meaning_1(s: SATSolver, m: PartialModel)
    requires wnorm(s), nontaut_true(s.cs(), m),
    ensures s.all_wtrue(m),
{
    assert forall|i: int| 0 <= i < s.clauses@.len() implies wclause_true((#[trigger] s.clauses@[i])@, m) by {
        assert(wn1(s.clauses@, s.cs(), i));
        let j = choose|j: int| 0 <= j < s.cs().len() && !taut(s.cs()[j]@) && wsame(s.clauses@[i]@, (#[trigger] s.cs()[j])@);
        lemma_wsame_true(s.clauses@[i]@, s.cs()[j]@, m);
    }
}
pub proof fn lemma_flag_meaning_2(s: SATSolver, m: PartialModel)
    requires wnorm(s), s.all_wtrue(m),
    ensures nontaut_true(s.cs(), m),
{
    assert forall|j: int| 0 <= j < s.cs().len() && !taut((#[trigger] s.cs()[j])@) implies clause_true_p(s.cs()[j]@, m) by {
        assert(wn2(s.clauses@, s.cs(), j));
        let i = choose|i: int| 0 <= i < s.clauses@.len() && wsame((#[trigger] s.clauses@[i])@, s.cs()[j]@);
        assert(wclause_true(s.clauses@[i]@, m));
        lemma_wsame_true(s.clauses@[i]@, s.cs()[j]@, m);
    }
}
/// A-sat, the SAT clause: when the flag is raised every total assignment that agrees with the model satisfies the formula
/// (a tautological clause holds under every total assignment)
pub proof fn lemma_sat_extensions(s: SATSolver, m: PartialModel, env: Asg)
    requires wnorm(s), s.all_wtrue(m), agrees(env, m),
    ensures cnf_holds(s.cs(), env),
{
    reveal(taut);
    lemma_flag_meaning_2(s, m);
    assert forall|j: int| 0 <= j < s.cs().len() implies clause_holds((#[trigger] s.cs()[j])@, env) by {
        let c = s.cs()[j]@;
        if taut(c) {
            let (a, b) = choose|a: int, b: int| 0 <= a < c.len() && 0 <= b < c.len() && (#[trigger] c[a]).lbl == (#[trigger] c[b]).lbl && c[a].pol != c[b].pol;
            if env(c[a].lbl.0) == c[a].pol { assert(lit_holds(c[a], env)); } else { assert(lit_holds(c[b], env)); }
        } else {
            assert(clause_true_p(c, m));
            let k = choose|k: int| 0 <= k < c.len() && lit_true_p(#[trigger] c[k], m);
            assert(lit_holds(c[k], env));
        }
    }
}

/// the two literals are on one variable with opposite polarities
pub open spec fn clash(a: Literal, b: Literal) -> bool { a.lbl == b.lbl && a.pol != b.pol }
/// some pair of positions x < y clashes (what the filter closure of SATSolver::new tests)
pub open spec fn has_clash(c: Seq<Literal>) -> bool { exists|x: int, y: int| 0 <= x < y < c.len() && clash(#[trigger] c[x], #[trigger] c[y]) }
pub proof fn lemma_has_clash_taut(c: Seq<Literal>)
    ensures has_clash(c) == taut(c),
{
    reveal(taut);
    if has_clash(c) { let (x, y) = choose|x: int, y: int| 0 <= x < y < c.len() && clash(#[trigger] c[x], #[trigger] c[y]); assert(c[x].lbl == c[y].lbl && c[x].pol != c[y].pol); }
    if taut(c) {
        let (j, k) = choose|j: int, k: int| 0 <= j < c.len() && 0 <= k < c.len() && (#[trigger] c[j]).lbl == (#[trigger] c[k]).lbl && c[j].pol != c[k].pol;
        if j < k { assert(clash(c[j], c[k])); } else { assert(clash(c[k], c[j])); }
    }
}
/// the literals of a weighted clause
pub open spec fn wproj(wc: Seq<(Literal, u128)>) -> Seq<Literal> { Seq::new(wc.len(), |t: int| wc[t].0) }
pub proof fn lemma_push_contains_int(s: Seq<int>, x: int)
    ensures s.push(x).contains(x), forall|y: int| s.contains(y) ==> #[trigger] s.push(x).contains(y),
{
    assert(s.push(x)[s.len() as int] == x);
    assert forall|y: int| s.contains(y) implies #[trigger] s.push(x).contains(y) by {
        let i = choose|i: int| 0 <= i < s.len() && s[i] == y; assert(s.push(x)[i] == y);
    }
}
/// tautology depends on the set of literals only
pub proof fn lemma_taut_same(a: Seq<Literal>, b: Seq<Literal>)
    requires same_lits(a, b), taut(a),
    ensures taut(b),
{
    reveal(taut);
    let (j, k) = choose|j: int, k: int| 0 <= j < a.len() && 0 <= k < a.len() && (#[trigger] a[j]).lbl == (#[trigger] a[k]).lbl && a[j].pol != a[k].pol;
    assert(a.contains(a[j]) && a.contains(a[k]));
    assert(b.contains(a[j]) && b.contains(a[k]));
    let j2 = choose|t: int| 0 <= t < b.len() && b[t] == a[j];
    let k2 = choose|t: int| 0 <= t < b.len() && b[t] == a[k];
    assert(b[j2].lbl == b[k2].lbl && b[j2].pol != b[k2].pol);
}
/// one weighted clause: it has the literal set of the formula clause it came from, which is not a tautology
pub proof fn lemma_wnorm_one(c: Seq<Literal>, f: Seq<Literal>, wc: Seq<(Literal, u128)>)
    requires same_lits(c, f), wproj(wc) =~= c, !has_clash(c),
    ensures wsame(wc, f), !taut(f),
{
    reveal(wsame);
    assert forall|t: int| 0 <= t < wc.len() implies f.contains((#[trigger] wc[t]).0) by { assert(wproj(wc)[t] == wc[t].0); assert(c[t] == wc[t].0); assert(c.contains(c[t])); }
    assert forall|t: int| 0 <= t < f.len() implies wcontains(wc, #[trigger] f[t]) by {
        assert(f.contains(f[t])); assert(c.contains(f[t]));
        let u = choose|u: int| 0 <= u < c.len() && c[u] == f[t];
        assert(wproj(wc)[u] == wc[u].0);
    }
    lemma_has_clash_taut(c);
    if taut(f) { assert(same_lits(f, c)); lemma_taut_same(f, c); }
}
/// first half of wnorm_rel for one weighted clause
pub open spec fn wn1(wcs: Seq<Vec<(Literal, u128)>>, cs: Seq<Vec<Literal>>, i: int) -> bool { exists|j: int| 0 <= j < cs.len() && !taut(cs[j]@) && wsame(wcs[i]@, (#[trigger] cs[j])@) }
pub open spec fn wn2(wcs: Seq<Vec<(Literal, u128)>>, cs: Seq<Vec<Literal>>, j: int) -> bool { exists|i: int| 0 <= i < wcs.len() && wsame((#[trigger] wcs[i])@, cs[j]@) }
/// the normalisation prologue of SATSolver::new, end to end: c1 = the clauses sorted and deduplicated (same literal sets, index by index),
/// kept = the indices the tautology filter let through (exactly those without a clashing pair), wcs = the kept clauses with weights
pub proof fn lemma_wnorm_from_parts(cnf: Cnf, c1: Seq<Vec<Literal>>, kept: Seq<int>, fl: Seq<&Vec<Literal>>, wcs: Seq<Vec<(Literal, u128)>>)
    requires
        cnf.wf(),
        c1.len() == cnf.clauses@.len(), forall|k: int| 0 <= k < c1.len() ==> same_lits((#[trigger] c1[k])@, cnf.clauses@[k]@),
        kept.len() == fl.len(),
        forall|k: int| 0 <= k < kept.len() ==> 0 <= #[trigger] kept[k] < c1.len() && *fl[k] == c1[kept[k]] && !has_clash(c1[kept[k]]@),
        forall|j: int| 0 <= j < c1.len() && !has_clash((#[trigger] c1[j])@) ==> kept.contains(j),
        wcs.len() == fl.len(), forall|k: int| 0 <= k < wcs.len() ==> wproj((#[trigger] wcs[k])@) =~= (*fl[k])@,
    ensures
        wnorm_rel(wcs, cnf.clauses@),
        forall|a: int, b: int| 0 <= a < wcs.len() && 0 <= b < wcs[a]@.len() ==> (#[trigger] wcs[a]@[b]).0.lbl.0 < cnf.num_vars,
{
    let cs = cnf.clauses@;
    assert forall|i: int| 0 <= i < wcs.len() implies wn1(wcs, cs, i) by {
        let j = kept[i];
        assert(same_lits(c1[j]@, cs[j]@));
        lemma_wnorm_one(c1[j]@, cs[j]@, wcs[i]@);
        assert(0 <= j < cs.len() && !taut(cs[j]@) && wsame(wcs[i]@, cs[j]@));
    }
    assert forall|j: int| 0 <= j < cs.len() && !taut(cs[j]@) implies wn2(wcs, cs, j) by {
        assert(same_lits(c1[j]@, cs[j]@));
        lemma_has_clash_taut(c1[j]@);
        if taut(c1[j]@) { lemma_taut_same(c1[j]@, cs[j]@); }
        assert(kept.contains(j));
        let k = choose|k: int| 0 <= k < kept.len() && kept[k] == j;
        lemma_wnorm_one(c1[j]@, cs[j]@, wcs[k]@);
        assert(0 <= k < wcs.len() && wsame(wcs[k]@, cs[j]@));
    }
    assert forall|a: int, b: int| 0 <= a < wcs.len() && 0 <= b < wcs[a]@.len() implies (#[trigger] wcs[a]@[b]).0.lbl.0 < cnf.num_vars by {
        let j = kept[a];
        assert(same_lits(c1[j]@, cs[j]@));
        lemma_wnorm_one(c1[j]@, cs[j]@, wcs[a]@);
        reveal(wsame);
        let f = cs[j]@;
        assert(f.contains(wcs[a]@[b].0));
        let u = choose|u: int| 0 <= u < f.len() && f[u] == wcs[a]@[b].0;
        assert(cnf.clauses[j][u] == f[u]);
    }
}
