// ---- src/repr/unit_prop.rs: SATSolver::decide / pop composed with the contract of the real propagator (C09) ----
//%% include trusted/pm_clone.rs

//%% extract src/repr/unit_prop.rs :: - :: enum DecisionResult
//%% end
//%% extract src/repr/unit_prop.rs :: - :: struct SatState
//%% @pub
//%% end
//%% extract src/repr/unit_prop.rs :: - :: struct SATSolver
//%% @pub
//%% end

/// the literal of every one-literal clause is assigned true
pub open spec fn units_assigned(cs: Seq<Vec<Literal>>, m: PartialModel) -> bool {
    forall|i: int| 0 <= i < cs.len() && (#[trigger] cs[i])@.len() == 1 ==> m.val(cs[i]@[0].lbl) == Some(cs[i]@[0].pol)
}
pub open spec fn no_empty(cs: Seq<Vec<Literal>>) -> bool { forall|i: int| 0 <= i < cs.len() ==> (#[trigger] cs[i])@.len() >= 1 }
/// THE fixpoint statement of the property for one model
pub open spec fn at_fixpoint(cs: Seq<Vec<Literal>>, m: PartialModel) -> bool { forall|i: int| 0 <= i < cs.len() ==> not_stuck((#[trigger] cs[i])@, m) }

impl SATSolver {
    pub open spec fn cs(&self) -> Seq<Vec<Literal>> { self.up.cnf.clauses@ }
    pub open spec fn frame(&self, k: int) -> PartialModel { self.state_stack@[k].model }
    pub open spec fn top(&self) -> PartialModel { self.frame(self.state_stack@.len() - 1) }
    /// invariant of the solver over its whole decision stack: frame 0 is the (empty) start model, frame 1 the initially
    /// propagated one, every later frame the result of a decision; each frame extends the ones below; the two-watched-literal
    /// scheme is intact and the watch invariant holds for EVERY frame (pop may return to any of them, with the lists as they are now)
    pub open spec fn solver_ok(&self) -> bool {
        &&& self.state_stack@.len() >= 1
        &&& self.up.winv() && no_empty(self.cs())
        &&& forall|k: int| 0 <= k < self.state_stack@.len() ==> (#[trigger] self.frame(k)).wf() && self.up.watch_ok(self.frame(k))
        &&& forall|j: int, k: int| 0 <= j <= k < self.state_stack@.len() ==> extends(#[trigger] self.frame(k), #[trigger] self.frame(j))
        &&& forall|k: int| 1 <= k < self.state_stack@.len() ==> units_assigned(self.cs(), #[trigger] self.frame(k))
    }

    // A-sat-deps: unverified (iterator chains, labelled continue over BitSet iterators); takes `&self`
    #[verifier::external_body]
    fn update_hash_and_sat_set(&self, new_model: &PartialModel) -> (r: (u128, BitSet)) { unimplemented!() }

//%% extract src/repr/unit_prop.rs :: impl SATSolver :: fn top_state
//%% @ret r
//%% @spec
        requires self.state_stack@.len() >= 1,
        ensures *r == self.state_stack@[self.state_stack@.len() - 1],
//%% end

//%% extract src/repr/unit_prop.rs :: impl SATSolver :: fn pop
//%% @spec
        requires old(self).solver_ok(),
        ensures
            old(self).state_stack@.len() >= 2 ==> final(self).solver_ok(),
            final(self).state_stack@ =~= old(self).state_stack@.drop_last(), final(self).up == old(self).up,
//%% @entry
        let ghost s0 = *self;
//%% @after /self\.state_stack\.pop\(\);/
        proof {
            if s0.state_stack@.len() >= 2 {
                assert forall|k: int| 0 <= k < self.state_stack@.len() implies #[trigger] self.frame(k) == s0.frame(k) by { }
                assert forall|k: int| 0 <= k < self.state_stack@.len() implies (#[trigger] self.frame(k)).wf() && self.up.watch_ok(self.frame(k)) by { assert(s0.frame(k).wf()); }
                assert forall|j: int, k: int| 0 <= j <= k < self.state_stack@.len() implies extends(#[trigger] self.frame(k), #[trigger] self.frame(j)) by { assert(extends(s0.frame(k), s0.frame(j))); }
                assert forall|k: int| 1 <= k < self.state_stack@.len() implies units_assigned(self.cs(), #[trigger] self.frame(k)) by { assert(units_assigned(s0.cs(), s0.frame(k))); }
            }
        }
//%% end

//%% extract src/repr/unit_prop.rs :: impl SATSolver :: fn decide
//%% @ret r
//%% @spec
        // (a decision is never made on the bare start frame: SATSolver::new leaves [start, initially propagated] and a caller pops only its own decisions)
        requires old(self).solver_ok(), old(self).state_stack@.len() >= 2, assignment.lbl.0 < old(self).up.cnf.num_vars,
        ensures
            final(self).solver_ok(), final(self).cs() == old(self).cs(),
            // UNSAT: nothing is pushed, and no total assignment that agrees with the current model and the literal satisfies the formula
            r is UNSAT ==> final(self).state_stack@ =~= old(self).state_stack@ && refuted(old(self).cs(), old(self).top(), assignment),
            // otherwise one frame is pushed whose model extends the current one by the literal and by ENTAILED values only ...
            !(r is UNSAT) ==> final(self).state_stack@.drop_last() =~= old(self).state_stack@
                && extends(final(self).top(), old(self).top()) && final(self).top().val(assignment.lbl) == Some(assignment.pol)
                && entailed(old(self).cs(), old(self).top(), assignment, final(self).top()),
            // ... and (from the initially propagated frame on) propagation has run to FIXPOINT: no clause is falsified or has
            // exactly one unassigned literal
            !(r is UNSAT) ==> at_fixpoint(final(self).cs(), final(self).top()),
// R-ghost-arm: the match arm `UnitPropResult::UNSAT => DecisionResult::UNSAT,` becomes a block holding a proof block and the same value
//%% @rewrite 1 /UnitPropResult::UNSAT => DecisionResult::UNSAT,/ => UnitPropResult::UNSAT => { proof { lemma_decide_unsat_keeps(s0, *self); } DecisionResult::UNSAT }
//%% @entry
        let ghost s0 = *self;
        proof { assert(self.frame(self.state_stack@.len() - 1).wf()); }
//%% @after /UnitPropResult::PartialSAT\(new_model\) => \{/
                proof {
                    let u1 = s0.up; let u2 = self.up; let m1 = s0.top();
                    assert forall|k: int| 0 <= k < s0.state_stack@.len() implies u2.watch_ok(#[trigger] s0.frame(k)) by {
                        lemma_watch_frame(u1, u2, m1, s0.frame(k));
                    }
                    lemma_watch_step(u1, u2, m1, new_model);
                    lemma_extends_units(s0.cs(), m1, new_model);
                    if s0.state_stack@.len() >= 2 { lemma_fixpoint(u2, new_model); }
                    assert forall|j: int| 0 <= j < s0.state_stack@.len() implies extends(new_model, #[trigger] s0.frame(j)) by {
                        lemma_extends_trans(new_model, m1, s0.frame(j));
                    }
                }
//%% @before /^\s*if num_set [!=]= self\.clauses\.len\(\) \{$/
                proof { lemma_decide_pushed(s0, *self); }
//%% end
}
/// a decide that reported UNSAT: the lists may have been rearranged, the stack is as it was -- the invariant still holds
pub proof fn lemma_decide_unsat_keeps(s0: SATSolver, s1: SATSolver)
    requires s0.solver_ok(), s1.state_stack == s0.state_stack, s1.up.winv(), frame_ok(s0.up, s1.up, s0.top()),
    ensures s1.solver_ok(),
{
    let n = s0.state_stack@.len() as int;
    assert forall|k: int| 0 <= k < n implies (#[trigger] s1.frame(k)).wf() && s1.up.watch_ok(s1.frame(k)) by {
        assert(s0.frame(k).wf()); assert(extends(s0.frame(n - 1), s0.frame(k)));
        lemma_watch_frame(s0.up, s1.up, s0.top(), s0.frame(k));
    }
    assert forall|j: int, k: int| 0 <= j <= k < n implies extends(#[trigger] s1.frame(k), #[trigger] s1.frame(j)) by { assert(extends(s0.frame(k), s0.frame(j))); }
    assert forall|k: int| 1 <= k < n implies units_assigned(s1.cs(), #[trigger] s1.frame(k)) by { assert(units_assigned(s0.cs(), s0.frame(k))); }
}
/// a decide that pushed a frame
pub proof fn lemma_decide_pushed(s0: SATSolver, s1: SATSolver)
    requires
        s0.solver_ok(), s0.state_stack@.len() >= 2, s1.state_stack@.len() == s0.state_stack@.len() + 1, s1.state_stack@.drop_last() =~= s0.state_stack@,
        s1.up.winv(), s1.up.cnf == s0.up.cnf, frame_ok(s0.up, s1.up, s0.top()),
        s1.top().wf(), s1.up.watch_ok(s1.top()), extends(s1.top(), s0.top()),
        forall|k: int| 0 <= k < s0.state_stack@.len() ==> s1.up.watch_ok(#[trigger] s0.frame(k)),
    ensures s1.solver_ok(),
{
    let n = s0.state_stack@.len() as int;
    assert forall|k: int| 0 <= k < n implies #[trigger] s1.frame(k) == s0.frame(k) by { assert(s1.state_stack@.drop_last()[k] == s1.state_stack@[k]); }
    assert forall|k: int| 0 <= k < n + 1 implies (#[trigger] s1.frame(k)).wf() && s1.up.watch_ok(s1.frame(k)) by {
        if k < n { assert(s0.frame(k).wf()); assert(s1.up.watch_ok(s0.frame(k))); }
    }
    assert forall|j: int, k: int| 0 <= j <= k < n + 1 implies extends(#[trigger] s1.frame(k), #[trigger] s1.frame(j)) by {
        if k < n { assert(extends(s0.frame(k), s0.frame(j))); }
        else if j < n { assert(extends(s0.frame(n - 1), s0.frame(j))); lemma_extends_trans(s1.top(), s0.top(), s0.frame(j)); }
        else { }
    }
    assert forall|k: int| 1 <= k < n + 1 implies units_assigned(s1.cs(), #[trigger] s1.frame(k)) by {
        if k < n { assert(units_assigned(s0.cs(), s0.frame(k))); }
        else { assert(units_assigned(s0.cs(), s0.frame(n - 1))); lemma_extends_units(s0.cs(), s0.top(), s1.top()); }
    }
}
pub proof fn lemma_extends_trans(m3: PartialModel, m2: PartialModel, m1: PartialModel)
    requires extends(m3, m2), extends(m2, m1),
    ensures extends(m3, m1),
{
    assert forall|x: VarLabel| (#[trigger] m1.val(x)) is Some implies m3.val(x) == m1.val(x) by { assert(m2.val(x) == m1.val(x)); }
}
pub proof fn lemma_extends_units(cs: Seq<Vec<Literal>>, m1: PartialModel, m2: PartialModel)
    requires extends(m2, m1),
    ensures units_assigned(cs, m1) ==> units_assigned(cs, m2),
{
    if units_assigned(cs, m1) {
        assert forall|i: int| 0 <= i < cs.len() && (#[trigger] cs[i])@.len() == 1 implies m2.val(cs[i]@[0].lbl) == Some(cs[i]@[0].pol) by {
            assert(m1.val(cs[i]@[0].lbl) is Some);
        }
    }
}
/// what SATSolver::new is (it is not under contract: iterator chains, an external prime sieve): the stack [empty model, the model
/// UnitPropagate::new returned] over the propagator it returned.  Given the contract proved for UnitPropagate::new, such a
/// solver satisfies the invariant and is at fixpoint.
pub proof fn lemma_initial_solver_ok(s: SATSolver, m: PartialModel)
    requires
        s.state_stack@.len() == 2, forall|x: VarLabel| s.frame(0).val(x) is None, s.frame(0).wf(), s.frame(1) == m,
        s.up.winv(), s.up.watch_ok(m), m.wf(), no_empty(s.cs()), units_assigned(s.cs(), m),
    ensures s.solver_ok(), at_fixpoint(s.cs(), s.top()),
{
    lemma_watch_empty(s.up, s.frame(0));
    assert(extends(m, s.frame(0)));
    assert(extends(m, m)); assert(extends(s.frame(0), s.frame(0)));
    lemma_fixpoint(s.up, m);
}
/// C09: the fixpoint holds again after pop (the frame popped to was a fixpoint of the scheme when it was pushed, and the
/// watch invariant has been kept for it through every later decide)
pub proof fn lemma_fixpoint_every_frame(s: SATSolver, k: int)
    requires s.solver_ok(), 1 <= k < s.state_stack@.len(),
    ensures at_fixpoint(s.cs(), s.frame(k)),
{
    lemma_fixpoint(s.up, s.frame(k));
}
/// COROLLARY (what the top-down compiler relies on at its leaves, assumed there as part of A-sat): at a fixpoint, a model that
/// assigns every variable occurring in the formula makes every clause true
pub proof fn lemma_total_model_satisfies(cs: Seq<Vec<Literal>>, m: PartialModel)
    requires at_fixpoint(cs, m), forall|i: int, j: int| 0 <= i < cs.len() && 0 <= j < cs[i]@.len() ==> m.val((#[trigger] cs[i]@[j]).lbl) is Some,
    ensures cnf_true_p(cs, m),
{
    assert forall|i: int| 0 <= i < cs.len() implies clause_true_p((#[trigger] cs[i])@, m) by {
        assert(not_stuck(cs[i]@, m));
    }
}
