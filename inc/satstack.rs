// ---- src/repr/unit_prop.rs: SATSolver's decision stack (decide / pop and the observers that read the top frame) ----
//%% include trusted/literal.rs
//%% include trusted/sat_deps.rs

//%% extract src/repr/unit_prop.rs :: - :: enum UnitPropResult
//%% @pub
//%% end

//%% extract src/repr/unit_prop.rs :: - :: enum DecisionResult
//%% end

//%% extract src/repr/unit_prop.rs :: - :: struct SatState
//%% @pub
//%% end

//%% extract src/repr/unit_prop.rs :: - :: struct SATSolver
//%% @pub
//%% end

/// everything a caller can observe of a solver: the answers of is_set / cur_hash / is_sat
pub struct Obs { pub set: spec_fn(VarLabel) -> bool, pub hash: u128, pub sat: bool }

impl SATSolver {
    /// the frame the observers read
    pub open spec fn top(&self) -> SatState { self.state_stack@[self.state_stack@.len() - 1] }
    pub open spec fn wf(&self) -> bool { self.state_stack@.len() >= 1 }
    pub open spec fn obs(&self) -> Obs {
        Obs { set: |v: VarLabel| self.top().model.set_s(v), hash: self.top().hash, sat: self.top().sat_clauses.len_s() == self.clauses@.len() }
    }
    /// what `decide` does to the stack: nothing when it reports UNSAT, otherwise exactly one frame on top
    pub open spec fn decide_post(old_s: SATSolver, new_s: SATSolver, r: DecisionResult) -> bool {
        &&& new_s.clauses == old_s.clauses
        &&& (r is UNSAT ==> new_s.state_stack@ =~= old_s.state_stack@)
        &&& (!(r is UNSAT) ==> new_s.state_stack@.len() == old_s.state_stack@.len() + 1 && new_s.state_stack@.drop_last() =~= old_s.state_stack@)
        &&& ((r is SAT) ==> new_s.obs().sat) && ((r is Unknown) ==> !new_s.obs().sat)
    }
    pub open spec fn pop_post(old_s: SATSolver, new_s: SATSolver) -> bool {
        &&& new_s.clauses == old_s.clauses
        &&& (old_s.state_stack@.len() > 0 ==> new_s.state_stack@ =~= old_s.state_stack@.drop_last())
    }

    // A-sat-deps: unverified (see trusted/sat_deps.rs); takes `&self`, so it cannot touch the stack
    #[verifier::external_body]
    fn update_hash_and_sat_set(&self, new_model: &PartialModel) -> (r: (u128, BitSet)) { unimplemented!() }

//%% extract src/repr/unit_prop.rs :: impl SATSolver :: fn top_state
//%% @ret r
//%% @spec
        requires self.wf(),
        ensures *r == self.top(),
//%% end

//%% extract src/repr/unit_prop.rs :: impl SATSolver :: fn pop
//%% @spec
        ensures SATSolver::pop_post(*old(self), *final(self)),
//%% end

//%% extract src/repr/unit_prop.rs :: impl SATSolver :: fn decide
//%% @ret r
//%% @spec
        requires old(self).wf(),
        ensures SATSolver::decide_post(*old(self), *final(self), r), final(self).wf(),
//%% end

//%% extract src/repr/unit_prop.rs :: impl SATSolver :: fn cur_hash
//%% @ret r
//%% @spec
        requires self.wf(),
        ensures r == self.obs().hash,
//%% end

//%% extract src/repr/unit_prop.rs :: impl SATSolver :: fn is_sat
//%% @ret r
//%% @spec
        requires self.wf(),
        ensures r == self.obs().sat,
//%% end

//%% extract src/repr/unit_prop.rs :: impl SATSolver :: fn is_set
//%% @ret r
//%% @spec
        requires self.wf(),
        ensures r == (self.obs().set)(var),
//%% end
}

/// C09, "popping restores exactly the state that held before the matching decision": whatever the propagator and the
/// hash update return, a decide that does not report UNSAT followed by pop leaves the stack -- hence every answer of
/// is_set / cur_hash / is_sat -- as it was
pub proof fn lemma_pop_undoes_decide(s0: SATSolver, s1: SATSolver, s2: SATSolver, r: DecisionResult)
    requires s0.wf(), SATSolver::decide_post(s0, s1, r), !(r is UNSAT), SATSolver::pop_post(s1, s2),
    ensures s2.state_stack@ == s0.state_stack@, s2.clauses == s0.clauses, s2.obs() == s0.obs(), s2.wf(),
{
    assert(s2.obs().set =~= s0.obs().set);
}
/// a decide that reports UNSAT pushes nothing: the observable state is unchanged (so no pop matches it)
pub proof fn lemma_unsat_decide_is_noop(s0: SATSolver, s1: SATSolver, r: DecisionResult)
    requires s0.wf(), SATSolver::decide_post(s0, s1, r), r is UNSAT,
    ensures s1.state_stack@ == s0.state_stack@, s1.obs() == s0.obs(),
{
    assert(s1.obs().set =~= s0.obs().set);
}
/// frames below the top are never touched: after decide, every frame that was on the stack is still there, unchanged
pub proof fn lemma_decide_keeps_lower_frames(s0: SATSolver, s1: SATSolver, r: DecisionResult)
    requires s0.wf(), SATSolver::decide_post(s0, s1, r),
    ensures forall|i: int| 0 <= i < s0.state_stack@.len() ==> s1.state_stack@[i] == s0.state_stack@[i],
{
    if !(r is UNSAT) {
        assert forall|i: int| 0 <= i < s0.state_stack@.len() implies s1.state_stack@[i] == s0.state_stack@[i] by {
            assert(s1.state_stack@.drop_last()[i] == s1.state_stack@[i]);
        }
    }
}
