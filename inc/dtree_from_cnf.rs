// ---- src/repr/dtree.rs: DTree::from_cnf (eo2dtree) on top of the proved helpers init_vars / gen_cutset / balanced ----
/// how often clause c occurs in a list of clauses
pub open spec fn cnt(s: Seq<Seq<Literal>>, c: Seq<Literal>) -> nat
    decreases s.len()
{
    if s.len() == 0 { 0 } else { cnt(s.drop_last(), c) + (if s.last() == c { 1nat } else { 0nat }) }
}
pub proof fn lemma_cnt_add(a: Seq<Seq<Literal>>, b: Seq<Seq<Literal>>, c: Seq<Literal>)
    ensures cnt(a + b, c) == cnt(a, c) + cnt(b, c),
    decreases b.len(),
{
    if b.len() == 0 {
        assert(a + b =~= a);
    } else {
        assert((a + b).drop_last() =~= a + b.drop_last());
        assert((a + b).last() == b.last());
        lemma_cnt_add(a, b.drop_last(), c);
    }
}
pub proof fn lemma_all_leaves_push(ts: Seq<DTree>, t: DTree)
    ensures all_leaves(ts.push(t)) == all_leaves(ts) + leaves(t),
{
    assert(ts.push(t).drop_last() =~= ts);
}
pub proof fn lemma_all_leaves_front(ts: Seq<DTree>)
    requires ts.len() > 0,
    ensures all_leaves(ts) == leaves(ts[0]) + all_leaves(ts.remove(0)),
{
    lemma_all_leaves_split(ts, 1);
    let a = ts.subrange(0, 1);
    assert(a.drop_last() =~= Seq::<DTree>::empty());
    assert(all_leaves(a.drop_last()) =~= Seq::<Seq<Literal>>::empty());
    assert(all_leaves(a) =~= leaves(ts[0]));
    assert(ts.subrange(1, ts.len() as int) =~= ts.remove(0));
}
/// the clause list of the formula, as sequences of literals
pub open spec fn views_upto(cs: Seq<Vec<Literal>>, n: int) -> Seq<Seq<Literal>> { Seq::new(n as nat, |i: int| cs[i]@) }

impl DTree {
// Declared rewrites (each replaces a std iterator adaptor by its definition over the same elements, closure bodies verbatim):
//   R-map-collect: `xs.iter().map(|clause| BODY).collect()` -> push BODY's value for every element, in order
//   R-partition:   `v.into_iter().partition(|t| PRED)`      -> move the elements out front to back into two vectors by PRED
//   R-for-while + A-order-iter: `for o in elim_order.in_order_iter()` (its body uses `continue`) -> indexed while over the stub's vector
//%% extract src/repr/dtree.rs :: impl DTree :: fn from_cnf
//%% @pub
//%% @props C14
//%% @attr #[verifier::loop_isolation(false)]
//%% @ret r
//%% @rewrite 1 /cnf\n\s*\.clauses\(\)\n\s*\.iter\(\)\n\s*\.map\(\|clause\| \{/ => { let mut mc__out: Vec<DTree> = Vec::new(); for clause in mc__it: cnf.clauses().iter() { let mc__x = {
//%% @rewrite 1 /\n            \}\)\n            \.collect\(\);/ => \n            }; mc__out.push(mc__x); } mc__out };
//%% @rewrite 1 /for o in elim_order\.in_order_iter\(\) \{/ => let ord__v = verif_in_order_vec(elim_order); let mut ord__i: usize = 0;\n        while ord__i < ord__v.len() {\n            let o = ord__v[ord__i];\n            ord__i += 1;
//%% @rewrite 1 /subtrees\.into_iter\(\)\.partition\(\|t\| t\.get_vars\(\)\.contains\(o\)\);/ => { let mut pt__src = subtrees; let mut pt__t: Vec<DTree> = Vec::new(); let mut pt__s: Vec<DTree> = Vec::new(); while pt__src.len() > 0 { let t = pt__src.remove(0); if t.get_vars().contains(o) { pt__t.push(t); } else { pt__s.push(t); } } (pt__t, pt__s) };
//%% @spec
        requires cnf.cls().len() > 0,
        ensures
            // exactly the formula's clauses as leaves (as a multiset: every clause occurs at the leaves as often as in the formula)
            forall|c: Seq<Literal>| cnt(leaves(r), c) == #[trigger] cnt(views_upto(cnf.cls(), cnf.cls().len() as int), c),
            // variable sets: the clause's variables at a leaf, the union of the children's at a node
            vars_ok(r),
            // cutsets: shared by the children and not cut above (nothing is above the root)
            exists|e: VarSet| (forall|v: VarLabel| !e.has(v)) && cut_ok(r, set_of(e)),
//%% @entry
        let ghost cls0 = cnf.cls();
        let ghost all = views_upto(cls0, cls0.len() as int);
        proof {
            axiom_clone_eq::<Literal>();
            assert forall|a: Seq<Seq<Literal>>, b: Seq<Seq<Literal>>, c: Seq<Literal>| #![trigger cnt(a + b, c)] cnt(a + b, c) == cnt(a, c) + cnt(b, c) by { lemma_cnt_add(a, b, c); }
            assert forall|ts: Seq<DTree>, t: DTree| #![trigger all_leaves(ts.push(t))] all_leaves(ts.push(t)) == all_leaves(ts) + leaves(t) by { lemma_all_leaves_push(ts, t); }
            assert forall|ts: Seq<DTree>| #![trigger all_leaves(ts.remove(0))] ts.len() > 0 implies all_leaves(ts) == leaves(ts[0]) + all_leaves(ts.remove(0)) by { lemma_all_leaves_front(ts); }
            assert forall|a: DTree, b: DTree| #[trigger] same_but_cut(a, b) implies leaves(a) == leaves(b) && vars_ok(a) == vars_ok(b) by { lemma_same_but_cut(a, b); }
        }
//%% @loop 1 /^for clause in mc__it: cnf\.clauses\(\)\.iter\(\)$/
            invariant
                mc__out@.len() == mc__it.index@,
                all_leaves(mc__out@) =~= views_upto(cls0, mc__it.index@ as int),
                forall|i: int| 0 <= i < mc__out@.len() ==> leaf_vars_sub(#[trigger] mc__out@[i]),
//%% @loop 2 /^while ord__i < ord__v\.len\(\)$/
            invariant
                subtrees@.len() > 0,
                forall|i: int| 0 <= i < subtrees@.len() ==> leaf_vars_sub(#[trigger] subtrees@[i]),
                forall|c: Seq<Literal>| cnt(all_leaves(subtrees@), c) == #[trigger] cnt(all, c),
            decreases ord__v.len() - ord__i,
//%% @loop 3 /^while pt__src\.len\(\) > 0$/
                invariant
                    pt__t@.len() + pt__s@.len() + pt__src@.len() > 0,
                    forall|i: int| 0 <= i < pt__t@.len() ==> leaf_vars_sub(#[trigger] pt__t@[i]),
                    forall|i: int| 0 <= i < pt__s@.len() ==> leaf_vars_sub(#[trigger] pt__s@[i]),
                    forall|i: int| 0 <= i < pt__src@.len() ==> leaf_vars_sub(#[trigger] pt__src@[i]),
                    forall|c: Seq<Literal>| #![trigger cnt(all, c)] cnt(all_leaves(pt__t@), c) + cnt(all_leaves(pt__s@), c) + cnt(all_leaves(pt__src@), c) == cnt(all, c),
                decreases pt__src@.len(),
//%% end
}
