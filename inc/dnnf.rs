// ---- src/builder/decision_nnf/{builder,standard}.rs: conditioning of decision-DNNF diagrams ----
//%% include trusted/dnnf_cells.rs

//%% include prelude/decides.rs

/// the first k literals of the sequence hold in env
pub open spec fn lits_hold(env: Env, lits: Seq<Literal>, k: int) -> bool
    decreases k
{
    if k <= 0 { true } else { lits_hold(env, lits, k - 1) && env(lits[k - 1].lbl.0) == lits[k - 1].pol }
}
/// x is the variable of one of the first k literals
pub open spec fn lits_mention(lits: Seq<Literal>, k: int, x: VarLabel) -> bool
    decreases k
{
    if k <= 0 { false } else { lits_mention(lits, k - 1, x) || lits[k - 1].lbl == x }
}
pub proof fn lemma_lits_mention(lits: Seq<Literal>, k: int, x: VarLabel)
    requires lits_mention(lits, k, x), 0 <= k <= lits.len(),
    ensures exists|i: int| 0 <= i < k && (#[trigger] lits[i]).lbl == x,
    decreases k,
{
    if k > 0 && lits[k - 1].lbl != x { lemma_lits_mention(lits, k - 1, x); }
}


// ---- top-down compilation (topdown_h): validity of a diagram for a solver state ----
/// r is the diagram of the formula under the partial model m: it agrees with the formula on every assignment that
/// extends m, decides no variable twice and does not decide a variable that m assigns
pub open spec fn valid_for(r: BddPtr, m: PM, id: int) -> bool {
    &&& forall|env: Env| #[trigger] tr(env) ==> (agrees(env, m) ==> ptr_sem(r, env) == csem_of(id, env))
    &&& decides_once(r)
    &&& forall|x: VarLabel| #[trigger] mentions(r, x) ==> !m.contains_key(x.0)
    // only the false CONSTANT denotes false: any other diagram is true on some assignment that extends m
    &&& (r is PtrFalse || exists|env: Env| #[trigger] tr(env) && agrees(env, m) && ptr_sem(r, env))
}
/// ... on the half of the assignments where v has value pol; h does not decide v either
pub open spec fn half_valid(h: BddPtr, m0: PM, v: VarLabel, pol: bool, id: int) -> bool {
    &&& forall|env: Env| #[trigger] tr(env) ==> (agrees(env, m0) && env(v.0) == pol ==> ptr_sem(h, env) == csem_of(id, env))
    &&& decides_once(h)
    &&& forall|x: VarLabel| #[trigger] mentions(h, x) ==> !m0.contains_key(x.0) && x != v
    &&& (h is PtrFalse || exists|env: Env| #[trigger] tr(env) && agrees(env, m0) && env(v.0) == pol && ptr_sem(h, env))
}
/// an assignment that extends a partial model
pub open spec fn env_of(m: PM) -> Env { |x: u64| if m.contains_key(x) { m[x] } else { false } }
/// the contract of conjoin_implied as one predicate (trigger for the branch lemma)
#[verifier::opaque]
pub open spec fn conj_post(r: BddPtr, nnf: BddPtr, lits: Seq<Literal>) -> bool {
    &&& forall|env: Env| #[trigger] tr(env) ==> ptr_sem(r, env) == (ptr_sem(nnf, env) && lits_hold(env, lits, lits.len() as int))
    &&& decides_once(r)
    &&& forall|x: VarLabel| #[trigger] mentions(r, x) ==> mentions(nnf, x) || lits_mention(lits, lits.len() as int, x)
    &&& (nnf is PtrFalse ==> r is PtrFalse)
}
/// the contract of get_or_insert as one predicate (trigger for the combine lemma)
#[verifier::opaque]
pub open spec fn dnode_post(r: BddPtr, bdd: BddNode) -> bool {
    &&& forall|env: Env| #[trigger] tr(env) ==> ptr_sem(r, env) == node_sem(bdd, env)
    &&& forall|x: VarLabel| #[trigger] mentions(r, x) == (x == bdd.var || mentions(bdd.low, x) || mentions(bdd.high, x))
    &&& decides_once(r) == (!mentions(bdd.low, bdd.var) && !mentions(bdd.high, bdd.var) && decides_once(bdd.low) && decides_once(bdd.high))
}
/// component cache: an entry is valid for every solver state with that residual hash
pub open spec fn tcache_ok(c: FxHashMap<u128, BddPtr>, id: int) -> bool {
    forall|h: u128, v: BddPtr| #[trigger] c.entries().contains((h, v)) ==> forall|m: PM| #[trigger] hash_of(id, m) == h ==> valid_for(v, m, id)
}

pub proof fn lemma_lits_hold_at(env: Env, lits: Seq<Literal>, k: int, i: int)
    requires lits_hold(env, lits, k), 0 <= i < k,
    ensures env(lits[i].lbl.0) == lits[i].pol,
    decreases k,
{
    if i < k - 1 { lemma_lits_hold_at(env, lits, k - 1, i); }
}
pub proof fn lemma_lits_hold_from_agree(env: Env, lits: Seq<Literal>, k: int, m: PM)
    requires agrees(env, m), 0 <= k <= lits.len(),
        forall|i: int| 0 <= i < lits.len() ==> m.contains_key((#[trigger] lits[i]).lbl.0) && m[lits[i].lbl.0] == lits[i].pol,
    ensures lits_hold(env, lits, k),
    decreases k,
{
    if k > 0 { lemma_lits_hold_from_agree(env, lits, k - 1, m); assert(m.contains_key(lits[k - 1].lbl.0)); }
}

/// one branch of a decision: the solver pushed m2 for `lit`; `sub` is valid for m2; `high` = sub conjoined with the
/// implied literals.  Then `high` is right on every assignment that extends m0 and gives lit's variable lit's value.
pub proof fn lemma_branch(id: int, m0: PM, lit: Literal, sat: bool, m2: PM, lits: Seq<Literal>, sub: BddPtr, high: BddPtr)
    requires
        decide_ok(id, m0, lit, sat, m2), !m0.contains_key(lit.lbl.0), implied_ok(lits, m0, m2, lit.lbl),
        conj_post(high, sub, lits), valid_for(sub, m2, id),
    ensures half_valid(high, m0, lit.lbl, lit.pol, id),
{
    reveal(decide_ok); reveal(implied_ok); reveal(conj_post);
    let n = lits.len() as int;
    let v = lit.lbl;
    assert forall|env: Env| #[trigger] tr(env) implies (agrees(env, m0) && env(v.0) == lit.pol ==> ptr_sem(high, env) == csem_of(id, env)) by {
        if agrees(env, m0) && env(v.0) == lit.pol {
            if lits_hold(env, lits, n) {
                // env extends m2: old assignments, the decided literal, and every implied literal
                assert forall|x: u64| #[trigger] m2.contains_key(x) implies env(x) == m2[x] by {
                    if m0.contains_key(x) { } else if x == v.0 { } else {
                        let i = choose|i: int| 0 <= i < lits.len() && (#[trigger] lits[i]).lbl.0 == x;
                        lemma_lits_hold_at(env, lits, n, i);
                    }
                }
                assert(agrees(env, m2));
            } else {
                if csem_of(id, env) { lemma_lits_hold_from_agree(env, lits, n, m2); }
            }
        }
    }
    assert forall|x: VarLabel| #[trigger] mentions(high, x) implies !m0.contains_key(x.0) && x != v by {
        if mentions(sub, x) { assert(!m2.contains_key(x.0)); }
        else { lemma_lits_mention(lits, n, x); }
    }
    // a witness for sub (it extends m2, so every implied literal holds) is a witness for high
    if !(sub is PtrFalse) {
        let w = choose|env: Env| #[trigger] tr(env) && agrees(env, m2) && ptr_sem(sub, env);
        lemma_lits_hold_from_agree(w, lits, n, m2);
        assert(tr(w) && agrees(w, m0) && w(v.0) == lit.pol && ptr_sem(high, w));
    }
}
/// a SAT answer makes the true diagram valid for the pushed model
pub proof fn lemma_true_valid(id: int, m0: PM, lit: Literal, m2: PM)
    requires decide_ok(id, m0, lit, true, m2),
    ensures valid_for(BddPtr::PtrTrue, m2, id),
{
    reveal(decide_ok); tr_all();
    assert(tr(env_of(m2)) && agrees(env_of(m2), m2) && ptr_sem(BddPtr::PtrTrue, env_of(m2)));
}
pub proof fn lemma_unsat_half(id: int, m0: PM, lit: Literal)
    requires decide_unsat(id, m0, lit),
    ensures half_valid(BddPtr::PtrFalse, m0, lit.lbl, lit.pol, id),
{
    reveal(decide_unsat);
}
/// the two halves give the whole: either both branches are the same diagram, or a node on v
pub proof fn lemma_combine_eq(id: int, m0: PM, v: VarLabel, low: BddPtr, high: BddPtr)
    requires half_valid(high, m0, v, true, id), half_valid(low, m0, v, false, id), PartialEqSpec::eq_spec(&high, &low),
    ensures valid_for(high, m0, id),
{
    axiom_bddptr_eq();
    if !(high is PtrFalse) {
        let w = choose|env: Env| #[trigger] tr(env) && agrees(env, m0) && env(v.0) == true && ptr_sem(high, env);
        assert(tr(w) && agrees(w, m0) && ptr_sem(high, w));
    }
}
pub proof fn lemma_combine_node(id: int, m0: PM, v: VarLabel, low: BddPtr, high: BddPtr, n: BddNode, r: BddPtr)
    requires half_valid(high, m0, v, true, id), half_valid(low, m0, v, false, id), !m0.contains_key(v.0),
        n.var == v, n.low == low, n.high == high, dnode_post(r, n), !PartialEqSpec::eq_spec(&high, &low),
    ensures valid_for(r, m0, id),
{
    reveal(dnode_post); axiom_bddptr_eq_equiv();
    // the two branches are not the same pointer, so they are not both the false constant: one of them has a witness
    if !(high is PtrFalse) {
        let w = choose|env: Env| #[trigger] tr(env) && agrees(env, m0) && env(v.0) == true && ptr_sem(high, env);
        assert(tr(w) && agrees(w, m0) && ptr_sem(r, w));
    } else {
        assert(!(low is PtrFalse));
        let w = choose|env: Env| #[trigger] tr(env) && agrees(env, m0) && env(v.0) == false && ptr_sem(low, env);
        assert(tr(w) && agrees(w, m0) && ptr_sem(r, w));
    }
    assert(is_node(r)) by { assert(mentions(r, n.var)); }
}

pub trait TopDownBuilder<'a> {
    fn var(&'a self, label: VarLabel, polarity: bool) -> (r: BddPtr<'a>)
        ensures forall|env: Env| #[trigger] tr(env) ==> ptr_sem(r, env) == (env(label.0) == polarity);

    /// f | v = value, for a diagram or the negation of a diagram in which no path decides a variable twice
    fn condition(&'a self, a: BddPtr<'a>, v: VarLabel, value: bool) -> (r: BddPtr<'a>)
        requires decides_once(a),
        ensures forall|env: Env| #[trigger] tr(env) ==> ptr_sem(r, env) == ptr_sem(a, upd(env, v.0, value));
}

pub trait DecisionNNFBuilder<'a>: TopDownBuilder<'a> {
    /// the builder's variable order (fixed)
    spec fn order_s(&self) -> VarOrder;
    fn order(&'a self) -> (r: &'a VarOrder)
        ensures *r == self.order_s();

    /// Normalizes and fetches a node from the store
    fn get_or_insert(&'a self, bdd: BddNode<'a>) -> (r: BddPtr<'a>)
        ensures
            dnode_post(r, bdd),
            forall|env: Env| #[trigger] tr(env) ==> ptr_sem(r, env) == node_sem(bdd, env),
            is_node(r), node_of(r).var == bdd.var,
            node_of(r).low == (if r is Compl { bdd.low.neg_s() } else { bdd.low }),
            node_of(r).high == (if r is Compl { bdd.high.neg_s() } else { bdd.high }),
            // the stored node tests exactly the variables of the argument node
            forall|x: VarLabel| #[trigger] mentions(r, x) == (x == bdd.var || mentions(bdd.low, x) || mentions(bdd.high, x)),
            decides_once(r) == (!mentions(bdd.low, bdd.var) && !mentions(bdd.high, bdd.var) && decides_once(bdd.low) && decides_once(bdd.high));

// R-iter: `literals: impl Iterator<Item = Literal>` cannot be iterated in Verus; the parameter becomes the trusted
// container `LitIter` (trusted/lit_iter.rs) and the loop header iterates the vector it stands for (A-lit-iter)
//%% extract src/builder/decision_nnf/builder.rs :: trait DecisionNNFBuilder<'a>: TopDownBuilder<'a, BddPtr<'a>> :: fn conjoin_implied
//%% @ret r
//%% @rewrite 1 /literals: impl Iterator<Item = Literal>,/ => literals: LitIter,
//%% @rewrite 1 /for l in literals \{/ => let lits__v = verif_lits_vec(literals);\n        for l__r in it: lits__v.iter() {\n            let l = *l__r;
//%% @spec
        requires
            decides_once(nnf),
            // the implied literals are on distinct variables that the diagram does not decide
            forall|i: int| 0 <= i < literals.lits().len() ==> !mentions(nnf, (#[trigger] literals.lits()[i]).lbl),
            forall|i: int, j: int| 0 <= i < j < literals.lits().len() ==> (#[trigger] literals.lits()[i]).lbl != (#[trigger] literals.lits()[j]).lbl,
        ensures
            // the diagram conjoined with every implied literal
            forall|env: Env| #[trigger] tr(env) ==> ptr_sem(r, env) == (ptr_sem(nnf, env) && lits_hold(env, literals.lits(), literals.lits().len() as int)),
            decides_once(r),
            forall|x: VarLabel| #[trigger] mentions(r, x) ==> mentions(nnf, x) || lits_mention(literals.lits(), literals.lits().len() as int, x),
            conj_post(r, nnf, literals.lits()),
//%% @entry
        let ghost lits0 = literals.lits();
        proof { tr_all(); axiom_bddptr_eq(); reveal(conj_post); }
//%% @loop 1 /^for l__r in it: lits__v\.iter\(\)$/
            invariant
                lits__v@ == lits0, decides_once(nnf), decides_once(sub), !(nnf is PtrFalse),
                forall|i: int| 0 <= i < lits0.len() ==> !mentions(nnf, (#[trigger] lits0[i]).lbl),
                forall|i: int, j: int| 0 <= i < j < lits0.len() ==> (#[trigger] lits0[i]).lbl != (#[trigger] lits0[j]).lbl,
                forall|env: Env| #[trigger] tr(env) ==> ptr_sem(sub, env) == (ptr_sem(nnf, env) && lits_hold(env, lits0, it.index@ as int)),
                forall|x: VarLabel| #[trigger] mentions(sub, x) ==> mentions(nnf, x) || lits_mention(lits0, it.index@ as int, x),
//%% @loopbody 1
            proof {
                tr_all();
                // the next literal's variable is not decided below: not in nnf, and different from the earlier literals
                let k = it.index@ as int;
                assert(!mentions(sub, lits0[k].lbl)) by {
                    if mentions(sub, lits0[k].lbl) { lemma_lits_mention(lits0, k, lits0[k].lbl); }
                }
            }
//%% end

// R-iter (A-sat): `sat.difference_iter().filter(|x| x.label() != cur_v)` is the stub method `sat.verif_implied_except(cur_v)`;
// the solver itself, the component cache's hash map and the formula are the stubs of trusted/sat_stub.rs, fxhashmap.rs, cnf_stub.rs
//%% extract src/builder/decision_nnf/builder.rs :: trait DecisionNNFBuilder<'a>: TopDownBuilder<'a, BddPtr<'a>> :: fn topdown_h
//%% @attr #[verifier::exec_allows_no_decreases_clause]
//%% @ret r
//%% @rewrite 4 /sat\.difference_iter\(\)\.filter\(\|x\| x\.label\(\) != cur_v\)/ => sat.verif_implied_except(cur_v)
//%% @spec
        requires
            old(sat).wf(), tcache_ok(*old(cache), old(sat).id()),
            self.order_s().wf(), self.order_s().n() == old(sat).nv(), cnf.nv_s() == old(sat).nv(),
            // every variable at a level above `level` is already assigned
            forall|l: int| 0 <= l < level && l < self.order_s().pos_to_var.len() ==> old(sat).top().contains_key(#[trigger] self.order_s().pos_to_var[l] as u64),
        ensures
            final(sat).stack() == old(sat).stack(), final(sat).id() == old(sat).id(), final(sat).nv() == old(sat).nv(), final(sat).wf(),
            tcache_ok(*final(cache), old(sat).id()),
            // the result is the diagram of the formula under the current partial model
            valid_for(r, old(sat).top(), old(sat).id()),
//%% @entry
        let ghost id = sat.id();
        let ghost m0 = sat.top();
        let ghost nv = sat.nv();
        proof {
            tr_all(); axiom_bddptr_eq(); axiom_reshash(id); reveal(VarOrder::wf); reveal(implied_ok);
            assert forall|st: Seq<PM>, x: PM| #[trigger] st.push(x).drop_last() == st by { assert(st.push(x).drop_last() =~= st); }
            // all variables assigned => the formula holds (base case `level >= num_vars`)
            if level >= nv {
                reveal(VarOrder::wf);
                assert forall|x: u64| (x as nat) < nv implies #[trigger] m0.contains_key(x) by {
                    let l = self.order_s().var_to_pos[x as int] as int;
                    assert(self.order_s().pos_to_var[l] == x as int);
                }
                assert(sound_model(id, nv, sat.stack()[sat.stack().len() - 1]));
            }
            // the true constant has a witness under any model
            assert(tr(env_of(m0)) && agrees(env_of(m0), m0) && ptr_sem(BddPtr::PtrTrue, env_of(m0)));
            // Q0: a SAT answer makes `true` valid for the pushed model
            assert forall|lit: Literal, m2: PM| #[trigger] decide_ok(id, m0, lit, true, m2) implies valid_for(BddPtr::PtrTrue, m2, id) by { lemma_true_valid(id, m0, lit, m2); }
            // Q1: one branch
            assert forall|lit: Literal, sat_: bool, m2: PM, lits: Seq<Literal>, sub: BddPtr, high: BddPtr|
                #![trigger decide_ok(id, m0, lit, sat_, m2), implied_ok(lits, m0, m2, lit.lbl), conj_post(high, sub, lits)]
                decide_ok(id, m0, lit, sat_, m2) && !m0.contains_key(lit.lbl.0) && implied_ok(lits, m0, m2, lit.lbl) && conj_post(high, sub, lits) && valid_for(sub, m2, id)
                implies half_valid(high, m0, lit.lbl, lit.pol, id) by { lemma_branch(id, m0, lit, sat_, m2, lits, sub, high); }
            // Q2: an UNSAT branch
            assert forall|lit: Literal| #[trigger] decide_unsat(id, m0, lit) implies half_valid(BddPtr::PtrFalse, m0, lit.lbl, lit.pol, id) by { lemma_unsat_half(id, m0, lit); }
            // Q3: the two halves
            assert forall|v: VarLabel, low: BddPtr, high: BddPtr| #![trigger half_valid(high, m0, v, true, id), half_valid(low, m0, v, false, id)]
                half_valid(high, m0, v, true, id) && half_valid(low, m0, v, false, id) && PartialEqSpec::eq_spec(&high, &low)
                implies valid_for(high, m0, id) by { lemma_combine_eq(id, m0, v, low, high); }
            assert forall|v: VarLabel, low: BddPtr, high: BddPtr, n: BddNode, rr: BddPtr| #![trigger half_valid(high, m0, v, true, id), half_valid(low, m0, v, false, id), dnode_post(rr, n)]
                half_valid(high, m0, v, true, id) && half_valid(low, m0, v, false, id) && !m0.contains_key(v.0) && n.var == v && n.low == low && n.high == high && dnode_post(rr, n) && !PartialEqSpec::eq_spec(&high, &low)
                implies valid_for(rr, m0, id) by { lemma_combine_node(id, m0, v, low, high, n, rr); }
        }
//%% end

// R-iter (A-sat): `SATSolver::new(cnf.clone())`, `&mut FxHashMap::default()` and the final `sat.difference_iter()` are the stubs
// of trusted/sat_stub.rs; the loop that conjoins the initially implied literals is the real text
//%% extract src/builder/decision_nnf/builder.rs :: trait DecisionNNFBuilder<'a>: TopDownBuilder<'a, BddPtr<'a>> :: fn compile_cnf_topdown
//%% @attr #[verifier::loop_isolation(false)]
//%% @ret r
//%% @rewrite 1 /SATSolver::new\(cnf\.clone\(\)\)/ => verif_solver_new(cnf)
//%% @rewrite 1 /let mut r = self\.topdown_h\(cnf, &mut sat, 0, &mut FxHashMap::default\(\)\);/ => let mut cache__v = verif_empty_cache();\n        let mut r = self.topdown_h(cnf, &mut sat, 0, &mut cache__v);
//%% @rewrite 1 /for l in sat\.difference_iter\(\) \{/ => let lits__v = verif_lits_vec(sat.verif_implied_all());\n        for l__r in it: lits__v.iter() {\n            let l = *l__r;
//%% @spec
        requires self.order_s().wf(), self.order_s().n() == cnf.nv_s(),
        ensures
            // the diagram has exactly the models of the formula (relative to the solver contract A-sat / A-reshash)
            forall|env: Env| #[trigger] tr(env) ==> ptr_sem(r, env) == csem_of(cnf.id_s(), env),
            decides_once(r),
            // the false CONSTANT exactly when the formula is unsatisfiable
            (r is PtrFalse) == (forall|env: Env| #[trigger] tr(env) ==> !csem_of(cnf.id_s(), env)),
//%% @entry
        let ghost id = cnf.id_s();
        proof {
            tr_all(); axiom_bddptr_eq(); reveal(init_ok); reveal(implied_all_ok); reveal(dnode_post);
            // the implied literals hold exactly on the assignments that extend the model they come from
            assert forall|env: Env, lits: Seq<Literal>, top: PM| #![trigger tr(env), implied_all_ok(lits, Map::<u64, bool>::empty(), top)]
                implied_all_ok(lits, Map::<u64, bool>::empty(), top) implies (lits_hold(env, lits, lits.len() as int) == agrees(env, top)) by {
                if agrees(env, top) { lemma_lits_hold_from_agree(env, lits, lits.len() as int, top); }
                if lits_hold(env, lits, lits.len() as int) {
                    assert forall|x: u64| #[trigger] top.contains_key(x) implies env(x) == top[x] by {
                        let i = choose|i: int| 0 <= i < lits.len() && (#[trigger] lits[i]).lbl.0 == x;
                        lemma_lits_hold_at(env, lits, lits.len() as int, i);
                    }
                }
            }
        }
//%% @loop 1 /^for l__r in it: lits__v\.iter\(\)$/
            invariant
                decides_once(r),
                forall|i: int, j: int| 0 <= i < j < lits__v.len() ==> (#[trigger] lits__v@[i]).lbl != (#[trigger] lits__v@[j]).lbl,
                forall|i: int| 0 <= i < lits__v.len() ==> sat.top().contains_key((#[trigger] lits__v@[i]).lbl.0),
                forall|x: VarLabel| #[trigger] mentions(r, x) ==> !sat.top().contains_key(x.0) || lits_mention(lits__v@, it.index@ as int, x),
                exists|r0: BddPtr| valid_for(r0, sat.top(), id) && !(r0 is PtrFalse)
                    && forall|env: Env| #[trigger] tr(env) ==> ptr_sem(r, env) == (ptr_sem(r0, env) && lits_hold(env, lits__v@, it.index@ as int)),
                // the formula is satisfiable (the diagram under the implied literals is not the false constant)
                exists|env: Env| #[trigger] tr(env) && csem_of(id, env),
                it.index@ > 0 ==> is_node(r),  !(r is PtrFalse),
//%% @loopbody 1
            proof {
                tr_all();
                let k = it.index@ as int;
                assert(!mentions(r, lits__v@[k].lbl)) by {
                    if mentions(r, lits__v@[k].lbl) { lemma_lits_mention(lits__v@, k, lits__v@[k].lbl); }
                }
            }
//%% end

// R-orguard: Verus rejects a match arm with both an or-pattern and a guard; the two arms
//     `P if g => A,  P => B`   are rewritten to   `P => { if g A else B }`   (same pattern P, adjacent arms)
//%% extract src/builder/decision_nnf/builder.rs :: trait DecisionNNFBuilder<'a>: TopDownBuilder<'a, BddPtr<'a>> :: fn cond_helper
//%% @attr #[verifier::exec_allows_no_decreases_clause]
//%% @ret r
//%% @rewrite 1 /bdd\.scratch::<BddPtr>\(\)/ => verif_scratch_bddptr(&bdd)
//%% @rewrite 1 /BddPtr::Reg\(node\) \| BddPtr::Compl\(node\) if node\.var == lbl => \{/ => BddPtr::Reg(node) | BddPtr::Compl(node) => { if node.var == lbl {
//%% @rewrite 1 /\n            \}\n            BddPtr::Reg\(node\) \| BddPtr::Compl\(node\) => \{/ => \n            } else {
//%% @rewrite 1 /\n                res\n            \}\n        \}\n    \}$/ => \n                res\n            } }\n        }\n    }
//%% @spec
        requires
            decides_once(bdd),
        ensures
            forall|env: Env| #[trigger] tr(env) ==> ptr_sem(r, env) == ptr_sem(bdd, upd(env, lbl.0, value)),
            decides_once(r),
            forall|x: VarLabel| #[trigger] mentions(r, x) ==> mentions(bdd, x),
//%% @entry
        proof {
            axiom_bddptr_eq(); tr_all(); lemma_neg_mentions();
            if is_node(bdd) && node_of(bdd).var == lbl {
                assert forall|env: Env| #[trigger] tr(env) implies
                    ptr_sem(node_of(bdd).high, upd(env, lbl.0, value)) == ptr_sem(node_of(bdd).high, env)
                    && ptr_sem(node_of(bdd).low, upd(env, lbl.0, value)) == ptr_sem(node_of(bdd).low, env) by {
                    lemma_unmentioned(node_of(bdd).high, lbl, env, value);
                    lemma_unmentioned(node_of(bdd).low, lbl, env, value);
                }
            }
        }
//%% end
}

impl<'a, T> TopDownBuilder<'a> for T
where
    T: DecisionNNFBuilder<'a>,
{
//%% extract src/builder/decision_nnf/builder.rs :: impl<'a, T> TopDownBuilder<'a, BddPtr<'a>> for T where T: DecisionNNFBuilder<'a>, :: fn var
//%% end

// R-scratch: `bdd.clear_scratch();` resets the per-node memo fields deleted by R-scratch
//%% extract src/builder/decision_nnf/builder.rs :: impl<'a, T> TopDownBuilder<'a, BddPtr<'a>> for T where T: DecisionNNFBuilder<'a>, :: fn condition
//%% @rewrite 1 /\n        bdd\.clear_scratch\(\);/ => 
//%% end
}

impl<'a> DecisionNNFBuilder<'a> for StandardDecisionNNFBuilder<'a> {
    open spec fn order_s(&self) -> VarOrder { self.order_view() }
//%% extract src/builder/decision_nnf/standard.rs :: impl<'a> DecisionNNFBuilder<'a> for StandardDecisionNNFBuilder<'a> :: fn order
//%% @rewrite 1 /&self\.order/ => self.order_ref()
//%% end

//%% extract src/builder/decision_nnf/standard.rs :: impl<'a> DecisionNNFBuilder<'a> for StandardDecisionNNFBuilder<'a> :: fn get_or_insert
//%% @rewrite 1 /\/\/ TODO make this safe\n        unsafe \{\n            let tbl = &mut \*self\.compute_table\.as_ptr\(\);\n/ => {\n
//%% @rewrite 2 /tbl\.get_or_insert\(/ => self.table_get_or_insert(
//%% @entry
        proof { lemma_neg_mentions(); reveal(dnode_post); }
//%% end
}
