// ---- src/builder/decision_nnf/{builder,standard}.rs: conditioning of decision-DNNF diagrams ----
//%% include trusted/dnnf_cells.rs

/// variable x is tested somewhere in p
pub open spec fn mentions(p: BddPtr, x: VarLabel) -> bool
    decreases p
{
    match p {
        BddPtr::Reg(n) | BddPtr::Compl(n) => n.var == x || mentions(n.low, x) || mentions(n.high, x),
        _ => false,
    }
}
/// no path of p decides a variable twice
pub open spec fn decides_once(p: BddPtr) -> bool
    decreases p
{
    match p {
        BddPtr::Reg(n) | BddPtr::Compl(n) =>
            !mentions(n.low, n.var) && !mentions(n.high, n.var) && decides_once(n.low) && decides_once(n.high),
        _ => true,
    }
}
pub proof fn lemma_unmentioned(p: BddPtr, x: VarLabel, env: Env, v: bool)
    requires !mentions(p, x),
    ensures ptr_sem(p, upd(env, x.0, v)) == ptr_sem(p, env),
    decreases p,
{
    match p {
        BddPtr::Reg(n) | BddPtr::Compl(n) => { lemma_unmentioned(n.low, x, env, v); lemma_unmentioned(n.high, x, env, v); },
        _ => {},
    }
}
pub proof fn lemma_neg_mentions()
    ensures forall|p: BddPtr| #![trigger p.neg_s()]
        decides_once(p.neg_s()) == decides_once(p) && (forall|x: VarLabel| #![trigger mentions(p.neg_s(), x)] #![trigger mentions(p, x)] mentions(p.neg_s(), x) == mentions(p, x)),
{
}

/// the first k literals of the sequence hold in env
pub open spec fn lits_hold(env: Env, lits: Seq<Literal>, k: int) -> bool
    decreases k
{
    if k <= 0 { true } else { lits_hold(env, lits, k - 1) && env(lits[k - 1].lbl.0) == lits[k - 1].pol }
}
/// x is the variable of one of the first k literals
pub open spec fn lits_mention(lits: Seq<Literal>, k: int, x: VarLabel) -> bool
    decreases k
{
    if k <= 0 { false } else { lits_mention(lits, k - 1, x) || lits[k - 1].lbl == x }
}
pub proof fn lemma_lits_mention(lits: Seq<Literal>, k: int, x: VarLabel)
    requires lits_mention(lits, k, x), 0 <= k <= lits.len(),
    ensures exists|i: int| 0 <= i < k && (#[trigger] lits[i]).lbl == x,
    decreases k,
{
    if k > 0 && lits[k - 1].lbl != x { lemma_lits_mention(lits, k - 1, x); }
}

pub trait TopDownBuilder<'a> {
    fn var(&'a self, label: VarLabel, polarity: bool) -> (r: BddPtr<'a>)
        ensures forall|env: Env| #[trigger] tr(env) ==> ptr_sem(r, env) == (env(label.0) == polarity);

    /// f | v = value, for a diagram or the negation of a diagram in which no path decides a variable twice
    fn condition(&'a self, a: BddPtr<'a>, v: VarLabel, value: bool) -> (r: BddPtr<'a>)
        requires decides_once(a),
        ensures forall|env: Env| #[trigger] tr(env) ==> ptr_sem(r, env) == ptr_sem(a, upd(env, v.0, value));
}

pub trait DecisionNNFBuilder<'a>: TopDownBuilder<'a> {
    /// Normalizes and fetches a node from the store
    fn get_or_insert(&'a self, bdd: BddNode<'a>) -> (r: BddPtr<'a>)
        ensures
            forall|env: Env| #[trigger] tr(env) ==> ptr_sem(r, env) == node_sem(bdd, env),
            is_node(r), node_of(r).var == bdd.var,
            node_of(r).low == (if r is Compl { bdd.low.neg_s() } else { bdd.low }),
            node_of(r).high == (if r is Compl { bdd.high.neg_s() } else { bdd.high }),
            // the stored node tests exactly the variables of the argument node
            forall|x: VarLabel| #[trigger] mentions(r, x) == (x == bdd.var || mentions(bdd.low, x) || mentions(bdd.high, x)),
            decides_once(r) == (!mentions(bdd.low, bdd.var) && !mentions(bdd.high, bdd.var) && decides_once(bdd.low) && decides_once(bdd.high));

// R-iter: `literals: impl Iterator<Item = Literal>` cannot be iterated in Verus; the parameter becomes the trusted
// container `LitIter` (trusted/lit_iter.rs) and the loop header iterates the vector it stands for (A-lit-iter)
//%% extract src/builder/decision_nnf/builder.rs :: trait DecisionNNFBuilder<'a>: TopDownBuilder<'a, BddPtr<'a>> :: fn conjoin_implied
//%% @ret r
//%% @rewrite 1 /literals: impl Iterator<Item = Literal>,/ => literals: LitIter,
//%% @rewrite 1 /for l in literals \{/ => let lits__v = verif_lits_vec(literals);\n        for l__r in it: lits__v.iter() {\n            let l = *l__r;
//%% @spec
        requires
            decides_once(nnf),
            // the implied literals are on distinct variables that the diagram does not decide
            forall|i: int| 0 <= i < literals.lits().len() ==> !mentions(nnf, (#[trigger] literals.lits()[i]).lbl),
            forall|i: int, j: int| 0 <= i < j < literals.lits().len() ==> (#[trigger] literals.lits()[i]).lbl != (#[trigger] literals.lits()[j]).lbl,
        ensures
            // the diagram conjoined with every implied literal
            forall|env: Env| #[trigger] tr(env) ==> ptr_sem(r, env) == (ptr_sem(nnf, env) && lits_hold(env, literals.lits(), literals.lits().len() as int)),
            decides_once(r),
            forall|x: VarLabel| #[trigger] mentions(r, x) ==> mentions(nnf, x) || lits_mention(literals.lits(), literals.lits().len() as int, x),
//%% @entry
        let ghost lits0 = literals.lits();
        proof { tr_all(); axiom_bddptr_eq(); }
//%% @loop 1 /^for l__r in it: lits__v\.iter\(\)$/
            invariant
                lits__v@ == lits0, decides_once(nnf), decides_once(sub), !(nnf is PtrFalse),
                forall|i: int| 0 <= i < lits0.len() ==> !mentions(nnf, (#[trigger] lits0[i]).lbl),
                forall|i: int, j: int| 0 <= i < j < lits0.len() ==> (#[trigger] lits0[i]).lbl != (#[trigger] lits0[j]).lbl,
                forall|env: Env| #[trigger] tr(env) ==> ptr_sem(sub, env) == (ptr_sem(nnf, env) && lits_hold(env, lits0, it.index@ as int)),
                forall|x: VarLabel| #[trigger] mentions(sub, x) ==> mentions(nnf, x) || lits_mention(lits0, it.index@ as int, x),
//%% @loopbody 1
            proof {
                tr_all();
                // the next literal's variable is not decided below: not in nnf, and different from the earlier literals
                let k = it.index@ as int;
                assert(!mentions(sub, lits0[k].lbl)) by {
                    if mentions(sub, lits0[k].lbl) { lemma_lits_mention(lits0, k, lits0[k].lbl); }
                }
            }
//%% end

// R-orguard: Verus rejects a match arm with both an or-pattern and a guard; the two arms
//     `P if g => A,  P => B`   are rewritten to   `P => { if g A else B }`   (same pattern P, adjacent arms)
//%% extract src/builder/decision_nnf/builder.rs :: trait DecisionNNFBuilder<'a>: TopDownBuilder<'a, BddPtr<'a>> :: fn cond_helper
//%% @attr #[verifier::exec_allows_no_decreases_clause]
//%% @ret r
//%% @rewrite 1 /bdd\.scratch::<BddPtr>\(\)/ => verif_scratch_bddptr(&bdd)
//%% @rewrite 1 /BddPtr::Reg\(node\) \| BddPtr::Compl\(node\) if node\.var == lbl => \{/ => BddPtr::Reg(node) | BddPtr::Compl(node) => { if node.var == lbl {
//%% @rewrite 1 /\n            \}\n            BddPtr::Reg\(node\) \| BddPtr::Compl\(node\) => \{/ => \n            } else {
//%% @rewrite 1 /\n                res\n            \}\n        \}\n    \}$/ => \n                res\n            } }\n        }\n    }
//%% @spec
        requires
            decides_once(bdd),
        ensures
            forall|env: Env| #[trigger] tr(env) ==> ptr_sem(r, env) == ptr_sem(bdd, upd(env, lbl.0, value)),
            decides_once(r),
            forall|x: VarLabel| #[trigger] mentions(r, x) ==> mentions(bdd, x),
//%% @entry
        proof {
            axiom_bddptr_eq(); tr_all(); lemma_neg_mentions();
            if is_node(bdd) && node_of(bdd).var == lbl {
                assert forall|env: Env| #[trigger] tr(env) implies
                    ptr_sem(node_of(bdd).high, upd(env, lbl.0, value)) == ptr_sem(node_of(bdd).high, env)
                    && ptr_sem(node_of(bdd).low, upd(env, lbl.0, value)) == ptr_sem(node_of(bdd).low, env) by {
                    lemma_unmentioned(node_of(bdd).high, lbl, env, value);
                    lemma_unmentioned(node_of(bdd).low, lbl, env, value);
                }
            }
        }
//%% end
}

impl<'a, T> TopDownBuilder<'a> for T
where
    T: DecisionNNFBuilder<'a>,
{
//%% extract src/builder/decision_nnf/builder.rs :: impl<'a, T> TopDownBuilder<'a, BddPtr<'a>> for T where T: DecisionNNFBuilder<'a>, :: fn var
//%% end

// R-scratch: `bdd.clear_scratch();` resets the per-node memo fields deleted by R-scratch
//%% extract src/builder/decision_nnf/builder.rs :: impl<'a, T> TopDownBuilder<'a, BddPtr<'a>> for T where T: DecisionNNFBuilder<'a>, :: fn condition
//%% @rewrite 1 /\n        bdd\.clear_scratch\(\);/ => 
//%% end
}

impl<'a> DecisionNNFBuilder<'a> for StandardDecisionNNFBuilder<'a> {
//%% extract src/builder/decision_nnf/standard.rs :: impl<'a> DecisionNNFBuilder<'a> for StandardDecisionNNFBuilder<'a> :: fn get_or_insert
//%% @rewrite 1 /\/\/ TODO make this safe\n        unsafe \{\n            let tbl = &mut \*self\.compute_table\.as_ptr\(\);\n/ => {\n
//%% @rewrite 2 /tbl\.get_or_insert\(/ => self.table_get_or_insert(
//%% @entry
        proof { lemma_neg_mentions(); }
//%% end
}
