// ---- src/builder/bdd/robdd.rs: RobddBuilder ----
//%% include trusted/robdd_cells.rs
//%% include trusted/hashmap.rs

// R-inline: inside `ite_helper` the two calls `self.ite(..)` are replaced by `self.ite_helper(..)`, which is the
// whole body of the blanket `ite` (checked here; `ite` itself is verified in unit `builder`).  Verus rejects the
// call through the blanket impl as a cyclic trait dependency.
//%% extract src/builder/bdd/builder.rs :: impl<'a, T> BottomUpBuilder<'a, BddPtr<'a>> for T where T: BddBuilder<'a>, :: fn ite
//%% @expect /^fn ite\(&'a self, f: BddPtr<'a>, g: BddPtr<'a>, h: BddPtr<'a>\) -> BddPtr<'a> \{ self\.ite_helper\(f, g, h\) \}$/
//%% @discard
//%% end

/// what `ite_helper` knows about a freshly computed result r of ite(f,g,h) with standard triple `ite`
pub open spec fn insert_hyp(f: BddPtr, g: BddPtr, h: BddPtr, ite: Ite<BddPtr>, r: BddPtr, o: VarOrder) -> bool {
    &&& !(ite is IteConst)
    &&& ite_parts_from(ite, f, g, h)
    &&& ite_covers(f, ite) && ite_covers(g, ite) && ite_covers(h, ite)
    &&& forall|env: Env| #[trigger] tr(env) ==> ite_sem(ite, env) == ite3(ptr_sem(f, env), ptr_sem(g, env), ptr_sem(h, env))
    &&& forall|env: Env| #[trigger] tr(env) ==> ptr_sem(r, env) == ite3(ptr_sem(f, env), ptr_sem(g, env), ptr_sem(h, env))
    &&& res_shape(f, g, h, r, o)
}

/// L3 ... is enough to store (standard triple -> r, complement flag applied) in the apply cache
pub proof fn lemma_apply_entry(f: BddPtr, g: BddPtr, h: BddPtr, ite: Ite<BddPtr>, r: BddPtr, o: VarOrder)
    requires insert_hyp(f, g, h, ite, r, o),
    ensures apply_entry_ok(ite_key(ite), ite_stored(ite, r), o),
{
    reveal(apply_entry_ok); reveal(ite_parts_from); reveal(ite_covers);
    lemma_neg_shape(o);
    BddPtr::eq_is_sem();
    let k = ite_key(ite);
    let s = ite_stored(ite, r);
    assert(top(s, o) == top(r, o));
    // every argument is a constant or survives (possibly negated) in the triple, so the triple's minimum
    // top position is not above the arguments' minimum
    assert(top(f, o) >= min3(top(k.0, o), top(k.1, o), top(k.2, o)));
    assert(top(g, o) >= min3(top(k.0, o), top(k.1, o), top(k.2, o)));
    assert(top(h, o) >= min3(top(k.0, o), top(k.1, o), top(k.2, o)));
    assert forall|env: Env| #[trigger] tr(env) implies ptr_sem(s, env) == ite3(ptr_sem(k.0, env), ptr_sem(k.1, env), ptr_sem(k.2, env)) by {
        assert(s.sem(env) == ptr_sem(s, env));
        if ite is IteComplChoice { assert(r.neg_s().sem(env) == !r.sem(env)); }
    }
}

/// L3 (C02 part)
pub proof fn lemma_apply_entry_canon(f: BddPtr, g: BddPtr, h: BddPtr, ite: Ite<BddPtr>, r: BddPtr)
    requires
        !(ite is IteConst), ite_covers(f, ite) && ite_covers(g, ite) && ite_covers(h, ite), res_canon(f, g, h, r),
    ensures apply_entry_canon(ite_key(ite), ite_stored(ite, r)),
{
    reveal(apply_entry_canon); reveal(ite_covers);
    lemma_neg_canon();
}

/// L2: a cache hit for the standard triple of (f,g,h) is a correct, well-shaped result for (f,g,h)
pub proof fn lemma_apply_hit(f: BddPtr, g: BddPtr, h: BddPtr, ite: Ite<BddPtr>, v: BddPtr, o: VarOrder)
    requires
        !(ite is IteConst), ite_parts_from(ite, f, g, h),
        ordered(f, o), ordered(g, o), ordered(h, o),
        forall|env: Env| #[trigger] tr(env) ==> ite_sem(ite, env) == ite3(ptr_sem(f, env), ptr_sem(g, env), ptr_sem(h, env)),
        apply_entry_ok(ite_key(ite), ite_stored(ite, v), o), apply_entry_canon(ite_key(ite), ite_stored(ite, v)),
    ensures
        res_shape(f, g, h, v, o), res_canon(f, g, h, v),
        forall|env: Env| #[trigger] tr(env) ==> ptr_sem(v, env) == ite3(ptr_sem(f, env), ptr_sem(g, env), ptr_sem(h, env)),
{
    reveal(apply_entry_ok); reveal(apply_entry_canon); reveal(ite_parts_from);
    lemma_neg_shape(o);
    BddPtr::eq_is_sem();
    let k = ite_key(ite);
    let s = ite_stored(ite, v);
    assert(top(s, o) == top(v, o));
    assert(top(k.0, o) >= min3(top(f, o), top(g, o), top(h, o)));
    assert(top(k.1, o) >= min3(top(f, o), top(g, o), top(h, o)));
    assert(top(k.2, o) >= min3(top(f, o), top(g, o), top(h, o)));
    assert(canon(f) && canon(g) && canon(h) ==> canon(k.0) && canon(k.1) && canon(k.2));
    assert forall|env: Env| #[trigger] tr(env) implies ptr_sem(v, env) == ite3(ptr_sem(f, env), ptr_sem(g, env), ptr_sem(h, env)) by {
        assert(s.sem(env) == ptr_sem(s, env));
        if ite is IteComplChoice { assert(v.neg_s().sem(env) == !v.sem(env)); }
    }
}

/// L1: a constant standard triple names an argument, a negated argument or a terminal
pub proof fn lemma_apply_const(f: BddPtr, g: BddPtr, h: BddPtr, c: BddPtr, o: VarOrder)
    requires ite_parts_from(Ite::IteConst(c), f, g, h), ordered(f, o), ordered(g, o), ordered(h, o),
    ensures res_shape(f, g, h, c, o), res_canon(f, g, h, c),
{
    reveal(ite_parts_from);
    lemma_neg_shape(o);
}

impl<'a, T: IteTable<BddPtr<'a>>> BddBuilder<'a> for RobddBuilder<'a, T> {
    open spec fn order_s(&self) -> VarOrder { self.order_view() }
    open spec fn binv(&self) -> bool { self.order_view().wf() }

//%% extract src/builder/bdd/robdd.rs :: impl<'a, T: IteTable<'a, BddPtr<'a>> + Default> BddBuilder<'a> for RobddBuilder<'a, T> :: fn less_than
//%% @rewrite 1 /self\.order\.borrow\(\)/ => self.order_ref()
//%% end

//%% extract src/builder/bdd/robdd.rs :: impl<'a, T: IteTable<'a, BddPtr<'a>> + Default> BddBuilder<'a> for RobddBuilder<'a, T> :: fn get_or_insert
//%% @rewrite 1 /unsafe \{\n            \/\/ TODO: Make this safe if possible\n            let tbl = &mut \*self\.compute_table\.as_ptr\(\);\n/ => {\n
//%% @rewrite ?2 /tbl\.get_or_insert\(/ => self.table_get_or_insert(
//%% @rewrite ?2 /tbl\.get_or_insert_by_hash\(/ => self.table_get_or_insert_by_hash(
//%% @rewrite ?2 /self\.order\.borrow\(\)/ => self.order_ref()
//%% @entry
        proof { axiom_bddptr_eq_equiv(); lemma_neg_shape(self.order_view()); lemma_smooth_neg(self.order_view()); }
//%% end

//%% extract src/builder/bdd/robdd.rs :: impl<'a, T: IteTable<'a, BddPtr<'a>> + Default> BddBuilder<'a> for RobddBuilder<'a, T> :: fn ite_helper
//%% @spec
        decreases height(f) + height(g) + height(h), // #TERM
//%% @rewrite 1 /\n        self\.stats\.borrow_mut\(\)\.num_recursive_calls \+= 1;/ => 
//%% @rewrite ?2 /self\.order\.borrow\(\)/ => self.order_ref()
//%% @rewrite 2 /self\.apply_table\.borrow\(\)/ => self.apply_view()
//%% @rewrite 1 /self\.apply_table\.borrow_mut\(\)\.insert\(/ => self.apply_insert(
//%% @rewrite 2 /self\.ite\(/ => self.ite_helper(
//%% @rewrite 1 /let o = \|a: BddPtr, b: BddPtr\| (match \(a, b\) \{.*?\n        \});/ => let o = |a: BddPtr, b: BddPtr| -> (res: bool)\n            requires (is_node(a) ==> self.order_view().has(node_of(a).var)) && (is_node(b) ==> self.order_view().has(node_of(b).var))\n        { \1 };
//%% @entry
        proof {
            axiom_bddptr_eq(); axiom_bddptr_eq_equiv();
            let o = self.order_view();
            // L1: constant triple
            assert forall|c: BddPtr| ite_parts_from(Ite::IteConst(c), f, g, h) implies #[trigger] res_shape(f, g, h, c, o) && res_canon(f, g, h, c) by {
                lemma_apply_const(f, g, h, c, o);
            }
            // L2: cache hit
            assert forall|ite: Ite<BddPtr>, v: BddPtr| !(ite is IteConst) && ite_parts_from(ite, f, g, h)
                && (forall|env: Env| #[trigger] tr(env) ==> ite_sem(ite, env) == ite3(ptr_sem(f, env), ptr_sem(g, env), ptr_sem(h, env)))
                && #[trigger] apply_entry_ok(ite_key(ite), ite_stored(ite, v), o) && apply_entry_canon(ite_key(ite), ite_stored(ite, v))
                implies res_shape(f, g, h, v, o) && res_canon(f, g, h, v)
                    && (forall|env: Env| #[trigger] tr(env) ==> ptr_sem(v, env) == ite3(ptr_sem(f, env), ptr_sem(g, env), ptr_sem(h, env))) by {
                lemma_apply_hit(f, g, h, ite, v, o);
            }
            // L3: cache insert
            assert forall|ite: Ite<BddPtr>, r: BddPtr| !(ite is IteConst) && ite_covers(f, ite) && ite_covers(g, ite) && ite_covers(h, ite) && res_canon(f, g, h, r)
                implies #[trigger] apply_entry_canon(ite_key(ite), ite_stored(ite, r)) by {
                lemma_apply_entry_canon(f, g, h, ite, r);
            }
            assert forall|ite: Ite<BddPtr>, r: BddPtr| insert_hyp(f, g, h, ite, r, o)
                implies #[trigger] apply_entry_ok(ite_key(ite), ite_stored(ite, r), o) by {
                lemma_apply_entry(f, g, h, ite, r, o);
            }
        }
//%% end

//%% extract src/builder/bdd/robdd.rs :: impl<'a, T: IteTable<'a, BddPtr<'a>> + Default> BddBuilder<'a> for RobddBuilder<'a, T> :: fn cond_helper
//%% end
}

/// environment after fixing the first k literals of a sequence, the last one innermost (sequential conditioning)
pub open spec fn upd_lits(env: Env, lits: Seq<Literal>, k: int) -> Env
    decreases k
{
    if k <= 0 { env } else { upd_lits(upd(env, lits[k - 1].lbl.0, lits[k - 1].pol), lits, k - 1) }
}

/// validity of the per-call conditioning memo: an entry keyed by a pointer (with its polarity) stores the
/// conditioned version of the *regular* diagram behind that pointer
pub open spec fn cond_entry_ok(k: BddPtr, v: BddPtr, o: VarOrder, lbl: VarLabel, value: bool) -> bool {
    &&& is_node(k)
    &&& ordered(v, o)
    &&& forall|env: Env| #[trigger] tr(env) ==> ptr_sem(v, env) == node_sem(node_of(k), upd(env, lbl.0, value))
    &&& top(v, o) >= top(k, o)
    &&& (canon(k) ==> canon(v))
}
pub open spec fn cond_cache_ok(c: HashMap<BddPtr, BddPtr>, o: VarOrder, lbl: VarLabel, value: bool) -> bool {
    forall|k: BddPtr, v: BddPtr| #[trigger] c.entries().contains((k, v)) ==> cond_entry_ok(k, v, o, lbl, value)
}

impl<'a, T: IteTable<BddPtr<'a>>> RobddBuilder<'a, T> {
//%% extract src/builder/bdd/robdd.rs :: impl<'a, T: IteTable<'a, BddPtr<'a>> + Default> RobddBuilder<'a, T> :: fn condition_essential
//%% @ret r
//%% @spec
        requires
            self.binv(), ordered(f, self.order_view()), self.order_view().has(lbl),
            // lbl is not after f's top variable
            is_node(f) ==> self.order_view().pos(lbl) <= self.order_view().pos(node_of(f).var),
        ensures
            forall|env: Env| #[trigger] tr(env) ==> (env(lbl.0) == v ==> ptr_sem(r, env) == ptr_sem(f, env)), // #SEM
            ordered(r, self.order_view()),
            below(r, self.order_view(), self.order_view().pos(lbl)),
            canon(f) ==> canon(r), // #C02
            // the cofactor is f itself or one of its children
            height(r) <= height(f), (is_node(f) && node_of(f).var == lbl) ==> height(r) < height(f), // #TERM
//%% @entry
        proof {
            lemma_neg_shape(self.order_view());
            assert forall|p: BddPtr| height(#[trigger] p.neg_s()) == height(p) by { lemma_height_neg(p); }
            if is_node(f) && self.order_view().pos(lbl) == self.order_view().pos(node_of(f).var) {
                lemma_pos_inj(self.order_view(), lbl, node_of(f).var);
            }
        }
//%% end

//%% extract src/builder/bdd/robdd.rs :: impl<'a, T: IteTable<'a, BddPtr<'a>> + Default> RobddBuilder<'a, T> :: fn cond_with_alloc
//%% @ret r
//%% @rewrite 1 /\n        self\.stats\.borrow_mut\(\)\.num_recursive_calls \+= 1;/ => 
//%% @rewrite ?1 /self\.order\.borrow\(\)/ => self.order_ref()
//%% @spec
        requires
            self.binv(), ordered(bdd, self.order_view()), self.order_view().has(lbl),
            cond_cache_ok(*old(cache), self.order_view(), lbl, value),
        ensures
            cond_cache_ok(*final(cache), self.order_view(), lbl, value),
            forall|env: Env| #[trigger] tr(env) ==> ptr_sem(r, env) == ptr_sem(bdd, upd(env, lbl.0, value)), // #SEM
            ordered(r, self.order_view()),
            top(r, self.order_view()) >= top(bdd, self.order_view()),
            canon(bdd) ==> canon(r), // #C02
        decreases bdd, // #TERM
//%% @entry
        proof {
            axiom_bddptr_eq(); axiom_bddptr_eq_equiv(); tr_all(); lemma_neg_shape(self.order_view());
            if is_node(bdd) {
                if node_of(bdd).var == lbl {
                    assert forall|env: Env| #[trigger] tr(env) implies
                        ptr_sem(node_of(bdd).high, upd(env, lbl.0, value)) == ptr_sem(node_of(bdd).high, env)
                        && ptr_sem(node_of(bdd).low, upd(env, lbl.0, value)) == ptr_sem(node_of(bdd).low, env) by {
                        lemma_indep(node_of(bdd).high, self.order_view(), lbl, env, value);
                        lemma_indep(node_of(bdd).low, self.order_view(), lbl, env, value);
                    }
                }
                if self.order_view().pos(lbl) < self.order_view().pos(node_of(bdd).var) {
                    assert forall|env: Env| #[trigger] tr(env) implies ptr_sem(bdd, upd(env, lbl.0, value)) == ptr_sem(bdd, env) by {
                        lemma_indep(bdd, self.order_view(), lbl, env, value);
                    }
                }
            }
        }
//%% end

//%% extract src/builder/bdd/robdd.rs :: impl<'a, T: IteTable<'a, BddPtr<'a>> + Default> RobddBuilder<'a, T> :: fn cond_model_h
//%% @props C01 C02 C05
//%% @ret r
//%% @rewrite 1 /for m in m\.assignment_iter\(\) \{/ => let lits__v = verif_assignment_vec(m);\n        for m__r in it: lits__v.iter() {\n            let m = *m__r;
//%% @spec
        requires
            self.binv(), ordered(bdd, self.order_view()),
            forall|i: int| 0 <= i < m.lits().len() ==> self.order_view().has((#[trigger] m.lits()[i]).lbl),
        ensures
            // conditioning on the literals of the model one after the other
            forall|env: Env| #[trigger] tr(env) ==> ptr_sem(r, env) == ptr_sem(bdd, upd_lits(env, m.lits(), m.lits().len() as int)), // #SEM
            ordered(r, self.order_view()),
            canon(bdd) ==> canon(r), // #C02
//%% @entry
        let ghost bdd0 = bdd;
        let ghost lits0 = m.lits();
        proof { tr_all(); }
//%% @loop 1 /^for m__r in it: lits__v\.iter\(\)$/
            invariant
                self.binv(), ordered(bdd, self.order_view()), lits__v@ == lits0,
                forall|i: int| 0 <= i < lits0.len() ==> self.order_view().has((#[trigger] lits0[i]).lbl),
                forall|env: Env| #![trigger tr(env)] #![trigger ptr_sem(bdd, env)] tr(env) ==> ptr_sem(bdd, env) == ptr_sem(bdd0, upd_lits(env, lits0, it.index@ as int)), // #SEM
                canon(bdd0) ==> canon(bdd), // #C02
//%% @loopbody 1
            proof { tr_all(); }
//%% end

// R-scratch: `debug_assert!(bdd.is_scratch_cleared())` and `bdd.clear_scratch()` concern the per-node memo fields deleted by R-scratch
//%% extract src/builder/bdd/robdd.rs :: impl<'a, T: IteTable<'a, BddPtr<'a>> + Default> RobddBuilder<'a, T> :: fn condition_model
//%% @props C01 C02 C05
//%% @ret r
//%% @rewrite 1 /\n        debug_assert!\(bdd\.is_scratch_cleared\(\)\);/ => 
//%% @rewrite 1 /\n        bdd\.clear_scratch\(\);/ => 
//%% @spec
        requires
            self.binv(), ordered(bdd, self.order_view()),
            forall|i: int| 0 <= i < m.lits().len() ==> self.order_view().has((#[trigger] m.lits()[i]).lbl),
        ensures
            forall|env: Env| #[trigger] tr(env) ==> ptr_sem(r, env) == ptr_sem(bdd, upd_lits(env, m.lits(), m.lits().len() as int)), // #SEM
            ordered(r, self.order_view()),
            canon(bdd) ==> canon(r), // #C02
//%% end

//%% extract src/builder/bdd/robdd.rs :: impl<'a, T: IteTable<'a, BddPtr<'a>> + Default> RobddBuilder<'a, T> :: fn smooth_helper
//%% @props C08
//%% @ret r
//%% @rewrite ?4 /self\.order\.borrow\(\)/ => self.order_ref()
//%% @rewrite 1 /\n        debug_assert!\(current <= total\);/ => 
//%% @spec
        requires
            self.binv(), ordered(bdd, self.order_view()),
            current <= total, total <= self.order_view().n(),
            // no variable of bdd is above the level smoothing starts at
            top(bdd, self.order_view()) >= current,
        ensures
            forall|env: Env| #[trigger] tr(env) ==> ptr_sem(r, env) == ptr_sem(bdd, env), // #SEM
            smooth_from(r, current as int, total as int, self.order_view()),
            ordered(r, self.order_view()),
            top(r, self.order_view()) >= current,
        decreases total - current, (if bdd is Compl { 1int } else { 0int }), // #TERM
//%% @entry
        proof {
            reveal(VarOrder::wf);
            lemma_neg_shape(self.order_view());
            lemma_smooth_neg(self.order_view());
        }
//%% end

//%% extract src/builder/bdd/robdd.rs :: impl<'a, T: IteTable<'a, BddPtr<'a>> + Default> RobddBuilder<'a, T> :: fn smooth
//%% @props C08
//%% @ret r
//%% @spec
        requires
            self.binv(), ordered(bdd, self.order_view()), num_vars <= self.order_view().n(),
        ensures
            forall|env: Env| #[trigger] tr(env) ==> ptr_sem(r, env) == ptr_sem(bdd, env), // #SEM
            // every root-to-terminal path tests the variables at levels 0..num_vars exactly once, in order
            smooth_from(r, 0, num_vars as int, self.order_view()),
//%% end
}

