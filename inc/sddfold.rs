// ---- src/repr/sdd.rs, src/repr/sdd/{sdd_or,binary_sdd}.rs: the memoised fold over an SDD ----
#[derive(Clone, Copy)]
//%% extract src/repr/sdd.rs :: - :: enum SddPtr
//%% @pub
//%% end
#[derive(Clone, Copy)]
//%% extract src/repr/sdd/sdd_or.rs :: - :: struct SddAnd
//%% end
// R-scratch: the RefCell scratch / semantic_hash fields are deleted
//%% extract src/repr/sdd/sdd_or.rs :: - :: struct SddOr
//%% @pub
//%% @rewrite 1 /\n\n    \/\/ scratch\n    scratch: RefCell<Option<Box<dyn Any>>>,\n    semantic_hash: RefCell<Option<u128>>,/ => 
//%% end
//%% extract src/repr/sdd/binary_sdd.rs :: - :: struct BinarySDD
//%% @pub
//%% @rewrite 1 /\n\n    \/\/\/ scratch data types\n    scratch: RefCell<Option<Box<dyn Any>>>,\n    semantic_hash: RefCell<Option<u128>>,/ => 
//%% end
#[derive(Clone, Copy)]
//%% extract src/repr/vtree.rs :: - :: struct VTreeIndex
//%% @pub
//%% end
impl VTreeIndex {
//%% extract src/repr/vtree.rs :: impl VTreeIndex :: fn value
//%% @ret r
//%% @spec
        ensures r == self.0,
//%% end
}
use SddPtr::*;

pub open spec fn sdd_is_node(p: SddPtr) -> bool { p is BDD || p is ComplBDD || p is Reg || p is Compl }
pub open spec fn sdd_is_neg(p: SddPtr) -> bool { p is Compl || p is ComplBDD }
pub open spec fn sdd_neg<'a>(p: SddPtr<'a>) -> SddPtr<'a> {
    match p {
        SddPtr::PtrTrue => SddPtr::PtrFalse,
        SddPtr::PtrFalse => SddPtr::PtrTrue,
        SddPtr::Var(x, b) => SddPtr::Var(x, !b),
        SddPtr::Compl(x) => SddPtr::Reg(x),
        SddPtr::Reg(x) => SddPtr::Compl(x),
        SddPtr::BDD(x) => SddPtr::ComplBDD(x),
        SddPtr::ComplBDD(x) => SddPtr::BDD(x),
    }
}
/// the (prime, sub) elements of a decision node, as SddNodeIter yields them
pub open spec fn sdd_elems<'a>(p: SddPtr<'a>) -> Seq<SddAnd<'a>> {
    match p {
        SddPtr::Reg(o) | SddPtr::Compl(o) => o.nodes@,
        SddPtr::BDD(b) | SddPtr::ComplBDD(b) => seq![SddAnd { prime: SddPtr::Var(b.label, true), sub: b.high }, SddAnd { prime: SddPtr::Var(b.label, false), sub: b.low }],
        _ => Seq::empty(),
    }
}
/// THE definition of a fold over an SDD: `c` is the complement still to be applied (a complemented pointer flips it for the SUBS of
/// its elements, never for the primes); a decision node folds its elements left to right into Or(acc, And(prime, sub), {}) starting
/// from False; a literal is Lit(v, polarity != c); the constants are exchanged when c is set.  No memo, no sharing.
pub open spec fn sfs<T>(p: SddPtr, c: bool, g: Alg<T>) -> T
    decreases p, 0int, 0int
{
    match p {
        SddPtr::PtrTrue => if c { g(DV::False) } else { g(DV::True) },
        SddPtr::PtrFalse => if c { g(DV::True) } else { g(DV::False) },
        SddPtr::Var(v, pol) => g(DV::Lit(v, pol != c)),
        SddPtr::BDD(b) => g(DV::Or(g(DV::Or(g(DV::False), g(DV::And(g(DV::Lit(b.label, true)), sfs(b.high, c, g))), ISet::<u64>::empty())),
                             g(DV::And(g(DV::Lit(b.label, false)), sfs(b.low, c, g))), ISet::<u64>::empty())),
        SddPtr::ComplBDD(b) => g(DV::Or(g(DV::Or(g(DV::False), g(DV::And(g(DV::Lit(b.label, true)), sfs(b.high, !c, g))), ISet::<u64>::empty())),
                             g(DV::And(g(DV::Lit(b.label, false)), sfs(b.low, !c, g))), ISet::<u64>::empty())),
        SddPtr::Reg(o) => sfs_elems(o.nodes@, o.nodes@.len() as int, c, g),
        SddPtr::Compl(o) => sfs_elems(o.nodes@, o.nodes@.len() as int, !c, g),
    }
}
/// the fold of the first k elements: c is the complement applied to the subs
pub open spec fn sfs_elems<T>(s: Seq<SddAnd>, k: int, c: bool, g: Alg<T>) -> T
    decreases s, k, 1int
{
    if k <= 0 || k > s.len() { g(DV::False) } else {
        g(DV::Or(sfs_elems(s, k - 1, c, g), g(DV::And(sfs(s[k - 1].prime, false, g), sfs(s[k - 1].sub, c, g))), ISet::<u64>::empty()))
    }
}

pub proof fn lemma_sfs_neg<T>(p: SddPtr, c: bool, g: Alg<T>)
    ensures sfs(sdd_neg(p), c, g) == sfs(p, !c, g)
{}
/// literals the closure is asked about
pub open spec fn sdd_mentions(p: SddPtr, v: VarLabel) -> bool
    decreases p, 0int
{
    match p {
        SddPtr::Var(x, _) => x == v,
        SddPtr::BDD(b) | SddPtr::ComplBDD(b) => b.label == v || sdd_mentions(b.low, v) || sdd_mentions(b.high, v),
        SddPtr::Reg(o) | SddPtr::Compl(o) => sdd_mentions_elems(o.nodes@, o.nodes@.len() as int, v),
        _ => false,
    }
}
pub open spec fn sdd_mentions_elems(s: Seq<SddAnd>, k: int, v: VarLabel) -> bool
    decreases s, k
{
    if k <= 0 || k > s.len() { false } else { sdd_mentions_elems(s, k - 1, v) || sdd_mentions(s[k - 1].prime, v) || sdd_mentions(s[k - 1].sub, v) }
}
pub open spec fn sx_ok<T>(p: SddPtr, x: DDNNF<T>) -> bool { x matches DDNNF::Lit(v, _) ==> sdd_mentions(p, v) }
pub open spec fn sf_pre<T: Semiring, F: Fn(DDNNF<T>) -> T>(f: F, p: SddPtr) -> bool { forall|x: DDNNF<T>| sx_ok(p, x) && args_valid(x) ==> #[trigger] f.requires((x,)) }
pub proof fn lemma_sdd_mentions_neg(p: SddPtr, v: VarLabel)
    ensures sdd_mentions(sdd_neg(p), v) == sdd_mentions(p, v)
{}
/// a variable of an element of a decision node is a variable of the node
pub proof fn lemma_elem_mentions(p: SddPtr, k: int, v: VarLabel)
    requires sdd_is_node(p), 0 <= k < sdd_elems(p).len(), sdd_mentions(sdd_elems(p)[k].prime, v) || sdd_mentions(sdd_elems(p)[k].sub, v),
    ensures sdd_mentions(p, v),
{
    match p {
        SddPtr::Reg(o) | SddPtr::Compl(o) => { lemma_mentions_elem(o.nodes@, o.nodes@.len() as int, k, v); },
        _ => {},
    }
}
/// the fold of a decision node is the fold of all its elements, with the node's own complement flag applied to the subs
pub proof fn lemma_sfs_node<T>(p: SddPtr, c: bool, g: Alg<T>)
    requires sdd_is_node(p),
    ensures sfs(p, c, g) == sfs_elems(sdd_elems(p), sdd_elems(p).len() as int, c != sdd_is_neg(p), g),
{
    match p {
        SddPtr::BDD(b) | SddPtr::ComplBDD(b) => {
            let el = sdd_elems(p); let cc = (c != sdd_is_neg(p));
            assert(el.len() == 2);
            assert(sfs_elems(el, 0, cc, g) == g(DV::False));
            assert(sfs_elems(el, 1, cc, g) == g(DV::Or(sfs_elems(el, 0, cc, g), g(DV::And(sfs(el[0].prime, false, g), sfs(el[0].sub, cc, g))), ISet::<u64>::empty())));
            assert(sfs_elems(el, 2, cc, g) == g(DV::Or(sfs_elems(el, 1, cc, g), g(DV::And(sfs(el[1].prime, false, g), sfs(el[1].sub, cc, g))), ISet::<u64>::empty())));
        },
        _ => {},
    }
}
pub proof fn lemma_mentions_elem(s: Seq<SddAnd>, k: int, i: int, v: VarLabel)
    requires 0 <= i < k <= s.len(), sdd_mentions(s[i].prime, v) || sdd_mentions(s[i].sub, v),
    ensures sdd_mentions_elems(s, k, v),
    decreases k,
{
    if i < k - 1 { lemma_mentions_elem(s, k - 1, i, v); }
}

//%% include trusted/sdd_scratch.rs

impl<'a> SddAnd<'a> {
//%% extract src/repr/sdd/sdd_or.rs :: impl<'a> SddAnd<'a> :: fn prime
//%% @ret r
//%% @spec
        ensures r == self.prime,
//%% end
//%% extract src/repr/sdd/sdd_or.rs :: impl<'a> SddAnd<'a> :: fn sub
//%% @ret r
//%% @spec
        ensures r == self.sub,
//%% end
}
impl<'a> SddPtr<'a> {
// R-matches: `matches!(self, A | B)` is its definition `match self { A | B => true, _ => false }`
//%% extract src/repr/sdd.rs :: impl<'a> DDNNFPtr<'a> for SddPtr<'a> :: fn is_neg
//%% @pub
//%% @ret r
//%% @rewrite 1 /matches!\(self, Compl\(_\) \| ComplBDD\(_\)\)/ => match self { SddPtr::Compl(_) | SddPtr::ComplBDD(_) => true, _ => false }
//%% @spec
        ensures r == sdd_is_neg(*self),
//%% end
//%% extract src/repr/sdd.rs :: impl<'a> DDNNFPtr<'a> for SddPtr<'a> :: fn neg
//%% @pub
//%% @ret r
//%% @spec
        ensures r == sdd_neg(*self),
//%% end
}

// R-hoist: `bottomup_pass_h` is nested inside `fold`.  R-for-while over the node vector (A-sdd-node-iter): `for and in ptr.node_iter() {`
// iterates the stub vector by index; the loop body is the real text.
//%% extract src/repr/sdd.rs :: impl<'a> DDNNFPtr<'a> for SddPtr<'a> > fn fold :: fn bottomup_pass_h
//%% @ret r
//%% @attr #[verifier::exec_allows_no_decreases_clause]
//%% @attr #[verifier::loop_isolation(false)]
//%% @rewrite 1 /<T: 'static \+ Clone \+ Copy \+ Debug, F: Fn\(DDNNF<T>\) -> T>/ => <T: Semiring + 'static, F: Fn(DDNNF<T>) -> T>
//%% @rewrite 1 /let bottomup_helper = \|cached\| \{/ => let bottomup_helper = |cached: Option<T>| -> (res: T) requires (cached matches Some(v) ==> v.valid() && forall|g: Alg<T>| #[trigger] f_det(*f, g) ==> v == sfs(ptr, true, g)) ensures res.valid(), forall|g: Alg<T>| #[trigger] f_det(*f, g) ==> res == sfs(ptr, false, g) {
//%% @rewrite 1 /for and in ptr\.node_iter\(\) \{/ => let nodes__v = ptr.verif_node_vec(); let mut nd__i: usize = 0; while nd__i < nodes__v.len() { let and = &nodes__v[nd__i]; nd__i += 1;
//%% @rewrite 2 /ptr\.set_scratch::<DDNNFCache<T>>\(/ => verif_sfold_set_scratch::<T, F>(&ptr, f, 
//%% @rewrite 1 /ptr\.scratch::<DDNNFCache<T>>\(\)/ => verif_sfold_scratch::<T, F>(&ptr, f)
//%% @spec
        requires sf_pre(*f, ptr), f_val(*f),
        ensures r.valid(), forall|g: Alg<T>| #[trigger] f_det(*f, g) ==> r == sfs(ptr, false, g),
//%% @entry
    proof {
        assert forall|g: Alg<T>| true implies #[trigger] sfs(sdd_neg(ptr), false, g) == sfs(ptr, true, g) by { lemma_sfs_neg(ptr, false, g); }
        if sdd_is_node(ptr) {
            assert forall|g: Alg<T>| true implies #[trigger] sfs(ptr, false, g) == sfs_elems(sdd_elems(ptr), sdd_elems(ptr).len() as int, sdd_is_neg(ptr), g) by { lemma_sfs_node(ptr, false, g); }
        }
    }
//%% @loop 1 /^while nd__i < nodes__v\.len\(\)$/
                            invariant
                                nd__i <= nodes__v.len(), nodes__v@ == sdd_elems(ptr), sdd_is_node(ptr), or_v.valid(),
                                forall|g: Alg<T>| #[trigger] f_det(*f, g) ==> or_v == sfs_elems(sdd_elems(ptr), nd__i as int, sdd_is_neg(ptr), g),
                            decreases nodes__v.len() - nd__i,
//%% @loopbody 1
                            proof {
                                let el = sdd_elems(ptr); let k = nd__i as int;
                                assert forall|v: VarLabel| sdd_mentions(el[k].prime, v) || sdd_mentions(el[k].sub, v) implies sdd_mentions(ptr, v) by { lemma_elem_mentions(ptr, k, v); }
                                assert forall|v: VarLabel| true implies #[trigger] sdd_mentions(sdd_neg(el[k].sub), v) == sdd_mentions(el[k].sub, v) by { lemma_sdd_mentions_neg(el[k].sub, v); }
                                assert forall|g: Alg<T>| true implies #[trigger] sfs(sdd_neg(el[k].sub), false, g) == sfs(el[k].sub, true, g) by { lemma_sfs_neg(el[k].sub, false, g); }
                            }
//%% end

impl<'a> DDNNFFold for SddPtr<'a> {
    open spec fn fold_s<T>(self, g: Alg<T>) -> T { sfs(self, false, g) }
    open spec fn has_var(self, v: VarLabel) -> bool { sdd_mentions(self, v) }

//%% extract src/repr/sdd.rs :: impl<'a> DDNNFPtr<'a> for SddPtr<'a> :: fn fold
//%% @ret r
//%% @dropinner fn bottomup_pass_h
//%% @rewrite 1 /<T: 'static \+ Clone \+ Copy \+ std::fmt::Debug, F: Fn\(super::ddnnf::DDNNF<T>\) -> T>/ => <T: Semiring, F: Fn(DDNNF<T>) -> T>
//%% @rewrite 1 /\) -> T \{/ => ) -> T where T: 'static {
//%% @rewrite 1 /debug_assert!\(self\.is_scratch_cleared\(\)\);/ => 
//%% end
}

// ---- the custom iterator behind `node_iter()` (src/repr/sdd/sdd_or.rs): its `next` is under contract, which narrows A-sdd-node-iter
// to the protocol of `for` (call `next` until it answers None) ----
//%% extract src/repr/sdd/sdd_or.rs :: - :: struct SddNodeIter
//%% @pub
//%% end
impl<'a> SddOr<'a> {
//%% extract src/repr/sdd/sdd_or.rs :: impl<'a> SddOr<'a> :: fn index
//%% @ret r
//%% @spec
        ensures r == self.index,
//%% end
}
impl<'a> SddPtr<'a> {
//%% extract src/repr/sdd.rs :: impl<'a> SddPtr<'a> :: fn vtree
//%% @ret r
//%% @rewrite 1 /panic!\("called vtree\(\) on a constant"\)/ => unreached()
//%% @spec
        requires sdd_is_node(*self),
//%% end
}
impl<'a> BinarySDD<'a> {
//%% extract src/repr/sdd/binary_sdd.rs :: impl<'a> BinarySDD<'a> :: fn index
//%% @ret r
//%% @spec
        ensures r == self.index,
//%% end
//%% extract src/repr/sdd/binary_sdd.rs :: impl<'a> BinarySDD<'a> :: fn low
//%% @ret r
//%% @spec
        ensures r == self.low,
//%% end
//%% extract src/repr/sdd/binary_sdd.rs :: impl<'a> BinarySDD<'a> :: fn high
//%% @ret r
//%% @spec
        ensures r == self.high,
//%% end
//%% extract src/repr/sdd/binary_sdd.rs :: impl<'a> BinarySDD<'a> :: fn label
//%% @ret r
//%% @spec
        ensures r == self.label,
//%% end
}
impl<'a> SddAnd<'a> {
//%% extract src/repr/sdd/sdd_or.rs :: impl<'a> SddAnd<'a> :: fn new
//%% @ret r
//%% @spec
        ensures r.prime == prime, r.sub == sub,
//%% end
}
// R-trait-inherent: `impl<'a> Iterator for SddNodeIter<'a> { type Item = SddAnd<'a>; fn next .. }` is emitted as an inherent method
// (`Self::Item` spelled out); `panic!(..)` on a constant is the precondition
impl<'a> SddNodeIter<'a> {
//%% extract src/repr/sdd/sdd_or.rs :: impl<'a> SddNodeIter<'a> :: fn new
//%% @ret r
//%% @spec
        ensures r.sdd == sdd, r.count == 0,
//%% end
//%% extract src/repr/sdd/sdd_or.rs :: impl<'a> Iterator for SddNodeIter<'a> :: fn next
//%% @pub
//%% @ret r
//%% @rewrite 1 /Option<Self::Item>/ => Option<SddAnd<'a>>
//%% @rewrite 1 /panic!\("called iterator on constant"\)/ => unreached()
//%% @spec
        requires sdd_is_node(old(self).sdd), old(self).count <= sdd_elems(old(self).sdd).len(),
        ensures
            final(self).sdd == old(self).sdd,
            old(self).count < sdd_elems(old(self).sdd).len() ==> r == Some(sdd_elems(old(self).sdd)[old(self).count as int]) && final(self).count == old(self).count + 1,
            old(self).count >= sdd_elems(old(self).sdd).len() ==> r is None && final(self).count == old(self).count,
//%% end
}
