// ---- src/repr/var_label.rs: VarLabel ----
#[derive(Clone, Copy, PartialEq, Eq, Structural, Debug, PartialOrd, Ord)]
//%% extract src/repr/var_label.rs :: - :: struct VarLabel
//%% @pub
//%% end

impl VarLabel {
//%% extract src/repr/var_label.rs :: impl VarLabel :: fn new
//%% @ret r
//%% @spec
        ensures r.0 == v,
//%% end

//%% extract src/repr/var_label.rs :: impl VarLabel :: fn value
//%% @ret r
//%% @spec
        ensures r == self.0,
//%% end
}
