// ---- src/backing_store/bump_table.rs: robin-hood unique table over a bump arena ----
//%% include trusted/clone.rs
//%% include trusted/bump.rs

global size_of usize == 8;

//%% extract src/backing_store/bump_table.rs :: - :: const LOAD_FACTOR
//%% end
//%% extract src/backing_store/bump_table.rs :: - :: const DEFAULT_SIZE
//%% end

#[derive(Clone, Copy)]
//%% extract src/backing_store/bump_table.rs :: - :: struct HashTableElement
//%% @pub
//%% end

pub type Slots<'a, T> = Seq<HashTableElement<'a, T>>;

// ---------------------------------------------------------------------------
// specification vocabulary
// ---------------------------------------------------------------------------
pub open spec fn occ<T: Clone>(e: HashTableElement<T>) -> bool { e.ptr is Some }
/// home slot of a hash in a table of `cap` slots
pub open spec fn home(hash: u64, cap: int) -> int { (hash as usize as int) % cap }
/// cyclic distance from slot h forward to slot i
pub open spec fn dist(i: int, h: int, cap: int) -> int { if i >= h { i - h } else { i + cap - h } }
pub open spec fn prev(i: int, cap: int) -> int { if i == 0 { cap - 1 } else { i - 1 } }
pub open spec fn next(i: int, cap: int) -> int { if i + 1 == cap { 0 } else { i + 1 } }

/// Robin-hood invariant of a slot array:
///  (a) the stored probe-sequence length of every entry is its true displacement from its home slot;
///  (L) an entry displaced by p > 0 sits right after an occupied slot whose entry is displaced by at least p - 1
///      (so every slot between an entry's home and the entry is occupied by an entry at least as displaced as
///       its offset: lookups never stop early)
#[verifier::opaque]
pub open spec fn wfl<T: Clone>(s: Slots<T>) -> bool {
    &&& s.len() > 0
    &&& forall|i: int| 0 <= i < s.len() && occ(#[trigger] s[i]) ==> s[i].psl as int == dist(i, home(s[i].hash, s.len() as int), s.len() as int)
    &&& forall|i: int| 0 <= i < s.len() && occ(#[trigger] s[i]) && s[i].psl > 0 ==>
            occ(s[prev(i, s.len() as int)]) && s[prev(i, s.len() as int)].psl as int + 1 >= s[i].psl as int
}

/// (pointer, hash) pair stored in some slot other than `skip`
#[verifier::opaque]
pub open spec fn holds_except<'a, T: Clone>(s: Slots<'a, T>, p: Option<&'a T>, hash: u64, skip: int) -> bool {
    exists|i: int| 0 <= i < s.len() && i != skip && occ(#[trigger] s[i]) && s[i].ptr == p && s[i].hash == hash
}
/// (pointer, hash) pair stored somewhere in the table
pub open spec fn holds<'a, T: Clone>(s: Slots<'a, T>, p: Option<&'a T>, hash: u64) -> bool { holds_except(s, p, hash, -1) }

pub proof fn lemma_holds_intro<'a, T: Clone>(s: Slots<'a, T>, i: int, skip: int)
    requires 0 <= i < s.len(), occ(s[i]), i != skip,
    ensures holds_except(s, s[i].ptr, s[i].hash, skip),
{ reveal(holds_except); }

pub proof fn lemma_holds_elim<'a, T: Clone>(s: Slots<'a, T>, p: Option<&'a T>, hash: u64, skip: int) -> (i: int)
    requires holds_except(s, p, hash, skip),
    ensures 0 <= i < s.len(), i != skip, occ(s[i]), s[i].ptr == p, s[i].hash == hash,
{
    reveal(holds_except);
    choose|i: int| 0 <= i < s.len() && i != skip && occ(#[trigger] s[i]) && s[i].ptr == p && s[i].hash == hash
}

pub proof fn lemma_holds_weaken<'a, T: Clone>(s: Slots<'a, T>, p: Option<&'a T>, hash: u64, skip: int)
    requires holds_except(s, p, hash, skip),
    ensures holds(s, p, hash),
{
    let i = lemma_holds_elim(s, p, hash, skip);
    lemma_holds_intro(s, i, -1);
}

/// how the stored pairs change when one slot is overwritten
pub proof fn lemma_holds_update<'a, T: Clone>(v: Slots<'a, T>, p: int, x: HashTableElement<'a, T>, skip: int)
    requires 0 <= p < v.len(),
    ensures
        forall|q: Option<&'a T>, h: u64| #[trigger] holds_except(v.update(p, x), q, h, skip) ==> holds_except(v, q, h, skip) || (occ(x) && q == x.ptr && h == x.hash && p != skip),
        forall|q: Option<&'a T>, h: u64| #[trigger] holds_except(v, q, h, skip) ==> holds_except(v.update(p, x), q, h, skip) || (occ(v[p]) && q == v[p].ptr && h == v[p].hash),
        occ(x) && p != skip ==> holds_except(v.update(p, x), x.ptr, x.hash, skip),
{
    let v2 = v.update(p, x);
    assert forall|q: Option<&'a T>, h: u64| #[trigger] holds_except(v2, q, h, skip) implies holds_except(v, q, h, skip) || (occ(x) && q == x.ptr && h == x.hash && p != skip) by {
        let i = lemma_holds_elim(v2, q, h, skip);
        if i != p { assert(v2[i] == v[i]); lemma_holds_intro(v, i, skip); }
    }
    assert forall|q: Option<&'a T>, h: u64| #[trigger] holds_except(v, q, h, skip) implies holds_except(v2, q, h, skip) || (occ(v[p]) && q == v[p].ptr && h == v[p].hash) by {
        let i = lemma_holds_elim(v, q, h, skip);
        if i != p { assert(v2[i] == v[i]); lemma_holds_intro(v2, i, skip); }
    }
    if occ(x) && p != skip { assert(v2[p] == x); lemma_holds_intro(v2, p, skip); }
}

/// an entry matches a request (hash, elem): equal hash and (unless equality is by hash only) `==` elements
pub open spec fn matches<T: Clone + PartialEq>(e: HashTableElement<T>, hash: u64, elem: T, by_hash: bool) -> bool {
    occ(e) && e.hash == hash && (by_hash || (*e.ptr->Some_0).eq_spec(&elem))
}
pub open spec fn present<T: Clone + PartialEq>(s: Slots<T>, hash: u64, elem: T, by_hash: bool) -> bool {
    exists|i: int| 0 <= i < s.len() && matches(#[trigger] s[i], hash, elem, by_hash)
}
pub open spec fn with_psl<'a, T: Clone>(e: HashTableElement<'a, T>, psl: u8) -> HashTableElement<'a, T> {
    HashTableElement { ptr: e.ptr, hash: e.hash, psl: psl }
}
/// the entry `s`, placed at slot p, would continue the chain ending at the slot before p
pub open spec fn chain_ok<T: Clone>(v: Slots<T>, s: HashTableElement<T>, p: int) -> bool {
    &&& occ(s) && s.psl as int == dist(p, home(s.hash, v.len() as int), v.len() as int)
    &&& (s.psl > 0 ==> occ(v[prev(p, v.len() as int)]) && v[prev(p, v.len() as int)].psl as int + 1 >= s.psl as int)
}

impl<'a, T: Clone> HashTableElement<'a, T> {
//%% extract src/backing_store/bump_table.rs :: impl<'a, T: Clone> Default for HashTableElement<'a, T> :: fn default
//%% @pub
//%% @ret r
//%% @spec
        ensures !occ(r),
//%% end

//%% extract src/backing_store/bump_table.rs :: impl<'a, T: Clone> HashTableElement<'a, T> :: fn new
//%% @ret r
//%% @spec
        ensures r.ptr == Some(ptr), r.hash == hash, r.psl == psl,
//%% end

//%% extract src/backing_store/bump_table.rs :: impl<'a, T: Clone> HashTableElement<'a, T> :: fn is_occupied
//%% @ret r
//%% @spec
        ensures r == occ(*self),
//%% end
}

// ---------------------------------------------------------------------------
// propagate: robin-hood insertion of an (already allocated) entry starting at `pos`
// ---------------------------------------------------------------------------
/// what a call  propagate(v, cap, itm, pos)  may assume
pub open spec fn prop_pre<T: Clone>(v: Slots<T>, cap: int, itm: HashTableElement<T>, pos: int) -> bool {
    &&& wfl(v) && v.len() == cap && 0 <= pos < cap
    &&& chain_ok(v, itm, pos)
    // the entry is not richer than the resident of its first slot
    &&& (occ(v[pos]) ==> v[pos].psl >= itm.psl)
}
/// ... and what it establishes
#[verifier::opaque]
pub open spec fn prop_post<'a, T: Clone>(v0: Slots<'a, T>, v: Slots<'a, T>, cap: int, itm: HashTableElement<'a, T>, pos: int) -> bool {
    &&& wfl(v) && v.len() == cap
    // the first slot keeps its resident (it is only filled when it was empty); the slot before it is untouched
    &&& (occ(v0[pos]) ==> v[pos] == v0[pos])
    &&& (!occ(v0[pos]) ==> v == v0.update(pos, itm))
    &&& (occ(v0[pos]) ==> v[prev(pos, cap)] == v0[prev(pos, cap)])
    // nothing is lost, nothing appears except the entry, and the entry is stored at a slot other than an occupied first slot
    &&& (forall|p: Option<&'a T>, h: u64| #[trigger] holds(v0, p, h) ==> holds(v, p, h))
    &&& (forall|p: Option<&'a T>, h: u64| #[trigger] holds(v, p, h) ==> holds(v0, p, h) || (p == itm.ptr && h == itm.hash))
    &&& holds_except(v, itm.ptr, itm.hash, if occ(v0[pos]) { pos } else { -1 })
}

/// content part of the loop invariant: relation between the current slots + searcher and the initial slots + itm
pub open spec fn prop_content<'a, T: Clone>(v: Slots<'a, T>, s: HashTableElement<'a, T>, v0: Slots<'a, T>, itm: HashTableElement<'a, T>, pos0: int) -> bool {
    &&& (forall|q: Option<&'a T>, h: u64| #[trigger] holds(v0, q, h) ==> holds(v, q, h) || (q == s.ptr && h == s.hash))
    &&& (forall|q: Option<&'a T>, h: u64| #[trigger] holds(v, q, h) ==> holds(v0, q, h) || (q == itm.ptr && h == itm.hash))
    &&& (holds(v0, s.ptr, s.hash) || (s.ptr == itm.ptr && s.hash == itm.hash))
    &&& ((s.ptr == itm.ptr && s.hash == itm.hash) || holds_except(v, itm.ptr, itm.hash, pos0))
}
/// loop invariant of propagate: `s` is the entry still looking for a slot, `p` the slot it looks at, `n` the
/// number of slots passed so far
#[verifier::opaque]
pub open spec fn prop_inv<'a, T: Clone>(v: Slots<'a, T>, s: HashTableElement<'a, T>, p: int, n: int, v0: Slots<'a, T>, cap: int, itm: HashTableElement<'a, T>, pos0: int) -> bool {
    &&& wfl(v) && v.len() == cap && v0.len() == cap && 0 <= p < cap && 0 <= pos0 < cap && 0 <= n < cap
    &&& p == (pos0 + n) % cap
    &&& chain_ok(v, s, p)
    &&& (n == 0 ==> v == v0 && s == itm && (occ(v[p]) ==> v[p].psl >= s.psl))
    &&& (n > 0 ==> occ(v0[pos0]) && v[pos0] == v0[pos0] && v[prev(pos0, cap)] == v0[prev(pos0, cap)])
    &&& prop_content(v, s, v0, itm, pos0)
}

/// one iteration of the loop on an occupied slot, as a function of the state
pub open spec fn prop_step_v<'a, T: Clone>(v: Slots<'a, T>, s: HashTableElement<'a, T>, p: int) -> Slots<'a, T> {
    if v[p].psl < s.psl { v.update(p, s) } else { v }
}
pub open spec fn prop_step_s<'a, T: Clone>(v: Slots<'a, T>, s: HashTableElement<'a, T>, p: int) -> HashTableElement<'a, T> {
    if v[p].psl < s.psl { with_psl(v[p], (v[p].psl + 1) as u8) } else { with_psl(s, (s.psl + 1) as u8) }
}

pub proof fn lemma_dist_next(p: int, h: int, cap: int)
    requires 0 <= p < cap, 0 <= h < cap, dist(p, h, cap) + 1 < cap,
    ensures dist(next(p, cap), h, cap) == dist(p, h, cap) + 1, prev(next(p, cap), cap) == p,
{}

pub proof fn lemma_next_mod(p: int, cap: int)
    requires 0 <= p < cap,
    ensures next(p, cap) == (p + 1) % cap,
{
    if p + 1 == cap { vstd::arithmetic::div_mod::lemma_mod_self_0(cap); }
    else { vstd::arithmetic::div_mod::lemma_small_mod((p + 1) as nat, cap as nat); }
}

pub proof fn lemma_mod_next(pos0: int, n: int, cap: int)
    requires 0 <= pos0 < cap, 0 <= n, n + 1 < cap,
    ensures
        next((pos0 + n) % cap, cap) == (pos0 + n + 1) % cap, (pos0 + n + 1) % cap != pos0,
        n > 0 ==> (pos0 + n) % cap != pos0,
        n > 0 ==> (pos0 + n) % cap != prev(pos0, cap),
        n == 0 ==> (pos0 + n) % cap == pos0,
{
    let a = pos0 + n;
    if a < cap {
        vstd::arithmetic::div_mod::lemma_small_mod(a as nat, cap as nat);
        if a + 1 == cap { vstd::arithmetic::div_mod::lemma_mod_self_0(cap); }
        else { vstd::arithmetic::div_mod::lemma_small_mod((a + 1) as nat, cap as nat); }
    } else {
        vstd::arithmetic::div_mod::lemma_mod_sub_multiples_vanish(a, cap);
        vstd::arithmetic::div_mod::lemma_small_mod((a - cap) as nat, cap as nat);
        vstd::arithmetic::div_mod::lemma_mod_sub_multiples_vanish(a + 1, cap);
        vstd::arithmetic::div_mod::lemma_small_mod((a + 1 - cap) as nat, cap as nat);
    }
}

/// the richer resident is displaced by the searcher: the slot array stays well formed
pub proof fn lemma_wfl_swap<T: Clone>(v: Slots<T>, s: HashTableElement<T>, p: int)
    requires wfl(v), 0 <= p < v.len(), occ(v[p]), chain_ok(v, s, p), v[p].psl < s.psl,
    ensures wfl(v.update(p, s)),
{
    reveal(wfl);
    let cap = v.len() as int;
    let v2 = v.update(p, s);
    assert forall|i: int| 0 <= i < v2.len() && occ(#[trigger] v2[i]) implies v2[i].psl as int == dist(i, home(v2[i].hash, cap), cap) by {
        if i != p { assert(v2[i] == v[i]); }
    }
    assert forall|i: int| 0 <= i < v2.len() && occ(#[trigger] v2[i]) && v2[i].psl > 0 implies
        occ(v2[prev(i, cap)]) && v2[prev(i, cap)].psl as int + 1 >= v2[i].psl as int by {
        if i == p {
            if prev(p, cap) != p { assert(v2[prev(p, cap)] == v[prev(p, cap)]); }
        } else {
            assert(v2[i] == v[i]);
            if prev(i, cap) != p { assert(v2[prev(i, cap)] == v[prev(i, cap)]); }
        }
    }
}

/// the searcher fills an empty slot: the slot array stays well formed
pub proof fn lemma_wfl_fill<T: Clone>(v: Slots<T>, s: HashTableElement<T>, p: int)
    requires wfl(v), 0 <= p < v.len(), !occ(v[p]), chain_ok(v, s, p),
    ensures wfl(v.update(p, s)),
{
    reveal(wfl);
    let cap = v.len() as int;
    let v2 = v.update(p, s);
    assert forall|i: int| 0 <= i < v2.len() && occ(#[trigger] v2[i]) implies v2[i].psl as int == dist(i, home(v2[i].hash, cap), cap) by {
        if i != p { assert(v2[i] == v[i]); }
    }
    assert forall|i: int| 0 <= i < v2.len() && occ(#[trigger] v2[i]) && v2[i].psl > 0 implies
        occ(v2[prev(i, cap)]) && v2[prev(i, cap)].psl as int + 1 >= v2[i].psl as int by {
        if i == p {
            if prev(p, cap) != p { assert(v2[prev(p, cap)] == v[prev(p, cap)]); }
        } else {
            assert(v2[i] == v[i]);
            // the predecessor of an entry with psl > 0 is occupied in v, so it is not the empty slot p
            assert(occ(v[prev(i, cap)]));
            assert(v2[prev(i, cap)] == v[prev(i, cap)]);
        }
    }
}

/// content part of the invariant across one iteration
pub proof fn lemma_content_step<'a, T: Clone>(v: Slots<'a, T>, s: HashTableElement<'a, T>, p: int, v0: Slots<'a, T>, itm: HashTableElement<'a, T>, pos0: int)
    requires prop_content(v, s, v0, itm, pos0), 0 <= p < v.len(), occ(v[p]), occ(s), v[p].psl < s.psl ==> p != pos0,
    ensures prop_content(prop_step_v(v, s, p), prop_step_s(v, s, p), v0, itm, pos0),
{
    let v2 = prop_step_v(v, s, p);
    let s2 = prop_step_s(v, s, p);
    if v[p].psl < s.psl {
        assert(v2 == v.update(p, s));
        assert(s2.ptr == v[p].ptr && s2.hash == v[p].hash);
        lemma_holds_update(v, p, s, -1);
        lemma_holds_update(v, p, s, pos0);
        lemma_holds_intro(v, p, -1);
        assert(holds(v, v[p].ptr, v[p].hash));
        assert forall|q: Option<&'a T>, h: u64| #[trigger] holds(v0, q, h) implies holds(v2, q, h) || (q == s2.ptr && h == s2.hash) by {
            if holds(v, q, h) {
                assert(holds_except(v, q, h, -1));
                assert(holds_except(v.update(p, s), q, h, -1) || (q == v[p].ptr && h == v[p].hash));
            } else {
                assert(q == s.ptr && h == s.hash);
                assert(holds_except(v.update(p, s), s.ptr, s.hash, -1));
            }
        }
        assert forall|q: Option<&'a T>, h: u64| #[trigger] holds(v2, q, h) implies holds(v0, q, h) || (q == itm.ptr && h == itm.hash) by {
            assert(holds_except(v.update(p, s), q, h, -1));
            if holds_except(v, q, h, -1) { assert(holds(v, q, h)); } else { assert(q == s.ptr && h == s.hash); }
        }
        assert(holds(v0, s2.ptr, s2.hash) || (s2.ptr == itm.ptr && s2.hash == itm.hash));
        assert((s2.ptr == itm.ptr && s2.hash == itm.hash) || holds_except(v2, itm.ptr, itm.hash, pos0)) by {
            if s.ptr == itm.ptr && s.hash == itm.hash {
                assert(holds_except(v.update(p, s), s.ptr, s.hash, pos0));
            } else {
                assert(holds_except(v, itm.ptr, itm.hash, pos0));
                assert(holds_except(v.update(p, s), itm.ptr, itm.hash, pos0) || (itm.ptr == v[p].ptr && itm.hash == v[p].hash));
            }
        }
    } else {
        assert(v2 == v);
        assert(s2.ptr == s.ptr && s2.hash == s.hash);
    }
}

/// content part of the postcondition when the searcher fills an empty slot
pub proof fn lemma_content_exit<'a, T: Clone>(v: Slots<'a, T>, s: HashTableElement<'a, T>, p: int, v0: Slots<'a, T>, itm: HashTableElement<'a, T>, pos0: int, skip: int)
    requires prop_content(v, s, v0, itm, pos0), 0 <= p < v.len(), !occ(v[p]), occ(s), skip == pos0 || skip == -1, p != skip,
    ensures
        forall|q: Option<&'a T>, h: u64| #[trigger] holds(v0, q, h) ==> holds(v.update(p, s), q, h),
        forall|q: Option<&'a T>, h: u64| #[trigger] holds(v.update(p, s), q, h) ==> holds(v0, q, h) || (q == itm.ptr && h == itm.hash),
        holds_except(v.update(p, s), itm.ptr, itm.hash, skip),
{
    lemma_holds_update(v, p, s, -1);
    lemma_holds_update(v, p, s, pos0);
    let v2 = v.update(p, s);
    assert forall|q: Option<&'a T>, h: u64| #[trigger] holds(v0, q, h) implies holds(v2, q, h) by {
        if holds(v, q, h) {
            assert(holds_except(v, q, h, -1));
            assert(holds_except(v.update(p, s), q, h, -1));
        } else {
            assert(q == s.ptr && h == s.hash);
            assert(holds_except(v.update(p, s), s.ptr, s.hash, -1));
        }
    }
    assert forall|q: Option<&'a T>, h: u64| #[trigger] holds(v2, q, h) implies holds(v0, q, h) || (q == itm.ptr && h == itm.hash) by {
        assert(holds_except(v.update(p, s), q, h, -1));
        if holds_except(v, q, h, -1) { assert(holds(v, q, h)); } else { assert(q == s.ptr && h == s.hash); }
    }
    if s.ptr == itm.ptr && s.hash == itm.hash {
        if skip == -1 { assert(holds_except(v.update(p, s), s.ptr, s.hash, -1)); }
        else { assert(holds_except(v.update(p, s), s.ptr, s.hash, pos0)); }
    } else {
        assert(holds_except(v, itm.ptr, itm.hash, pos0));
        assert(holds_except(v.update(p, s), itm.ptr, itm.hash, pos0));
        if skip == -1 {
            let i = lemma_holds_elim(v2, itm.ptr, itm.hash, pos0);
            lemma_holds_intro(v2, i, -1);
        }
    }
}

pub proof fn lemma_prop_init<'a, T: Clone>(v: Slots<'a, T>, cap: int, itm: HashTableElement<'a, T>, pos: int)
    requires prop_pre(v, cap, itm, pos),
    ensures prop_inv(v, itm, pos, 0, v, cap, itm, pos),
{
    reveal(wfl);
    reveal(prop_inv);
    vstd::arithmetic::div_mod::lemma_small_mod(pos as nat, cap as nat);
}

/// the invariant is preserved by an iteration on an occupied slot
pub proof fn lemma_prop_step<'a, T: Clone>(v: Slots<'a, T>, s: HashTableElement<'a, T>, p: int, n: int, v0: Slots<'a, T>, cap: int, itm: HashTableElement<'a, T>, pos0: int)
    requires
        prop_inv(v, s, p, n, v0, cap, itm, pos0), occ(v[p]),
        s.psl as int + 1 < 256, s.psl as int + 1 < cap, v[p].psl as int + 1 < 256, v[p].psl as int + 1 < cap, n + 1 < cap,
    ensures
        prop_inv(prop_step_v(v, s, p), prop_step_s(v, s, p), next(p, cap), n + 1, v0, cap, itm, pos0),
        next(p, cap) == (p + 1) % cap, 0 <= next(p, cap) < cap, prop_step_v(v, s, p).len() == cap,
{
    reveal(wfl);
    reveal(prop_inv);
    let v2 = prop_step_v(v, s, p);
    let s2 = prop_step_s(v, s, p);
    let p2 = next(p, cap);
    let swap = v[p].psl < s.psl;
    lemma_next_mod(p, cap);
    lemma_dist_next(p, home(s.hash, cap), cap);
    lemma_dist_next(p, home(v[p].hash, cap), cap);
    lemma_mod_next(pos0, n, cap);
    assert(n == 0 ==> !swap);
    assert(swap ==> p != pos0);
    if swap { lemma_wfl_swap(v, s, p); }
    lemma_content_step(v, s, p, v0, itm, pos0);
    assert(chain_ok(v2, s2, p2)) by {
        assert(prev(p2, cap) == p);
        if swap { assert(v2[p] == s); } else { assert(v2[p] == v[p]); }
    }
    assert(v2[pos0] == v0[pos0] && v2[prev(pos0, cap)] == v0[prev(pos0, cap)]) by {
        if swap { assert(p != pos0 && p != prev(pos0, cap)); }
    }
}

/// leaving the loop at an empty slot establishes the postcondition
pub proof fn lemma_prop_exit<'a, T: Clone>(v: Slots<'a, T>, s: HashTableElement<'a, T>, p: int, n: int, v0: Slots<'a, T>, cap: int, itm: HashTableElement<'a, T>, pos0: int)
    requires prop_inv(v, s, p, n, v0, cap, itm, pos0), !occ(v[p]), n + 1 < cap || n == 0,
    ensures prop_post(v0, v.update(p, s), cap, itm, pos0),
{
    reveal(wfl);
    reveal(prop_inv); reveal(prop_post);
    let v2 = v.update(p, s);
    if n == 0 {
        assert(p == pos0) by { vstd::arithmetic::div_mod::lemma_small_mod(pos0 as nat, cap as nat); }
    } else {
        lemma_mod_next(pos0, n, cap);
        assert(p != pos0 && p != prev(pos0, cap));
    }
    lemma_wfl_fill(v, s, p);
    let skip = if occ(v0[pos0]) { pos0 } else { -1int };
    lemma_content_exit(v, s, p, v0, itm, pos0, skip);
}

//%% extract src/backing_store/bump_table.rs :: - :: fn propagate
//%% @pub
//%% @attr #[verifier::exec_allows_no_decreases_clause]
//%% @attr #[verifier::loop_isolation(false)]
//%% @spec
    requires
        prop_pre(old(v)@, cap as int, itm, pos as int),
    ensures
        prop_post(old(v)@, final(v)@, cap as int, itm, pos as int),
//%% @entry
    let ghost v0 = v@;
    let ghost pos0 = pos as int;
    let ghost mut n: int = 0;
    proof {
        axiom_clone_eq::<HashTableElement<'a, T>>();
        lemma_prop_init(v@, cap as int, itm, pos as int);
    }
//%% @loop 1 /^loop$/
        invariant
            prop_inv(v@, searcher, pos as int, n, v0, cap as int, itm, pos0),
            v@.len() == cap, 0 <= pos < cap, v0 == old(v)@,
            forall|a: HashTableElement<'a, T>, b: HashTableElement<'a, T>| #[trigger] call_ensures(HashTableElement::<'a, T>::clone, (&a,), b) ==> a == b,
//%% @loopbody 1
        proof {
            axiom_probe_bound(searcher.psl, n, cap);
            if occ(v@[pos as int]) {
                axiom_probe_bound(v@[pos as int].psl, n, cap);
                lemma_prop_step(v@, searcher, pos as int, n, v0, cap as int, itm, pos0);
                n = n + 1;
            } else {
                lemma_prop_exit(v@, searcher, pos as int, n, v0, cap as int, itm, pos0);
            }
        }
//%% end

// ---------------------------------------------------------------------------
// the table
// ---------------------------------------------------------------------------
//%% extract src/backing_store/bump_table.rs :: - :: struct BackedRobinhoodTable
//%% @pub
//%% end

/// what get_or_insert_by_hash(hash, elem, by_hash) establishes between the table before (o) and after (f);
/// r is the returned reference
#[verifier::opaque]
pub open spec fn goi_post<'a, T: Clone + PartialEq>(o: Slots<'a, T>, f: Slots<'a, T>, hash: u64, elem: T, by_hash: bool, r: &'a T) -> bool {
    &&& wfl(f)
    // nothing is lost, nothing appears except (possibly) the returned entry, which is stored under `hash`
    &&& (forall|q: Option<&'a T>, h: u64| #[trigger] holds(o, q, h) ==> holds(f, q, h))
    &&& (forall|q: Option<&'a T>, h: u64| #[trigger] holds(f, q, h) ==> holds(o, q, h) || (q == Some(r) && h == hash))
    &&& holds(f, Some(r), hash)
    // the returned element is `==` to the requested one
    &&& (by_hash || (*r).eq_spec(&elem))
    // hash-consing: if a matching element was already stored, the returned reference is one that was already
    // in the table -- no second copy is allocated, however often the table has grown
    &&& (present(o, hash, elem, by_hash) ==> holds(o, Some(r), hash))
}

/// the two tables store the same (pointer, hash) pairs
pub open spec fn same_content<'a, T: Clone>(a: Slots<'a, T>, b: Slots<'a, T>) -> bool {
    forall|p: Option<&'a T>, h: u64| #![trigger holds(a, p, h)] #![trigger holds(b, p, h)] holds(a, p, h) == holds(b, p, h)
}

/// invariant of the search loop: every slot closer to the home slot than the current one is occupied by an
/// entry at least as displaced as its offset, and none of them matches
#[verifier::opaque]
pub open spec fn search_inv<'a, T: Clone + PartialEq>(o: Slots<'a, T>, g: Slots<'a, T>, cap: int, hash: u64, elem: T, by_hash: bool, pos: int, psl: int) -> bool {
    &&& wfl(g) && g.len() == cap && 0 <= pos < cap && same_content(o, g)
    &&& psl == dist(pos, home(hash, cap), cap)
    &&& forall|j: int| 0 <= j < cap && dist(j, home(hash, cap), cap) < psl ==>
            occ(#[trigger] g[j]) && g[j].psl as int >= dist(j, home(hash, cap), cap) && !matches(g[j], hash, elem, by_hash)
}

pub open spec fn mk_entry<'a, T: Clone>(r: &'a T, hash: u64, psl: u8) -> HashTableElement<'a, T> {
    HashTableElement { ptr: Some(r), hash: hash, psl: psl }
}

/// walking k slots back from slot j
pub open spec fn back(j: int, k: int, cap: int) -> int
    decreases k
{
    if k <= 0 { j } else { back(prev(j, cap), k - 1, cap) }
}

pub proof fn lemma_back_dist(j: int, k: int, h: int, cap: int)
    requires 0 <= j < cap, 0 <= h < cap, 0 <= k <= dist(j, h, cap),
    ensures 0 <= back(j, k, cap) < cap, dist(back(j, k, cap), h, cap) == dist(j, h, cap) - k,
    decreases k,
{
    if k > 0 { lemma_back_dist(prev(j, cap), k - 1, h, cap); }
}

/// (L) iterated: k slots before an entry displaced by at least k sits an occupied slot displaced by at least psl - k
pub proof fn lemma_chain<T: Clone>(s: Slots<T>, j: int, k: int)
    requires wfl(s), 0 <= j < s.len(), occ(s[j]), 0 <= k <= s[j].psl,
    ensures 0 <= back(j, k, s.len() as int) < s.len(), occ(s[back(j, k, s.len() as int)]), s[back(j, k, s.len() as int)].psl as int >= s[j].psl as int - k,
    decreases k,
{
    reveal(wfl);
    let cap = s.len() as int;
    if k > 0 {
        assert(occ(s[prev(j, cap)]) && s[prev(j, cap)].psl as int + 1 >= s[j].psl as int);
        lemma_chain(s, prev(j, cap), k - 1);
    }
}

pub proof fn lemma_dist_unique(i: int, j: int, h: int, cap: int)
    requires 0 <= i < cap, 0 <= j < cap, 0 <= h < cap, dist(i, h, cap) == dist(j, h, cap),
    ensures i == j,
{}

/// when the search stops (empty slot, or a resident richer than the searcher) no slot of the table matches
pub proof fn lemma_absent<'a, T: Clone + PartialEq>(o: Slots<'a, T>, g: Slots<'a, T>, cap: int, hash: u64, elem: T, by_hash: bool, pos: int, psl: int)
    requires
        search_inv(o, g, cap, hash, elem, by_hash, pos, psl),
        !occ(g[pos]) || (g[pos].psl as int) < psl,
    ensures
        !present(g, hash, elem, by_hash),
{
    reveal(wfl);
    reveal(search_inv);
    let hm = home(hash, cap);
    assert forall|j: int| 0 <= j < g.len() implies !matches(#[trigger] g[j], hash, elem, by_hash) by {
        if matches(g[j], hash, elem, by_hash) {
            let pj = g[j].psl as int;
            assert(pj == dist(j, hm, cap));
            if pj >= psl {
                lemma_chain(g, j, pj - psl);
                lemma_back_dist(j, pj - psl, hm, cap);
                lemma_dist_unique(back(j, pj - psl, cap), pos, hm, cap);
            }
        }
    }
}

/// transfer of `present` / `holds` between tables with the same content
pub proof fn lemma_present_same<'a, T: Clone + PartialEq>(a: Slots<'a, T>, b: Slots<'a, T>, hash: u64, elem: T, by_hash: bool)
    requires same_content(a, b), present(a, hash, elem, by_hash),
    ensures present(b, hash, elem, by_hash),
{
    let i = choose|i: int| 0 <= i < a.len() && matches(#[trigger] a[i], hash, elem, by_hash);
    lemma_holds_intro(a, i, -1);
    assert(holds(b, a[i].ptr, a[i].hash));
    let j = lemma_holds_elim(b, a[i].ptr, a[i].hash, -1);
    assert(matches(b[j], hash, elem, by_hash));
}

/// hit: the table is returned unchanged
pub proof fn lemma_goi_hit<'a, T: Clone + PartialEq>(o: Slots<'a, T>, g: Slots<'a, T>, cap: int, hash: u64, elem: T, by_hash: bool, pos: int, psl: int)
    requires
        search_inv(o, g, cap, hash, elem, by_hash, pos, psl), matches(g[pos], hash, elem, by_hash),
    ensures
        goi_post(o, g, hash, elem, by_hash, g[pos].ptr->Some_0), wfl(g),
{
    reveal(search_inv); reveal(goi_post);
    lemma_holds_intro(g, pos, -1);
    assert(holds(g, g[pos].ptr, hash));
    assert(g[pos].ptr == Some(g[pos].ptr->Some_0));
}

/// miss at an empty slot: the new entry is stored there
pub proof fn lemma_goi_empty<'a, T: Clone + PartialEq>(o: Slots<'a, T>, g: Slots<'a, T>, cap: int, hash: u64, elem: T, by_hash: bool, pos: int, psl: int, e: HashTableElement<'a, T>, r: &'a T)
    requires
        search_inv(o, g, cap, hash, elem, by_hash, pos, psl), !occ(g[pos]),
        e == mk_entry(r, hash, psl as u8), 0 <= psl < 256, *r == elem, (*r).eq_spec(&elem),
    ensures
        goi_post(o, g.update(pos, e), hash, elem, by_hash, r), wfl(g.update(pos, e)),
{
    reveal(wfl);
    lemma_absent(o, g, cap, hash, elem, by_hash, pos, psl);
    reveal(search_inv); reveal(goi_post);
    let f = g.update(pos, e);
    let hm = home(hash, cap);
    assert(chain_ok(g, e, pos)) by {
        if psl > 0 {
            let pp = prev(pos, cap);
            assert(dist(pp, hm, cap) == psl - 1);
            assert(occ(g[pp]) && g[pp].psl as int >= psl - 1);
        }
    }
    lemma_wfl_fill(g, e, pos);
    lemma_holds_update(g, pos, e, -1);
    assert forall|q: Option<&'a T>, h: u64| #[trigger] holds(o, q, h) implies holds(f, q, h) by { assert(holds(g, q, h)); }
    assert forall|q: Option<&'a T>, h: u64| #[trigger] holds(f, q, h) implies holds(o, q, h) || (q == Some(r) && h == hash) by {
        if holds_except(g, q, h, -1) { assert(holds(g, q, h)); }
    }
    if present(o, hash, elem, by_hash) { lemma_present_same(o, g, hash, elem, by_hash); }
}

/// miss at a richer resident: the resident is pushed on by propagate, then the new entry overwrites its old slot
pub proof fn lemma_goi_displace<'a, T: Clone + PartialEq>(o: Slots<'a, T>, g: Slots<'a, T>, v2: Slots<'a, T>, cap: int, hash: u64, elem: T, by_hash: bool, pos: int, psl: int, e: HashTableElement<'a, T>, r: &'a T)
    requires
        search_inv(o, g, cap, hash, elem, by_hash, pos, psl), occ(g[pos]), (g[pos].psl as int) < psl,
        prop_post(g, v2, cap, g[pos], pos),
        e == mk_entry(r, hash, psl as u8), 0 <= psl < 256, *r == elem, (*r).eq_spec(&elem),
    ensures
        goi_post(o, v2.update(pos, e), hash, elem, by_hash, r), wfl(v2.update(pos, e)), v2.len() == cap,
{
    reveal(wfl);
    lemma_absent(o, g, cap, hash, elem, by_hash, pos, psl);
    reveal(search_inv); reveal(goi_post); reveal(prop_post);
    let f = v2.update(pos, e);
    let hm = home(hash, cap);
    let cur = g[pos];
    let pp = prev(pos, cap);
    assert(psl > 0);
    assert(dist(pp, hm, cap) == psl - 1);
    assert(occ(g[pp]) && g[pp].psl as int >= psl - 1);
    assert(pp != pos);
    assert(v2[pp] == g[pp] && v2[pos] == cur);
    // well-formedness of f
    assert(wfl(f)) by {
        assert forall|i: int| 0 <= i < f.len() && occ(#[trigger] f[i]) implies f[i].psl as int == dist(i, home(f[i].hash, cap), cap) by {
            if i != pos { assert(f[i] == v2[i]); }
        }
        assert forall|i: int| 0 <= i < f.len() && occ(#[trigger] f[i]) && f[i].psl > 0 implies
            occ(f[prev(i, cap)]) && f[prev(i, cap)].psl as int + 1 >= f[i].psl as int by {
            if i == pos {
                assert(f[pp] == v2[pp]);
            } else {
                assert(f[i] == v2[i]);
                if prev(i, cap) == pos { assert(occ(v2[pos]) && v2[pos].psl as int + 1 >= v2[i].psl as int); }
                else { assert(f[prev(i, cap)] == v2[prev(i, cap)]); }
            }
        }
    }
    // content
    lemma_holds_update(v2, pos, e, -1);
    lemma_holds_intro(g, pos, -1);
    assert forall|q: Option<&'a T>, h: u64| #[trigger] holds(o, q, h) implies holds(f, q, h) by {
        assert(holds(g, q, h));
        assert(holds(v2, q, h));
        if !holds_except(f, q, h, -1) {
            // then (q, h) is the pair of the overwritten slot v2[pos] == cur, which propagate stored elsewhere
            assert(q == cur.ptr && h == cur.hash);
            let j = lemma_holds_elim(v2, cur.ptr, cur.hash, pos);
            assert(f[j] == v2[j]);
            lemma_holds_intro(f, j, -1);
        }
    }
    assert forall|q: Option<&'a T>, h: u64| #[trigger] holds(f, q, h) implies holds(o, q, h) || (q == Some(r) && h == hash) by {
        if holds_except(v2, q, h, -1) { assert(holds(v2, q, h)); assert(holds(g, q, h)); }
    }
    if present(o, hash, elem, by_hash) { lemma_present_same(o, g, hash, elem, by_hash); }
}

/// the table after get_or_insert_by_hash is well formed again
pub proof fn lemma_goi_wfl<'a, T: Clone + PartialEq>(o: Slots<'a, T>, f: Slots<'a, T>, hash: u64, elem: T, by_hash: bool, r: &'a T)
    requires goi_post(o, f, hash, elem, by_hash, r),
    ensures wfl(f),
{ reveal(goi_post); }

/// glue for the builders' stub `table_get_or_insert(n) ensures *r == n` (trusted/robdd_cells.rs, dnnf_cells.rs): with
/// strict equality, and `==` on the element type implying structural equality (proved for BddNode in unit ptr), the
/// returned reference points to a value equal to the requested element
pub proof fn lemma_goi_value<'a, T: Clone + PartialEq>(o: Slots<'a, T>, f: Slots<'a, T>, hash: u64, elem: T, r: &'a T)
    requires goi_post(o, f, hash, elem, false, r), forall|a: T, b: T| #[trigger] a.eq_spec(&b) ==> a == b,
    ensures *r == elem,
{ reveal(goi_post); }

/// the search moves on to the next slot
pub proof fn lemma_search_step<'a, T: Clone + PartialEq>(o: Slots<'a, T>, g: Slots<'a, T>, cap: int, hash: u64, elem: T, by_hash: bool, pos: int, psl: int)
    requires
        search_inv(o, g, cap, hash, elem, by_hash, pos, psl), occ(g[pos]), !matches(g[pos], hash, elem, by_hash), g[pos].psl as int >= psl, psl + 1 < cap,
    ensures
        search_inv(o, g, cap, hash, elem, by_hash, next(pos, cap), psl + 1), next(pos, cap) == (pos + 1) % cap, 0 <= next(pos, cap) < cap,
{
    reveal(wfl);
    reveal(search_inv);
    lemma_next_mod(pos, cap);
    let hm = home(hash, cap);
    lemma_dist_next(pos, hm, cap);
    assert forall|j: int| 0 <= j < cap && dist(j, hm, cap) < psl + 1 implies
        occ(#[trigger] g[j]) && g[j].psl as int >= dist(j, hm, cap) && !matches(g[j], hash, elem, by_hash) by {
        if dist(j, hm, cap) == psl { lemma_dist_unique(j, pos, hm, cap); }
    }
}

pub proof fn lemma_search_init<'a, T: Clone + PartialEq>(o: Slots<'a, T>, g: Slots<'a, T>, cap: int, hash: u64, elem: T, by_hash: bool)
    requires wfl(g), g.len() == cap, same_content(o, g),
    ensures search_inv(o, g, cap, hash, elem, by_hash, home(hash, cap), 0),
{
    reveal(wfl);
    reveal(search_inv);
}

/// a table whose slots are all empty stores nothing
pub proof fn lemma_empty_holds<'a, T: Clone>(t: Slots<'a, T>, q: Option<&'a T>, h: u64)
    requires forall|i: int| 0 <= i < t.len() ==> !occ(#[trigger] t[i]),
    ensures !holds(t, q, h),
{
    if holds(t, q, h) { let i = lemma_holds_elim(t, q, h, -1); }
}
pub proof fn lemma_empty_wfl<T: Clone>(t: Slots<T>)
    requires t.len() > 0, forall|i: int| 0 <= i < t.len() ==> !occ(#[trigger] t[i]),
    ensures wfl(t),
{ reveal(wfl); }

impl<'a, T: Clone> BackedRobinhoodTable<'a, T>
where
    T: Hash + PartialEq + Eq + Clone,
{
    /// representation invariant of the table
    pub open spec fn twf(&self) -> bool { wfl(self.tbl@) && self.tbl.len() == self.cap && self.cap > 0 }

//%% extract src/backing_store/bump_table.rs :: impl<'a, T: Clone> BackedRobinhoodTable<'a, T> where T: Hash + PartialEq + Eq + Clone, :: fn is_occupied
//%% @ret r
//%% @spec
        requires pos < self.tbl.len(),
        ensures r == occ(self.tbl@[pos as int]),
//%% end

//%% extract src/backing_store/bump_table.rs :: impl<'a, T: Clone> BackedRobinhoodTable<'a, T> where T: Hash + PartialEq + Eq + Clone, :: fn propagate
//%% @spec
        requires
            old(self).tbl.len() == old(self).cap, prop_pre(old(self).tbl@, old(self).cap as int, itm, pos as int),
        ensures
            prop_post(old(self).tbl@, final(self).tbl@, old(self).cap as int, itm, pos as int),
            final(self).cap == old(self).cap, final(self).len == old(self).len, final(self).tbl.len() == final(self).cap,
//%% @entry
        proof { reveal(prop_post); }
//%% end

//%% extract src/backing_store/bump_table.rs :: impl<'a, T: Clone> BackedRobinhoodTable<'a, T> where T: Hash + PartialEq + Eq + Clone, :: fn grow
//%% @attr #[verifier::loop_isolation(false)]
//%% @rewrite 1 /\(self\.cap \+ 1\)\.next_power_of_two\(\)/ => verif_next_power_of_two(self.cap + 1)
//%% @rewrite 1 /for i in old\.iter\(\) \{/ => for i in it: old.iter() {
//%% @spec
        requires
            old(self).twf(),
        ensures
            final(self).twf(), final(self).cap > old(self).cap, final(self).len == old(self).len,
            // growth keeps exactly the stored (pointer, hash) pairs
            same_content(old(self).tbl@, final(self).tbl@),
//%% @entry
        let ghost o = self.tbl@;
        proof {
            axiom_table_size_bound(self.len, self.cap);
            axiom_clone_eq::<HashTableElement<'a, T>>();
            assert forall|t: Slots<'a, T>, q: Option<&'a T>, h: u64| (forall|i: int| 0 <= i < t.len() ==> !occ(#[trigger] t[i])) && #[trigger] holds(t, q, h) implies false by {
                lemma_empty_holds(t, q, h);
            }
            assert forall|t: Slots<'a, T>| t.len() > 0 && (forall|i: int| 0 <= i < t.len() ==> !occ(#[trigger] t[i])) implies #[trigger] wfl(t) by {
                lemma_empty_wfl(t);
            }
            assert forall|q: Option<&'a T>, h: u64| #[trigger] holds(o, q, h) implies
                exists|j: int| 0 <= j < o.len() && occ(#[trigger] o[j]) && o[j].ptr == q && o[j].hash == h by {
                let j = lemma_holds_elim(o, q, h, -1);
            }
        }
//%% @loop 1 /^for i in it: old\.iter\(\)$/
            invariant
                self.tbl.len() == self.cap, self.cap > 0, wfl(self.tbl@), old@ == o,
                forall|a: HashTableElement<'a, T>, b: HashTableElement<'a, T>| #[trigger] call_ensures(HashTableElement::<'a, T>::clone, (&a,), b) ==> a == b,
                // the entries of the first it.index slots of the old array have been moved over, and nothing else
                forall|q: Option<&'a T>, h: u64| #[trigger] holds(self.tbl@, q, h) ==> holds(o, q, h),
                forall|j: int| 0 <= j < it.index@ && occ(#[trigger] o[j]) ==> holds(self.tbl@, o[j].ptr, o[j].hash),
//%% @loopbody 1
            proof {
                let j = it.index@ as int;
                let cur = o[j];
                if occ(cur) {
                    let itm0 = with_psl(cur, 0);
                    let p0 = home(cur.hash, self.cap as int);
                    assert(prop_pre(self.tbl@, self.cap as int, itm0, p0));
                    lemma_holds_intro(o, j, -1);
                    assert forall|v2: Slots<'a, T>| #[trigger] prop_post(self.tbl@, v2, self.cap as int, itm0, p0) implies
                        wfl(v2) && v2.len() == self.cap
                        && (forall|q: Option<&'a T>, h: u64| #[trigger] holds(v2, q, h) ==> holds(o, q, h))
                        && (forall|jj: int| 0 <= jj < j + 1 && occ(#[trigger] o[jj]) ==> holds(v2, o[jj].ptr, o[jj].hash)) by {
                        reveal(prop_post);
                        lemma_holds_weaken(v2, itm0.ptr, itm0.hash, if occ(self.tbl@[p0]) { p0 } else { -1 });
                        assert forall|jj: int| 0 <= jj < j + 1 && occ(#[trigger] o[jj]) implies holds(v2, o[jj].ptr, o[jj].hash) by {
                            if jj < j { assert(holds(self.tbl@, o[jj].ptr, o[jj].hash)); }
                        }
                    }
                }
            }
//%% end

//%% extract src/backing_store/bump_table.rs :: impl<'a, T: Eq + Hash + Clone> BackedRobinhoodTable<'a, T> :: fn get_or_insert_by_hash
//%% @attr #[verifier::exec_allows_no_decreases_clause]
//%% @ret r
//%% @rewrite 1 /\(self\.len \+ 1\) as f64 > \(self\.cap as f64 \* LOAD_FACTOR\)/ => verif_table_grow_decision(self.len, self.cap)
//%% @rewrite 1 /\n                        self\.hits \+= 1;/ => 
//%% @spec
        requires
            old(self).twf(),
        ensures
            goi_post(old(self).tbl@, final(self).tbl@, hash, elem, equality_by_hash, r),
            final(self).tbl.len() == final(self).cap, final(self).cap > 0,
//%% @entry
        let ghost o = self.tbl@;
        proof {
            axiom_eq_equiv::<T>(); axiom_clone_eq::<HashTableElement<'a, T>>();
            assert forall|g: Slots<'a, T>, cap: int, p0: int| wfl(g) && g.len() == cap && same_content(o, g) && p0 == home(hash, cap)
                implies #[trigger] search_inv(o, g, cap, hash, elem, equality_by_hash, p0, 0) by {
                lemma_search_init(o, g, cap, hash, elem, equality_by_hash);
            }
        }
//%% @loop 1 /^loop$/
            invariant
                search_inv(o, self.tbl@, self.cap as int, hash, elem, equality_by_hash, pos as int, psl as int),
                self.tbl.len() == self.cap, 0 <= pos < self.cap, o == old(self).tbl@,
                T::obeys_eq_spec(), forall|a: T| #[trigger] a.eq_spec(&a),
                forall|a: HashTableElement<'a, T>, b: HashTableElement<'a, T>| #[trigger] call_ensures(HashTableElement::<'a, T>::clone, (&a,), b) ==> a == b,
//%% @loopbody 1
            proof {
                let g = self.tbl@;
                let cap = self.cap as int;
                axiom_probe_bound(psl, 0, self.cap);
                axiom_table_size_bound(self.len, self.cap);
                if occ(g[pos as int]) {
                    if matches(g[pos as int], hash, elem, equality_by_hash) {
                        lemma_goi_hit(o, g, cap, hash, elem, equality_by_hash, pos as int, psl as int);
                    } else if g[pos as int].psl < psl {
                        assert(prop_pre(g, cap, g[pos as int], pos as int)) by { reveal(search_inv); reveal(wfl); }
                        assert forall|v2: Slots<'a, T>, e: HashTableElement<'a, T>, rr: &'a T|
                            prop_post(g, v2, cap, g[pos as int], pos as int) && e == mk_entry(rr, hash, psl) && *rr == elem
                            implies #[trigger] goi_post(o, v2.update(pos as int, e), hash, elem, equality_by_hash, rr) && wfl(v2.update(pos as int, e)) && v2.len() == cap by {
                            lemma_goi_displace(o, g, v2, cap, hash, elem, equality_by_hash, pos as int, psl as int, e, rr);
                        }
                    } else {
                        lemma_search_step(o, g, cap, hash, elem, equality_by_hash, pos as int, psl as int);
                    }
                } else {
                    assert forall|e: HashTableElement<'a, T>, rr: &'a T| e == mk_entry(rr, hash, psl) && *rr == elem
                        implies #[trigger] goi_post(o, g.update(pos as int, e), hash, elem, equality_by_hash, rr) && wfl(g.update(pos as int, e)) by {
                        lemma_goi_empty(o, g, cap, hash, elem, equality_by_hash, pos as int, psl as int, e, rr);
                    }
                }
            }
//%% end

//%% extract src/backing_store/bump_table.rs :: impl<'a, T: Eq + Hash + Clone> BackedRobinhoodTable<'a, T> :: fn get_by_hash
//%% @attr #[verifier::exec_allows_no_decreases_clause]
//%% @ret r
//%% @rewrite 1 /\n                    self\.hits \+= 1;/ => 
//%% @spec
        requires
            old(self).twf(),
        ensures
            final(self).tbl@ == old(self).tbl@, final(self).cap == old(self).cap, final(self).len == old(self).len,
            // a hit is a stored pointer with that hash; a miss means no entry has that hash (lookup completeness)
            r matches Some(p) ==> holds(old(self).tbl@, Some(p), hash),
            r is None ==> forall|i: int| 0 <= i < old(self).tbl@.len() && occ(#[trigger] old(self).tbl@[i]) ==> old(self).tbl@[i].hash != hash,
//%% @entry
        let ghost o = self.tbl@;
        let ghost any_elem: T = arbitrary();
        proof {
            axiom_clone_eq::<HashTableElement<'a, T>>();
            lemma_search_init(o, o, self.cap as int, hash, any_elem, true);
        }
//%% @loop 1 /^loop$/
            invariant
                search_inv(o, self.tbl@, self.cap as int, hash, any_elem, true, pos as int, psl as int),
                self.tbl.len() == self.cap, 0 <= pos < self.cap, self.tbl@ == o, o == old(self).tbl@,
                self.cap == old(self).cap, self.len == old(self).len,
                forall|a: HashTableElement<'a, T>, b: HashTableElement<'a, T>| #[trigger] call_ensures(HashTableElement::<'a, T>::clone, (&a,), b) ==> a == b,
//%% @loopbody 1
            proof {
                let g = self.tbl@;
                let cap = self.cap as int;
                axiom_probe_bound(psl, 0, self.cap);
                if occ(g[pos as int]) {
                    if g[pos as int].hash == hash {
                        lemma_holds_intro(g, pos as int, -1);
                        assert(g[pos as int].ptr == Some(g[pos as int].ptr->Some_0));
                    } else if g[pos as int].psl < psl {
                        lemma_absent(o, g, cap, hash, any_elem, true, pos as int, psl as int);
                    } else {
                        lemma_search_step(o, g, cap, hash, any_elem, true, pos as int, psl as int);
                    }
                } else {
                    lemma_absent(o, g, cap, hash, any_elem, true, pos as int, psl as int);
                }
            }
//%% end
}

impl<'a, T: Clone> BackedRobinhoodTable<'a, T>
where
    T: Hash + PartialEq + Eq + Clone,
{
//%% extract src/backing_store/bump_table.rs :: impl<'a, T: Clone> BackedRobinhoodTable<'a, T> where T: Hash + PartialEq + Eq + Clone, :: fn new
//%% @ret r
//%% @spec
        ensures
            r.twf(), r.len == 0,
            forall|q: Option<&'a T>, h: u64| !holds(r.tbl@, q, h),
//%% @entry
        proof {
            axiom_clone_eq::<HashTableElement<'a, T>>();
            assert forall|t: Slots<'a, T>, q: Option<&'a T>, h: u64| (forall|i: int| 0 <= i < t.len() ==> !occ(#[trigger] t[i])) && #[trigger] holds(t, q, h) implies false by {
                lemma_empty_holds(t, q, h);
            }
            assert forall|t: Slots<'a, T>| t.len() > 0 && (forall|i: int| 0 <= i < t.len() ==> !occ(#[trigger] t[i])) implies #[trigger] wfl(t) by {
                lemma_empty_wfl(t);
            }
        }
//%% end
}
