// ---- src/backing_store/bump_table.rs: robin-hood unique table over a bump arena ----
//%% include trusted/clone.rs
//%% include trusted/bump.rs

global size_of usize == 8;

//%% extract src/backing_store/bump_table.rs :: - :: const LOAD_FACTOR
//%% end
//%% extract src/backing_store/bump_table.rs :: - :: const DEFAULT_SIZE
//%% end

#[derive(Clone, Copy)]
//%% extract src/backing_store/bump_table.rs :: - :: struct HashTableElement
//%% @pub
//%% end

pub type Slots<'a, T> = Seq<HashTableElement<'a, T>>;

// ---------------------------------------------------------------------------
// specification vocabulary
// ---------------------------------------------------------------------------
pub open spec fn occ<T: Clone>(e: HashTableElement<T>) -> bool { e.ptr is Some }
/// home slot of a hash in a table of `cap` slots
pub open spec fn home(hash: u64, cap: int) -> int { (hash as usize as int) % cap }
/// cyclic distance from slot h forward to slot i
pub open spec fn dist(i: int, h: int, cap: int) -> int { if i >= h { i - h } else { i + cap - h } }
pub open spec fn prev(i: int, cap: int) -> int { if i == 0 { cap - 1 } else { i - 1 } }
pub open spec fn next(i: int, cap: int) -> int { if i + 1 == cap { 0 } else { i + 1 } }

/// Robin-hood invariant of a slot array:
///  (a) the stored probe-sequence length of every entry is its true displacement from its home slot;
///  (L) an entry displaced by p > 0 sits right after an occupied slot whose entry is displaced by at least p - 1
///      (so every slot between an entry's home and the entry is occupied by an entry at least as displaced as
///       its offset: lookups never stop early)
pub open spec fn wfl<T: Clone>(s: Slots<T>) -> bool {
    &&& s.len() > 0
    &&& forall|i: int| 0 <= i < s.len() && occ(#[trigger] s[i]) ==> s[i].psl as int == dist(i, home(s[i].hash, s.len() as int), s.len() as int)
    &&& forall|i: int| 0 <= i < s.len() && occ(#[trigger] s[i]) && s[i].psl > 0 ==>
            occ(s[prev(i, s.len() as int)]) && s[prev(i, s.len() as int)].psl as int + 1 >= s[i].psl as int
}

/// (pointer, hash) pair stored in some slot other than `skip`
#[verifier::opaque]
pub open spec fn holds_except<'a, T: Clone>(s: Slots<'a, T>, p: Option<&'a T>, hash: u64, skip: int) -> bool {
    exists|i: int| 0 <= i < s.len() && i != skip && occ(#[trigger] s[i]) && s[i].ptr == p && s[i].hash == hash
}
/// (pointer, hash) pair stored somewhere in the table
pub open spec fn holds<'a, T: Clone>(s: Slots<'a, T>, p: Option<&'a T>, hash: u64) -> bool { holds_except(s, p, hash, -1) }

pub proof fn lemma_holds_intro<'a, T: Clone>(s: Slots<'a, T>, i: int, skip: int)
    requires 0 <= i < s.len(), occ(s[i]), i != skip,
    ensures holds_except(s, s[i].ptr, s[i].hash, skip),
{ reveal(holds_except); }

pub proof fn lemma_holds_elim<'a, T: Clone>(s: Slots<'a, T>, p: Option<&'a T>, hash: u64, skip: int) -> (i: int)
    requires holds_except(s, p, hash, skip),
    ensures 0 <= i < s.len(), i != skip, occ(s[i]), s[i].ptr == p, s[i].hash == hash,
{
    reveal(holds_except);
    choose|i: int| 0 <= i < s.len() && i != skip && occ(#[trigger] s[i]) && s[i].ptr == p && s[i].hash == hash
}

/// how the stored pairs change when one slot is overwritten
pub proof fn lemma_holds_update<'a, T: Clone>(v: Slots<'a, T>, p: int, x: HashTableElement<'a, T>, skip: int)
    requires 0 <= p < v.len(),
    ensures
        forall|q: Option<&'a T>, h: u64| #[trigger] holds_except(v.update(p, x), q, h, skip) ==> holds_except(v, q, h, skip) || (occ(x) && q == x.ptr && h == x.hash && p != skip),
        forall|q: Option<&'a T>, h: u64| #[trigger] holds_except(v, q, h, skip) ==> holds_except(v.update(p, x), q, h, skip) || (occ(v[p]) && q == v[p].ptr && h == v[p].hash),
        occ(x) && p != skip ==> holds_except(v.update(p, x), x.ptr, x.hash, skip),
{
    let v2 = v.update(p, x);
    assert forall|q: Option<&'a T>, h: u64| #[trigger] holds_except(v2, q, h, skip) implies holds_except(v, q, h, skip) || (occ(x) && q == x.ptr && h == x.hash && p != skip) by {
        let i = lemma_holds_elim(v2, q, h, skip);
        if i != p { assert(v2[i] == v[i]); lemma_holds_intro(v, i, skip); }
    }
    assert forall|q: Option<&'a T>, h: u64| #[trigger] holds_except(v, q, h, skip) implies holds_except(v2, q, h, skip) || (occ(v[p]) && q == v[p].ptr && h == v[p].hash) by {
        let i = lemma_holds_elim(v, q, h, skip);
        if i != p { assert(v2[i] == v[i]); lemma_holds_intro(v2, i, skip); }
    }
    if occ(x) && p != skip { assert(v2[p] == x); lemma_holds_intro(v2, p, skip); }
}

/// an entry matches a request (hash, elem): equal hash and (unless equality is by hash only) `==` elements
pub open spec fn matches<T: Clone + PartialEq>(e: HashTableElement<T>, hash: u64, elem: T, by_hash: bool) -> bool {
    occ(e) && e.hash == hash && (by_hash || (*e.ptr->Some_0).eq_spec(&elem))
}
pub open spec fn present<T: Clone + PartialEq>(s: Slots<T>, hash: u64, elem: T, by_hash: bool) -> bool {
    exists|i: int| 0 <= i < s.len() && matches(#[trigger] s[i], hash, elem, by_hash)
}
pub open spec fn with_psl<'a, T: Clone>(e: HashTableElement<'a, T>, psl: u8) -> HashTableElement<'a, T> {
    HashTableElement { ptr: e.ptr, hash: e.hash, psl: psl }
}
/// the entry `s`, placed at slot p, would continue the chain ending at the slot before p
pub open spec fn chain_ok<T: Clone>(v: Slots<T>, s: HashTableElement<T>, p: int) -> bool {
    &&& occ(s) && s.psl as int == dist(p, home(s.hash, v.len() as int), v.len() as int)
    &&& (s.psl > 0 ==> occ(v[prev(p, v.len() as int)]) && v[prev(p, v.len() as int)].psl as int + 1 >= s.psl as int)
}

impl<'a, T: Clone> HashTableElement<'a, T> {
//%% extract src/backing_store/bump_table.rs :: impl<'a, T: Clone> Default for HashTableElement<'a, T> :: fn default
//%% @pub
//%% @ret r
//%% @spec
        ensures !occ(r),
//%% end

//%% extract src/backing_store/bump_table.rs :: impl<'a, T: Clone> HashTableElement<'a, T> :: fn new
//%% @ret r
//%% @spec
        ensures r.ptr == Some(ptr), r.hash == hash, r.psl == psl,
//%% end

//%% extract src/backing_store/bump_table.rs :: impl<'a, T: Clone> HashTableElement<'a, T> :: fn is_occupied
//%% @ret r
//%% @spec
        ensures r == occ(*self),
//%% end
}

// ---------------------------------------------------------------------------
// propagate: robin-hood insertion of an (already allocated) entry starting at `pos`
// ---------------------------------------------------------------------------
/// what a call  propagate(v, cap, itm, pos)  may assume
pub open spec fn prop_pre<T: Clone>(v: Slots<T>, cap: int, itm: HashTableElement<T>, pos: int) -> bool {
    &&& wfl(v) && v.len() == cap && 0 <= pos < cap
    &&& chain_ok(v, itm, pos)
    // the entry is not richer than the resident of its first slot
    &&& (occ(v[pos]) ==> v[pos].psl >= itm.psl)
}
/// ... and what it establishes
pub open spec fn prop_post<'a, T: Clone>(v0: Slots<'a, T>, v: Slots<'a, T>, cap: int, itm: HashTableElement<'a, T>, pos: int) -> bool {
    &&& wfl(v) && v.len() == cap
    // the first slot keeps its resident (it is only filled when it was empty); the slot before it is untouched
    &&& (occ(v0[pos]) ==> v[pos] == v0[pos])
    &&& (!occ(v0[pos]) ==> v == v0.update(pos, itm))
    &&& v[prev(pos, cap)] == v0[prev(pos, cap)]
    // nothing is lost, nothing appears except the entry, and the entry is stored at a slot other than an occupied first slot
    &&& (forall|p: Option<&'a T>, h: u64| #[trigger] holds(v0, p, h) ==> holds(v, p, h))
    &&& (forall|p: Option<&'a T>, h: u64| #[trigger] holds(v, p, h) ==> holds(v0, p, h) || (p == itm.ptr && h == itm.hash))
    &&& holds_except(v, itm.ptr, itm.hash, if occ(v0[pos]) { pos } else { -1 })
}

/// content part of the loop invariant: relation between the current slots + searcher and the initial slots + itm
pub open spec fn prop_content<'a, T: Clone>(v: Slots<'a, T>, s: HashTableElement<'a, T>, v0: Slots<'a, T>, itm: HashTableElement<'a, T>, pos0: int) -> bool {
    &&& (forall|q: Option<&'a T>, h: u64| #[trigger] holds(v0, q, h) ==> holds(v, q, h) || (q == s.ptr && h == s.hash))
    &&& (forall|q: Option<&'a T>, h: u64| #[trigger] holds(v, q, h) ==> holds(v0, q, h) || (q == itm.ptr && h == itm.hash))
    &&& (holds(v0, s.ptr, s.hash) || (s.ptr == itm.ptr && s.hash == itm.hash))
    &&& ((s.ptr == itm.ptr && s.hash == itm.hash) || holds_except(v, itm.ptr, itm.hash, pos0))
}
/// loop invariant of propagate: `s` is the entry still looking for a slot, `p` the slot it looks at, `n` the
/// number of slots passed so far
pub open spec fn prop_inv<'a, T: Clone>(v: Slots<'a, T>, s: HashTableElement<'a, T>, p: int, n: int, v0: Slots<'a, T>, cap: int, itm: HashTableElement<'a, T>, pos0: int) -> bool {
    &&& wfl(v) && v.len() == cap && v0.len() == cap && 0 <= p < cap && 0 <= pos0 < cap && 0 <= n < cap
    &&& p == (pos0 + n) % cap
    &&& chain_ok(v, s, p)
    &&& (n == 0 ==> v == v0 && s == itm && (occ(v[p]) ==> v[p].psl >= s.psl))
    &&& (n > 0 ==> occ(v0[pos0]) && v[pos0] == v0[pos0] && v[prev(pos0, cap)] == v0[prev(pos0, cap)])
    &&& prop_content(v, s, v0, itm, pos0)
}

/// one iteration of the loop on an occupied slot, as a function of the state
pub open spec fn prop_step_v<'a, T: Clone>(v: Slots<'a, T>, s: HashTableElement<'a, T>, p: int) -> Slots<'a, T> {
    if v[p].psl < s.psl { v.update(p, s) } else { v }
}
pub open spec fn prop_step_s<'a, T: Clone>(v: Slots<'a, T>, s: HashTableElement<'a, T>, p: int) -> HashTableElement<'a, T> {
    if v[p].psl < s.psl { with_psl(v[p], (v[p].psl + 1) as u8) } else { with_psl(s, (s.psl + 1) as u8) }
}

pub proof fn lemma_dist_next(p: int, h: int, cap: int)
    requires 0 <= p < cap, 0 <= h < cap, dist(p, h, cap) + 1 < cap,
    ensures dist(next(p, cap), h, cap) == dist(p, h, cap) + 1, prev(next(p, cap), cap) == p,
{}

pub proof fn lemma_next_mod(p: int, cap: int)
    requires 0 <= p < cap,
    ensures next(p, cap) == (p + 1) % cap,
{
    if p + 1 == cap { vstd::arithmetic::div_mod::lemma_mod_self_0(cap); }
    else { vstd::arithmetic::div_mod::lemma_small_mod((p + 1) as nat, cap as nat); }
}

pub proof fn lemma_mod_next(pos0: int, n: int, cap: int)
    requires 0 <= pos0 < cap, 0 <= n, n + 1 < cap,
    ensures
        next((pos0 + n) % cap, cap) == (pos0 + n + 1) % cap, (pos0 + n + 1) % cap != pos0,
        n > 0 ==> (pos0 + n) % cap != pos0,
        n > 0 ==> (pos0 + n) % cap != prev(pos0, cap),
        n == 0 ==> (pos0 + n) % cap == pos0,
{
    let a = pos0 + n;
    if a < cap {
        vstd::arithmetic::div_mod::lemma_small_mod(a as nat, cap as nat);
        if a + 1 == cap { vstd::arithmetic::div_mod::lemma_mod_self_0(cap); }
        else { vstd::arithmetic::div_mod::lemma_small_mod((a + 1) as nat, cap as nat); }
    } else {
        vstd::arithmetic::div_mod::lemma_mod_sub_multiples_vanish(a, cap);
        vstd::arithmetic::div_mod::lemma_small_mod((a - cap) as nat, cap as nat);
        vstd::arithmetic::div_mod::lemma_mod_sub_multiples_vanish(a + 1, cap);
        vstd::arithmetic::div_mod::lemma_small_mod((a + 1 - cap) as nat, cap as nat);
    }
}

/// the richer resident is displaced by the searcher: the slot array stays well formed
pub proof fn lemma_wfl_swap<T: Clone>(v: Slots<T>, s: HashTableElement<T>, p: int)
    requires wfl(v), 0 <= p < v.len(), occ(v[p]), chain_ok(v, s, p), v[p].psl < s.psl,
    ensures wfl(v.update(p, s)),
{
    let cap = v.len() as int;
    let v2 = v.update(p, s);
    assert forall|i: int| 0 <= i < v2.len() && occ(#[trigger] v2[i]) implies v2[i].psl as int == dist(i, home(v2[i].hash, cap), cap) by {
        if i != p { assert(v2[i] == v[i]); }
    }
    assert forall|i: int| 0 <= i < v2.len() && occ(#[trigger] v2[i]) && v2[i].psl > 0 implies
        occ(v2[prev(i, cap)]) && v2[prev(i, cap)].psl as int + 1 >= v2[i].psl as int by {
        if i == p {
            if prev(p, cap) != p { assert(v2[prev(p, cap)] == v[prev(p, cap)]); }
        } else {
            assert(v2[i] == v[i]);
            if prev(i, cap) != p { assert(v2[prev(i, cap)] == v[prev(i, cap)]); }
        }
    }
}

/// the searcher fills an empty slot: the slot array stays well formed
pub proof fn lemma_wfl_fill<T: Clone>(v: Slots<T>, s: HashTableElement<T>, p: int)
    requires wfl(v), 0 <= p < v.len(), !occ(v[p]), chain_ok(v, s, p),
    ensures wfl(v.update(p, s)),
{
    let cap = v.len() as int;
    let v2 = v.update(p, s);
    assert forall|i: int| 0 <= i < v2.len() && occ(#[trigger] v2[i]) implies v2[i].psl as int == dist(i, home(v2[i].hash, cap), cap) by {
        if i != p { assert(v2[i] == v[i]); }
    }
    assert forall|i: int| 0 <= i < v2.len() && occ(#[trigger] v2[i]) && v2[i].psl > 0 implies
        occ(v2[prev(i, cap)]) && v2[prev(i, cap)].psl as int + 1 >= v2[i].psl as int by {
        if i == p {
            if prev(p, cap) != p { assert(v2[prev(p, cap)] == v[prev(p, cap)]); }
        } else {
            assert(v2[i] == v[i]);
            // the predecessor of an entry with psl > 0 is occupied in v, so it is not the empty slot p
            assert(occ(v[prev(i, cap)]));
            assert(v2[prev(i, cap)] == v[prev(i, cap)]);
        }
    }
}

/// content part of the invariant across one iteration
pub proof fn lemma_content_step<'a, T: Clone>(v: Slots<'a, T>, s: HashTableElement<'a, T>, p: int, v0: Slots<'a, T>, itm: HashTableElement<'a, T>, pos0: int)
    requires prop_content(v, s, v0, itm, pos0), 0 <= p < v.len(), occ(v[p]), occ(s), v[p].psl < s.psl ==> p != pos0,
    ensures prop_content(prop_step_v(v, s, p), prop_step_s(v, s, p), v0, itm, pos0),
{
    let v2 = prop_step_v(v, s, p);
    let s2 = prop_step_s(v, s, p);
    if v[p].psl < s.psl {
        lemma_holds_update(v, p, s, -1);
        lemma_holds_update(v, p, s, pos0);
        lemma_holds_intro(v, p, -1);
        assert(s2.ptr == v[p].ptr && s2.hash == v[p].hash);
        assert forall|q: Option<&'a T>, h: u64| #[trigger] holds(v0, q, h) implies holds(v2, q, h) || (q == s2.ptr && h == s2.hash) by {}
        assert forall|q: Option<&'a T>, h: u64| #[trigger] holds(v2, q, h) implies holds(v0, q, h) || (q == itm.ptr && h == itm.hash) by {}
    }
}

/// content part of the postcondition when the searcher fills an empty slot
pub proof fn lemma_content_exit<'a, T: Clone>(v: Slots<'a, T>, s: HashTableElement<'a, T>, p: int, v0: Slots<'a, T>, itm: HashTableElement<'a, T>, pos0: int, skip: int)
    requires prop_content(v, s, v0, itm, pos0), 0 <= p < v.len(), !occ(v[p]), occ(s), skip == pos0 || skip == -1, p != skip,
    ensures
        forall|q: Option<&'a T>, h: u64| #[trigger] holds(v0, q, h) ==> holds(v.update(p, s), q, h),
        forall|q: Option<&'a T>, h: u64| #[trigger] holds(v.update(p, s), q, h) ==> holds(v0, q, h) || (q == itm.ptr && h == itm.hash),
        holds_except(v.update(p, s), itm.ptr, itm.hash, skip),
{
    lemma_holds_update(v, p, s, -1);
    lemma_holds_update(v, p, s, pos0);
    let v2 = v.update(p, s);
    assert forall|q: Option<&'a T>, h: u64| #[trigger] holds(v0, q, h) implies holds(v2, q, h) by {}
    assert forall|q: Option<&'a T>, h: u64| #[trigger] holds(v2, q, h) implies holds(v0, q, h) || (q == itm.ptr && h == itm.hash) by {}
    if skip == -1 {
        if !(s.ptr == itm.ptr && s.hash == itm.hash) {
            let i = lemma_holds_elim(v, itm.ptr, itm.hash, pos0);
            assert(v2[i] == v[i]);
            lemma_holds_intro(v2, i, -1);
        }
    }
}

/// the invariant is preserved by an iteration on an occupied slot
pub proof fn lemma_prop_step<'a, T: Clone>(v: Slots<'a, T>, s: HashTableElement<'a, T>, p: int, n: int, v0: Slots<'a, T>, cap: int, itm: HashTableElement<'a, T>, pos0: int)
    requires
        prop_inv(v, s, p, n, v0, cap, itm, pos0), occ(v[p]),
        s.psl as int + 1 < 256, s.psl as int + 1 < cap, v[p].psl as int + 1 < 256, v[p].psl as int + 1 < cap, n + 1 < cap,
    ensures
        prop_inv(prop_step_v(v, s, p), prop_step_s(v, s, p), next(p, cap), n + 1, v0, cap, itm, pos0),
        next(p, cap) == (p + 1) % cap,
{
    let v2 = prop_step_v(v, s, p);
    let s2 = prop_step_s(v, s, p);
    let p2 = next(p, cap);
    let swap = v[p].psl < s.psl;
    lemma_next_mod(p, cap);
    lemma_dist_next(p, home(s.hash, cap), cap);
    lemma_dist_next(p, home(v[p].hash, cap), cap);
    lemma_mod_next(pos0, n, cap);
    assert(n == 0 ==> !swap);
    assert(swap ==> p != pos0);
    if swap { lemma_wfl_swap(v, s, p); }
    lemma_content_step(v, s, p, v0, itm, pos0);
    assert(chain_ok(v2, s2, p2)) by {
        assert(prev(p2, cap) == p);
        if swap { assert(v2[p] == s); } else { assert(v2[p] == v[p]); }
    }
    assert(v2[pos0] == v0[pos0] && v2[prev(pos0, cap)] == v0[prev(pos0, cap)]) by {
        if swap { assert(p != pos0 && p != prev(pos0, cap)); }
    }
}

/// leaving the loop at an empty slot establishes the postcondition
pub proof fn lemma_prop_exit<'a, T: Clone>(v: Slots<'a, T>, s: HashTableElement<'a, T>, p: int, n: int, v0: Slots<'a, T>, cap: int, itm: HashTableElement<'a, T>, pos0: int)
    requires prop_inv(v, s, p, n, v0, cap, itm, pos0), !occ(v[p]),
    ensures prop_post(v0, v.update(p, s), cap, itm, pos0),
{
    let v2 = v.update(p, s);
    if n + 1 < cap { lemma_mod_next(pos0, n, cap); }
    else {
        // n == cap - 1: the probe is at prev(pos0); only possible when n == 0 (cap == 1) -- otherwise slot pos0 is occupied
        assert(n == 0 || p != pos0) by {
            if n > 0 { vstd::arithmetic::div_mod::lemma_mod_sub_multiples_vanish(pos0 + n, cap);
                       if pos0 + n >= cap { vstd::arithmetic::div_mod::lemma_small_mod((pos0 + n - cap) as nat, cap as nat); } else { vstd::arithmetic::div_mod::lemma_small_mod((pos0 + n) as nat, cap as nat); } }
            else { vstd::arithmetic::div_mod::lemma_small_mod(pos0 as nat, cap as nat); }
        }
    }
    lemma_wfl_fill(v, s, p);
    let skip = if occ(v0[pos0]) { pos0 } else { -1int };
    assert(n == 0 ==> p == pos0) by { if n == 0 { vstd::arithmetic::div_mod::lemma_small_mod(pos0 as nat, cap as nat); } }
    assert(n > 0 ==> p != pos0);
    lemma_content_exit(v, s, p, v0, itm, pos0, skip);
}

//%% extract src/backing_store/bump_table.rs :: - :: fn propagate
//%% @pub
//%% @attr #[verifier::exec_allows_no_decreases_clause]
//%% @spec
    requires
        prop_pre(old(v)@, cap as int, itm, pos as int),
    ensures
        prop_post(old(v)@, final(v)@, cap as int, itm, pos as int),
//%% @entry
    let ghost v0 = v@;
    let ghost pos0 = pos as int;
    let ghost mut n: int = 0;
    proof {
        axiom_clone_eq::<HashTableElement<'a, T>>();
        vstd::arithmetic::div_mod::lemma_small_mod(pos as nat, cap as nat);
        assert(prop_inv(v@, itm, pos as int, 0, v0, cap as int, itm, pos0)) by {
            assert(holds(v0, itm.ptr, itm.hash) || (itm.ptr == itm.ptr && itm.hash == itm.hash));
        }
    }
//%% @loop 1 /^loop$/
        invariant
            prop_inv(v@, searcher, pos as int, n, v0, cap as int, itm, pos0),
            forall|a: HashTableElement<'a, T>, b: HashTableElement<'a, T>| #[trigger] call_ensures(HashTableElement::<'a, T>::clone, (&a,), b) ==> a == b,
//%% @loopbody 1
        proof {
            if occ(v@[pos as int]) {
                axiom_probe_bound(searcher.psl, n, cap);
                axiom_probe_bound(v@[pos as int].psl, n, cap);
                lemma_prop_step(v@, searcher, pos as int, n, v0, cap as int, itm, pos0);
                n = n + 1;
            } else {
                lemma_prop_exit(v@, searcher, pos as int, n, v0, cap as int, itm, pos0);
            }
        }
//%% end
