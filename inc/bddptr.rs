// ---- src/repr/bdd.rs: BddPtr / BddNode, complement-edge accessors, the DDNNFPtr impl ----
//%% include inc/varlabel.rs
//%% include prelude/pvo.rs

#[derive(Clone, Copy, Debug)]
//%% extract src/repr/bdd.rs :: - :: enum BddPtr
//%% @pub
//%% end
use BddPtr::*;

// R-scratch: the two RefCell scratch fields (`data`, `semantic_hash`) are deleted; they are ignored by
// equality and hashing and never read by the functions under contract.
#[derive(Debug)]
//%% extract src/repr/bdd.rs :: - :: struct BddNode
//%% @pub
//%% @rewrite 1 /\n    \/\/\/ scratch space used for caching data during traversals; ignored during\n    \/\/\/ equality checking and hashing\n    data: RefCell<Option<Box<dyn Any>>>,\n    semantic_hash: RefCell<Option<u128>>,/ => 
//%% end

/// THE definition of "the Boolean function a diagram denotes" (independent of any library evaluator):
/// a node tests its variable, `Compl` negates, the two terminals are the constants.
pub open spec fn ptr_sem(p: BddPtr, env: Env) -> bool
    decreases p
{
    match p {
        BddPtr::Compl(n) => !(if env(n.var.0) { ptr_sem(n.high, env) } else { ptr_sem(n.low, env) }),
        BddPtr::Reg(n) => (if env(n.var.0) { ptr_sem(n.high, env) } else { ptr_sem(n.low, env) }),
        BddPtr::PtrTrue => true,
        BddPtr::PtrFalse => false,
    }
}
/// denotation of a node value that is not (yet) behind a pointer
pub open spec fn node_sem(n: BddNode, env: Env) -> bool {
    if env(n.var.0) { ptr_sem(n.high, env) } else { ptr_sem(n.low, env) }
}
pub open spec fn is_node(p: BddPtr) -> bool { p is Reg || p is Compl }
pub open spec fn node_of<'a>(p: BddPtr<'a>) -> BddNode<'a> {
    match p { BddPtr::Reg(n) => *n, BddPtr::Compl(n) => *n, _ => arbitrary() }
}

//%% include trusted/ptreq.rs

impl<'a> vstd::std_specs::cmp::PartialEqSpecImpl for BddNode<'a> {
    open spec fn obeys_eq_spec() -> bool { true }
    /// what the real `eq` text below computes: exactly var, low, high (no scratch field takes part)
    open spec fn eq_spec(&self, other: &Self) -> bool {
        self.var == other.var && PartialEqSpec::eq_spec(&self.low, &other.low) && PartialEqSpec::eq_spec(&self.high, &other.high)
    }
}
impl<'a> PartialEq for BddNode<'a> {
//%% extract src/repr/bdd.rs :: impl<'a> PartialEq for BddNode<'a> :: fn eq
//%% @ret b
//%% @spec
        ensures b ==> *self == *other,
//%% @entry
        proof { axiom_bddptr_eq(); }
//%% end
}

impl<'a> PartialVariableOrder for BddPtr<'a> {
    open spec fn var_s(&self) -> Option<VarLabel> { if is_node(*self) { Some(node_of(*self).var) } else { None } }
//%% extract src/repr/bdd.rs :: impl<'a> PartialVariableOrder for BddPtr<'a> :: fn var
//%% end
}

impl<'a> BddPtr<'a> {
//%% extract src/repr/bdd.rs :: impl<'a> BddPtr<'a> :: fn var_safe
//%% @ret r
//%% @spec
        ensures r == (if is_node(*self) { Some(node_of(*self).var) } else { None }),
//%% end

//%% extract src/repr/bdd.rs :: impl<'a> BddPtr<'a> :: fn low
//%% @ret r
//%% @spec
        requires is_node(*self),
        ensures
            r == (if *self is Compl { (node_of(*self).low).neg_s() } else { node_of(*self).low }),
            // the low cofactor of the *pointer's* function
            forall|env: Env| #[trigger] tr(env) ==> (!env(node_of(*self).var.0) ==> ptr_sem(r, env) == ptr_sem(*self, env)),
//%% end

//%% extract src/repr/bdd.rs :: impl<'a> BddPtr<'a> :: fn high
//%% @ret r
//%% @spec
        requires is_node(*self),
        ensures
            r == (if *self is Compl { (node_of(*self).high).neg_s() } else { node_of(*self).high }),
            forall|env: Env| #[trigger] tr(env) ==> (env(node_of(*self).var.0) ==> ptr_sem(r, env) == ptr_sem(*self, env)),
//%% end

//%% extract src/repr/bdd.rs :: impl<'a> BddPtr<'a> :: fn low_raw
//%% @ret r
//%% @spec
        requires is_node(*self),
        ensures r == node_of(*self).low,
//%% end

//%% extract src/repr/bdd.rs :: impl<'a> BddPtr<'a> :: fn high_raw
//%% @ret r
//%% @spec
        requires is_node(*self),
        ensures r == node_of(*self).high,
//%% end

//%% extract src/repr/bdd.rs :: impl<'a> BddPtr<'a> :: fn is_const
//%% @ret b
//%% @spec
        ensures b == !is_node(*self),
//%% end

}

pub proof fn lemma_neg_sem(p: BddPtr, env: Env)
    ensures ptr_sem(p.neg_s(), env) == !ptr_sem(p, env), p.neg_s().neg_s() == p,
{}

impl<'a> DDNNFPtr for BddPtr<'a> {
    open spec fn sem(self, env: Env) -> bool { ptr_sem(self, env) }
    open spec fn is_true_s(self) -> bool { self is PtrTrue }
    open spec fn is_false_s(self) -> bool { self is PtrFalse }
    /// spec mirror of `neg` (the extracted `neg` below is proved to return exactly this)
    open spec fn neg_s(self) -> BddPtr<'a> {
        match self {
            BddPtr::Compl(x) => BddPtr::Reg(x),
            BddPtr::Reg(x) => BddPtr::Compl(x),
            BddPtr::PtrTrue => BddPtr::PtrFalse,
            BddPtr::PtrFalse => BddPtr::PtrTrue,
        }
    }

    proof fn eq_is_sem() { axiom_bddptr_eq(); }

//%% extract src/repr/bdd.rs :: impl<'a> DDNNFPtr<'a> for BddPtr<'a> :: fn true_ptr
//%% @ret r
//%% @spec
        ensures r is PtrTrue,
//%% end

//%% extract src/repr/bdd.rs :: impl<'a> DDNNFPtr<'a> for BddPtr<'a> :: fn false_ptr
//%% @ret r
//%% @spec
        ensures r is PtrFalse,
//%% end

//%% extract src/repr/bdd.rs :: impl<'a> DDNNFPtr<'a> for BddPtr<'a> :: fn is_neg
//%% @ret b
//%% @spec
        ensures b == (*self is Compl),
//%% end

//%% extract src/repr/bdd.rs :: impl<'a> DDNNFPtr<'a> for BddPtr<'a> :: fn is_true
//%% end

//%% extract src/repr/bdd.rs :: impl<'a> DDNNFPtr<'a> for BddPtr<'a> :: fn is_false
//%% end

//%% extract src/repr/bdd.rs :: impl<'a> DDNNFPtr<'a> for BddPtr<'a> :: fn neg
//%% end

    // A-count: `count_nodes` walks the diagram marking nodes through the scratch fields deleted by R-scratch; it is
    // left unverified (a number used only as a heap priority) and nothing is assumed about the number it returns.
    #[verifier::external_body]
    fn count_nodes(&self) -> (n: usize) { unimplemented!() }
}

impl<'a> BddNode<'a> {
//%% extract src/repr/bdd.rs :: impl<'a> BddNode<'a> :: fn new
//%% @ret r
//%% @rewrite 1 /\n            data: RefCell::new\(None\),\n            semantic_hash: RefCell::new\(None\),/ => 
//%% @spec
        ensures r.var == var, r.low == low, r.high == high,
//%% end
}
