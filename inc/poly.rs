// ---- src/util/semirings/polynomial_semiring_implementation.rs: polynomials truncated at MAX_COEFFS coefficients ----
pub open spec fn coeff_ops_ok<C: Semiring>() -> bool {
    &&& C::obeys_add_spec() && C::obeys_mul_spec()
    &&& forall|a: C, b: C| #[trigger] a.add_req(b)
    &&& forall|a: C, b: C| #[trigger] a.mul_req(b)
}

//%% extract src/util/semirings/polynomial_semiring_implementation.rs :: - :: const MAX_COEFFS
//%% end

#[derive(Clone, Copy)]
//%% extract src/util/semirings/polynomial_semiring_implementation.rs :: - :: struct Polynomial
//%% end

/// coefficient k of the truncated product, accumulated over i < n in the order the code adds the terms a[i]*b[k-i]
pub open spec fn conv<C: Semiring>(a: Seq<C>, alen: int, b: Seq<C>, blen: int, k: int, n: int) -> C
    decreases n
{
    if n <= 0 { C::zero_s() } else {
        let i = n - 1;
        if 0 <= k - i < blen && i < alen { conv(a, alen, b, blen, k, n - 1).add_spec(a[i].mul_spec(b[k - i])) } else { conv(a, alen, b, blen, k, n - 1) }
    }
}

impl<C: Semiring + Copy> Polynomial<C> {
    pub open spec fn wf(self) -> bool { self.len <= MAX_COEFFS }
    /// the mathematical definition of the truncated sum
    pub open spec fn add_def(self, rhs: Self, r: Self) -> bool {
        let m = if self.len >= rhs.len { self.len } else { rhs.len };
        &&& r.len == (if m <= MAX_COEFFS { m } else { MAX_COEFFS })
        &&& forall|i: int| 0 <= i < MAX_COEFFS ==> #[trigger] r.coefficients@[i] ==
                (if i < r.len { self.coefficients@[i].add_spec(rhs.coefficients@[i]) } else { C::zero_s() })
    }
    /// ... and of the truncated product (convolution)
    pub open spec fn mul_def(self, rhs: Self, r: Self) -> bool {
        if self.len == 0 || rhs.len == 0 {
            r.len == 0 && forall|i: int| 0 <= i < MAX_COEFFS ==> #[trigger] r.coefficients@[i] == C::zero_s()
        } else {
            &&& r.len == (if self.len + rhs.len - 1 <= MAX_COEFFS { (self.len + rhs.len - 1) as usize } else { MAX_COEFFS })
            &&& forall|k: int| 0 <= k < MAX_COEFFS ==> #[trigger] r.coefficients@[k] ==
                    conv(self.coefficients@, self.len as int, rhs.coefficients@, rhs.len as int, k, self.len as int)
        }
    }
}

// `zero` and `one` are extracted from `impl<C: Semiring + Copy> Semiring for Polynomial<C>` but placed in an inherent impl
// here: stating `r == Self::zero_s()` for an array-valued type would need array extensionality inside a body without
// proof hooks, and nothing in this unit uses Polynomial as a coefficient type (no behaviour is affected)
impl<C: Semiring + Copy> Polynomial<C> {
//%% extract src/util/semirings/polynomial_semiring_implementation.rs :: impl<C: Semiring + Copy> Semiring for Polynomial<C> :: fn zero
//%% @ret r
//%% @spec
        requires C::ops_ok(),
        ensures r.len == 0, r.wf(), forall|i: int| 0 <= i < MAX_COEFFS ==> #[trigger] r.coefficients@[i] == C::zero_s(),
//%% end

//%% extract src/util/semirings/polynomial_semiring_implementation.rs :: impl<C: Semiring + Copy> Semiring for Polynomial<C> :: fn one
//%% @ret r
//%% @spec
        requires C::ops_ok(),
        ensures r.len == 1, r.wf(), r.coefficients@[0] == C::one_s(),
            forall|i: int| 1 <= i < MAX_COEFFS ==> #[trigger] r.coefficients@[i] == C::zero_s(),
//%% end
}

impl<C: Semiring + Copy> vstd::std_specs::ops::AddSpecImpl<Polynomial<C>> for Polynomial<C> {
    open spec fn obeys_add_spec() -> bool { false }
    open spec fn add_req(self, rhs: Polynomial<C>) -> bool { C::ops_ok() && coeff_ops_ok::<C>() && self.wf() && rhs.wf() }
    open spec fn add_spec(self, rhs: Polynomial<C>) -> Self::Output { arbitrary() }
}
impl<C: Semiring + Copy> ops::Add for Polynomial<C> {
    type Output = Self;
//%% extract src/util/semirings/polynomial_semiring_implementation.rs :: impl<C: Semiring + Copy> ops::Add for Polynomial<C> :: fn add
//%% @ret r
//%% @spec
        ensures r.wf(), self.add_def(rhs, r),
//%% @loop 1 /^for i in 0\.\.max_len$/
            invariant
                max_len <= MAX_COEFFS, coeff_ops_ok::<C>(), self.wf(), rhs.wf(),
                forall|k: int| 0 <= k < MAX_COEFFS ==> #[trigger] new_coeffs@[k] ==
                    (if k < i { self.coefficients@[k].add_spec(rhs.coefficients@[k]) } else { C::zero_s() }),
//%% end
}

impl<C: Semiring + Copy> vstd::std_specs::ops::MulSpecImpl<Polynomial<C>> for Polynomial<C> {
    open spec fn obeys_mul_spec() -> bool { false }
    open spec fn mul_req(self, rhs: Polynomial<C>) -> bool { C::ops_ok() && coeff_ops_ok::<C>() && self.wf() && rhs.wf() }
    open spec fn mul_spec(self, rhs: Polynomial<C>) -> Self::Output { arbitrary() }
}
impl<C: Semiring + Copy> ops::Mul for Polynomial<C> {
    type Output = Self;
//%% extract src/util/semirings/polynomial_semiring_implementation.rs :: impl<C: Semiring + Copy> ops::Mul for Polynomial<C> :: fn mul
//%% @ret r
//%% @spec
        ensures r.wf(), self.mul_def(rhs, r),
//%% @loop 1 /^for i in 0\.\.self\.len$/
            invariant
                coeff_ops_ok::<C>(), self.wf(), rhs.wf(), self.len > 0, rhs.len > 0,
                forall|k: int| 0 <= k < MAX_COEFFS ==> #[trigger] new_coeffs@[k] ==
                    conv(self.coefficients@, self.len as int, rhs.coefficients@, rhs.len as int, k, i as int),
//%% @loop 2 /^for j in 0\.\.rhs\.len$/
                invariant
                    coeff_ops_ok::<C>(), self.wf(), rhs.wf(), i < self.len,
                    forall|k: int| 0 <= k < MAX_COEFFS ==> #[trigger] new_coeffs@[k] ==
                        (if 0 <= k - i < j { conv(self.coefficients@, self.len as int, rhs.coefficients@, rhs.len as int, k, i as int + 1) }
                         else { conv(self.coefficients@, self.len as int, rhs.coefficients@, rhs.len as int, k, i as int) }),
//%% end
}
