// ---- src/util/btree.rs (the tree type) and src/repr/vtree.rs: VTree::{new_node, new_leaf, right_linear_c, from_dtree} ----
//%% extract src/util/btree.rs :: - :: enum BTree
//%% end
//%% extract src/repr/vtree.rs :: - :: type VTree
//%% end

// A-clone: the derived Clone of the tree is a structural copy
impl<N: PartialEq + Eq + Clone, L: PartialEq + Eq + Clone> Clone for BTree<N, L> {
    #[verifier::external_body]
    fn clone(&self) -> (r: BTree<N, L>)
        ensures r == *self,
    { unimplemented!() }
}

/// the leaves of a vtree, left to right
pub open spec fn vleaves(t: VTree) -> Seq<VarLabel>
    decreases t
{
    match t { BTree::Leaf(v) => seq![v], BTree::Node(n, l, r) => vleaves(*l) + vleaves(*r) }
}
/// how often label x occurs in a sequence
pub open spec fn dcnt(s: Seq<VarLabel>, x: VarLabel) -> nat
    decreases s.len()
{
    if s.len() == 0 { 0 } else { dcnt(s.drop_last(), x) + (if s.last() == x { 1nat } else { 0nat }) }
}
pub proof fn lemma_dcnt_add(a: Seq<VarLabel>, b: Seq<VarLabel>, x: VarLabel)
    ensures dcnt(a + b, x) == dcnt(a, x) + dcnt(b, x),
    decreases b.len(),
{
    if b.len() == 0 { assert(a + b =~= a); }
    else {
        assert((a + b).drop_last() =~= a + b.drop_last());
        assert((a + b).last() == b.last());
        lemma_dcnt_add(a, b.drop_last(), x);
    }
}
pub proof fn lemma_dcnt_one(y: VarLabel, x: VarLabel)
    ensures dcnt(seq![y], x) == (if y == x { 1nat } else { 0nat }),
{
    assert(seq![y].drop_last() =~= Seq::<VarLabel>::empty());
    assert(dcnt(Seq::<VarLabel>::empty(), x) == 0);
    assert(seq![y].last() == y);
}
pub proof fn lemma_dcnt_front(s: Seq<VarLabel>, x: VarLabel)
    requires s.len() >= 1,
    ensures dcnt(s, x) == (if s[0] == x { 1nat } else { 0nat }) + dcnt(s.subrange(1, s.len() as int), x),
{
    assert(s =~= seq![s[0]] + s.subrange(1, s.len() as int));
    lemma_dcnt_add(seq![s[0]], s.subrange(1, s.len() as int), x);
    lemma_dcnt_one(s[0], x);
}
/// in a sequence without repetitions a label occurs once if it occurs at all
pub proof fn lemma_dcnt_nodup(s: Seq<VarLabel>, x: VarLabel)
    requires forall|i: int, j: int| 0 <= i < j < s.len() ==> s[i] != s[j],
    ensures dcnt(s, x) == (if s.contains(x) { 1nat } else { 0nat }),
    decreases s.len(),
{
    if s.len() > 0 {
        let t = s.drop_last();
        assert forall|i: int, j: int| 0 <= i < j < t.len() implies t[i] != t[j] by { assert(t[i] == s[i] && t[j] == s[j]); }
        lemma_dcnt_nodup(t, x);
        if s.last() == x {
            if t.contains(x) { let i = choose|i: int| 0 <= i < t.len() && t[i] == x; assert(s[i] == x); assert(false); }
            assert(s[s.len() - 1] == x);
        } else {
            if s.contains(x) { let i = choose|i: int| 0 <= i < s.len() && s[i] == x; assert(t[i] == x); }
            if t.contains(x) { let i = choose|i: int| 0 <= i < t.len() && t[i] == x; assert(s[i] == x); }
        }
    }
}
pub open spec fn cont_leaves(c: Option<VTree>) -> Seq<VarLabel> { match c { Some(t) => vleaves(t), None => Seq::empty() } }
/// what from_dtree returns for a subtree whose ancestors cut the variables `anc`
pub open spec fn vt_post(t: DTree, anc: spec_fn(VarLabel) -> bool, r: Option<VTree>) -> bool {
    &&& (r is None) == (forall|v: VarLabel| #[trigger] tvars(t).has(v) ==> anc(v))
    &&& (r matches Some(vt) ==> forall|v: VarLabel| #[trigger] dcnt(vleaves(vt), v) == (if tvars(t).has(v) && !anc(v) { 1nat } else { 0nat }))
}

/// leaf of the dtree: nothing left
pub proof fn lemma_vt_leaf_none(t: DTree, anc: spec_fn(VarLabel) -> bool)
    requires t is Leaf, cut_ok(t, anc), forall|v: VarLabel| !tcut(t).has(v),
    ensures vt_post(t, anc, None),
{
    assert forall|v: VarLabel| #[trigger] tvars(t).has(v) implies anc(v) by { assert(!tcut(t).has(v)); }
}
/// leaf of the dtree: the remaining variables, each once
pub proof fn lemma_vt_leaf_some(t: DTree, anc: spec_fn(VarLabel) -> bool, cv: Seq<VarLabel>, vt: VTree)
    requires t is Leaf, cut_ok(t, anc), cv_ok(cv, tcut(t)), exists|x: VarLabel| tcut(t).has(x), forall|x: VarLabel| #[trigger] dcnt(vleaves(vt), x) == dcnt(cv, x) + dcnt(Seq::<VarLabel>::empty(), x),
    ensures vt_post(t, anc, Some(vt)), cv.len() > 0,
{
    let x = choose|x: VarLabel| tcut(t).has(x);
    assert(cv.contains(x));
    assert(tvars(t).has(x) && !anc(x));
    assert forall|v: VarLabel| #[trigger] dcnt(vleaves(vt), v) == (if tvars(t).has(v) && !anc(v) { 1nat } else { 0nat }) by {
        lemma_dcnt_nodup(cv, v);
        assert(cv.contains(v) == tcut(t).has(v));
    }
}
/// node of the dtree: cutset first, then what is left of the children
pub proof fn lemma_vt_node(t: DTree, anc: spec_fn(VarLabel) -> bool, cv: Seq<VarLabel>, rl: Option<VTree>, rr: Option<VTree>)
    requires
        t is Node, vars_ok(t), cut_ok(t, anc), cv_ok(cv, tcut(t)),
        vt_post(*t->l, sor(anc, set_of(tcut(t))), rl), vt_post(*t->r, sor(anc, set_of(tcut(t))), rr),
    ensures
        (cv.len() == 0 && rl is None && rr is None) ==> vt_post(t, anc, None),
        forall|vt: VTree| (forall|x: VarLabel| #[trigger] dcnt(vleaves(vt), x) == dcnt(cv, x) + dcnt(cont_leaves(rl), x) + dcnt(cont_leaves(rr), x)) && !(cv.len() == 0 && rl is None && rr is None) ==> #[trigger] vt_post(t, anc, Some(vt)),
{
    let c = tcut(t);
    let a2 = sor(anc, set_of(c));
    let (tl, tr) = (tvars(*t->l), tvars(*t->r));
    assert forall|v: VarLabel| #[trigger] c.has(v) == (tl.has(v) && tr.has(v) && !anc(v)) by { }
    assert forall|v: VarLabel| #[trigger] tvars(t).has(v) == (tl.has(v) || tr.has(v)) by { }
    assert forall|v: VarLabel| #[trigger] a2(v) == (anc(v) || c.has(v)) by { }
    // counts of the three parts
    assert forall|v: VarLabel| #[trigger] dcnt(cv, v) == (if c.has(v) { 1nat } else { 0nat }) by { lemma_dcnt_nodup(cv, v); assert(cv.contains(v) == c.has(v)); }
    assert forall|v: VarLabel| #[trigger] dcnt(cont_leaves(rl), v) == (if tl.has(v) && !a2(v) { 1nat } else { 0nat }) by {
        match rl { Some(x) => { assert(dcnt(vleaves(x), v) == (if tl.has(v) && !a2(v) { 1nat } else { 0nat })); }, None => { if tl.has(v) { assert(a2(v)); } } }
    }
    assert forall|v: VarLabel| #[trigger] dcnt(cont_leaves(rr), v) == (if tr.has(v) && !a2(v) { 1nat } else { 0nat }) by {
        match rr { Some(x) => { assert(dcnt(vleaves(x), v) == (if tr.has(v) && !a2(v) { 1nat } else { 0nat })); }, None => { if tr.has(v) { assert(a2(v)); } } }
    }
    if cv.len() == 0 && rl is None && rr is None {
        assert forall|v: VarLabel| #[trigger] tvars(t).has(v) implies anc(v) by {
            if c.has(v) { assert(cv.contains(v)); }
            if tl.has(v) { assert(a2(v)); }
            if tr.has(v) { assert(a2(v)); }
        }
    }
    assert forall|vt: VTree| (forall|x: VarLabel| #[trigger] dcnt(vleaves(vt), x) == dcnt(cv, x) + dcnt(cont_leaves(rl), x) + dcnt(cont_leaves(rr), x)) && !(cv.len() == 0 && rl is None && rr is None) implies #[trigger] vt_post(t, anc, Some(vt)) by {
        // something is left
        if cv.len() > 0 { let x = cv[0]; assert(cv.contains(x)); assert(c.has(x)); assert(tvars(t).has(x) && !anc(x)); }
        else if rl is Some { let x = choose|x: VarLabel| tl.has(x) && !a2(x); assert(tvars(t).has(x) && !anc(x)); }
        else { let x = choose|x: VarLabel| tr.has(x) && !a2(x); assert(tvars(t).has(x) && !anc(x)); }
        assert forall|v: VarLabel| #[trigger] dcnt(vleaves(vt), v) == (if tvars(t).has(v) && !anc(v) { 1nat } else { 0nat }) by {
        }
    }
}

impl BTree<(), VarLabel> {
//%% extract src/repr/vtree.rs :: impl VTree :: fn new_node
//%% @ret res
//%% @spec
        ensures res == (BTree::<(), VarLabel>::Node((), l, r)),
//%% end

//%% extract src/repr/vtree.rs :: impl VTree :: fn new_leaf
//%% @ret r
//%% @spec
        ensures r == (BTree::<(), VarLabel>::Leaf(v)),
//%% end

// R-slice-pattern: the five arms of `match (vars, continuation)` use slice patterns (`&[]`, `&[v1]`, `&[v, ref vars @ ..]`), which Verus
// does not read; each arm header is replaced by its definition -- a length test as guard plus `let` bindings of the named elements
// (`vars[0]`, the tail `vars[1..]`); the arm bodies are the real text.  `panic!` (the unreachable first arm) becomes `unreached()`.
//%% extract src/repr/vtree.rs :: impl VTree :: fn right_linear_c
//%% @ret r
//%% @rewrite 1 /\(&\[\], None\) => panic!\("invalid vtree: no vars"\),/ => (_, None) if vars.len() == 0 => vstd::pervasive::unreached(),
//%% @rewrite 1 /\(&\[\], Some\(v\)\) =>/ => (_, Some(v)) if vars.len() == 0 =>
//%% @rewrite 1 /\(&\[v1\], Some\(v2\)\) => \{/ => (_, Some(v2)) if vars.len() == 1 => { let v1 = vars[0];
//%% @rewrite 1 /\(&\[v1\], None\) => VTree::new_leaf\(v1\),/ => (_, None) if vars.len() == 1 => { let v1 = vars[0]; VTree::new_leaf(v1) }
//%% @rewrite 1 /\(&\[v, ref vars @ \.\.\], _\) => \{/ => _ => { let v = vars[0]; let vars = vstd::slice::slice_subrange(vars, 1, vars.len());
//%% @spec
        requires vars.len() > 0 || *continuation is Some,
        // every label of `vars` and every leaf of the continuation is a leaf of the result, as often as there (the SHAPE of the tree --
        // right-linear -- is not part of the contract: C14 speaks of which variables are leaves, not where)
        ensures forall|x: VarLabel| #[trigger] dcnt(vleaves(r), x) == dcnt(vars@, x) + dcnt(cont_leaves(*continuation), x),
        decreases vars.len(),
//%% @entry
        proof {
            reveal_with_fuel(vleaves, 3);
            assert forall|l: VTree, r2: VTree, x: VarLabel| #![trigger dcnt(vleaves(BTree::Node((), Box::new(l), Box::new(r2))), x)]
                dcnt(vleaves(BTree::Node((), Box::new(l), Box::new(r2))), x) == dcnt(vleaves(l), x) + dcnt(vleaves(r2), x) by { lemma_dcnt_add(vleaves(l), vleaves(r2), x); }
            assert forall|y: VarLabel, x: VarLabel| #![trigger dcnt(vleaves(BTree::<(), VarLabel>::Leaf(y)), x)]
                dcnt(vleaves(BTree::<(), VarLabel>::Leaf(y)), x) == (if y == x { 1nat } else { 0nat }) by { lemma_dcnt_one(y, x); }
            assert forall|s: Seq<VarLabel>, x: VarLabel| #![trigger dcnt(s.subrange(1, s.len() as int), x)]
                s.len() >= 1 implies dcnt(s, x) == (if s[0] == x { 1nat } else { 0nat }) + dcnt(s.subrange(1, s.len() as int), x) by { lemma_dcnt_front(s, x); }
            assert forall|x: VarLabel| #[trigger] dcnt(vars@, x) == (if vars@.len() == 0 { 0nat } else if vars@.len() == 1 { if vars@[0] == x { 1nat } else { 0nat } } else { dcnt(vars@, x) }) by {
                if vars@.len() == 1 { lemma_dcnt_front(vars@, x); assert(vars@.subrange(1, 1) =~= Seq::<VarLabel>::empty()); }
            }
            assert forall|x: VarLabel| dcnt(Seq::<VarLabel>::empty(), x) == 0 by { }
        }
//%% end

// R-varset-iter (A-varset-iter): `cutset.iter().collect()` -> `verif_varset_vec(cutset)`; `match &&dtree` -> `match dtree`
//%% extract src/repr/vtree.rs :: impl VTree :: fn from_dtree
//%% @ret r
//%% @rewrite 1 /match &&dtree \{/ => match dtree {
//%% @rewrite 2 /cutset\.iter\(\)\.collect\(\);/ => verif_varset_vec(cutset);
//%% @spec
        requires vars_ok(*dtree),
        ensures
            // for whatever the ancestors cut: None iff nothing is left, otherwise every remaining variable of the subtree is exactly one leaf
            forall|anc: spec_fn(VarLabel) -> bool| #[trigger] cut_ok(*dtree, anc) ==> vt_post(*dtree, anc, r),
        decreases *dtree,
//%% @entry
        proof {
            assert forall|a: Seq<VarLabel>, b: Seq<VarLabel>, x: VarLabel| #![trigger dcnt(a + b, x)] dcnt(a + b, x) == dcnt(a, x) + dcnt(b, x) by { lemma_dcnt_add(a, b, x); }
            assert forall|s: Seq<VarLabel>, x: VarLabel| #![trigger dcnt(s, x)] (forall|i: int, j: int| 0 <= i < j < s.len() ==> s[i] != s[j]) implies dcnt(s, x) == (if s.contains(x) { 1nat } else { 0nat }) by { lemma_dcnt_nodup(s, x); }
            reveal_with_fuel(vleaves, 3);
            assert forall|x: VarLabel| dcnt(Seq::<VarLabel>::empty(), x) == 0 by { }
            assert(cont_leaves(None) == Seq::<VarLabel>::empty());
            assert forall|a: Seq<VarLabel>| #![trigger a + Seq::<VarLabel>::empty()] a + Seq::<VarLabel>::empty() =~= a by { }
            assert forall|a: Seq<VarLabel>, b: Seq<VarLabel>, c: Seq<VarLabel>| #![trigger a + (b + c)] a + (b + c) =~= (a + b) + c by { }
            match dtree {
                DTree::Leaf { clause, cutset, vars } => {
                    assert forall|anc: spec_fn(VarLabel) -> bool| #[trigger] cut_ok(*dtree, anc) && (forall|v: VarLabel| !cutset.has(v)) implies vt_post(*dtree, anc, None) by {
                        lemma_vt_leaf_none(*dtree, anc);
                    }
                    assert forall|anc: spec_fn(VarLabel) -> bool, cv: Seq<VarLabel>, vt: VTree| #![trigger vt_post(*dtree, anc, Some(vt)), cv_ok(cv, *cutset)]
                        cut_ok(*dtree, anc) && cv_ok(cv, *cutset) && (exists|x: VarLabel| cutset.has(x)) && (forall|x: VarLabel| #[trigger] dcnt(vleaves(vt), x) == dcnt(cv, x) + dcnt(Seq::<VarLabel>::empty(), x))
                        implies vt_post(*dtree, anc, Some(vt)) by { lemma_vt_leaf_some(*dtree, anc, cv, vt); }
                    assert forall|cv: Seq<VarLabel>| #![trigger cv_ok(cv, *cutset)] cv_ok(cv, *cutset) && (exists|x: VarLabel| cutset.has(x)) implies cv.len() > 0 by {
                        let x = choose|x: VarLabel| cutset.has(x);
                        assert(cv.contains(x));
                    }
                }
                DTree::Node { l, r, cutset, vars } => {
                    // the children are cut by the ancestors plus this node's cutset (makes the terms the recursive contracts wait for)
                    assert forall|anc: spec_fn(VarLabel) -> bool| #[trigger] cut_ok(*dtree, anc) implies
                        cut_ok(**l, sor(anc, set_of(*cutset))) && cut_ok(**r, sor(anc, set_of(*cutset))) by { }
                    assert forall|anc: spec_fn(VarLabel) -> bool, cv: Seq<VarLabel>, rl: Option<VTree>, rr: Option<VTree>|
                        #![trigger cut_ok(*dtree, anc), cv_ok(cv, *cutset), vt_post(**l, sor(anc, set_of(*cutset)), rl), vt_post(**r, sor(anc, set_of(*cutset)), rr)]
                        cut_ok(*dtree, anc) && cv_ok(cv, *cutset) && vt_post(**l, sor(anc, set_of(*cutset)), rl) && vt_post(**r, sor(anc, set_of(*cutset)), rr)
                        implies ((cv.len() == 0 && rl is None && rr is None) ==> vt_post(*dtree, anc, None))
                            && (forall|vt: VTree| (forall|x: VarLabel| #[trigger] dcnt(vleaves(vt), x) == dcnt(cv, x) + dcnt(cont_leaves(rl), x) + dcnt(cont_leaves(rr), x)) && !(cv.len() == 0 && rl is None && rr is None) ==> #[trigger] vt_post(*dtree, anc, Some(vt)))
                    by { lemma_vt_node(*dtree, anc, cv, rl, rr); }
                }
            }
        }
//%% end
}

impl VarLabel {
//%% extract src/repr/var_label.rs :: impl VarLabel :: fn new_usize
//%% @ret r
//%% @spec
        ensures r.0 == v,
//%% end
}
/// largest label + 1 among the leaves
pub open spec fn vmax(t: VTree) -> nat
    decreases t
{
    match t { BTree::Leaf(v) => (v.0 + 1) as nat, BTree::Node(n, l, r) => if vmax(*l) >= vmax(*r) { vmax(*l) } else { vmax(*r) } }
}
/// std: usize::max
#[verifier::external_body]
pub fn verif_usize_max(a: usize, b: usize) -> (r: usize) ensures r == (if a >= b { a } else { b }), { unimplemented!() }
impl VTree {
// VTree::num_vars: the number of variables a vtree allocates = largest label + 1 (the defect fixed in ad19bb4 returned the largest label).
// R-std: `usize::max(a, b)` is the stub verif_usize_max.
//%% extract src/repr/vtree.rs :: impl VTree :: fn num_vars
//%% @ret r
//%% @rewrite 1 /usize::max\(/ => verif_usize_max(
//%% @spec
        requires vsmall(*self),
        ensures r == vmax(*self),
        decreases self,
//%% end
}
/// every label fits: label + 1 does not overflow usize
pub open spec fn vsmall(t: VTree) -> bool
    decreases t
{
    match t { BTree::Leaf(v) => v.0 < usize::MAX, BTree::Node(n, l, r) => vsmall(*l) && vsmall(*r) }
}
/// vmax is what the name says: every leaf's label is below it, and some leaf's label + 1 is it
pub proof fn lemma_vmax(t: VTree)
    ensures
        forall|i: int| 0 <= i < vleaves(t).len() ==> (#[trigger] vleaves(t)[i]).0 < vmax(t),
        exists|i: int| 0 <= i < vleaves(t).len() && (#[trigger] vleaves(t)[i]).0 + 1 == vmax(t),
    decreases t,
{
    match t {
        BTree::Leaf(v) => { assert(vleaves(t)[0] == v); },
        BTree::Node(n, l, r) => {
            lemma_vmax(*l); lemma_vmax(*r);
            let a = vleaves(*l); let b = vleaves(*r);
            assert(vleaves(t) == a + b);
            assert forall|i: int| 0 <= i < (a + b).len() implies (#[trigger] (a + b)[i]).0 < vmax(t) by {
                if i < a.len() { assert((a + b)[i] == a[i]); } else { assert((a + b)[i] == b[i - a.len()]); }
            }
            if vmax(*l) >= vmax(*r) {
                let i = choose|i: int| 0 <= i < a.len() && (#[trigger] a[i]).0 + 1 == vmax(*l);
                assert((a + b)[i] == a[i]);
            } else {
                let i = choose|i: int| 0 <= i < b.len() && (#[trigger] b[i]).0 + 1 == vmax(*r);
                assert((a + b)[i + a.len()] == b[i]);
            }
        },
    }
}
// ---- vtrees built from a variable order: right_linear / left_linear / even_split (src/repr/vtree.rs) ----
/// 2^k
pub open spec fn p2(k: nat) -> nat decreases k { if k == 0 { 1 } else { 2 * p2((k - 1) as nat) } }
impl VTree {
// R-slice-pattern: `[x] =>` -> length guard + element binding; `[cur, rest @ ..] =>` / `[rest @ .., last] =>` -> guard + bindings through
// slice_subrange; `[] => panic!(..)` -> the unreachable arm under the precondition "the order is not empty"
//%% extract src/repr/vtree.rs :: impl VTree :: fn right_linear
//%% @ret r
//%% @rewrite 1 /\[x\] => BTree::Leaf\(\*x\),/ => _ if order.len() == 1 => { let x = &order[0]; BTree::Leaf(*x) }
//%% @rewrite 1 /\[(\w+), rest @ \.\.\] => \{/ => _ if order.len() >= 2 => { let \1 = &order[0]; let rest = vstd::slice::slice_subrange(order, 1, order.len());
//%% @rewrite 1 /\[\] => panic!\("invalid right_linear on empty list"\),/ => _ if order.len() == 0 => vstd::pervasive::unreached(),
//%% @rewrite 1 /\n        \}\n    \}$/ => \n            _ => vstd::pervasive::unreached(),\n        }\n    }
//%% @spec
        requires order@.len() >= 1,
        ensures vleaves(r) == order@,
        decreases order@.len(),
//%% @entry
        proof { reveal_with_fuel(vleaves, 3); if order@.len() >= 2 { assert(order@ =~= seq![order@[0]] + order@.subrange(1, order@.len() as int)); } else { assert(order@ =~= seq![order@[0]]); } }
//%% end

//%% extract src/repr/vtree.rs :: impl VTree :: fn left_linear
//%% @ret r
//%% @rewrite 1 /\[x\] => BTree::Leaf\(\*x\),/ => _ if order.len() == 1 => { let x = &order[0]; BTree::Leaf(*x) }
//%% @rewrite 1 /\[rest @ \.\., (\w+)\] => \{/ => _ if order.len() >= 2 => { let \1 = &order[order.len() - 1]; let rest = vstd::slice::slice_subrange(order, 0, order.len() - 1);
//%% @rewrite 1 /\[\] => panic!\("invalid left_linear on empty list"\),/ => _ if order.len() == 0 => vstd::pervasive::unreached(),
//%% @rewrite 1 /\n        \}\n    \}$/ => \n            _ => vstd::pervasive::unreached(),\n        }\n    }
//%% @spec
        requires order@.len() >= 1,
        ensures vleaves(r) == order@,
        decreases order@.len(),
//%% @entry
        proof { reveal_with_fuel(vleaves, 3); if order@.len() >= 2 { assert(order@ =~= order@.subrange(0, order@.len() - 1) + seq![order@[order@.len() - 1]]); } else { assert(order@ =~= seq![order@[0]]); } }
//%% end

//%% extract src/repr/vtree.rs :: impl VTree :: fn even_split
//%% @ret r
//%% @spec
        // (with fewer variables than 2^num_splits some half becomes empty and right_linear panics)
        requires order@.len() >= p2(num_splits as nat),
        ensures vleaves(r) == order@,
        decreases num_splits,
//%% @entry
        proof {
            let h = order@.len() / 2;
            assert(order@ =~= order@.subrange(0, h as int) + order@.subrange(h as int, order@.len() as int));
            if num_splits > 0 { assert(p2(num_splits as nat) == 2 * p2((num_splits - 1) as nat)); }
        }
//%% end
}
