// ---- src/builder/cache/{all_app,lru_app}.rs: the two apply-cache adapters ----
//%% include trusted/fxhashmap.rs

#[verifier::reject_recursive_types(T)]
//%% extract src/builder/cache/all_app.rs :: - :: struct AllIteTable
//%% @pub
//%% end

impl<T: DDNNFPtr> IteTable<T> for AllIteTable<T> {
    open spec fn entries(&self) -> ISet<((T, T, T), T)> { self.table.entries() }
    open spec fn wf(&self) -> bool { true }
    open spec fn cap_ok(&self) -> bool { true }
    open spec fn hash_spec(ite: Ite<T>) -> u64 { 0 }

//%% extract src/builder/cache/all_app.rs :: impl<'a, T: DDNNFPtr<'a>> IteTable<'a, T> for AllIteTable<T> :: fn hash
//%% end

//%% extract src/builder/cache/all_app.rs :: impl<'a, T: DDNNFPtr<'a>> IteTable<'a, T> for AllIteTable<T> :: fn insert
//%% end

//%% extract src/builder/cache/all_app.rs :: impl<'a, T: DDNNFPtr<'a>> IteTable<'a, T> for AllIteTable<T> :: fn get
//%% @rewrite ?1 /r\.map\(\|v\| v\.neg\(\)\)/ => r.map(|v: &T| -> (w: T) ensures w == v.neg_s() { v.neg() })
//%% @entry
        proof { axiom_clone_eq::<T>(); T::eq_is_sem(); }
//%% end
}

//%% extract src/builder/cache/lru_app.rs :: - :: struct LruIteTable
//%% @pub
//%% @rewrite 1 /<T: Eq \+ PartialEq \+ Clone \+ Hash \+ std::fmt::Debug>/ => <T>
//%% end

impl<T: DDNNFPtr> IteTable<T> for LruIteTable<T> {
    open spec fn entries(&self) -> ISet<((T, T, T), T)> {
        ISet::new(|e: ((T, T, T), T)| self.table.has(e.0) && self.table.val_of(e.0) == e.1)
    }
    open spec fn wf(&self) -> bool { self.table.wf() }
    open spec fn cap_ok(&self) -> bool { self.table.in_range() }
    open spec fn hash_spec(ite: Ite<T>) -> u64 {
        match ite {
            Ite::IteChoice { f, g, h } | Ite::IteComplChoice { f, g, h } => H((f, g, h)),
            Ite::IteConst(_) => 0,
        }
    }

//%% extract src/builder/cache/lru_app.rs :: impl<'a, T: DDNNFPtr<'a>> IteTable<'a, T> for LruIteTable<T> :: fn insert
//%% end

//%% extract src/builder/cache/lru_app.rs :: impl<'a, T: DDNNFPtr<'a>> IteTable<'a, T> for LruIteTable<T> :: fn get
//%% @rewrite ?1 /r\.map\(\|v\| v\.neg\(\)\)/ => r.map(|v: T| -> (w: T) ensures w == v.neg_s() { v.neg() })
//%% @entry
        proof { T::eq_is_sem(); }
//%% end

    /// A-hash: `LruIteTable::hash` feeds f, g, h to an FxHasher (external crate) and returns `finish()`;
    /// it is taken to be a deterministic function of the triple.  Body not extracted.
    #[verifier::external_body]
    fn hash(&self, ite: &Ite<T>) -> (r: u64)
    { unimplemented!() }
}
