// ---- src/builder/cache/{all_app,lru_app}.rs: the two apply-cache adapters ----
//%% include trusted/fxhashmap.rs

/// what a cached value must satisfy for its key triple
pub open spec fn entry_ok<T: DDNNFPtr>(k: (T, T, T), v: T) -> bool {
    forall|env: Env| #[trigger] tr(env) ==> v.sem(env) == ite3(k.0.sem(env), k.1.sem(env), k.2.sem(env))
}

#[verifier::reject_recursive_types(T)]
//%% extract src/builder/cache/all_app.rs :: - :: struct AllIteTable
//%% @pub
//%% end

impl<T: DDNNFPtr> IteTable<T> for AllIteTable<T> {
    open spec fn valid(&self) -> bool {
        forall|k: (T, T, T), v: T| #[trigger] self.table.entries().contains((k, v)) ==> entry_ok(k, v)
    }
    open spec fn cap_ok(&self) -> bool { true }
    open spec fn hash_spec(ite: Ite<T>) -> u64 { 0 }

//%% extract src/builder/cache/all_app.rs :: impl<'a, T: DDNNFPtr<'a>> IteTable<'a, T> for AllIteTable<T> :: fn hash
//%% end

//%% extract src/builder/cache/all_app.rs :: impl<'a, T: DDNNFPtr<'a>> IteTable<'a, T> for AllIteTable<T> :: fn insert
//%% end

//%% extract src/builder/cache/all_app.rs :: impl<'a, T: DDNNFPtr<'a>> IteTable<'a, T> for AllIteTable<T> :: fn get
//%% @rewrite ?1 /r\.map\(\|v\| v\.neg\(\)\)/ => r.map(|v: &T| -> (w: T) ensures forall|env: Env| #[trigger] tr(env) ==> w.sem(env) == !v.sem(env) { v.neg() })
//%% @entry
        proof { axiom_clone_eq::<T>(); }
//%% end
}

//%% extract src/builder/cache/lru_app.rs :: - :: struct LruIteTable
//%% @pub
//%% @rewrite 1 /<T: Eq \+ PartialEq \+ Clone \+ Hash \+ std::fmt::Debug>/ => <T>
//%% end

impl<T: DDNNFPtr> IteTable<T> for LruIteTable<T> {
    open spec fn valid(&self) -> bool {
        &&& self.table.wf()
        &&& forall|k: (T, T, T)| #[trigger] self.table.has(k) ==> entry_ok(k, self.table.val_of(k))
    }
    open spec fn cap_ok(&self) -> bool { self.table.in_range() }
    open spec fn hash_spec(ite: Ite<T>) -> u64 {
        match ite {
            Ite::IteChoice { f, g, h } | Ite::IteComplChoice { f, g, h } => H((f, g, h)),
            Ite::IteConst(_) => 0,
        }
    }

//%% extract src/builder/cache/lru_app.rs :: impl<'a, T: DDNNFPtr<'a>> IteTable<'a, T> for LruIteTable<T> :: fn insert
//%% end

//%% extract src/builder/cache/lru_app.rs :: impl<'a, T: DDNNFPtr<'a>> IteTable<'a, T> for LruIteTable<T> :: fn get
//%% @rewrite ?1 /r\.map\(\|v\| v\.neg\(\)\)/ => r.map(|v: T| -> (w: T) ensures forall|env: Env| #[trigger] tr(env) ==> w.sem(env) == !v.sem(env) { v.neg() })
//%% @entry
        proof { T::eq_is_sem(); }
//%% end

    /// A-hash: `LruIteTable::hash` feeds f, g, h to an FxHasher (external crate) and returns `finish()`;
    /// it is taken to be a deterministic function of the triple.  Body not extracted.
    #[verifier::external_body]
    fn hash(&self, ite: &Ite<T>) -> (r: u64)
    { unimplemented!() }
}
