// ---- src/repr/ddnnf.rs: the semantic hash = the weighted count in a finite field (C11) ----
/// mirror of the hashing part of `DDNNFPtr`: the default method `semantic_hash`
pub trait DDNNFHash: DDNNFFold {
//%% extract src/repr/ddnnf.rs :: trait DDNNFPtr<'a>: Clone + Debug + PartialEq + Eq + Hash + Copy :: fn semantic_hash
//%% @ret r
//%% @spec
        requires
            ff_ok::<P>(), map.wf(),
            forall|v: VarLabel| self.has_var(v) ==> map.has_weight(v),
        ensures
            r.wf(), r == self.fold_s(wmc_alg(map.wview(), map.one, map.zero)),
//%% @entry
        proof { lemma_sr_ops_ff::<P>(); }
//%% end
}
impl<'a> DDNNFHash for BddPtr<'a> {}

/// C11 for BDD / decision-DNNF pointers, every exported prime: the hash (count under weights with low + high == 1 mod P)
/// of two diagrams that denote the same function is the same, whatever their shape, order or history
pub proof fn hash_denotational_ff<const P: u128>(p: BddPtr, q: BddPtr, w: W<FiniteField<P>>, vs: Seq<u64>)
    requires
        ff_ok::<P>(), wv(w), distinct(vs), decides_once(p), decides_once(q),
        forall|x: VarLabel| mentions(p, x) || mentions(q, x) ==> vs.contains(x.0),
        forall|i: int| 0 <= i < vs.len() ==> normalised(w, #[trigger] vs[i]),
        forall|e: Env| ptr_sem(p, e) == ptr_sem(q, e),
    ensures
        wmc_spec(p, false, w) == wmc_spec(q, false, w),
{
    lemma_csr_ff::<P>();
    wmc_denotational(p, q, w, vs);
}
/// ... and the hash of the negated pointer is one minus the hash (what `FiniteField::negate` computes: unit ff)
pub proof fn hash_neg_ff<const P: u128>(p: BddPtr, w: W<FiniteField<P>>, vs: Seq<u64>)
    requires
        ff_ok::<P>(), wv(w), distinct(vs), decides_once(p),
        forall|x: VarLabel| mentions(p, x) ==> vs.contains(x.0),
        forall|i: int| 0 <= i < vs.len() ==> normalised(w, #[trigger] vs[i]),
    ensures
        wmc_spec(p.neg_s(), false, w).wf(),
        wmc_spec(p.neg_s(), false, w).val() == imod(1 - wmc_spec(p, false, w).val(), P as int),
{
    lemma_csr_ff::<P>();
    wmc_neg_complement(p, w, vs);
    let env = |x: u64| false;
    wmc_theorem(p, false, w, vs, env);
    wmc_theorem(p, true, w, vs, env);
    let a = wmc_spec(p, false, w); let b = wmc_spec(p, true, w);
    // (a + b) mod P == 1 with a, b reduced  ==>  b == (1 - a) mod P
    assert(fadd(a, b) == fone::<P>());
    lemma_small_mod(1, P as nat);
    let s = a.val() + b.val();
    assert(imod(s, P as int) == 1);
    lemma_fundamental_div_mod(s, P as int);
    lemma_mod_add_multiples_vanish(1 - a.val(), P as int);
    if s < P { lemma_small_mod(s as nat, P as nat); lemma_small_mod(b.val() as nat, P as nat); }
    else {
        lemma_mod_sub_multiples_vanish(s, P as int);
        lemma_small_mod((s - P) as nat, P as nat);
        lemma_small_mod(b.val() as nat, P as nat);
    }
}
