// ---- src/repr/logical_expr.rs: LogicalExpr::from_sexpr (helper) and LogicalExpr::from_dimacs; src/serialize/ser_logical_expr.rs: LogicalSExpr (C17) ----
//%% extract src/serialize/ser_logical_expr.rs :: - :: enum LogicalSExpr
//%% end
//%% extract src/repr/logical_expr.rs :: - :: enum LogicalExpr
//%% @pub
//%% end

pub type NEnv = spec_fn(String) -> bool;
pub type IEnv = spec_fn(usize) -> bool;
/// trigger marker (always true): terms produced by unfolding a recursive spec function do not instantiate quantifiers triggered on
/// that function, so the contracts quantify over `tri(env)`
pub open spec fn tri(env: IEnv) -> bool { true }
/// the meaning of the s-expression text, variables by NAME (constants excluded by the property)
pub open spec fn sx_sem(e: LogicalSExpr, env: NEnv) -> bool
    decreases e
{
    match e {
        LogicalSExpr::True => true,
        LogicalSExpr::False => false,
        LogicalSExpr::Var(s) => env(s),
        LogicalSExpr::Not(a) => !sx_sem(*a, env),
        LogicalSExpr::Or(a, b) => sx_sem(*a, env) || sx_sem(*b, env),
        LogicalSExpr::And(a, b) => sx_sem(*a, env) && sx_sem(*b, env),
        LogicalSExpr::Iff(a, b) => sx_sem(*a, env) == sx_sem(*b, env),
        LogicalSExpr::Xor(a, b) => sx_sem(*a, env) != sx_sem(*b, env),
        LogicalSExpr::Ite(g, t, f) => if sx_sem(*g, env) { sx_sem(*t, env) } else { sx_sem(*f, env) },
    }
}
/// the meaning of the expression tree, variables by INDEX (the definition used for C05: expr_sem)
pub open spec fn le_sem(e: LogicalExpr, env: IEnv) -> bool
    decreases e
{
    match e {
        LogicalExpr::Literal(l, p) => env(l) == p,
        LogicalExpr::Not(a) => !le_sem(*a, env),
        LogicalExpr::And(a, b) => le_sem(*a, env) && le_sem(*b, env),
        LogicalExpr::Or(a, b) => le_sem(*a, env) || le_sem(*b, env),
        LogicalExpr::Iff(a, b) => le_sem(*a, env) == le_sem(*b, env),
        LogicalExpr::Xor(a, b) => le_sem(*a, env) != le_sem(*b, env),
        LogicalExpr::Ite { guard, thn, els } => if le_sem(*guard, env) { le_sem(*thn, env) } else { le_sem(*els, env) },
    }
}
/// no constants, and every name of the expression is a key of the mapping
pub open spec fn sx_ok(e: LogicalSExpr, m: HashMap<&String, usize>) -> bool
    decreases e
{
    match e {
        LogicalSExpr::True => false,
        LogicalSExpr::False => false,
        LogicalSExpr::Var(s) => m.has_key(&s),
        LogicalSExpr::Not(a) => sx_ok(*a, m),
        LogicalSExpr::Or(a, b) => sx_ok(*a, m) && sx_ok(*b, m),
        LogicalSExpr::And(a, b) => sx_ok(*a, m) && sx_ok(*b, m),
        LogicalSExpr::Iff(a, b) => sx_ok(*a, m) && sx_ok(*b, m),
        LogicalSExpr::Xor(a, b) => sx_ok(*a, m) && sx_ok(*b, m),
        LogicalSExpr::Ite(g, t, f) => sx_ok(*g, m) && sx_ok(*t, m) && sx_ok(*f, m),
    }
}
/// the mapping gives every name at most one index
pub open spec fn functional(m: HashMap<&String, usize>) -> bool {
    forall|k: &String, v1: usize, v2: usize| #![trigger m.entries().contains((k, v1)), m.entries().contains((k, v2))]
        m.entries().contains((k, v1)) && m.entries().contains((k, v2)) ==> v1 == v2
}
/// the index the mapping gives a name
pub open spec fn idx_of(m: HashMap<&String, usize>, s: String) -> usize { choose|v: usize| m.entries().contains((&s, v)) }
/// an assignment of the indices, read through the mapping, is an assignment of the names
pub open spec fn by_name(m: HashMap<&String, usize>, env: IEnv) -> NEnv { |s: String| env(idx_of(m, s)) }

// R-hoist: `helper` is a nested fn item of `from_sexpr`.  R-asref: `x.as_ref()` on a `&Box<T>` is `&**x`.  R-borrow: `mapping.get(s)`
// (std: `K: Borrow<Q>`) is `mapping.get(&s)`.  `todo!()` on the two constants is the precondition (the property excludes constants).
//%% extract src/repr/logical_expr.rs :: impl LogicalExpr > fn from_sexpr :: fn helper
//%% @ret res
//%% @rewrite 2 /LogicalSExpr::(True|False) => todo!\(\),/ => LogicalSExpr::\1 => unreached(),
//%% @rewrite 2 /mapping\.get\(s\)/ => mapping.get(&s)
//%% @rewrite 13..14 /(\w+)\.as_ref\(\)/ => &**\1
//%% @spec
    requires sx_ok(*sexpr, *mapping), functional(*mapping),
    ensures
        // THE property: the expression tree has the models of the text, name s being index mapping[s]
        forall|env: IEnv| #[trigger] tri(env) ==> le_sem(res, env) == sx_sem(*sexpr, by_name(*mapping, env)),
    decreases sexpr,
//%% @entry
    proof {
        reveal_with_fuel(sx_ok, 3); reveal_with_fuel(sx_sem, 3); reveal_with_fuel(le_sem, 2);
        assert forall|s: String, v: usize| #[trigger] mapping.entries().contains((&s, v)) implies idx_of(*mapping, s) == v by {
            let w = idx_of(*mapping, s);
            assert(mapping.entries().contains((&s, w)));
        }
    }
//%% end

/// no constants anywhere (the property's domain)
pub open spec fn no_consts(e: LogicalSExpr) -> bool
    decreases e
{
    match e {
        LogicalSExpr::True => false,
        LogicalSExpr::False => false,
        LogicalSExpr::Var(s) => true,
        LogicalSExpr::Not(a) => no_consts(*a),
        LogicalSExpr::Or(a, b) => no_consts(*a) && no_consts(*b),
        LogicalSExpr::And(a, b) => no_consts(*a) && no_consts(*b),
        LogicalSExpr::Iff(a, b) => no_consts(*a) && no_consts(*b),
        LogicalSExpr::Xor(a, b) => no_consts(*a) && no_consts(*b),
        LogicalSExpr::Ite(g, t, f) => no_consts(*g) && no_consts(*t) && no_consts(*f),
    }
}
impl LogicalSExpr {
    /// A-varmap: `variable_mapping` (HashSet unions, `sort` on `&String`, `HashMap::from_iter` over `enumerate`) is std / String code
    /// outside the verifier.  Assumed: the map it returns gives every name of the expression exactly one index.  WHICH index -- the
    /// documented lexicographic numbering -- is NOT assumed and not proved; the bounded check `ser` observes it.
    #[verifier::external_body]
    pub fn variable_mapping(&self) -> (r: HashMap<&String, usize>)
        ensures functional(r), no_consts(*self) ==> sx_ok(*self, r),
    { unimplemented!() }
}
impl LogicalExpr {
//%% extract src/repr/logical_expr.rs :: impl LogicalExpr :: fn from_sexpr
//%% @ret res
//%% @dropinner fn helper
//%% @spec
        requires no_consts(*sexpr),
        ensures
            // the expression tree has the models of the text under SOME one-to-one-valued numbering of its names (which one: A-varmap)
            exists|m: HashMap<&String, usize>| functional(m) && sx_ok(*sexpr, m)
                && forall|env: IEnv| #[trigger] tri(env) ==> le_sem(res, env) == sx_sem(*sexpr, by_name(m, env)),
//%% end
}
