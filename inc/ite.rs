// ---- src/builder/cache/ite.rs: standard-triple normalisation ----
#[derive(Clone, Copy)]
//%% extract src/builder/cache/ite.rs :: - :: enum Ite
//%% @pub
//%% end
use Ite::*;

pub open spec fn ite_sem<T: DDNNFPtr>(i: Ite<T>, env: Env) -> bool {
    match i {
        Ite::IteChoice { f, g, h } => ite3(f.sem(env), g.sem(env), h.sem(env)),
        Ite::IteComplChoice { f, g, h } => !ite3(f.sem(env), g.sem(env), h.sem(env)),
        Ite::IteConst(c) => c.sem(env),
    }
}

pub open spec fn ite_arg<T: DDNNFPtr>(a: T, f: T, g: T, h: T) -> bool {
    a == f || a == g || a == h || a.is_true_s() || a.is_false_s()
}
/// a is one of the arguments, the negation of one, or a constant
pub open spec fn ite_arg2<T: DDNNFPtr>(a: T, f: T, g: T, h: T) -> bool {
    ite_arg(a, f, g, h) || a == f.neg_s() || a == g.neg_s() || a == h.neg_s()
}
/// every pointer in the standard triple is derived from the arguments
#[verifier::opaque]
pub open spec fn ite_parts_from<T: DDNNFPtr>(i: Ite<T>, f: T, g: T, h: T) -> bool {
    match i {
        Ite::IteChoice { f: a, g: b, h: c } | Ite::IteComplChoice { f: a, g: b, h: c } =>
            ite_arg2(a, f, g, h) && ite_arg2(b, f, g, h) && ite_arg2(c, f, g, h),
        Ite::IteConst(c) => ite_arg2(c, f, g, h),
    }
}

/// argument a is a constant, or it (or its negation) survives in the standard triple
#[verifier::opaque]
pub open spec fn ite_covers<T: DDNNFPtr>(a: T, i: Ite<T>) -> bool {
    a.is_true_s() || a.is_false_s() || match i {
        Ite::IteChoice { f, g, h } | Ite::IteComplChoice { f, g, h } =>
            a == f || a == g || a == h || a == f.neg_s() || a == g.neg_s() || a == h.neg_s(),
        Ite::IteConst(_) => true,
    }
}

impl<T: DDNNFPtr> Ite<T> {
//%% extract src/builder/cache/ite.rs :: impl<'a, T: DDNNFPtr<'a>> Ite<T> :: fn new
//%% @ret r
//%% @spec
        requires
            // `order` is only ever applied to the arguments themselves or to constants
            forall|a: T, b: T| ite_arg(a, f, g, h) && ite_arg(b, f, g, h) ==> order.requires((a, b)),
        ensures
            forall|env: Env| #[trigger] tr(env) ==> ite_sem(r, env) == ite3(f.sem(env), g.sem(env), h.sem(env)),
            !(r is IteConst) ==> !(f.is_true_s() || f.is_false_s()),
            ite_parts_from(r, f, g, h),
            ite_covers(f, r) && ite_covers(g, r) && ite_covers(h, r),
//%% @entry
        proof { T::eq_is_sem(); reveal(ite_parts_from); reveal(ite_covers); }
//%% end

//%% extract src/builder/cache/ite.rs :: impl<'a, T: DDNNFPtr<'a>> Ite<T> :: fn is_compl_choice
//%% @ret b
//%% @spec
        ensures b == (self is IteComplChoice),
//%% end
}
