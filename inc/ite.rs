// ---- src/builder/cache/ite.rs: standard-triple normalisation ----
#[derive(Clone, Copy)]
//%% extract src/builder/cache/ite.rs :: - :: enum Ite
//%% @pub
//%% end
use Ite::*;

pub open spec fn ite_sem<T: DDNNFPtr>(i: Ite<T>, env: Env) -> bool {
    match i {
        Ite::IteChoice { f, g, h } => ite3(f.sem(env), g.sem(env), h.sem(env)),
        Ite::IteComplChoice { f, g, h } => !ite3(f.sem(env), g.sem(env), h.sem(env)),
        Ite::IteConst(c) => c.sem(env),
    }
}

impl<T: DDNNFPtr> Ite<T> {
//%% extract src/builder/cache/ite.rs :: impl<'a, T: DDNNFPtr<'a>> Ite<T> :: fn new
//%% @ret r
//%% @spec
        requires
            forall|a: T, b: T| order.requires((a, b)),
        ensures
            forall|env: Env| #[trigger] tr(env) ==> ite_sem(r, env) == ite3(f.sem(env), g.sem(env), h.sem(env)),
            !(r is IteConst) ==> !(f.is_true_s() || f.is_false_s()),
//%% @entry
        proof { T::eq_is_sem(); }
//%% end

//%% extract src/builder/cache/ite.rs :: impl<'a, T: DDNNFPtr<'a>> Ite<T> :: fn is_compl_choice
//%% @ret b
//%% @spec
        ensures b == (self is IteComplChoice),
//%% end
}
