// ---- REFINEMENT: the real SATSolver (contracts of unit satsolver) implements the interface A-sat that the top-down compiler is
// verified against (prelude/satiface.rs), with the formula's truth function instantiated by "every clause holds" ----
pub mod iface {
use super::*;
//%% include prelude/satiface.rs
}

/// abstraction relation: the (finite) map pm is the partial model m seen as label -> assigned value
pub open spec fn rep(pm: iface::PM, m: PartialModel) -> bool {
    forall|x: u64| #![trigger pm.contains_key(x)] #![trigger m.val(VarLabel(x))]
        pm.contains_key(x) == (m.val(VarLabel(x)) is Some) && (pm.contains_key(x) ==> pm[x] == m.val(VarLabel(x))->Some_0)
}
/// the truth function of a clause list
pub open spec fn sem_cs(cs: Seq<Vec<Literal>>) -> iface::Sem { |env: Env| cnf_holds(cs, env) }

pub proof fn lemma_agrees_abs(env: Env, pm: iface::PM, m: PartialModel)
    requires rep(pm, m),
    ensures iface::agrees(env, pm) == agrees(env, m),
{
    if iface::agrees(env, pm) {
        assert forall|x: VarLabel| (#[trigger] m.val(x)) is Some implies env(x.0) == m.val(x)->Some_0 by {
            assert(VarLabel(x.0) == x); assert(pm.contains_key(x.0));
        }
    }
    if agrees(env, m) {
        assert forall|x: u64| #[trigger] pm.contains_key(x) implies env(x) == pm[x] by { assert(m.val(VarLabel(x)) is Some); }
    }
}
pub proof fn lemma_submodel_abs(pm0: iface::PM, m0: PartialModel, pm2: iface::PM, m2: PartialModel)
    requires rep(pm0, m0), rep(pm2, m2), extends(m2, m0),
    ensures iface::submodel(pm0, pm2),
{
    assert forall|x: u64| #[trigger] pm0.contains_key(x) implies pm2.contains_key(x) && pm2[x] == pm0[x] by {
        assert(m0.val(VarLabel(x)) is Some);
    }
}
/// A-sat, `decide` not reporting UNSAT: the pushed model extends the old top by the literal and by ENTAILED values only
/// (the clause "SAT => every extension satisfies the formula" concerns the is_sat flag and is NOT covered: sat = false)
pub proof fn lemma_refines_decide_ok(cs: Seq<Vec<Literal>>, pm0: iface::PM, m0: PartialModel, lit: Literal, pm2: iface::PM, m2: PartialModel)
    requires rep(pm0, m0), rep(pm2, m2), extends(m2, m0), m2.val(lit.lbl) == Some(lit.pol), entailed(cs, m0, lit, m2),
    ensures iface::decide_ok_g(sem_cs(cs), pm0, lit.lbl.0, lit.pol, false, pm2),
{
    lemma_submodel_abs(pm0, m0, pm2, m2);
    assert(pm2.contains_key(lit.lbl.0) && pm2[lit.lbl.0] == lit.pol) by { assert(VarLabel(lit.lbl.0) == lit.lbl); }
    assert forall|env: Env| #[trigger] tr(env) implies (iface::agrees(env, pm0) && env(lit.lbl.0) == lit.pol && sem_cs(cs)(env) ==> iface::agrees(env, pm2)) by {
        lemma_agrees_abs(env, pm0, m0); lemma_agrees_abs(env, pm2, m2);
        if agrees(env, m0) && env(lit.lbl.0) == lit.pol && cnf_holds(cs, env) { assert(lit_holds(lit, env)); assert(agrees(env, m2)); }
    }
}
/// A-sat, `decide` reporting UNSAT
pub proof fn lemma_refines_decide_unsat(cs: Seq<Vec<Literal>>, pm0: iface::PM, m0: PartialModel, lit: Literal)
    requires rep(pm0, m0), refuted(cs, m0, lit),
    ensures iface::decide_unsat_g(sem_cs(cs), pm0, lit.lbl.0, lit.pol),
{
    assert forall|env: Env| #[trigger] tr(env) implies (iface::agrees(env, pm0) && env(lit.lbl.0) == lit.pol ==> !sem_cs(cs)(env)) by {
        lemma_agrees_abs(env, pm0, m0);
        if agrees(env, m0) && env(lit.lbl.0) == lit.pol { assert(lit_holds(lit, env)); assert(!cnf_holds(cs, env)); }
    }
}
/// A-sat, "a model that assigns every variable satisfies the formula", for every frame of a solver that satisfies the invariant
/// and still has its initially propagated frame (depth >= 2)
pub proof fn lemma_refines_sound_model(s: SATSolver, k: int, pm: iface::PM)
    requires s.solver_ok(), s.state_stack@.len() >= 2, 0 <= k < s.state_stack@.len(), rep(pm, s.frame(k)),
    ensures iface::sound_model_g(sem_cs(s.cs()), s.up.cnf.num_vars as nat, pm),
{
    let cs = s.cs(); let m = s.frame(k); let nv = s.up.cnf.num_vars as nat;
    if iface::total(pm, nv) {
        // every literal of every clause is assigned
        assert forall|i: int, j: int| 0 <= i < cs.len() && 0 <= j < cs[i]@.len() implies m.val((#[trigger] cs[i]@[j]).lbl) is Some by {
            let l = cs[i]@[j];
            assert(s.up.cnf.clauses[i][j] == l);
            assert(l.lbl.0 < s.up.cnf.num_vars);
            assert(pm.contains_key(l.lbl.0));
            assert(VarLabel(l.lbl.0) == l.lbl);
        }
        // the literal of every one-literal clause is assigned TRUE: by the invariant from frame 1 on; in frame 0 because frame 1 extends it
        assert(units_assigned(cs, m)) by {
            if k == 0 {
                assert(units_assigned(cs, s.frame(1)));
                assert(extends(s.frame(1), s.frame(0)));
                assert forall|i: int| 0 <= i < cs.len() && (#[trigger] cs[i])@.len() == 1 implies m.val(cs[i]@[0].lbl) == Some(cs[i]@[0].pol) by {
                    assert(m.val(cs[i]@[0].lbl) is Some);
                }
            }
        }
        assert(m.wf() && s.up.watch_ok(m));
        lemma_fixpoint(s.up, m);
        lemma_total_model_satisfies(cs, m);
        assert forall|env: Env| #[trigger] tr(env) implies (iface::agrees(env, pm) ==> sem_cs(cs)(env)) by {
            lemma_agrees_abs(env, pm, m);
            if agrees(env, m) { lemma_true_p_holds(cs, m, env); }
        }
    }
}
/// a formula all of whose clauses have a literal assigned true by m holds under every assignment that agrees with m
pub proof fn lemma_true_p_holds(cs: Seq<Vec<Literal>>, m: PartialModel, env: Env)
    requires cnf_true_p(cs, m), agrees(env, m),
    ensures cnf_holds(cs, env),
{
    assert forall|i: int| 0 <= i < cs.len() implies clause_holds((#[trigger] cs[i])@, env) by {
        assert(clause_true_p(cs[i]@, m));
        let j = choose|j: int| 0 <= j < cs[i]@.len() && lit_true_p(#[trigger] cs[i]@[j], m);
        assert(lit_holds(cs[i]@[j], env));
    }
}
/// A-sat, `decide` answering SAT: with the flag's meaning (unit satsolver: SAT <=> every clause of the solver's list has a true literal) and
/// the shape of that list (wnorm: a proved postcondition of SATSolver::new), the full clause of the interface -- SAT => every extension satisfies the formula -- holds
pub proof fn lemma_refines_decide_ok_sat(s: SATSolver, pm0: iface::PM, m0: PartialModel, lit: Literal, pm2: iface::PM, m2: PartialModel)
    requires rep(pm0, m0), rep(pm2, m2), extends(m2, m0), m2.val(lit.lbl) == Some(lit.pol), entailed(s.cs(), m0, lit, m2),
        wnorm(s), s.all_wtrue(m2),
    ensures iface::decide_ok_g(sem_cs(s.cs()), pm0, lit.lbl.0, lit.pol, true, pm2),
{
    lemma_refines_decide_ok(s.cs(), pm0, m0, lit, pm2, m2);
    assert forall|env: Env| #[trigger] tr(env) implies (iface::agrees(env, pm2) ==> sem_cs(s.cs())(env)) by {
        lemma_agrees_abs(env, pm2, m2);
        if agrees(env, m2) { lemma_sat_extensions(s, m2, env); }
    }
}
/// A-sat, `SATSolver::new`: None only for an unsatisfiable formula; otherwise two frames, the first one empty, the second one holding
/// literals ENTAILED by the formula (the interface's init_ok), every frame sound -- from the contract proved for the real constructor
pub proof fn lemma_refines_new_none(cs: Seq<Vec<Literal>>)
    requires unsat(cs),
    ensures forall|env: Env| #[trigger] tr(env) ==> !sem_cs(cs)(env),
{}
pub proof fn lemma_refines_new_some(s: SATSolver, cnf: Cnf, pm1: iface::PM)
    requires s.solver_ok(), s.state_stack@.len() == 2, s.up.cnf == cnf, implied_by(cnf.clauses@, s.top()), rep(pm1, s.top()),
    ensures
        forall|env: Env| #[trigger] tr(env) ==> (sem_cs(cnf.clauses@)(env) ==> iface::agrees(env, pm1)),
        iface::sound_model_g(sem_cs(s.cs()), s.up.cnf.num_vars as nat, pm1),
{
    assert forall|env: Env| #[trigger] tr(env) implies (sem_cs(cnf.clauses@)(env) ==> iface::agrees(env, pm1)) by {
        lemma_agrees_abs(env, pm1, s.top());
        if cnf_holds(cnf.clauses@, env) { assert(agrees(env, s.top())); }
    }
    lemma_refines_sound_model(s, 1, pm1);
}
