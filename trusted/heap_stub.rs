// ---- A-heap: `std::collections::BinaryHeap` is std code Verus has no specification for.  In the builder units it is
// this opaque stub whose view is the sequence of elements it holds, in an order nothing is assumed about: `pop`
// returns SOME held element and removes that one occurrence (the real heap returns the greatest under `Ord`, here the
// smallest `sz`; which one is a heuristic the property does not depend on, so the proof covers every pop order).
#[verifier::external_body]
#[verifier::reject_recursive_types(T)]
pub struct BinaryHeap<T> { _p: std::marker::PhantomData<T> }
impl<T> BinaryHeap<T> {
    pub uninterp spec fn view(&self) -> Seq<T>;
    #[verifier::external_body]
    pub fn new() -> (r: Self)
        ensures r@.len() == 0,
    { unimplemented!() }
    #[verifier::external_body]
    pub fn push(&mut self, x: T)
        ensures final(self)@ == old(self)@.push(x),
    { unimplemented!() }
    #[verifier::external_body]
    pub fn pop(&mut self) -> (r: Option<T>)
        ensures
            old(self)@.len() == 0 ==> r is None && final(self)@ == old(self)@,
            old(self)@.len() > 0 ==> exists|i: int| 0 <= i < old(self)@.len() && r == Some(#[trigger] old(self)@[i]) && final(self)@ == old(self)@.remove(i),
    { unimplemented!() }
    #[verifier::external_body]
    pub fn len(&self) -> (r: usize)
        ensures r == self@.len(),
    { unimplemented!() }
}

//%% extract src/builder/bdd/mod.rs :: - :: struct CompiledCNF
//%% @pub
//%% end

/// a literal's value once the partial model `m` has fixed some variables
pub open spec fn lit_under(l: Literal, m: &PartialModel, env: Env) -> bool {
    match m.val(l.lbl) { None => lit_holds(l, env), Some(v) => v == l.pol }
}
pub open spec fn clause_holds_under(c: Seq<Literal>, m: &PartialModel, env: Env) -> bool {
    exists|j: int| 0 <= j < c.len() && lit_under(#[trigger] c[j], m, env)
}
pub open spec fn cnf_holds_under(cs: Seq<Vec<Literal>>, m: &PartialModel, env: Env) -> bool {
    forall|i: int| 0 <= i < cs.len() ==> clause_holds_under((#[trigger] cs[i])@, m, env)
}
/// the environment `env` overridden by the partial model
pub open spec fn over(env: Env, m: &PartialModel) -> Env {
    |x: u64| match m.val(VarLabel(x)) { Some(v) => v, None => env(x) }
}
/// "compile under the assignment" means "the formula evaluated with the assigned variables overridden" -- i.e. the
/// formula conditioned on the assignment
pub proof fn lemma_under_is_override(cs: Seq<Vec<Literal>>, m: &PartialModel, env: Env)
    ensures cnf_holds_under(cs, m, env) == cnf_holds(cs, over(env, m)),
{
    assert forall|i: int| 0 <= i < cs.len() implies clause_holds_under((#[trigger] cs[i])@, m, env) == clause_holds(cs[i]@, over(env, m)) by {
        let c = cs[i]@;
        assert forall|j: int| 0 <= j < c.len() implies lit_under(#[trigger] c[j], m, env) == lit_holds(c[j], over(env, m)) by {
            assert(VarLabel(c[j].lbl.0) == c[j].lbl);
        }
    }
}

/// every pointer held in the heap is true under env
pub open spec fn all_sem(s: Seq<CompiledCNF>, env: Env) -> bool {
    forall|k: int| 0 <= k < s.len() ==> (#[trigger] s[k]).ptr.sem(env)
}
pub proof fn lemma_all_sem_remove(s: Seq<CompiledCNF>, i: int, env: Env)
    requires 0 <= i < s.len(),
    ensures all_sem(s, env) == (s[i].ptr.sem(env) && all_sem(s.remove(i), env)),
{
    let t = s.remove(i);
    if all_sem(s, env) {
        assert forall|k: int| 0 <= k < t.len() implies (#[trigger] t[k]).ptr.sem(env) by {
            if k < i { assert(t[k] == s[k]); } else { assert(t[k] == s[k + 1]); }
        }
    }
    if s[i].ptr.sem(env) && all_sem(t, env) {
        assert forall|k: int| 0 <= k < s.len() implies (#[trigger] s[k]).ptr.sem(env) by {
            if k < i { assert(t[k] == s[k]); } else if k > i { assert(t[k - 1] == s[k]); }
        }
    }
}
pub proof fn lemma_all_sem_push(s: Seq<CompiledCNF>, x: CompiledCNF, env: Env)
    ensures all_sem(s.push(x), env) == (all_sem(s, env) && x.ptr.sem(env)),
{
    let t = s.push(x);
    if all_sem(t, env) {
        assert forall|k: int| 0 <= k < s.len() implies (#[trigger] s[k]).ptr.sem(env) by { assert(t[k] == s[k]); }
        assert(t[s.len() as int] == x);
    }
    if all_sem(s, env) && x.ptr.sem(env) {
        assert forall|k: int| 0 <= k < t.len() implies (#[trigger] t[k]).ptr.sem(env) by {
            if k < s.len() { assert(t[k] == s[k]); } else { assert(t[k] == x); }
        }
    }
}
