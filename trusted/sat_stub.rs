// ---- A-sat (assumed contract of a dependency): `SATSolver` (src/repr/unit_prop.rs: unit propagation with watched
// literals, a state stack and an incremental residual hash) is NOT verified here (C09 is not applicable: its code is
// built from iterator adapters over closures).  For the top-down compiler it is this opaque stub whose contract states
// what the compiler relies on:
//   * the solver state is a stack of partial models (label -> value); `decide` either reports UNSAT and leaves the stack
//     alone, or pushes a model that extends the top one by the decided literal and by literals ENTAILED by the formula
//     (soundness of propagation); SAT means every extension of the new model satisfies the formula;
//   * a model on the stack that assigns every variable satisfies the formula (no falsified clause goes unnoticed);
//   * `pop` removes the top model; `difference_iter().filter(|x| x.label() != v)` (here `verif_implied_except(v)`)
//     yields exactly the literals of the top model that are not in the model below, except the one on v.
// The formula's truth function is `csem_of(id, env)` for the solver's formula id; it is uninterpreted.
//%% include prelude/satiface.rs
pub uninterp spec fn csem_of(id: int, env: Env) -> bool;
/// the truth function of the solver's formula
pub open spec fn sem_of(id: int) -> Sem { |env: Env| csem_of(id, env) }
/// A-reshash: the 128-bit residual hash of a solver state is a function of its top model
pub uninterp spec fn hash_of(id: int, m: PM) -> u128;
pub open spec fn sound_model(id: int, nv: nat, m: PM) -> bool { sound_model_g(sem_of(id), nv, m) }

//%% extract src/repr/unit_prop.rs :: - :: enum DecisionResult
//%% end

/// what `decide(lit)` establishes when it does not report UNSAT: m2 is the pushed model
#[verifier::opaque]
pub open spec fn decide_ok(id: int, m0: PM, lit: Literal, sat: bool, m2: PM) -> bool {
    decide_ok_g(sem_of(id), m0, lit.lbl.0, lit.pol, sat, m2)
}
#[verifier::opaque]
pub open spec fn decide_unsat(id: int, m0: PM, lit: Literal) -> bool {
    decide_unsat_g(sem_of(id), m0, lit.lbl.0, lit.pol)
}
/// the literals handed to conjoin_implied: exactly the assignments of `top` that are not in `prev`, except the one on v
#[verifier::opaque]
pub open spec fn implied_ok(lits: Seq<Literal>, prev: PM, top: PM, v: VarLabel) -> bool {
    &&& forall|i: int| 0 <= i < lits.len() ==> (#[trigger] lits[i]).lbl != v && top.contains_key(lits[i].lbl.0) && top[lits[i].lbl.0] == lits[i].pol && !prev.contains_key(lits[i].lbl.0)
    &&& forall|i: int, j: int| 0 <= i < j < lits.len() ==> (#[trigger] lits[i]).lbl != (#[trigger] lits[j]).lbl
    &&& forall|x: u64| #[trigger] top.contains_key(x) && !prev.contains_key(x) && x != v.0 ==> exists|i: int| 0 <= i < lits.len() && (#[trigger] lits[i]).lbl.0 == x
}

#[verifier::opaque]
pub open spec fn implied_all_ok(lits: Seq<Literal>, prev: PM, top: PM) -> bool {
    &&& forall|i: int| 0 <= i < lits.len() ==> top.contains_key((#[trigger] lits[i]).lbl.0) && top[lits[i].lbl.0] == lits[i].pol && !prev.contains_key(lits[i].lbl.0)
    &&& forall|i: int, j: int| 0 <= i < j < lits.len() ==> (#[trigger] lits[i]).lbl != (#[trigger] lits[j]).lbl
    &&& forall|x: u64| #[trigger] top.contains_key(x) && !prev.contains_key(x) ==> exists|i: int| 0 <= i < lits.len() && (#[trigger] lits[i]).lbl.0 == x
}

#[verifier::external_body]
pub struct SATSolver { _p: u8 }

impl SATSolver {
    pub uninterp spec fn stack(&self) -> Seq<PM>;
    pub uninterp spec fn id(&self) -> int;
    pub uninterp spec fn nv(&self) -> nat;
    pub open spec fn top(&self) -> PM { self.stack().last() }
    pub open spec fn wf(&self) -> bool {
        self.stack().len() >= 1 && forall|i: int| 0 <= i < self.stack().len() ==> sound_model(self.id(), self.nv(), #[trigger] self.stack()[i])
    }

    #[verifier::external_body]
    pub fn is_sat(&self) -> (b: bool)
        requires self.wf(),
        ensures b ==> forall|env: Env| #[trigger] tr(env) ==> (agrees(env, self.top()) ==> csem_of(self.id(), env)),
    { unimplemented!() }

    #[verifier::external_body]
    pub fn is_set(&self, var: VarLabel) -> (b: bool)
        requires self.wf(),
        ensures b == self.top().contains_key(var.0),
    { unimplemented!() }

    #[verifier::external_body]
    pub fn cur_hash(&self) -> (h: u128)
        requires self.wf(),
        ensures h == hash_of(self.id(), self.top()),
    { unimplemented!() }

    #[verifier::external_body]
    pub fn decide(&mut self, assignment: Literal) -> (r: DecisionResult)
        requires old(self).wf(), !old(self).top().contains_key(assignment.lbl.0),
        ensures
            final(self).id() == old(self).id(), final(self).nv() == old(self).nv(), final(self).wf(),
            r is UNSAT ==> final(self).stack() == old(self).stack() && decide_unsat(old(self).id(), old(self).top(), assignment),
            !(r is UNSAT) ==> final(self).stack() == old(self).stack().push(final(self).top())
                && decide_ok(old(self).id(), old(self).top(), assignment, r is SAT, final(self).top())
                && submodel(old(self).top(), final(self).top()) && final(self).top().contains_key(assignment.lbl.0),
    { unimplemented!() }

    #[verifier::external_body]
    pub fn pop(&mut self)
        requires old(self).wf(), old(self).stack().len() >= 2,
        ensures final(self).stack() == old(self).stack().drop_last(), final(self).id() == old(self).id(), final(self).nv() == old(self).nv(), final(self).wf(),
    { unimplemented!() }

    /// stands for `self.difference_iter()` (all literals of the top model that are not in the model below)
    #[verifier::external_body]
    pub fn verif_implied_all(&self) -> (it: LitIter)
        requires self.wf(), self.stack().len() >= 2,
        ensures implied_all_ok(it.lits(), self.stack()[self.stack().len() - 2], self.top()),
    { unimplemented!() }

    /// stands for `self.difference_iter().filter(|x| x.label() != v)`
    #[verifier::external_body]
    pub fn verif_implied_except(&self, v: VarLabel) -> (it: LitIter)
        requires self.wf(), self.stack().len() >= 2,
        ensures implied_ok(it.lits(), self.stack()[self.stack().len() - 2], self.top(), v),
    { unimplemented!() }
}

/// `SATSolver::new(cnf.clone())`: `None` iff unit propagation at the start finds a conflict; otherwise a solver whose stack
/// is [the empty model, the model of the literals entailed at the start]
#[verifier::opaque]
pub open spec fn init_ok(id: int, top: PM) -> bool {
    forall|env: Env| #[trigger] tr(env) ==> (csem_of(id, env) ==> agrees(env, top))
}
#[verifier::external_body]
pub fn verif_solver_new(cnf: &Cnf) -> (r: Option<SATSolver>)
    ensures
        r is None ==> forall|env: Env| #[trigger] tr(env) ==> !csem_of(cnf.id_s(), env),
        r matches Some(s) ==> s.id() == cnf.id_s() && s.nv() == cnf.nv_s() && s.wf() && s.stack().len() == 2
            && s.stack()[0] == Map::<u64, bool>::empty() && init_ok(cnf.id_s(), s.top()),
{ unimplemented!() }
#[verifier::external_body]
pub fn verif_empty_cache<'a>() -> (c: FxHashMap<u128, BddPtr<'a>>)
    ensures c.entries() == ISet::<(u128, BddPtr<'a>)>::empty(),
{ unimplemented!() }

/// A-reshash: component caching is sound -- two solver states (top models) with the same residual hash are
/// interchangeable: a diagram that is valid for one is valid for the other.  (On the real code this rests on the
/// prime-product hash identifying the residual formula and on diagrams mentioning residual variables only.)
#[verifier::external_body]
pub proof fn axiom_reshash(id: int)
    ensures forall|m1: PM, m2: PM, r: BddPtr| #![trigger valid_for(r, m1, id), hash_of(id, m2)] hash_of(id, m1) == hash_of(id, m2) && valid_for(r, m1, id) ==> valid_for(r, m2, id),
{}
