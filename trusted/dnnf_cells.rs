// ---- R-refcell / A-unsafe for StandardDecisionNNFBuilder: `compute_table: RefCell<BackedRobinhoodTable>` is
// replaced by a stub whose `table_get_or_insert` carries the contract proved for the real table in unit
// `table` (the returned reference points to a node equal to the argument).
#[verifier::external_body]
pub struct StandardDecisionNNFBuilder<'a> { _p: core::marker::PhantomData<&'a u8> }

impl<'a> StandardDecisionNNFBuilder<'a> {
    /// the `order: VarOrder` field (never mutated after construction)
    pub uninterp spec fn order_view(&self) -> VarOrder;
    #[verifier::external_body]
    pub fn order_ref(&'a self) -> (r: &'a VarOrder)
        ensures *r == self.order_view(),
    { unimplemented!() }

    #[verifier::external_body]
    pub fn table_get_or_insert(&'a self, n: BddNode<'a>) -> (r: &'a BddNode<'a>)
        ensures *r == n,
    { unimplemented!() }
}

/// A-scratch: R-scratch removes the per-node `RefCell<Option<Box<dyn Any>>>` memo.  `bdd.scratch::<BddPtr>()`
/// is replaced by this stub, which answers `None`: no code in the crate ever stores a `BddPtr` in a scratch
/// slot (the `set_scratch` line of cond_helper is commented out) and a slot holding any other type reads as
/// `None` through the typed downcast.
#[verifier::external_body]
pub fn verif_scratch_bddptr<'a>(p: &BddPtr<'a>) -> (r: Option<BddPtr<'a>>)
    ensures r is None,
{ unimplemented!() }
