// ---- A-cnf-stub / A-iter-std: in the builder units `Cnf` is an opaque stub exposing its clause list (`cls()`);
// `clauses()` is the real accessor's contract.  Two std iterator expressions of `compile_cnf` are replaced by stubs
// that state the documented std semantics:
//   verif_any_empty_clause(cs)  ==  cs.iter().any(|x| x.is_empty())
//   verif_sort_clauses(cs)      ==  { let mut v = cs.to_vec(); v.sort_by(<comparator>); v }   -- some rearrangement
// of the clauses: the comparator (a best-effort heuristic built from `less_than` through `max_by`) is NOT verified
// and nothing is assumed about the order it produces.
#[verifier::external_body]
pub struct Cnf { _p: u8 }
impl Cnf {
    pub uninterp spec fn cls(&self) -> Seq<Vec<Literal>>;
    pub uninterp spec fn nv_s(&self) -> nat;
    /// identity of the formula's truth function (`csem_of(id, env)` in trusted/sat_stub.rs)
    pub uninterp spec fn id_s(&self) -> int;
    #[verifier::external_body]
    pub fn num_vars(&self) -> (r: usize)
        ensures r == self.nv_s(),
    { unimplemented!() }
    #[verifier::external_body]
    pub fn clauses(&self) -> (r: &[Vec<Literal>])
        ensures r@ == self.cls(),
    { unimplemented!() }
}
#[verifier::external_body]
pub fn verif_any_empty_clause(cs: &[Vec<Literal>]) -> (b: bool)
    ensures b == (exists|i: int| 0 <= i < cs.len() && (#[trigger] cs@[i]).len() == 0),
{ unimplemented!() }
/// the rearrangement chosen by the sort: position i of the result holds clause `sort_perm(cs)[i]` of the input, and
/// `sort_inv(cs)[k]` is where input clause k ends up (two mutually inverse index maps = "some permutation")
pub uninterp spec fn sort_perm(cs: Seq<Vec<Literal>>) -> Seq<int>;
pub uninterp spec fn sort_inv(cs: Seq<Vec<Literal>>) -> Seq<int>;
#[verifier::external_body]
pub fn verif_sort_clauses(cs: &[Vec<Literal>]) -> (v: Vec<Vec<Literal>>)
    ensures
        v.len() == cs.len(), sort_perm(cs@).len() == cs.len(), sort_inv(cs@).len() == cs.len(),
        forall|i: int| 0 <= i < v.len() ==> 0 <= #[trigger] sort_perm(cs@)[i] < cs.len() && v@[i]@ == cs@[sort_perm(cs@)[i]]@,
        forall|k: int| 0 <= k < cs.len() ==> 0 <= #[trigger] sort_inv(cs@)[k] < cs.len() && sort_perm(cs@)[sort_inv(cs@)[k]] == k,
{ unimplemented!() }

/// propositional meaning of a clause list under an environment (the definition, independent of the code)
pub open spec fn lit_holds(l: Literal, env: Env) -> bool { env(l.lbl.0) == l.pol }
pub open spec fn clause_holds(c: Seq<Literal>, env: Env) -> bool { exists|j: int| 0 <= j < c.len() && lit_holds(#[trigger] c[j], env) }
pub open spec fn cnf_holds(cs: Seq<Vec<Literal>>, env: Env) -> bool { forall|i: int| 0 <= i < cs.len() ==> clause_holds((#[trigger] cs[i])@, env) }
