// ---- A-sat-iters: the three iterator expressions of SATSolver::update_hash_and_sat_set that are outside Verus, as vector stubs ----
/// `new_model.difference(&old)` (PartialModel::difference: two bit-set differences mapped to literals and chained): the literals
/// that are assigned in `new` and not in `old`, each variable once
#[verifier::external_body]
pub fn verif_difference_vec(new_model: &PartialModel, old: &PartialModel) -> (r: Vec<Literal>)
    requires new_model.wf(), old.wf(), extends(*new_model, *old),
    ensures
        forall|k: int| 0 <= k < r@.len() ==> new_model.val((#[trigger] r@[k]).lbl) == Some(r@[k].pol) && old.val(r@[k].lbl) is None,
        forall|x: VarLabel| new_model.val(x) is Some && old.val(x) is None ==> exists|k: int| 0 <= k < r@.len() && (#[trigger] r@[k]).lbl == x,
{ unimplemented!() }
/// `bitset.iter()`: the elements of the set
#[verifier::external_body]
pub fn verif_bitset_vec(b: &BitSet) -> (r: Vec<usize>)
    ensures
        forall|k: int| 0 <= k < r@.len() ==> b@.contains(#[trigger] r@[k]),
        forall|x: usize| b@.contains(x) ==> exists|k: int| 0 <= k < r@.len() && #[trigger] r@[k] == x,
{ unimplemented!() }
/// `u128::wrapping_mul` (feeds the residual hash only; nothing is assumed about it)
#[verifier::external_body]
pub fn verif_wrapping_mul(a: u128, b: u128) -> (r: u128) { unimplemented!() }
/// A-bitset-len: `len()` is the number of elements, so a set of indices below n has n elements exactly when it holds all of them
#[verifier::external_body]
pub proof fn axiom_bitset_full(b: BitSet, n: nat)
    requires forall|x: usize| b@.contains(x) ==> x < n,
    ensures (b.len_s() == n) == (forall|x: usize| x < n ==> b@.contains(x)),
{}
