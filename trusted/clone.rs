// ---- A-clone: `Clone::clone` of the cache's key/value types returns an equal value.
// The builders instantiate K, V with `Copy` pointer types (and tuples of them), for which clone is a bit copy.
// (`cloned(a, b)` is vstd's name for `call_ensures(T::clone, (&a,), b)`; the latter is the term the verifier sees.)
#[verifier::external_body]
pub proof fn axiom_clone_eq<T: Clone>()
    ensures forall|a: T, b: T| #[trigger] call_ensures(T::clone, (&a,), b) ==> a == b,
{}
