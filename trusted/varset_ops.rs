// ---- A-varset: the set-algebra wrappers of VarSet (`new`, `union`, `minus`, `intersect_varset`) are one-line
// rsdd functions over BitSet *iterators* (`self.b.union(&other.b).collect()`), which Verus cannot read; they are
// trusted to compute the set operation they name.  (`insert`, `contains`, `remove` are extracted and proved in unit cnf.)
/// c is the union of a and b
pub open spec fn is_union(a: VarSet, b: VarSet, c: VarSet) -> bool {
    forall|v: VarLabel| #[trigger] c.has(v) == (a.has(v) || b.has(v))
}

impl VarSet {
    #[verifier::external_body]
    pub fn new() -> (r: VarSet)
        ensures forall|v: VarLabel| !r.has(v),
    { unimplemented!() }

    #[verifier::external_body]
    pub fn is_empty(&self) -> (r: bool)
        ensures r == (forall|v: VarLabel| !self.has(v)),
    { unimplemented!() }

    #[verifier::external_body]
    pub fn union(&self, other: &VarSet) -> (r: VarSet)
        ensures is_union(*self, *other, r),
    { unimplemented!() }

    #[verifier::external_body]
    pub fn minus(&self, other: &VarSet) -> (r: VarSet)
        ensures forall|v: VarLabel| #[trigger] r.has(v) == (self.has(v) && !other.has(v)),
    { unimplemented!() }

    #[verifier::external_body]
    pub fn intersect_varset(&self, other: &VarSet) -> (r: VarSet)
        ensures forall|v: VarLabel| #[trigger] r.has(v) == (self.has(v) && other.has(v)),
    { unimplemented!() }
}
