// ---- A-hash: hashing is a deterministic function of the key.  `H` is uninterpreted: no property other
// than functionality is ever used, so every collision pattern is covered.
pub uninterp spec fn H<K>(k: K) -> u64;
