// ---- A-scratch-fold: the per-node scratch memo (`RefCell<Option<Box<dyn Any>>>`, R-scratch) as seen by ONE fold ----
// `BddPtr::scratch::<DDNNFCache<T>>()` / `set_scratch` are replaced (declared rewrites in inc/fold.rs) by the two accessors
// below, which additionally receive the fold's closure `f`: the memo invariant "slot 0 holds the value of the COMPLEMENTED
// pointer to this node, slot 1 the value of the REGULAR pointer, both for this f" is ASSUMED where the memo is read and
// PROVED where it is written (it is the precondition of the write).  What this rests on, unverified: every slot is empty
// when a fold starts (`debug_assert!(self.is_scratch_cleared())`; that is property C10, not applicable) and nothing but this
// fold writes a `DDNNFCache<T>` during it; a value of another type left in a slot reads as `None` (typed downcast).
pub open spec fn memo_ok<T: Semiring, F: Fn(DDNNF<T>) -> T>(p: BddPtr, f: F, m: DDNNFCache<T>) -> bool {
    &&& m.0 matches Some(v) ==> v.valid()
    &&& m.1 matches Some(v) ==> v.valid()
    &&& forall|g: Alg<T>| #[trigger] f_det(f, g) ==>
        (m.0 matches Some(v) ==> v == bfs(p, !(p is Compl), g))
        && (m.1 matches Some(v) ==> v == bfs(p, p is Compl, g))
}
#[verifier::external_body]
pub fn verif_fold_scratch<T: Semiring + 'static, F: Fn(DDNNF<T>) -> T>(p: &BddPtr, f: &F) -> (r: Option<DDNNFCache<T>>)
    ensures r matches Some(m) ==> memo_ok(*p, *f, m)
{ unimplemented!() }
#[verifier::external_body]
pub fn verif_fold_set_scratch<T: Semiring + 'static, F: Fn(DDNNF<T>) -> T>(p: &BddPtr, f: &F, m: DDNNFCache<T>)
    requires is_node(*p), memo_ok(*p, *f, m)
{ unimplemented!() }
impl<'a> BddPtr<'a> {
    /// clears the memo of every node below (R-scratch: no effect on any value under contract)
    #[verifier::external_body]
    pub fn clear_scratch(&self) { unimplemented!() }
}

