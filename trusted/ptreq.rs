// ---- A-ptreq: `impl PartialEq for BddPtr` compares node *addresses* (std::ptr::eq) and enum discriminants.
// Verus sees `&'a BddNode` as the node value, so address equality cannot be stated; what is assumed is the
// sound direction only: pointers that compare equal denote structurally equal diagrams.  (The converse --
// structurally equal nodes have one address -- is the unique-table property, C02, and is never assumed.)
impl<'a> PartialEq for BddPtr<'a> {
    #[verifier::external_body]
    fn eq(&self, other: &Self) -> (b: bool)
    { unimplemented!() }
}
impl<'a> vstd::std_specs::cmp::PartialEqSpecImpl for BddPtr<'a> {
    open spec fn obeys_eq_spec() -> bool { true }
    uninterp spec fn eq_spec(&self, other: &Self) -> bool;
}
#[verifier::external_body]
pub proof fn axiom_bddptr_eq()
    ensures forall|a: BddPtr, b: BddPtr| #[trigger] a.eq_spec(&b) ==> a == b,
{}
