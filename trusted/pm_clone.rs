// ---- A-clone (PartialModel): the derived `Clone` of PartialModel (two VarSets over bit_set::BitSet) returns an equal value ----
impl Clone for PartialModel {
    #[verifier::external_body]
    fn clone(&self) -> (r: PartialModel)
        ensures r == *self,
    { unimplemented!() }
}
