// ---- A-clone (PartialModel): the derived `Clone` of PartialModel (two VarSets over bit_set::BitSet) returns an equal value ----
impl Clone for PartialModel {
    #[verifier::external_body]
    fn clone(&self) -> (r: PartialModel)
        ensures r == *self,
    { unimplemented!() }
}
// ---- A-eq (PartialModel): the derived `PartialEq` of PartialModel (it compares the two bit sets) is an uninterpreted relation about
// which nothing is assumed; it is declared so that code comparing models is within the verifier's reach ----
impl PartialEq for PartialModel {
    #[verifier::external_body]
    fn eq(&self, other: &Self) -> (b: bool)
    { unimplemented!() }
}
impl vstd::std_specs::cmp::PartialEqSpecImpl for PartialModel {
    open spec fn obeys_eq_spec() -> bool { true }
    uninterp spec fn eq_spec(&self, other: &Self) -> bool;
}
