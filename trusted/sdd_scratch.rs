// ---- A-scratch-fold (SDD): the per-node scratch memo of SddOr / BinarySDD as seen by ONE fold; same discipline as for BddPtr
// (trusted/fold_scratch.rs): the memo invariant -- slot 0 holds the value of the COMPLEMENTED pointer to the node, slot 1 the value
// of the REGULAR pointer, for the closure of this fold -- is assumed where the memo is read and proved where it is written ----
pub open spec fn smemo_ok<T: Semiring, F: Fn(DDNNF<T>) -> T>(p: SddPtr, f: F, m: DDNNFCache<T>) -> bool {
    &&& m.0 matches Some(v) ==> v.valid()
    &&& m.1 matches Some(v) ==> v.valid()
    &&& forall|g: Alg<T>| #[trigger] f_det(f, g) ==>
        (m.0 matches Some(v) ==> v == sfs(p, !sdd_is_neg(p), g))
        && (m.1 matches Some(v) ==> v == sfs(p, sdd_is_neg(p), g))
}
#[verifier::external_body]
pub fn verif_sfold_scratch<T: Semiring + 'static, F: Fn(DDNNF<T>) -> T>(p: &SddPtr, f: &F) -> (r: Option<DDNNFCache<T>>)
    ensures r matches Some(m) ==> smemo_ok(*p, *f, m)
{ unimplemented!() }
#[verifier::external_body]
pub fn verif_sfold_set_scratch<T: Semiring + 'static, F: Fn(DDNNF<T>) -> T>(p: &SddPtr, f: &F, m: DDNNFCache<T>)
    requires sdd_is_node(*p), smemo_ok(*p, *f, m)
{ unimplemented!() }
impl<'a> SddPtr<'a> {
    #[verifier::external_body]
    pub fn clear_scratch(&self) { unimplemented!() }
    /// A-sdd-node-iter: `node_iter()` returns the custom iterator SddNodeIter (src/repr/sdd/sdd_or.rs), whose `next` is PROVED (same
    /// unit) to yield element `count` of sdd_elems and then None; this stub returns what a `for` loop over it therefore sees, as a vector
    #[verifier::external_body]
    pub fn verif_node_vec(&self) -> (r: Vec<SddAnd<'a>>)
        requires sdd_is_node(*self),
        ensures r@ == sdd_elems(*self),
    { unimplemented!() }
}
