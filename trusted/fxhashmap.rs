// ---- R-ext: rustc_hash::FxHashMap (external crate) is replaced by this trusted stub.
// Contract (deliberately weak, and true of a hash map whose key equality is *pointer* equality): the map
// remembers a set of (key, value) pairs that were inserted; `get` returns nothing, or a value that was
// inserted under a key that is equal to the looked-up key.  Nothing is promised about hits or misses.
#[verifier::external_body]
#[verifier::reject_recursive_types(K)]
#[verifier::reject_recursive_types(V)]
pub struct FxHashMap<K, V> { m: std::collections::HashMap<K, V> }

impl<K, V> FxHashMap<K, V> {
    /// ghost view: every (key, value) pair ever inserted
    pub uninterp spec fn entries(&self) -> ISet<(K, V)>;

    #[verifier::external_body]
    pub fn insert(&mut self, k: K, v: V) -> (r: Option<V>)
        ensures final(self).entries() == old(self).entries().insert((k, v)),
    { unimplemented!() }

    #[verifier::external_body]
    pub fn get(&self, k: &K) -> (r: Option<&V>)
        ensures r matches Some(v) ==> self.entries().contains((*k, *v)),
    { unimplemented!() }
}
