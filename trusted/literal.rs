// ---- A-lit: `Literal` packs (label: 63 bits, polarity: 1 bit) into a u64 through the BITFIELD! macro, which
// Verus cannot read.  It is modelled by this two-field stub; the bit-level facts it stands for
// (label()/polarity() return what new() was given, for every label < 2^63) are PROVED on the real code by the
// Kani harnesses k_lit_roundtrip / k_lit_implies, which run in the same check.
#[derive(Clone, Copy)]
pub struct Literal { pub lbl: VarLabel, pub pol: bool }

impl Literal {
    #[verifier::external_body]
    pub fn new(label: VarLabel, polarity: bool) -> (r: Literal)
        ensures r.lbl == label, r.pol == polarity,
    { unimplemented!() }

    #[verifier::external_body]
    pub fn label(&self) -> (r: VarLabel)
        ensures r == self.lbl,
    { unimplemented!() }

    #[verifier::external_body]
    pub fn polarity(&self) -> (r: bool)
        ensures r == self.pol,
    { unimplemented!() }
}
