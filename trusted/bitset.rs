// ---- A-bitset: bit_set::BitSet (external crate) behaves as a mathematical set of usize ----
#[verifier::external_body]
pub struct BitSet { b: std::collections::BTreeSet<usize> }

impl BitSet {
    pub uninterp spec fn view(&self) -> ISet<usize>;

    #[verifier::external_body]
    pub fn new() -> (r: BitSet)
        ensures forall|x: usize| !r@.contains(x),
    { unimplemented!() }

    #[verifier::external_body]
    pub fn with_capacity(nbits: usize) -> (r: BitSet)
        ensures forall|x: usize| !r@.contains(x),
    { unimplemented!() }

    #[verifier::external_body]
    pub fn insert(&mut self, value: usize) -> (r: bool)
        ensures final(self)@ == old(self)@.insert(value),
    { unimplemented!() }

    #[verifier::external_body]
    pub fn remove(&mut self, value: usize) -> (r: bool)
        ensures final(self)@ == old(self)@.remove(value),
    { unimplemented!() }

    #[verifier::external_body]
    pub fn contains(&self, value: usize) -> (r: bool)
        ensures r == self@.contains(value),
    { unimplemented!() }
}

impl Clone for BitSet {
    #[verifier::external_body]
    fn clone(&self) -> (r: BitSet)
        ensures r@ == self@,
    { unimplemented!() }
}

impl BitSet {
    /// number of elements (A-bitset; nothing is assumed about how it relates to the view)
    pub uninterp spec fn len_s(&self) -> nat;
    #[verifier::external_body]
    pub fn len(&self) -> (r: usize)
        ensures r == self.len_s(),
    { unimplemented!() }
}
