// ---- A-bump (bumpalo, external crate): `alloc` returns a reference to a value equal to its argument that is
// never moved, freed or mutated while the arena lives.  (The real `alloc` returns `&mut T`; it is only ever used
// as `&T` here.)
#[verifier::external_body]
pub struct Bump { _b: u8 }

impl Bump {
    #[verifier::external_body]
    pub fn new() -> (r: Bump)
    { unimplemented!() }

    #[verifier::external_body]
    pub fn alloc<T>(&self, val: T) -> (r: &T)
        ensures *r == val,
    { unimplemented!() }
}

// std::mem::replace
pub assume_specification<T> [std::mem::replace] (dest: &mut T, src: T) -> (r: T)
    ensures *final(dest) == src, r == *old(dest);

/// R-f64: the load-factor test `(len + 1) as f64 > (cap as f64 * LOAD_FACTOR)` is replaced by an arbitrary
/// function of the same two integers: every contract is proved for both answers.
#[verifier::external_body]
pub fn verif_table_grow_decision(len: usize, cap: usize) -> (b: bool)
{ unimplemented!() }

/// R-ext: `usize::next_power_of_two` (no vstd specification); only `result >= argument` is used
#[verifier::external_body]
pub fn verif_next_power_of_two(x: usize) -> (r: usize)
    ensures r >= x,
{ unimplemented!() }

/// A-psl: a probe sequence is shorter than min(255, cap): the u8 counter `psl + 1` never overflows and a probe
/// never wraps around the whole table (the table is kept below 70% load).  Not derivable from the code alone;
/// assumed exactly where the counters are incremented.
#[verifier::external_body]
pub proof fn axiom_probe_bound(psl: u8, steps: int, cap: usize)
    ensures psl as int + 1 < 256, psl as int + 1 < cap, steps + 1 < cap,
{}

/// A-cap: node counts and capacities stay far below the machine word (a vector of 2^62 24-byte slots cannot be allocated)
#[verifier::external_body]
pub proof fn axiom_table_size_bound(len: usize, cap: usize)
    ensures len < usize::MAX, cap < 0x4000_0000_0000_0000,
{}

/// A-eq: `T: Eq` -- `==` on table elements is an equivalence relation (the contract of std::cmp::Eq)
#[verifier::external_body]
pub proof fn axiom_eq_equiv<T: PartialEq>()
    ensures
        T::obeys_eq_spec(),
        forall|a: T| #[trigger] a.eq_spec(&a),
        forall|a: T, b: T| #[trigger] a.eq_spec(&b) ==> b.eq_spec(&a),
        forall|a: T, b: T, c: T| #![trigger a.eq_spec(&b), b.eq_spec(&c)] a.eq_spec(&b) && b.eq_spec(&c) ==> a.eq_spec(&c),
{}
