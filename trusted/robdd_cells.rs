// ---- R-refcell / A-cell / A-unsafe: the four RefCell fields of RobddBuilder are replaced by this stub.
//   order:         ghost view `order_view()`; no function under contract mutates it except `new_label`
//   apply_table:   `apply_view()` hands out the table with its validity invariant ASSUMED; the invariant is
//                  PROVED at the only insert site (precondition of `apply_insert`)
//   compute_table: `table_get_or_insert` carries the contract proved for BackedRobinhoodTable::get_or_insert
//                  in unit `table` (the returned reference points to a node equal to the argument)
//   stats:         dropped (R-stats)
/// the builder's invariant on one apply-cache entry  (f,g,h) -> s
#[verifier::opaque]
pub open spec fn apply_entry_ok(k: (BddPtr, BddPtr, BddPtr), s: BddPtr, o: VarOrder) -> bool {
    &&& forall|env: Env| #[trigger] tr(env) ==> ptr_sem(s, env) == ite3(ptr_sem(k.0, env), ptr_sem(k.1, env), ptr_sem(k.2, env))
    &&& ordered(s, o)
    &&& top(s, o) >= min3(top(k.0, o), top(k.1, o), top(k.2, o))
}
/// ... and its canonical-form part (C02)
#[verifier::opaque]
pub open spec fn apply_entry_canon(k: (BddPtr, BddPtr, BddPtr), s: BddPtr) -> bool {
    res_canon(k.0, k.1, k.2, s)
}

/// the FxHash of a node's (var, low, high), as computed by `UniqueTable::get_or_insert` (A-hash)
pub uninterp spec fn node_hash(n: BddNode) -> u64;

#[verifier::external_body]
#[verifier::reject_recursive_types(T)]
pub struct RobddBuilder<'a, T> { _p: core::marker::PhantomData<(&'a u8, T)> }

impl<'a, T: IteTable<BddPtr<'a>>> RobddBuilder<'a, T> {
    pub uninterp spec fn order_view(&self) -> VarOrder;

    #[verifier::external_body]
    pub fn order_ref(&self) -> (r: &VarOrder)
        ensures *r == self.order_view(),
    { unimplemented!() }

    /// A-cell: the apply table handed out satisfies the builder's cache invariant (assumed here, PROVED at
    /// the only insert site through the precondition of `apply_insert`)
    #[verifier::external_body]
    pub fn apply_view(&self) -> (r: &T)
        ensures
            r.wf(),
            forall|k: (BddPtr<'a>, BddPtr<'a>, BddPtr<'a>), s: BddPtr<'a>| #[trigger] r.entries().contains((k, s)) ==> apply_entry_ok(k, s, self.order_view()) && apply_entry_canon(k, s),
    { unimplemented!() }

    /// stands for `self.apply_table.borrow_mut().insert(ite, res, hash)`; by the IteTable::insert contract the
    /// only new entry is (ite_key(ite), ite_stored(ite, res)), which must satisfy the cache invariant
    #[verifier::external_body]
    pub fn apply_insert(&self, ite: Ite<BddPtr<'a>>, res: BddPtr<'a>, hash: u64)
        requires
            hash == T::hash_spec(ite),
            !(ite is IteConst) ==> apply_entry_ok(ite_key(ite), ite_stored(ite, res), self.order_view()),
            !(ite is IteConst) ==> apply_entry_canon(ite_key(ite), ite_stored(ite, res)), // #C02
    { unimplemented!() }

    #[verifier::external_body]
    pub fn table_get_or_insert(&'a self, n: BddNode<'a>) -> (r: &'a BddNode<'a>)
        ensures *r == n,
    { unimplemented!() }

    /// A-hash: the unique table finds a stored node again only if it is looked up under the hash it was stored under;
    /// `UniqueTable::get_or_insert` uses the FxHash of (var, low, high), so a direct call must pass that same value
    #[verifier::external_body]
    pub fn table_get_or_insert_by_hash(&'a self, hash: u64, n: BddNode<'a>, equality_by_hash: bool) -> (r: &'a BddNode<'a>)
        requires hash == node_hash(n), !equality_by_hash, // #C02
        ensures *r == n,
    { unimplemented!() }
}
