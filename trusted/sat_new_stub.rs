// ---- A-normalise: the normalisation prologue of SATSolver::new, as a stub stating what it computes ----
// real text: every clause is cloned, sorted and deduplicated (`map` / `collect`); a `filter` closure with two nested loops drops every
// clause that contains a literal together with its negation; every remaining literal gets the next prime of `primal::Primes::all()`.
// The stub returns SOME weighted clause list that is, literal set by literal set, the formula's non-tautological clauses (wnorm_rel),
// over the formula's variables.  Nothing is said about the weights (they feed the residual hash only).
#[verifier::external_body]
pub fn verif_weighted_clauses(cnf: &Cnf) -> (r: Vec<Vec<(Literal, u128)>>)
    ensures
        wnorm_rel(r@, cnf.clauses@),
        forall|i: int, j: int| 0 <= i < r@.len() && 0 <= j < r@[i]@.len() ==> (#[trigger] r@[i]@[j]).0.lbl.0 < cnf.num_vars,
{ unimplemented!() }
// A-clone (Cnf): the derived Clone of Cnf returns an equal value
impl Clone for Cnf {
    #[verifier::external_body]
    fn clone(&self) -> (r: Cnf)
        ensures r == *self,
    { unimplemented!() }
}
