// ---- A-primes / A-std-sort-dedup / A-clone (Cnf): what SATSolver::new calls that is outside Verus ----
/// `primal::Primes::all()` (external prime sieve): an opaque source of numbers; nothing is assumed about them (they feed the hash only)
#[verifier::external_body]
pub struct Primes { _p: u8 }
#[verifier::external_body]
pub fn verif_primes_all() -> (r: Primes) { unimplemented!() }
#[verifier::external_body]
pub fn verif_next_prime(p: &mut Primes) -> (r: u128) { unimplemented!() }
/// `c.sort()` on a vector of literals (the derived Ord of the packed literal): the same set of literals
#[verifier::external_body]
pub fn verif_sort_full(v: &mut Vec<Literal>)
    ensures same_lits(final(v)@, old(v)@),
{ unimplemented!() }
// A-clone (Cnf): the derived Clone of Cnf returns an equal value
impl Clone for Cnf {
    #[verifier::external_body]
    fn clone(&self) -> (r: Cnf)
        ensures r == *self,
    { unimplemented!() }
}
