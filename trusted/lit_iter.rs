// ---- A-lit-iter: `conjoin_implied` takes `impl Iterator<Item = Literal>` (callers pass
// `sat.difference_iter().filter(..)`).  Verus cannot iterate an opaque iterator; in unit dnnf the parameter type is this
// stub and `verif_lits_vec` stands for draining the iterator: it yields the literals `lits()` in order.
#[verifier::external_body]
pub struct LitIter { _p: u8 }
impl LitIter {
    pub uninterp spec fn lits(&self) -> Seq<Literal>;
}
#[verifier::external_body]
pub fn verif_lits_vec(it: LitIter) -> (v: Vec<Literal>)
    ensures v@ == it.lits(),
{ unimplemented!() }
