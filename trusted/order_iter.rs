// ---- A-order-iter: `VarOrder::in_order_iter()` returns `impl Iterator` (a `map` over the position table), which Verus cannot
// iterate.  In unit dtree the order is this opaque stub and `verif_in_order_vec(o)` stands for the iterator: it yields SOME
// sequence of labels -- nothing is assumed about it, so what is proved about `DTree::from_cnf` holds for every elimination
// order, also one with repeated or missing variables.
#[verifier::external_body]
pub struct VarOrder { _p: u8 }
#[verifier::external_body]
pub fn verif_in_order_vec(o: &VarOrder) -> (v: Vec<VarLabel>) { unimplemented!() }
