// ---- A-varset-view: in unit wmc `VarSet` is an opaque stub with a set view (its `insert` is proved against the BitSet
// stub in unit cnf); a fold only ever builds the singleton of the node's variable and hands it to the closure ----
#[verifier::external_body]
pub struct VarSet { b: std::collections::BTreeSet<usize> }
impl VarSet {
    pub uninterp spec fn view(&self) -> ISet<u64>;
    #[verifier::external_body]
    pub fn new() -> (r: VarSet) ensures r@ == ISet::<u64>::empty() { unimplemented!() }
    #[verifier::external_body]
    pub fn insert(&mut self, v: VarLabel) ensures final(self)@ == old(self)@.insert(v.0) { unimplemented!() }
}
