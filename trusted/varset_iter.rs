// ---- A-varset-iter: `VarSet::iter()` returns `impl Iterator` over a BitSet iterator, which Verus cannot read.  Where
// `VTree::from_dtree` collects it (`cutset.iter().collect()`), the stub `verif_varset_vec` stands for the collected vector: it
// holds exactly the elements of the set, each once (in some order: nothing is assumed about the order).
/// cv lists exactly the elements of s, each once
pub open spec fn cv_ok(cv: Seq<VarLabel>, s: VarSet) -> bool {
    &&& forall|x: VarLabel| #[trigger] cv.contains(x) == s.has(x)
    &&& forall|i: int, j: int| 0 <= i < j < cv.len() ==> cv[i] != cv[j]
}
#[verifier::external_body]
pub fn verif_varset_vec(s: &VarSet) -> (v: Vec<VarLabel>)
    ensures cv_ok(v@, *s),
{ unimplemented!() }
