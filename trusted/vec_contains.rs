// ---- A-vec-contains: `Vec<usize>::contains` (std, no Verus specification) answers membership ----
#[verifier::external_body]
pub fn verif_vec_contains(v: &Vec<usize>, x: &usize) -> (r: bool)
    ensures r == v@.contains(*x),
{ unimplemented!() }
