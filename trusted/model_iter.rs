// ---- A-model-iter: `PartialModel::assignment_iter()` is an iterator-adapter chain over two BitSets
// (`false_assignments.iter().map(..).chain(true_assignments.iter().map(..))`), which Verus cannot read.  In unit robdd
// the model is this opaque stub; `verif_assignment_vec(m)` stands for the iterator and yields the literals `m.lits()`
// in iteration order.  (What `lits()` contains -- every assigned variable once, with its value -- is the
// PartialModel bookkeeping decided under C15 and, for this call site, by the bounded check `bdd`.)
#[verifier::external_body]
pub struct PartialModel { _p: u8 }

impl PartialModel {
    pub uninterp spec fn lits(&self) -> Seq<Literal>;
    /// the value the model gives a variable (None if unset); `get` is the real accessor's contract, proved in unit cnf
    pub uninterp spec fn val(&self, l: VarLabel) -> Option<bool>;
    #[verifier::external_body]
    pub fn get(&self, label: VarLabel) -> (r: Option<bool>)
        ensures r == self.val(label),
    { unimplemented!() }
}

#[verifier::external_body]
pub fn verif_assignment_vec(m: &PartialModel) -> (v: Vec<Literal>)
    ensures v@ == m.lits(),
{ unimplemented!() }
