// ---- A-ptreq (continued): pointer equality is an equivalence relation that looks at the tag and the
// address only, so it is preserved and reflected by `neg` (which flips the tag and keeps the address).
#[verifier::external_body]
pub proof fn axiom_bddptr_eq_equiv()
    ensures
        forall|a: BddPtr| #[trigger] PartialEqSpec::eq_spec(&a, &a),
        forall|a: BddPtr, b: BddPtr| #[trigger] PartialEqSpec::eq_spec(&a, &b) ==> PartialEqSpec::eq_spec(&b, &a),
        forall|a: BddPtr, b: BddPtr| #[trigger] PartialEqSpec::eq_spec(&a.neg_s(), &b.neg_s()) == PartialEqSpec::eq_spec(&a, &b),
{}
