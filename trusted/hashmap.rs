// ---- R-ext: std::collections::HashMap keyed by BddPtr (pointer hash / pointer equality) is replaced by this
// trusted stub with a deliberately weak contract that is true for pointer-keyed maps: the map remembers
// (key, value) pairs that were inserted; `get` returns nothing or a value inserted under an equal key.
#[verifier::external_body]
#[verifier::reject_recursive_types(K)]
#[verifier::reject_recursive_types(V)]
pub struct HashMap<K, V> { m: std::collections::HashMap<K, V> }

impl<K, V> HashMap<K, V> {
    pub uninterp spec fn entries(&self) -> ISet<(K, V)>;
    /// "a lookup of k finds something" -- uninterpreted; `contains_key` and `get` agree on it (one deterministic map)
    pub uninterp spec fn has_key(&self, k: K) -> bool;

    #[verifier::external_body]
    pub fn contains_key(&self, k: &K) -> (b: bool)
        ensures b == self.has_key(*k),
    { unimplemented!() }

    #[verifier::external_body]
    pub fn new() -> (r: Self)
        ensures r.entries() == ISet::<(K, V)>::empty(),
    { unimplemented!() }

    #[verifier::external_body]
    pub fn insert(&mut self, k: K, v: V) -> (r: Option<V>)
        ensures final(self).entries() == old(self).entries().insert((k, v)),
    { unimplemented!() }

    #[verifier::external_body]
    pub fn get(&self, k: &K) -> (r: Option<&V>)
        ensures r matches Some(v) ==> self.entries().contains((*k, *v)),
                (r is Some) == self.has_key(*k),
    { unimplemented!() }
}
