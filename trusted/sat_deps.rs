// ---- A-sat-deps: what SATSolver's stack bookkeeping calls but this unit does not look into ----
// `PartialModel` (two BitSets), `UnitPropagate` (the two-watched-literal propagator: iterator adapters over closures,
// recursion through `&mut self`) and `update_hash_and_sat_set` (labelled `continue` inside `for` over BitSet iterators)
// are opaque here: NOTHING is assumed about what they return -- the stack discipline proved in this unit holds for any
// propagator and any hash update.  `is_set` is the contract proved for the real accessor in unit cnf.
#[verifier::external_body]
pub struct PartialModel { _p: u8 }
impl PartialModel {
    pub uninterp spec fn set_s(&self, v: VarLabel) -> bool;
    #[verifier::external_body]
    pub fn is_set(&self, var: VarLabel) -> (r: bool)
        ensures r == self.set_s(var),
    { unimplemented!() }
}
impl Clone for PartialModel {
    #[verifier::external_body]
    fn clone(&self) -> (r: PartialModel) { unimplemented!() }
}
// the derived `PartialEq`: an uninterpreted relation (nothing assumed), declared so that code comparing models can be read
impl PartialEq for PartialModel {
    #[verifier::external_body]
    fn eq(&self, other: &Self) -> (b: bool)
    { unimplemented!() }
}
impl vstd::std_specs::cmp::PartialEqSpecImpl for PartialModel {
    open spec fn obeys_eq_spec() -> bool { true }
    uninterp spec fn eq_spec(&self, other: &Self) -> bool;
}

#[verifier::external_body]
pub struct BitSet { _p: u8 }
impl BitSet {
    pub uninterp spec fn len_s(&self) -> nat;
    #[verifier::external_body]
    pub fn len(&self) -> (r: usize)
        ensures r == self.len_s(),
    { unimplemented!() }
}

#[verifier::external_body]
pub struct UnitPropagate { _p: u8 }
impl UnitPropagate {
    #[verifier::external_body]
    pub fn decide(&mut self, cur_state: PartialModel, new_assignment: Literal) -> (r: UnitPropResult) { unimplemented!() }
}
