// ---- A-dimacs: the external crate `dimacs` (text -> Instance) is outside the verified text.  Its result types are these stubs: a parsed
// CNF instance is a sequence of clauses, a clause a slice of literals, a literal a sign and a variable number >= 1 (DIMACS numbers
// variables from 1; 0 terminates a clause).  `verif_parse_dimacs_cnf` stands for `match parse_dimacs(input).unwrap() { Instance::Cnf
// { clauses, .. } => clauses, Instance::Sat { .. } => panic!(..) }`: WHAT the text parses to is an uninterpreted function of the text.
pub enum Sign { Pos, Neg }
pub struct Var(pub u64);
pub struct Lit { pub s: Sign, pub v: u64 }
pub struct Clause { pub ls: Vec<Lit> }
impl Var {
    #[verifier::external_body]
    pub fn to_u64(&self) -> (r: u64) ensures r == self.0, { unimplemented!() }
}
impl Lit {
    #[verifier::external_body]
    pub fn sign(&self) -> (r: Sign) ensures r == self.s, { unimplemented!() }
    #[verifier::external_body]
    pub fn var(&self) -> (r: Var) ensures r.0 == self.v, { unimplemented!() }
}
impl Clause {
    #[verifier::external_body]
    pub fn lits(&self) -> (r: &[Lit]) ensures r@ == self.ls@, { unimplemented!() }
}
pub uninterp spec fn parsed(input: &str) -> Seq<Clause>;
#[verifier::external_body]
pub fn verif_parse_dimacs_cnf(input: &str) -> (r: Vec<Clause>)
    ensures r@ == parsed(input),
{ unimplemented!() }
/// std::cmp::max
#[verifier::external_body]
pub fn max(a: usize, b: usize) -> (r: usize) ensures r == (if a >= b { a } else { b }), { unimplemented!() }
