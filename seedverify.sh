#!/bin/sh
# dev helper: ./seedverify.sh <id> <worktree> <patch> <demo-test-name> <property>
# confirms, in the scratch worktree: suite green with the change, demo fails with it, demo passes without it;
# then stores patch + demo under /verif/seeded/<id>/
id=$1; wt=$2; patch=$3; demo=$4; prop=$5
cd $wt || exit 3
export CARGO_TARGET_DIR=$wt/target CARGO_NET_OFFLINE=true
git checkout -q -- src 2>/dev/null
mkdir -p /tmp/seedaside_$id; for f in tests/seed_demo*.rs; do [ -f "$f" ] && mv $f /tmp/seedaside_$id/; done
git apply $patch || { echo "$id: PATCH DOES NOT APPLY"; exit 3; }
suite=$(cargo test --offline --workspace 2>&1 | grep -E "^test result" | tr '\n' ' ')
cp /tmp/seedaside_$id/$demo.rs tests/$demo.rs
with=$(cargo test --offline --test $demo 2>&1 | grep -E "^test result" | tr '\n' ' ')
git apply -R $patch
without=$(cargo test --offline --test $demo 2>&1 | grep -E "^test result" | tr '\n' ' ')
for f in /tmp/seedaside_$id/*.rs; do mv $f tests/; done
echo "$id [$prop] suite-with-change: $suite"
echo "$id [$prop] demo-with-change: $with"
echo "$id [$prop] demo-without: $without"
mkdir -p /verif/seeded/$id
cp $patch /verif/seeded/$id/patch.diff
cp tests/$demo.rs /verif/seeded/$id/$demo.rs
printf '%s\n%s\n%s\n' "suite-with-change: $suite" "demo-with-change: $with" "demo-without-change: $without" > /verif/seeded/$id/verified.txt
