use vstd::prelude::*;
use vstd::std_specs::cmp::PartialEqSpec;
verus! {

global size_of usize == 8;

pub uninterp spec fn H<K>(k: K) -> u64;

#[verifier::external_body]
fn verif_nondet_bool() -> bool { unimplemented!() }

pub open spec fn pow2(p: nat) -> nat decreases p { if p == 0 { 1 } else { 2 * pow2((p - 1) as nat) } }

/// cap `v` at 2^`p`
fn pow_cap(v: usize, p: usize) -> (r: usize)
    requires p < 63
    ensures r == (v as nat) % pow2(p as nat), r < pow2(p as nat)
{
    proof { lemma_shl(p as u64); assert(pow2(p as nat) > 0) by { lemma_pow2_pos(p as nat); } }
    v % (1 << p)
}

proof fn lemma_pow2_pos(p: nat) ensures pow2(p) > 0 decreases p { if p > 0 { lemma_pow2_pos((p-1) as nat); } }

proof fn lemma_shl(p: u64)
    requires p < 63
    ensures (1usize << p) == pow2(p as nat)
    decreases p
{
    if p == 0 {
        assert((1usize << 0u64) == 1) by(bit_vector);
    } else {
        lemma_shl((p - 1) as u64);
        assert((1usize << p) == 2 * (1usize << ((p - 1) as u64))) by(bit_vector) requires 0 < p < 63;
    }
}

/// Data structure stored in the subtables
#[derive(Clone)]
pub struct Element<K, V>
{
    pub key: K,
    pub val: V,
    pub hash: u64,
}

impl<K, V> Element<K, V>
{
    fn new(key: K, val: V, hash: u64) -> (r: Element<K, V>)
        ensures r.key == key, r.val == val, r.hash == hash
    {
        Element { key, val, hash }
    }
}

pub struct Lru<K, V>
{
    pub tbl: Vec<Option<Element<K, V>>>,
    pub cap: usize,        // a particular power of 2
    pub num_filled: usize, // current number of filled cells
}

impl<K, V> Lru<K, V>
{
    pub open spec fn slot(self, k: K) -> int { ((H(k) as nat) % pow2(self.cap as nat)) as int }

    pub open spec fn wf(self) -> bool {
        &&& self.cap < 62
        &&& self.tbl.len() == pow2(self.cap as nat)
        &&& forall|i: int| 0 <= i < self.tbl.len() ==> (#[trigger] self.tbl[i] matches Some(e) ==> e.hash == H(e.key) && self.slot(e.key) == i)
    }
    pub open spec fn has(self, k: K) -> bool {
        self.tbl[self.slot(k)] matches Some(e) && e.key == k
    }
    pub open spec fn val_of(self, k: K) -> V {
        self.tbl[self.slot(k)]->Some_0.val
    }
}

impl<K: PartialEq + Clone, V: Clone> Lru<K, V>
{
    /// create a new bdd cache with capacity `cap`, given as a power of 2
    pub fn new(cap: usize) -> (r: Lru<K, V>)
        requires cap < 62
        ensures r.wf(), r.cap == cap, forall|k: K| !r.has(k),
    {
        proof { lemma_shl(cap as u64); }
        let v: Vec<Option<Element<K, V>>> = vec![None; 1 << cap];
        Lru {
            tbl: v,
            cap,
            num_filled: 0,
        }
    }

    pub fn insert(&mut self, key: K, val: V, hash_v: u64)
        requires old(self).wf(), hash_v == H(key), old(self).cap < 61,
        ensures final(self).wf(),
                final(self).has(key), final(self).val_of(key) == val,
                forall|k: K| k != key && #[trigger] final(self).has(k) ==> old(self).has(k) && final(self).val_of(k) == old(self).val_of(k),
    {
        // see if we need to grow
        if verif_nondet_bool() {
            // println!("growing");
            // self.grow();
        }

        let pos = pow_cap(hash_v as usize, self.cap);
        let e = Element::new(key, val, hash_v);
        if self.tbl[pos].is_some() {
            // self.stat.conflict_count += 1;
        } else {
            self.num_filled += 1;
        }
        self.tbl[pos] = Some(e);
    }

    pub fn get(&self, key: K, hash_v: u64) -> (r: Option<V>)
        requires self.wf(), hash_v == H(key), K::obeys_eq_spec(), forall|a: K, b: K| a.eq_spec(&b) <==> a == b,
        ensures r is Some <==> self.has(key),
                r matches Some(v) ==> cloned(self.val_of(key), v),
    {
        proof { lemma_pow2_pos(self.cap as nat); }
        // self.stat.lookup_count += 1;
        let pos = pow_cap(hash_v as usize, self.cap);
        let v = &self.tbl[pos];
        match v {
            Some(ref v) if v.key == key => Some(v.val.clone()),
            _ => {
                // self.stat.miss_count += 1;
                None
            }
        }
    }
}
}
fn main() {}
