use vstd::prelude::*;
verus! {
pub enum LogicalExpr {
    Literal(usize, bool),
    Not(Box<LogicalExpr>),
    And(Box<LogicalExpr>, Box<LogicalExpr>),
    Ite { guard: Box<LogicalExpr>, thn: Box<LogicalExpr>, els: Box<LogicalExpr> },
}
pub trait B {
    fn var(&self, l: u64, p: bool) -> u64;
    fn and(&self, a: u64, b: u64) -> u64;
    fn negate(&self, a: u64) -> u64;
    fn ite(&self, a: u64, b: u64, c: u64) -> u64;
    #[verifier::exec_allows_no_decreases_clause]
    fn compile_logical_expr(&self, expr: &LogicalExpr) -> u64 {
        match &expr {
            LogicalExpr::Literal(lbl, polarity) => self.var(*lbl as u64, *polarity),
            LogicalExpr::And(ref l, ref r) => {
                let r1 = self.compile_logical_expr(l);
                let r2 = self.compile_logical_expr(r);
                self.and(r1, r2)
            }
            LogicalExpr::Not(ref e) => self.negate(self.compile_logical_expr(e)),
            LogicalExpr::Ite {
                ref guard,
                ref thn,
                ref els,
            } => {
                let g = self.compile_logical_expr(guard);
                let t = self.compile_logical_expr(thn);
                let e = self.compile_logical_expr(els);
                self.ite(g, t, e)
            }
        }
    }
    fn split(&self, vec: &[u64]) -> u64 {
        if vec.len() < 2 { return 0; }
        let (l, r) = vec.split_at(vec.len() / 2);
        l[0]
    }
}
}
fn main() {}
