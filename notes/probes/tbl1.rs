use vstd::prelude::*;
verus! {

#[derive(Clone, Copy)]
struct HashTableElement<'a, T: Clone> {
    ptr: Option<&'a T>,
    hash: u64,
    psl: u8,
}

impl<'a, T: Clone> HashTableElement<'a, T> {
    fn is_occupied(&self) -> (b: bool)
        ensures b == self.ptr.is_some()
    {
        self.ptr.is_some()
    }
}

#[verifier::exec_allows_no_decreases_clause]
fn propagate<'a, T: Clone>(
    v: &mut [HashTableElement<'a, T>],
    cap: usize,
    itm: HashTableElement<'a, T>,
    pos: usize,
)
    requires cap == old(v).len(), pos < cap, itm.ptr.is_some(),
{
    let mut searcher = itm;
    let mut pos = pos;
    loop
        invariant pos < cap, cap == v.len(),
    {
        if v[pos].is_occupied() {
            let cur_itm = v[pos].clone();
            // check if this item's position is closer than ours
            if cur_itm.psl < searcher.psl {
                // swap the searcher and this item
                v[pos] = searcher;
                searcher = cur_itm;
            }
            let off = searcher.psl + 1;
            searcher.psl = off;
            pos = (pos + 1) % cap; // wrap to the beginning of the array
        } else {
            // place the element in the current spot, we're done
            v[pos] = searcher;
            return;
        }
    }
}
}
fn main() {}
