use vstd::prelude::*;
use vstd::std_specs::cmp::PartialEqSpec;
verus! {

pub type Env = spec_fn(u64) -> bool;

#[verifier::opaque]
pub open spec fn tr(env: Env) -> bool { true }

pub trait DDNNFPtr: Copy + PartialEq {
    spec fn sem(self, env: Env) -> bool;

    proof fn eq_is_sem()
        ensures Self::obeys_eq_spec(),
                forall|a: Self, b: Self, env: Env| #![trigger a.eq_spec(&b), tr(env)] a.eq_spec(&b) ==> a.sem(env) == b.sem(env);

    fn neg(&self) -> (r: Self)
        ensures forall|env: Env| #[trigger] tr(env) ==> r.sem(env) == !self.sem(env);
    fn false_ptr() -> (r: Self)
        ensures forall|env: Env| #[trigger] tr(env) ==> !r.sem(env);
    fn true_ptr() -> (r: Self)
        ensures forall|env: Env| #[trigger] tr(env) ==> r.sem(env);
    fn is_true(&self) -> (b: bool)
        ensures b ==> forall|env: Env| #[trigger] tr(env) ==> self.sem(env);
    fn is_false(&self) -> (b: bool)
        ensures b ==> forall|env: Env| #[trigger] tr(env) ==> !self.sem(env);
    fn is_neg(&self) -> (b: bool);
}

pub enum Ite<T> {
    IteChoice { f: T, g: T, h: T },
    IteComplChoice { f: T, g: T, h: T },
    IteConst(T),
}
use Ite::*;

pub open spec fn ite_sem<T: DDNNFPtr>(i: Ite<T>, env: Env) -> bool {
    match i {
        Ite::IteChoice { f, g, h } => if f.sem(env) { g.sem(env) } else { h.sem(env) },
        Ite::IteComplChoice { f, g, h } => !(if f.sem(env) { g.sem(env) } else { h.sem(env) }),
        Ite::IteConst(c) => c.sem(env),
    }
}

impl<T: DDNNFPtr> Ite<T> {
    pub fn new(order: impl Fn(T, T) -> bool, f: T, g: T, h: T) -> (r: Ite<T>)
        requires forall|a: T, b: T| order.requires((a, b)),
        ensures forall|env: Env| #[trigger] tr(env) ==> ite_sem(r, env) == (if f.sem(env) { g.sem(env) } else { h.sem(env) }),
    {
        proof { T::eq_is_sem(); }
        // introduce constants
        let (f, g, h) = match (f, g, h) {
            (f, g, h) if f == h => (f, g, T::false_ptr()),
            (f, g, h) if f == h.neg() => (f, g, T::true_ptr()),
            (f, g, h) if f == g.neg() => (f, T::false_ptr(), h),
            _ => (f, g, h),
        };

        // check for terminal cases
        match (f, g, h) {
            (f, g, _) if f.is_true() => return IteConst(g),
            (f, _, h) if f.is_false() => return IteConst(h),
            (f, g, h) if g.is_true() && h.is_false() => return IteConst(f),
            (f, g, h) if g.is_false() && h.is_true() => return IteConst(f.neg()),
            (_, g, h) if h == g => return IteConst(g),
            _ => (),
        };

        // now, attempt to reorder the ITE to place the top-most node first in the order
        let (f, g, h) = match (f, g, h) {
            (f, g, h) if g.is_true() && order(h, f) => (h, g, f),
            (f, g, h) if h.is_false() && order(g, f) => (g, f, h),
            (f, g, h) if h.is_true() && order(g, f) => (g.neg(), f.neg(), h),
            (f, g, h) if g.is_false() && order(h, f) => (h.neg(), g, f.neg()),
            (f, g, h) if g == h.neg() && order(g, f) => (g, f, f.neg()),
            _ => (f, g, h),
        };

        // now, standardize for negation: ensure f and g are non-negated
        match (f, g, h) {
            (f, g, h) if f.is_neg() && !h.is_neg() => IteChoice {
                f: f.neg(),
                g: h,
                h: g,
            },
            (f, g, h) if !f.is_neg() && g.is_neg() => IteComplChoice {
                f,
                g: g.neg(),
                h: h.neg(),
            },
            (f, g, h) if f.is_neg() && h.is_neg() => IteComplChoice {
                f: f.neg(),
                g: h.neg(),
                h: g.neg(),
            },
            _ => IteChoice { f, g, h },
        }
    }
}

}
fn main() {}
