use vstd::prelude::*;
use std::ops;
use vstd::std_specs::ops::{AddSpecImpl, MulSpecImpl, SubSpecImpl};
use vstd::arithmetic::div_mod::*;
use vstd::arithmetic::mul::*;
verus! {

#[derive(Clone, Copy, PartialEq, Eq)]
pub struct FiniteField<const P: u128> {
    pub v: u128,
}

pub open spec fn ff_ok<const P: u128>() -> bool { P > 1 && (P as int - 1) * (P as int - 1) <= u128::MAX as int }

impl<const P: u128> FiniteField<P> {
    pub open spec fn wf(self) -> bool { self.v < P }
    pub open spec fn val(self) -> int { self.v as int }

    pub fn new(v: u128) -> (r: FiniteField<P>)
        requires P > 0
        ensures r.val() == (v as int) % (P as int), r.wf()
    {
        FiniteField { v: v % P }
    }
    pub fn value(&self) -> (r: u128)
        ensures r == self.val()
    {
        self.v
    }
}

impl<const P: u128> AddSpecImpl<FiniteField<P>> for FiniteField<P> {
    open spec fn obeys_add_spec() -> bool { true }
    open spec fn add_req(self, rhs: FiniteField<P>) -> bool { ff_ok::<P>() && self.wf() && rhs.wf() }
    open spec fn add_spec(self, rhs: FiniteField<P>) -> Self::Output {
        FiniteField { v: (((self.v as int) + (rhs.v as int)) % (P as int)) as u128 }
    }
}

impl<const P: u128> ops::Add<FiniteField<P>> for FiniteField<P> {
    type Output = FiniteField<P>;

    fn add(self, rhs: FiniteField<P>) -> Self::Output {
        proof { lemma_ff_ok_add::<P>(); lemma_mod_twice(self.v as int + rhs.v as int, P as int); }
        FiniteField::new((self.v + rhs.v) % P)
    }
}

impl<const P: u128> MulSpecImpl<FiniteField<P>> for FiniteField<P> {
    open spec fn obeys_mul_spec() -> bool { true }
    open spec fn mul_req(self, rhs: FiniteField<P>) -> bool { ff_ok::<P>() && self.wf() && rhs.wf() }
    open spec fn mul_spec(self, rhs: FiniteField<P>) -> Self::Output {
        FiniteField { v: (((self.v as int) * (rhs.v as int)) % (P as int)) as u128 }
    }
}

impl<const P: u128> ops::Mul<FiniteField<P>> for FiniteField<P> {
    type Output = FiniteField<P>;

    fn mul(self, rhs: FiniteField<P>) -> Self::Output {
        proof {
            lemma_mul_upper_bound(self.v as int, P as int - 1, rhs.v as int, P as int - 1);
            lemma_mod_twice(self.v as int * rhs.v as int, P as int);
        }
        FiniteField::new((self.v * rhs.v) % P)
    }
}

impl<const P: u128> SubSpecImpl<FiniteField<P>> for FiniteField<P> {
    open spec fn obeys_sub_spec() -> bool { true }
    open spec fn sub_req(self, rhs: FiniteField<P>) -> bool { ff_ok::<P>() && self.wf() && rhs.wf() }
    open spec fn sub_spec(self, rhs: FiniteField<P>) -> Self::Output {
        FiniteField { v: (((self.v as int) - (rhs.v as int)) % (P as int)) as u128 }
    }
}

impl<const P: u128> ops::Sub<FiniteField<P>> for FiniteField<P> {
    type Output = FiniteField<P>;

    fn sub(self, rhs: FiniteField<P>) -> Self::Output {
        FiniteField::new(if self.v > rhs.v {
            self.v - rhs.v
        } else {
            rhs.v - self.v
        })
    }
}

proof fn lemma_ff_ok_add<const P: u128>()
    requires ff_ok::<P>()
    ensures 2 * (P as int - 1) <= u128::MAX as int
{
    assert((P as int - 1) * (P as int - 1) >= 2 * (P as int - 1) || P as int - 1 < 2) by(nonlinear_arith)
        requires P as int - 1 >= 0;
}

// exported primes
proof fn primes_ok()
{
    assert(ff_ok::<1000001>()) by(compute);
    assert(ff_ok::<479001599>()) by(compute);
    assert(ff_ok::<18_446_744_073_709_551_591>()) by(compute);
}

}
fn main() {}
