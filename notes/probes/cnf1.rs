use vstd::prelude::*;
verus! {
#[derive(Clone, Copy, PartialEq, Eq)]
pub struct VarLabel(pub u64);
#[derive(Clone, Copy, PartialEq, Eq)]
pub struct Literal { pub l: u64, pub p: bool }
impl Literal {
    fn label(&self) -> (r: VarLabel) ensures r.0 == self.l { VarLabel(self.l) }
    fn polarity(&self) -> (r: bool) ensures r == self.p { self.p }
}
impl VarLabel { fn value(&self) -> (r: u64) ensures r == self.0 { self.0 } }

struct Cnf { clauses: Vec<Vec<Literal>>, num_vars: usize }

impl Cnf {
    fn num_vars(&self) -> usize { self.num_vars }
    #[verifier::exec_allows_no_decreases_clause]
    fn eval(&self, assignment: &Vec<bool>) -> bool
        requires forall|i: int, j: int| 0 <= i < self.clauses.len() && 0 <= j < self.clauses[i].len() ==> (#[trigger] self.clauses[i][j]).l < assignment.len(),
                 assignment.len() >= self.num_vars,
    {
        assert!(assignment.len() >= self.num_vars());
        for clause in self.clauses.iter() {
            let mut clause_sat = false;
            for lit in clause.iter() {
                let assgn = assignment[lit.label().value() as usize];
                if lit.polarity() == assgn {
                    clause_sat = true;
                }
            }
            if !clause_sat {
                return false;
            }
        }
        // no unsat clauses
        true
    }

    #[verifier::exec_allows_no_decreases_clause]
    fn condition(&self, lit: Literal) -> Vec<Vec<Literal>> {
        let mut new_cnf: Vec<Vec<Literal>> = Vec::new();
        'cnf: for clause in self.clauses.iter() {
            let mut new_clause = Vec::new();
            'clause: for l in clause.iter() {
                if l.label() == lit.label() && l.polarity() == lit.polarity() {
                    // skip over this whole clause
                    continue 'cnf;
                } else if l.label() == lit.label() && l.polarity() != lit.polarity() {
                    // skip over this literal
                    continue 'clause;
                } else {
                    // push the literal
                    new_clause.push(*l);
                }
            }
            new_cnf.push(new_clause);
        }
        new_cnf
    }
}
}
fn main() {}
