use vstd::prelude::*;
verus! {
pub type Env = spec_fn(u64) -> bool;
#[verifier::opaque]
pub open spec fn tr(env: Env) -> bool { true }
pub open spec fn upd(env: Env, x: u64, v: bool) -> Env { |y: u64| if y == x { v } else { env(y) } }

#[derive(Clone, Copy, PartialEq, Eq)]
pub struct VarLabel(pub u64);

pub trait PtrSem: Copy {
    spec fn sem(self, env: Env) -> bool;
}

pub trait BottomUpBuilder<'a, Ptr: PtrSem> {
    fn true_ptr(&self) -> (r: Ptr)
        ensures forall|env: Env| #[trigger] tr(env) ==> r.sem(env);
    fn false_ptr(&self) -> (r: Ptr)
        ensures forall|env: Env| #[trigger] tr(env) ==> !r.sem(env);
    fn var(&'a self, label: VarLabel, polarity: bool) -> (r: Ptr)
        ensures forall|env: Env| #[trigger] tr(env) ==> r.sem(env) == (env(label.0) == polarity);
    fn and(&'a self, a: Ptr, b: Ptr) -> (r: Ptr)
        ensures forall|env: Env| #[trigger] tr(env) ==> r.sem(env) == (a.sem(env) && b.sem(env));
    fn negate(&'a self, f: Ptr) -> (r: Ptr)
        ensures forall|env: Env| #[trigger] tr(env) ==> r.sem(env) == !f.sem(env);
    fn iff(&'a self, a: Ptr, b: Ptr) -> (r: Ptr)
        ensures forall|env: Env| #[trigger] tr(env) ==> r.sem(env) == (a.sem(env) == b.sem(env));
    fn exists(&'a self, f: Ptr, v: VarLabel) -> (r: Ptr)
        ensures forall|env: Env| #[trigger] tr(env) ==> r.sem(env) == (f.sem(upd(env, v.0, true)) || f.sem(upd(env, v.0, false)));

    fn or(&'a self, a: Ptr, b: Ptr) -> (r: Ptr)
        ensures forall|env: Env| #[trigger] tr(env) ==> r.sem(env) == (a.sem(env) || b.sem(env))
    {
        self.negate(self.and(self.negate(a), self.negate(b)))
    }

    fn compose(&'a self, f: Ptr, lbl: VarLabel, g: Ptr) -> (r: Ptr)
        ensures forall|env: Env| #[trigger] tr(env) ==> r.sem(env) == f.sem(upd(env, lbl.0, g.sem(env)))
    {
        let var = self.var(lbl, true);
        let iff = self.iff(var, g);
        let a = self.and(iff, f);

        self.exists(a, lbl)
    }

}
}
fn main() {}
