use vstd::prelude::*;
use std::collections::HashMap;
use std::hash::Hash;
verus! {
type FxHashMap<K, V> = HashMap<K, V>;

pub struct AllIteTable<T> {
    table: FxHashMap<(T, T, T), T>,
}

impl<T: Copy + Eq + Hash> AllIteTable<T> {
    fn insert(&mut self, f: T, g: T, h: T, res: T)
        requires vstd::std_specs::hash::obeys_key_model::<(T,T,T)>(),
        ensures final(self).table@ == old(self).table@.insert((f,g,h), res),
    {
        self.table.insert((f, g, h), res);
    }
    fn get(&self, f: T, g: T, h: T) -> (r: Option<T>)
        requires vstd::std_specs::hash::obeys_key_model::<(T,T,T)>(),
        ensures r == (if self.table@.contains_key((f,g,h)) { Some(self.table@[(f,g,h)]) } else { None }),
    {
        let r = self.table.get(&(f, g, h));
        r.cloned()
    }
}

pub assume_specification<T> [std::mem::replace] (dest: &mut T, src: T) -> (r: T)
    ensures *final(dest) == src, r == *old(dest);

fn grow(tbl: &mut Vec<Option<u64>>, new_sz: usize)
{
    let old = std::mem::replace(tbl, vec![None; new_sz]);
    let mut c: u64 = 0;
    for i in old.iter() {
        if i.is_some() { c = c.wrapping_add(1); }
    }
}
}
fn main() {}
