use vstd::prelude::*;
use vstd::std_specs::cmp::PartialEqSpec;
verus! {

pub type Env = spec_fn(u64) -> bool;

#[verifier::opaque]
pub open spec fn tr(env: Env) -> bool { true }

pub trait DDNNFPtr: Copy + PartialEq {
    spec fn sem(self, env: Env) -> bool;

    proof fn eq_is_sem()
        ensures Self::obeys_eq_spec(),
                forall|a: Self, b: Self, env: Env| #![trigger a.eq_spec(&b), tr(env)] a.eq_spec(&b) ==> a.sem(env) == b.sem(env);

    fn neg(&self) -> (r: Self)
        ensures forall|env: Env| #[trigger] tr(env) ==> r.sem(env) == !self.sem(env);
    fn false_ptr() -> (r: Self)
        ensures forall|env: Env| #[trigger] tr(env) ==> !r.sem(env);
    fn true_ptr() -> (r: Self)
        ensures forall|env: Env| #[trigger] tr(env) ==> r.sem(env);
    fn is_true(&self) -> (b: bool)
        ensures b ==> forall|env: Env| #[trigger] tr(env) ==> self.sem(env);
    fn is_false(&self) -> (b: bool)
        ensures b ==> forall|env: Env| #[trigger] tr(env) ==> !self.sem(env);
    fn is_neg(&self) -> (b: bool);
}

#[derive(Clone, Copy)]
pub enum Ite<T> {
    IteChoice { f: T, g: T, h: T },
    IteComplChoice { f: T, g: T, h: T },
    IteConst(T),
}
use Ite::*;

pub open spec fn ite_sem<T: DDNNFPtr>(i: Ite<T>, env: Env) -> bool {
    match i {
        Ite::IteChoice { f, g, h } => if f.sem(env) { g.sem(env) } else { h.sem(env) },
        Ite::IteComplChoice { f, g, h } => !(if f.sem(env) { g.sem(env) } else { h.sem(env) }),
        Ite::IteConst(c) => c.sem(env),
    }
}

impl<T: DDNNFPtr> Ite<T> {
    pub fn new(order: impl Fn(T, T) -> bool, f: T, g: T, h: T) -> (r: Ite<T>)
        requires forall|a: T, b: T| order.requires((a, b)),
        ensures forall|env: Env| #[trigger] tr(env) ==> ite_sem(r, env) == (if f.sem(env) { g.sem(env) } else { h.sem(env) }),
    {
        proof { T::eq_is_sem(); }
        // introduce constants
        let (f, g, h) = match (f, g, h) {
            (f, g, h) if f == h => (f, g, T::false_ptr()),
            (f, g, h) if f == h.neg() => (f, g, T::true_ptr()),
            (f, g, h) if f == g.neg() => (f, T::false_ptr(), h),
            _ => (f, g, h),
        };

        // check for terminal cases
        match (f, g, h) {
            (f, g, _) if f.is_true() => return IteConst(g),
            (f, _, h) if f.is_false() => return IteConst(h),
            (f, g, h) if g.is_true() && h.is_false() => return IteConst(f),
            (f, g, h) if g.is_false() && h.is_true() => return IteConst(f.neg()),
            (_, g, h) if h == g => return IteConst(g),
            _ => (),
        };

        // now, attempt to reorder the ITE to place the top-most node first in the order
        let (f, g, h) = match (f, g, h) {
            (f, g, h) if g.is_true() && order(h, f) => (h, g, f),
            (f, g, h) if h.is_false() && order(g, f) => (g, f, h),
            (f, g, h) if h.is_true() && order(g, f) => (g.neg(), f.neg(), h),
            (f, g, h) if g.is_false() && order(h, f) => (h.neg(), g, f.neg()),
            (f, g, h) if g == h.neg() && order(g, f) => (g, f, f.neg()),
            _ => (f, g, h),
        };

        // now, standardize for negation: ensure f and g are non-negated
        match (f, g, h) {
            (f, g, h) if f.is_neg() && !h.is_neg() => IteChoice {
                f: f.neg(),
                g: h,
                h: g,
            },
            (f, g, h) if !f.is_neg() && g.is_neg() => IteComplChoice {
                f,
                g: g.neg(),
                h: h.neg(),
            },
            (f, g, h) if f.is_neg() && h.is_neg() => IteComplChoice {
                f: f.neg(),
                g: h.neg(),
                h: g.neg(),
            },
            _ => IteChoice { f, g, h },
        }
    }
}


#[derive(Clone, Copy, PartialEq, Eq)]
pub struct VarLabel(pub u64);

#[derive(Clone, Copy)]
pub enum BddPtr<'a> {
    Compl(&'a BddNode<'a>),
    Reg(&'a BddNode<'a>),
    PtrTrue,
    PtrFalse,
}
pub struct BddNode<'a> {
    pub var: VarLabel,
    pub low: BddPtr<'a>,
    pub high: BddPtr<'a>,
}
pub open spec fn node_sem(n: BddNode, env: Env) -> bool decreases n
{ if env(n.var.0) { ptr_sem(n.high, env) } else { ptr_sem(n.low, env) } }
pub open spec fn ptr_sem(p: BddPtr, env: Env) -> bool decreases p
{ match p { BddPtr::Compl(n) => !node_sem(*n, env), BddPtr::Reg(n) => node_sem(*n, env), BddPtr::PtrTrue => true, BddPtr::PtrFalse => false } }

impl<'a> PartialEq for BddPtr<'a> {
    #[verifier::external_body]
    fn eq(&self, other: &Self) -> (b: bool)
        ensures b ==> *self == *other
    { unimplemented!() }
}
impl<'a> vstd::std_specs::cmp::PartialEqSpecImpl for BddPtr<'a> {
    open spec fn obeys_eq_spec() -> bool { true }
    uninterp spec fn eq_spec(&self, other: &Self) -> bool;
}


pub open spec fn is_node(p: BddPtr) -> bool { p is Reg || p is Compl }
pub open spec fn node_of<'a>(p: BddPtr<'a>) -> BddNode<'a> { match p { BddPtr::Reg(n) => *n, BddPtr::Compl(n) => *n, _ => arbitrary() } }

impl<'a> DDNNFPtr for BddPtr<'a> {
    open spec fn sem(self, env: Env) -> bool { ptr_sem(self, env) }
    proof fn eq_is_sem() {
        assume(forall|a: Self, b: Self| a.eq_spec(&b) ==> a == b);   // probe only: stands for the PartialEq stub contract
    }
    fn neg(&self) -> Self {
        match &self {
            BddPtr::Compl(x) => BddPtr::Reg(x),
            BddPtr::Reg(x) => BddPtr::Compl(x),
            BddPtr::PtrTrue => BddPtr::PtrFalse,
            BddPtr::PtrFalse => BddPtr::PtrTrue,
        }
    }
    fn false_ptr() -> Self { BddPtr::PtrFalse }
    fn true_ptr() -> Self { BddPtr::PtrTrue }
    fn is_true(&self) -> bool { match &self { BddPtr::Compl(_) | BddPtr::Reg(_) | BddPtr::PtrFalse => false, BddPtr::PtrTrue => true } }
    fn is_false(&self) -> bool { match &self { BddPtr::Compl(_) | BddPtr::Reg(_) | BddPtr::PtrTrue => false, BddPtr::PtrFalse => true } }
    fn is_neg(&self) -> bool { match &self { BddPtr::Compl(_) => true, _ => false } }
}

impl<'a> BddPtr<'a> {
    pub fn low_raw(&self) -> (r: BddPtr<'a>)
        requires is_node(*self) ensures r == node_of(*self).low
    { match &self { BddPtr::Compl(x) => x.low, BddPtr::Reg(x) => x.low, BddPtr::PtrTrue | BddPtr::PtrFalse => panic!("deref constant BDD") } }
    pub fn high_raw(&self) -> (r: BddPtr<'a>)
        requires is_node(*self) ensures r == node_of(*self).high
    { match &self { BddPtr::Compl(x) => x.high, BddPtr::Reg(x) => x.high, BddPtr::PtrTrue | BddPtr::PtrFalse => panic!("deref constant BDD") } }
}
impl<'a> BddNode<'a> {
    pub fn new(var: VarLabel, low: BddPtr<'a>, high: BddPtr<'a>) -> (r: BddNode<'a>)
        ensures r.var == var, r.low == low, r.high == high
    { BddNode { var, low, high } }
}

pub struct VarOrder { var_to_pos: Vec<usize> }
impl VarOrder {
    #[verifier::external_body]
    fn lt(&self, a: VarLabel, b: VarLabel) -> bool { unimplemented!() }
    #[verifier::external_body]
    fn first_essential(&self, a: &BddPtr, b: &BddPtr, c: &BddPtr) -> (r: VarLabel)
        requires is_node(*a) || is_node(*b) || is_node(*c)
    { unimplemented!() }
}
pub struct Cache;
impl Cache {
    #[verifier::external_body]
    fn hash(&self, ite: &Ite<BddPtr>) -> u64 { unimplemented!() }
    #[verifier::external_body]
    fn get<'a>(&self, ite: Ite<BddPtr<'a>>, hash: u64) -> (r: Option<BddPtr<'a>>)
        ensures r matches Some(v) ==> forall|env: Env| #[trigger] tr(env) ==> ptr_sem(v, env) == ite_sem(ite, env)
    { unimplemented!() }
}
pub struct RobddBuilder { order: VarOrder, cache: Cache }
impl RobddBuilder {
    #[verifier::external_body]
    fn order_view(&self) -> &VarOrder { unimplemented!() }
    #[verifier::external_body]
    fn apply_view(&self) -> &Cache { unimplemented!() }
    #[verifier::external_body]
    fn apply_insert<'a>(&self, ite: Ite<BddPtr<'a>>, res: BddPtr<'a>, hash: u64)
        requires forall|env: Env| #[trigger] tr(env) ==> ptr_sem(res, env) == ite_sem(ite, env)
    { unimplemented!() }
    #[verifier::external_body]
    fn get_or_insert<'a>(&'a self, bdd: BddNode<'a>) -> (r: BddPtr<'a>)
        ensures forall|env: Env| #[trigger] tr(env) ==> ptr_sem(r, env) == node_sem(bdd, env)
    { unimplemented!() }
    #[verifier::external_body]
    fn ite<'a>(&'a self, f: BddPtr<'a>, g: BddPtr<'a>, h: BddPtr<'a>) -> (r: BddPtr<'a>)
        ensures forall|env: Env| #[trigger] tr(env) ==> ptr_sem(r, env) == (if ptr_sem(f, env) { ptr_sem(g, env) } else { ptr_sem(h, env) })
    { unimplemented!() }

    // condition a BDD *only* if the top variable is `v`; used in `ite`
    fn condition_essential<'a>(&'a self, f: BddPtr<'a>, lbl: VarLabel, v: bool) -> (r: BddPtr<'a>)
        ensures forall|env: Env| #[trigger] tr(env) ==> (env(lbl.0) == v ==> ptr_sem(r, env) == ptr_sem(f, env))
    {
        match f {
            BddPtr::PtrTrue | BddPtr::PtrFalse => f,
            BddPtr::Reg(node) | BddPtr::Compl(node) => {
                if node.var != lbl {
                    return f;
                }
                let r = if v { f.high_raw() } else { f.low_raw() };
                if f.is_neg() {
                    r.neg()
                } else {
                    r
                }
            }
        }
    }

    fn ite_helper<'a>(&'a self, f: BddPtr<'a>, g: BddPtr<'a>, h: BddPtr<'a>) -> (r: BddPtr<'a>)
        ensures forall|env: Env| #[trigger] tr(env) ==> ptr_sem(r, env) == (if ptr_sem(f, env) { ptr_sem(g, env) } else { ptr_sem(h, env) })
    {
        let o = |a: BddPtr, b: BddPtr| match (a, b) {
            (BddPtr::PtrTrue, _) | (BddPtr::PtrFalse, _) => true,
            (_, BddPtr::PtrTrue) | (_, BddPtr::PtrFalse) => false,
            (
                BddPtr::Reg(node_a) | BddPtr::Compl(node_a),
                BddPtr::Reg(node_b) | BddPtr::Compl(node_b),
            ) => self.order_view().lt(node_a.var, node_b.var),
        };

        let ite = Ite::new(o, f, g, h);

        if let Ite::IteConst(f) = ite {
            return f;
        }

        let hash = self.apply_view().hash(&ite);
        if let Some(v) = self.apply_view().get(ite, hash) {
            return v;
        }

        // ok the work!
        // find the first essential variable for f, g, or h
        let lbl = self.order_view().first_essential(&f, &g, &h);
        let fx = self.condition_essential(f, lbl, true);
        let gx = self.condition_essential(g, lbl, true);
        let hx = self.condition_essential(h, lbl, true);
        let fxn = self.condition_essential(f, lbl, false);
        let gxn = self.condition_essential(g, lbl, false);
        let hxn = self.condition_essential(h, lbl, false);
        let t = self.ite(fx, gx, hx);
        let f = self.ite(fxn, gxn, hxn);

        if t == f {
            return t;
        };

        // now we have a new BDD
        let node = BddNode::new(lbl, f, t);
        let r = self.get_or_insert(node);
        self.apply_insert(ite, r, hash);
        r
    }
}
}
fn main() {}
