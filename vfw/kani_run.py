"""Run Kani harnesses of /verif/kani against the crate compiled from /repo's working tree."""
import os
import re
import shutil
import subprocess
import time


def run_harnesses(root, repo, harnesses, build):
    """harnesses: list of dicts {name, [thorough_only], [expect_fail]}"""
    crate = os.path.join(root, 'kani')
    res = {'checks': 0, 'checks_ok': 0, 'failed': [], 'tool_errors': [], 'samples': [], 'solver_s': 0.0, 'cmd': '', 'summary': []}
    if not harnesses:
        return res
    lock_src = os.path.join(repo, 'Cargo.lock')
    env = dict(os.environ, CARGO_NET_OFFLINE='true', CARGO_TARGET_DIR=os.path.join(build, 'kani-target'))
    names = [h['name'] for h in harnesses]
    cmd = ['cargo', 'kani', '--manifest-path', os.path.join(crate, 'Cargo.toml'), '-Z', 'function-contracts', '-Z', 'stubbing',
           '--output-format', 'regular', '-j', '8']
    for n in names:
        cmd += ['--harness', n]
    cmd += ['--exact']
    res['cmd'] = 'CARGO_NET_OFFLINE=true ' + ' '.join(cmd)
    t0 = time.time()
    try:
        p = subprocess.run(cmd, env=env, capture_output=True, text=True, timeout=3000, cwd=crate)
    except subprocess.TimeoutExpired:
        subprocess.run(['pkill', '-f', 'cbmc'])
        res['tool_errors'].append('cargo kani timed out')
        return res
    out = p.stdout + '\n' + p.stderr
    res['wall_s'] = time.time() - t0
    # split per harness
    blocks = re.split(r'\nChecking harness ', out)
    seen = set()
    for b in blocks[1:]:
        m = re.match(r'(\S+?)\.\.\.', b)
        if not m:
            continue
        hname = m.group(1).split('::')[-1]
        seen.add(hname)
        ok = 'VERIFICATION:- SUCCESSFUL' in b
        bad = 'VERIFICATION:- FAILED' in b
        mchk = re.search(r'\*\* (\d+) of (\d+) failed', b)
        nfail, ntot = (int(mchk.group(1)), int(mchk.group(2))) if mchk else (0, 0)
        mt = re.search(r'Verification Time: ([0-9.]+)s', b)
        if mt:
            res['solver_s'] += float(mt.group(1))
        res['checks'] += ntot
        res['checks_ok'] += ntot - nfail
        res['summary'].append({'harness': hname, 'checks': ntot, 'failed': nfail, 'time_s': float(mt.group(1)) if mt else None, 'result': 'ok' if ok else ('failed' if bad else 'unknown')})
        res['samples'].append('kani harness %s: %d checks' % (hname, ntot))
        if not ok and not bad:
            res['tool_errors'].append('harness %s: no verdict: %s' % (hname, b[-400:]))
        if bad:
            # failed checks
            fails = re.findall(r'Check \d+: (\S+)\n\s+- Status: FAILURE\n\s+- Description: "([^"]*)"(?:\n\s+- Location: ([^\n]*))?', b)
            unwind = [f for f in fails if 'unwinding assertion' in f[1]]
            if unwind and len(unwind) == len(fails):
                res['tool_errors'].append('harness %s: only unwinding assertions failed (bound too small)' % hname)
                continue
            for chk, desc, loc in fails:
                if 'unwinding assertion' in desc:
                    continue
                res['failed'].append({
                    'name': 'kani::%s::%s' % (hname, re.sub(r'[^A-Za-z0-9_.]+', '_', desc)[:80]),
                    'unit': 'kani', 'function': hname, 'kind': 'kani check failed', 'clause': desc,
                    'site': {'gen_line': None, 'src_file': loc, 'src_line': None, 'text': chk},
                    'rendered': 'Kani harness %s\nCheck %s\nDescription: %s\nLocation: %s' % (hname, chk, desc, loc),
                })
    for n in names:
        if n not in seen:
            res['tool_errors'].append('harness %s did not run: %s' % (n, out[-800:]))
    return res
