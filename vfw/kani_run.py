"""Run Kani harnesses of /verif/kani against the crate compiled from /repo's working tree."""
import os
import re
import shutil
import subprocess
import time


def gen_inputs(repo, build):
    """mechanically extracted snippets of /repo that Kani harnesses include (so the harness is about the real text)"""
    gen = os.path.join(build, 'kani-gen')
    os.makedirs(gen, exist_ok=True)
    src = open(os.path.join(repo, 'src/util/lru.rs')).read()
    mc = re.search(r'^const GROW_RATIO: f64 = [0-9.]+;', src, re.M)
    me = re.search(r'if (\(self\.num_filled as f64 / \(1 << self\.cap\) as f64\) > GROW_RATIO) \{\s*(?://[^\n]*\s*)*self\.grow\(\);', src)
    if not mc or not me:
        return None, 'anchor-lost: grow condition of Lru::insert / GROW_RATIO not found in src/util/lru.rs'
    expr = me.group(1).replace('self.num_filled', 'num_filled').replace('self.cap', 'cap')
    with open(os.path.join(gen, 'lru_grow_test.rs'), 'w') as f:
        f.write('// GENERATED from /repo/src/util/lru.rs -- do not edit\n%s\n#[allow(dead_code)]\nfn lru_grow_test(num_filled: usize, cap: usize) -> bool {\n    %s\n}\n' % (mc.group(0), expr))
    return gen, None


def run_harnesses(root, repo, harnesses, build):
    """harnesses: list of dicts {name, [thorough_only], [expect_fail]}"""
    crate = os.path.join(root, 'kani')
    res = {'checks': 0, 'checks_ok': 0, 'failed': [], 'tool_errors': [], 'samples': [], 'solver_s': 0.0, 'cmd': '', 'summary': []}
    if not harnesses:
        return res
    lock_src = os.path.join(repo, 'Cargo.lock')
    gen, gerr = gen_inputs(repo, build)
    if gerr:
        res['tool_errors'].append(gerr)
        return res
    env = dict(os.environ, CARGO_NET_OFFLINE='true', CARGO_TARGET_DIR=os.path.join(build, 'kani-target'), VERIF_KANI_GEN=gen)
    names = [h['name'] for h in harnesses]
    cmd = ['cargo', 'kani', '--manifest-path', os.path.join(crate, 'Cargo.toml'), '-Z', 'function-contracts', '-Z', 'stubbing',
           '--output-format', 'terse', '-j', '8']
    for n in names:
        cmd += ['--harness', n]
    res['cmd'] = 'CARGO_NET_OFFLINE=true ' + ' '.join(cmd)
    t0 = time.time()
    try:
        p = subprocess.run(cmd, env=env, capture_output=True, text=True, timeout=3000, cwd=crate)
    except subprocess.TimeoutExpired:
        subprocess.run(['pkill', '-f', 'cbmc'])
        res['tool_errors'].append('cargo kani timed out')
        return res
    out = p.stdout + '\n' + p.stderr
    res['wall_s'] = time.time() - t0
    # parse the -j output: "Thread k: Checking harness H..." then "Thread k: " followed by that harness's result block
    cur = {}
    blocks = {}
    active = None
    for ln in out.split('\n'):
        m = re.match(r'^Thread (\d+): Checking harness (\S+?)\.\.\.', ln)
        if m:
            cur[m.group(1)] = m.group(2)
            active = None
            continue
        m = re.match(r'^Thread (\d+):\s*$', ln)
        if m:
            active = cur.get(m.group(1))
            blocks.setdefault(active, [])
            continue
        m = re.match(r'^Checking harness (\S+?)\.\.\.', ln)
        if m:
            active = m.group(1)
            blocks.setdefault(active, [])
            continue
        if ln.startswith('Manual Harness Summary') or ln.startswith('Complete - '):
            active = None
        if active is not None:
            blocks[active].append(ln)
    seen = set()
    for full, lines in blocks.items():
        if full is None:
            continue
        b = '\n'.join(lines)
        hname = full.split('::')[-1]
        seen.add(hname)
        ok = 'VERIFICATION:- SUCCESSFUL' in b
        bad = 'VERIFICATION:- FAILED' in b
        mchk = re.search(r'\*\* (\d+) of (\d+) failed', b)
        nfail, ntot = (int(mchk.group(1)), int(mchk.group(2))) if mchk else (0, 0)
        mt = re.search(r'Verification Time: ([0-9.]+)s', b)
        if mt:
            res['solver_s'] += float(mt.group(1))
        mcov = re.search(r'\*\* (\d+) of (\d+) cover properties satisfied', b)
        if mcov and int(mcov.group(1)) != int(mcov.group(2)):
            res['tool_errors'].append('vacuity: harness %s: only %s of %s cover properties satisfied (an assume excludes the covered case)' % (hname, mcov.group(1), mcov.group(2)))
        res['checks'] += ntot
        res['checks_ok'] += ntot - nfail
        res['summary'].append({'harness': full, 'checks': ntot, 'failed': nfail, 'covers': mcov.group(0) if mcov else None,
                               'time_s': float(mt.group(1)) if mt else None, 'result': 'ok' if ok else ('failed' if bad else 'unknown')})
        res['samples'].append('kani harness %s: %d CBMC checks, all inputs of the stated bit domain' % (full, ntot))
        if not ok and not bad:
            res['tool_errors'].append('harness %s: no verdict: %s' % (hname, b[-400:]))
        if bad:
            fails = re.findall(r'Failed Checks: ([^\n]*)\n\s*File: "([^"]*)", line (\d+), in (\S+)', b)
            if not fails:
                fails = [(d, '?', '0', '?') for d in re.findall(r'Failed Checks: ([^\n]*)', b)]
            real = [f for f in fails if 'unwinding assertion' not in f[0]]
            if fails and not real:
                res['tool_errors'].append('harness %s: only unwinding assertions failed (bound too small)' % hname)
                continue
            if not real:
                res['tool_errors'].append('harness %s FAILED but no failed check was parsed: %s' % (hname, b[-400:]))
            for desc, file, line, fn in real:
                res['failed'].append({
                    'name': 'kani::%s::%s' % (hname, re.sub(r'[^A-Za-z0-9_.]+', '_', desc)[:80]),
                    'unit': 'kani', 'function': hname, 'kind': 'kani check failed', 'clause': desc,
                    'site': {'gen_line': None, 'src_file': file, 'src_line': int(line), 'text': fn},
                    'rendered': 'Kani harness %s\nFailed check: %s\nLocation: %s:%s in %s' % (full, desc, file, line, fn),
                })
    for n in names:
        if n not in seen:
            res['tool_errors'].append('harness %s did not run: %s' % (n, out[-800:]))
    return res
