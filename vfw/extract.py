"""Mechanical extractor: splices functions copied byte-for-byte from /repo into a
Verus template, together with the contracts written in the template.

Template directives (lines starting with `//%%`):

  //%% extract <file> :: <container header | -> :: <fn|struct|enum|const|type|trait> <name>
  //%% @ret <name>                      name the return value  (-> T  becomes  -> (name: T))
  //%% @pub                             make the item (and struct fields) pub
  //%% @attr <text>                     attribute line(s) put in front of the item
  //%% @rewrite <n> /<regex>/ => <repl> declared rewrite; must match exactly n times in the item text
  //%%                                  (`?n`: at most n times -- for annotation-only rewrites)
  //%% @spec                            following raw lines = requires/ensures/decreases clauses
  //%% @entry                           following raw lines = proof block inserted as first statement
  //%% @loop <k> /<regex>/              following raw lines = invariants for the k-th loop (1-based,
  //%%                                  textual order); regex must match that loop's header text
  //%% @loopbody <k>                    following raw lines = proof block inserted as first statement of
  //%%                                  the k-th loop's body (ghost code only)
  //%% @loopend <k>                     following raw lines = ghost code inserted last in the k-th loop's body
  //%% @after /<regex>/  (or @before)   following raw lines = ghost code inserted after the UNIQUE line of the (rewritten) body
  //%%                                  that matches the regex (AnchorLost unless exactly one line matches)
  //%% @props C01 C02                   obligations whose failing site is in this function belong to these
  //%%                                  properties only; a contract line ending in `// #C02` marks a clause that
  //%%                                  serves only that property
  //%% @expect /<regex>/                the comment-stripped, whitespace-normalised item text must match
  //%% @dropinner fn <name>             remove the nested fn item <name> from this fn's body (it is extracted on its own
  //%%                                  with the container `<header> > fn <outer>`: rule R-hoist)
  //%% @discard                         emit nothing for this block (used with @expect: shape check only)
  //%% @nobody                          keep only the signature and end it with ';' (trait decls)
  //%% end

Everything not produced by a directive is template text (spec functions, lemmas,
trusted stubs).  Attributes and doc comments in front of an extracted item are
dropped (rule R-attr); everything else of the item is verbatim unless a declared
@rewrite says otherwise.  Any rule that does not match as declared raises
AnchorLost (=> the check exits 2, never an alarm).
"""
import hashlib
import os
import re


class AnchorLost(Exception):
    pass


class TemplateError(Exception):
    pass


# ---------------------------------------------------------------------------
# Rust-aware masking: comments, strings and char literals become spaces
# ---------------------------------------------------------------------------

def mask(text):
    out = list(text)
    i, n = 0, len(text)

    def blank(a, b):
        for k in range(a, b):
            if out[k] != '\n':
                out[k] = ' '

    while i < n:
        c = text[i]
        if c == '/' and i + 1 < n and text[i + 1] == '/':
            j = text.find('\n', i)
            if j < 0:
                j = n
            blank(i, j)
            i = j
        elif c == '/' and i + 1 < n and text[i + 1] == '*':
            depth, j = 1, i + 2
            while j < n and depth > 0:
                if text.startswith('/*', j):
                    depth += 1
                    j += 2
                elif text.startswith('*/', j):
                    depth -= 1
                    j += 2
                else:
                    j += 1
            blank(i, j)
            i = j
        elif c == '"' or (c in 'rb' and re.match(r'(?:b?r#*"|b")', text[i:i + 8]) and (i == 0 or not (text[i - 1].isalnum() or text[i - 1] == '_'))):
            m = re.match(r'b?r(#*)"', text[i:i + 40])
            if m:
                hashes = m.group(1)
                endtok = '"' + hashes
                j = text.find(endtok, i + len(m.group(0)))
                j = n if j < 0 else j + len(endtok)
                blank(i, j)
                i = j
            else:
                j = i + (2 if c == 'b' else 1)
                while j < n and text[j] != '"':
                    if text[j] == '\\':
                        j += 1
                    j += 1
                j = min(n, j + 1)
                blank(i, j)
                i = j
        elif c == "'":
            # char literal or lifetime
            m = re.match(r"'(?:\\(?:x[0-9a-fA-F]{2}|u\{[0-9a-fA-F_]+\}|.)|[^'\\])'", text[i:i + 14])
            if m:
                blank(i, i + len(m.group(0)))
                i += len(m.group(0))
            else:
                i += 1
        else:
            i += 1
    return ''.join(out)


def mask_keep_code(text):
    """text with comments removed (strings kept)"""
    m = mask(text)
    out = []
    for a, b in zip(text, m):
        out.append(a if (b == a or a in '"\'') else ' ')
    # simpler: drop // comments and doc comments line-wise
    res = []
    for ln in text.split('\n'):
        k = ln.find('//')
        res.append(ln if k < 0 else ln[:k])
    return '\n'.join(res)


def match_brace(masked, open_idx):
    assert masked[open_idx] == '{'
    depth = 0
    for k in range(open_idx, len(masked)):
        ch = masked[k]
        if ch == '{':
            depth += 1
        elif ch == '}':
            depth -= 1
            if depth == 0:
                return k
    raise AnchorLost('unbalanced braces')


def norm_ws(s):
    return re.sub(r'\s+', ' ', s).strip()


def depth_at(masked, lo, hi, idx):
    """brace depth of position idx relative to lo (lo is just after an opening brace)"""
    d = 0
    for k in range(lo, idx):
        ch = masked[k]
        if ch == '{':
            d += 1
        elif ch == '}':
            d -= 1
    return d


# ---------------------------------------------------------------------------
# Locating items
# ---------------------------------------------------------------------------

def find_containers(text, masked, header):
    want = norm_ws(header)
    res = []
    for m in re.finditer(r'\b(?:impl|trait|pub\s+trait|mod|pub\s+mod)\b', masked):
        # only top-level or inside mod: require that the keyword starts a line (after whitespace / pub)
        ls = masked.rfind('\n', 0, m.start()) + 1
        if masked[ls:m.start()].strip() not in ('', 'pub', 'unsafe', 'pub unsafe'):
            continue
        b = masked.find('{', m.start())
        s = masked.find(';', m.start())
        if b < 0 or (0 <= s < b):
            continue
        hdr = norm_ws(masked[m.start():b])
        hdr_nopub = re.sub(r'^pub\s+', '', hdr)
        if hdr == want or hdr_nopub == want:
            res.append((b + 1, match_brace(masked, b)))
    return res


def item_regex(kind, name):
    n = re.escape(name)
    if kind == 'fn':
        return r'\bfn\s+' + n + r'\b'
    if kind in ('struct', 'enum', 'trait', 'type', 'const', 'static'):
        return r'\b' + kind + r'\s+' + n + r'\b'
    raise TemplateError('unknown item kind ' + kind)


QUALS = r'(?:pub(?:\s*\([^)]*\))?\s+|const\s+|unsafe\s+|async\s+|default\s+|extern\s+"[^"]*"\s+)*'


def find_item(text, masked, lo, hi, kind, name):
    """find item `kind name` at relative brace depth 0 within [lo,hi); returns (start, body_open|None, end)"""
    hits = []
    for m in re.finditer(item_regex(kind, name), masked[lo:hi]):
        pos = lo + m.start()
        if depth_at(masked, lo, hi, pos) != 0:
            continue
        hits.append(pos)
    if len(hits) != 1:
        raise AnchorLost('%s %s: %d matches' % (kind, name, len(hits)))
    pos = hits[0]
    # extend left over qualifiers on the same item
    ls = pos
    # walk back over qualifiers (they may be on the same line only, in this code base)
    line_start = masked.rfind('\n', 0, pos) + 1
    pre = masked[line_start:pos]
    mq = re.search(r'(' + QUALS + r')$', text[line_start:pos])
    if mq and pre.strip() == text[line_start:pos][mq.start():].strip():
        ls = line_start + mq.start()
        # skip indentation
        while ls < pos and text[ls] in ' \t':
            ls += 1
    start = ls
    # find end: first '{' or ';' at paren/bracket depth 0
    k = pos
    par = 0
    body_open = None
    while k < hi:
        ch = masked[k]
        if ch in '([':
            par += 1
        elif ch in ')]':
            par -= 1
        elif ch == '{' and par == 0:
            body_open = k
            break
        elif ch == ';' and par == 0:
            return start, None, k + 1
        k += 1
    if body_open is None:
        raise AnchorLost('%s %s: no body' % (kind, name))
    end = match_brace(masked, body_open) + 1
    if kind in ('struct',) and end < len(masked) and masked[end:end + 1] == ';':
        end += 1
    return start, body_open, end


# ---------------------------------------------------------------------------
# Loop headers inside a function body
# ---------------------------------------------------------------------------

def find_loops(masked_item, body_open):
    """yield (kw_start, brace_idx) for every loop/while/for in textual order"""
    res = []
    for m in re.finditer(r'\b(loop|while|for)\b', masked_item[body_open:]):
        s = body_open + m.start()
        # `for` in `impl X for Y` / HRTB `for<'a>` cannot occur inside a fn body in this code base,
        # but guard against `for<`
        after = masked_item[s + len(m.group(1)):s + len(m.group(1)) + 1]
        if m.group(1) == 'for' and after == '<':
            continue
        # previous non-space char must be a statement boundary or label
        p = s - 1
        while p >= 0 and masked_item[p] in ' \t\n':
            p -= 1
        if p >= 0 and masked_item[p] not in '{};:=(,':
            continue
        k = s
        par = 0
        while k < len(masked_item):
            ch = masked_item[k]
            if ch in '([':
                par += 1
            elif ch in ')]':
                par -= 1
            elif ch == '{' and par == 0:
                break
            k += 1
        res.append((s, k))
    return res


# ---------------------------------------------------------------------------
# Template processing
# ---------------------------------------------------------------------------

class Block:
    def __init__(self, file, container, kind, name, tline):
        self.file, self.container, self.kind, self.name, self.tline = file, container, kind, name, tline
        self.ret = None
        self.pub = False
        self.nobody = False
        self.attrs = []
        self.rewrites = []     # (n, regex, repl)
        self.spec = []         # (template line no, text)
        self.entry = []
        self.loops = {}        # k -> (regex, [(tline, text)])
        self.loopbody = {}     # k -> [(tline, text)]  proof block put first in the k-th loop body
        self.loopend = {}      # k -> [(tline, text)]  proof block put last in the k-th loop body (before its closing brace)
        self.expects = []      # regexes the (whitespace-normalised) item text must match
        self.discard = False   # emit nothing (the block only checks @expect)
        self.afters = []       # (regex, [(tline, text)]): ghost lines inserted after the unique body line matching regex
        self.dropinner = []    # names of nested fn items removed from this fn's body (they are extracted on their own: R-hoist)
        self.props = None      # @props: the properties this function's obligations belong to (None = all of the unit's)


class Generated:
    def __init__(self):
        self.lines = []        # output text lines
        self.origin = []       # per output line: dict
        self.functions = []    # dicts: name, qual, file, src_lines, has_requires, n_clauses, out_range
        self.rewrites = []     # dicts
        self.sources = {}      # file -> sha256
        self.template_fns = [] # names of fn items written in the template (lemmas etc.)
        self.includes = []

    def emit(self, text, origin):
        for ln in text.split('\n'):
            self.lines.append(ln)
            self.origin.append(origin)

    def text(self):
        return '\n'.join(self.lines) + '\n'


RW_RE = re.compile(r'^@rewrite\s+(\??\d+|\d+\.\.\d+)\s+/(.*)/\s+=>\s?(.*)$')
LOOP_RE = re.compile(r'^@loop\s+(\d+)\s+/(.*)/\s*$')


def parse_template(path, assumed=False, root=None, includes=None):
    """returns (items, includes); items: ('text', (file, lineno), str) | ('block', Block)"""
    items = []
    cur = None
    section = None
    root = root or os.path.dirname(os.path.dirname(os.path.abspath(path)))
    if includes is None:
        includes = []
    rel = os.path.relpath(os.path.abspath(path), root)
    with open(path) as f:
        lines = f.read().split('\n')
    if lines and lines[-1] == '':
        lines.pop()
    for i0, ln in enumerate(lines, 1):
        i = (rel, i0)
        s = ln.strip()
        if s.startswith('//%%'):
            d = s[4:].strip()
            if d.startswith('include ') or d.startswith('include-assumed '):
                if cur is not None:
                    raise TemplateError('%s:%d include inside extract' % (path, i0))
                kind, inc = d.split(None, 1)
                inc = inc.strip()
                sub_assumed = assumed or kind == 'include-assumed'
                includes.append({'file': inc, 'assumed': sub_assumed, 'from': rel})
                sub, _ = parse_template(os.path.join(root, inc), sub_assumed, root, includes)
                items.extend(sub)
            elif d.startswith('extract '):
                if cur is not None:
                    raise TemplateError('%s:%d nested extract' % (path, i0))
                parts = [p.strip() for p in d[len('extract '):].split('::')]
                # container headers may contain '::' (ops::Add); the first part is the file, last is item
                file = parts[0]
                item = parts[-1]
                container = '::'.join(parts[1:-1]).strip()
                kind, name = item.split(None, 1)
                cur = Block(file, container, kind, name.strip(), i)
                cur.assumed = assumed
                section = None
            elif d == 'end':
                if cur is None:
                    raise TemplateError('%s:%d end without extract' % (path, i0))
                items.append(('block', cur))
                cur = None
                section = None
            elif cur is None:
                # unit-level comment directive, ignored (e.g. //%% unit: name)
                items.append(('text', i, ln))
            elif d.startswith('@ret '):
                cur.ret = d[5:].strip()
            elif d.startswith('@props '):
                cur.props = d[7:].replace(',', ' ').split()
            elif d.startswith('@expect '):
                m = re.match(r'^@expect\s+/(.*)/\s*$', d)
                if not m:
                    raise TemplateError('%s:%d bad @expect' % (path, i0))
                cur.expects.append(m.group(1))
            elif d.startswith('@dropinner fn '):
                cur.dropinner.append(d[len('@dropinner fn '):].strip())
            elif d == '@discard':
                cur.discard = True
            elif d == '@pub':
                cur.pub = True
            elif d == '@nobody':
                cur.nobody = True
            elif d.startswith('@attr '):
                cur.attrs.append(d[6:])
            elif d.startswith('@rewrite '):
                m = RW_RE.match(d)
                if not m:
                    raise TemplateError('%s:%d bad @rewrite' % (path, i0))
                cur.rewrites.append((m.group(1), m.group(2), m.group(3)))
            elif d == '@spec':
                section = cur.spec
            elif d == '@entry':
                section = cur.entry
            elif d.startswith('@after ') or d.startswith('@before '):
                m = re.match(r'^@(after|before)\s+/(.*)/\s*$', d)
                if not m:
                    raise TemplateError('%s:%d bad @after/@before' % (path, i0))
                cur.afters.append((m.group(2), [], m.group(1)))
                section = cur.afters[-1][1]
            elif d.startswith('@loopend '):
                k = int(d.split()[1])
                cur.loopend[k] = []
                section = cur.loopend[k]
            elif d.startswith('@loopbody '):
                k = int(d.split()[1])
                cur.loopbody[k] = []
                section = cur.loopbody[k]
            elif d.startswith('@loop '):
                m = LOOP_RE.match(d)
                if not m:
                    raise TemplateError('%s:%d bad @loop' % (path, i0))
                k = int(m.group(1))
                cur.loops[k] = (m.group(2), [])
                section = cur.loops[k][1]
            else:
                raise TemplateError('%s:%d unknown directive %r' % (path, i0, d))
        else:
            if cur is None:
                items.append(('text', i, ln))
            else:
                if section is None:
                    if s == '':
                        continue
                    raise TemplateError('%s:%d raw line outside a section' % (path, i0))
                section.append((i, ln))
    if cur is not None:
        raise TemplateError('%s: unterminated extract' % path)
    return items, includes


def count_clauses(lines):
    """number of top-level comma separated clauses in requires/ensures/invariant text"""
    txt = mask('\n'.join(t for _, t in lines))
    txt = re.sub(r'\|[^|]*\|', ' B ', txt)   # quantifier / closure binders contain commas
    n = 0
    depth = 0
    cur = ''
    for ch in txt:
        if ch in '([{':
            depth += 1
        elif ch in ')]}':
            depth -= 1
        if ch == ',' and depth == 0:
            if cur.strip():
                n += 1
            cur = ''
        else:
            cur += ch
    if cur.strip():
        n += 1
    return n


def split_sections(lines):
    """split spec lines into {'requires': [...], 'ensures': [...], ...} by leading keyword"""
    secs = {}
    cur = None
    for tl, t in lines:
        s = t.strip()
        m = re.match(r'^(requires|ensures|decreases|invariant|invariant_except_break|recommends|returns|no_unwind)\b(.*)$', s)
        if m:
            cur = m.group(1)
            secs.setdefault(cur, [])
            rest = m.group(2).strip()
            if rest:
                secs[cur].append((tl, rest))
        elif cur is not None:
            secs[cur].append((tl, t))
    return secs


def generate(template_path, repo_root, unit_name, canary=False):
    g = Generated()
    g.canaried = []
    items, g.includes = parse_template(template_path)
    cache = {}

    def load(file):
        if file not in cache:
            p = os.path.join(repo_root, file)
            if not os.path.exists(p):
                raise AnchorLost('source file missing: ' + file)
            with open(p) as f:
                t = f.read()
            cache[file] = (t, mask(t))
            g.sources[file] = hashlib.sha256(t.encode()).hexdigest()
        return cache[file]

    for it in items:
        if it[0] == 'text':
            _, tl, ln = it
            g.emit(ln, {'k': 'template', 'tline': tl})
            m = re.match(r'^\s*(?:pub\s+)?(?:open\s+|closed\s+)?(?:broadcast\s+)?(proof|spec|exec)?\s*fn\s+(\w+)', ln)
            if m:
                g.template_fns.append({'name': m.group(2), 'mode': m.group(1) or 'exec', 'out_line': len(g.lines)})
            continue
        b = it[1]
        text, masked = load(b.file)
        cont, inner_of = b.container, None
        mh = re.match(r'^(.*?)\s*>\s*fn\s+(\w+)\s*$', cont)
        if mh:
            # R-hoist: the item is a nested `fn` inside the body of `fn <outer>` (nested fn items cannot capture
            # their environment, so lifting one to module level preserves behaviour)
            cont, inner_of = mh.group(1).strip(), mh.group(2)
        if cont in ('-', ''):
            spans = [(0, len(text))]
        else:
            spans = find_containers(text, masked, cont)
            if not spans:
                raise AnchorLost('%s: container not found: %s' % (b.file, b.container))
        if inner_of:
            outer = []
            for lo, hi in spans:
                try:
                    outer.append(find_item(text, masked, lo, hi, 'fn', inner_of))
                except AnchorLost:
                    pass
            if len(outer) != 1 or outer[0][1] is None:
                raise AnchorLost('%s: outer fn %s in [%s]: %d matches' % (b.file, inner_of, cont, len(outer)))
            spans = [(outer[0][1] + 1, outer[0][2] - 1)]
            g.rewrites.append({'item': b.name, 'file': b.file, 'regex': 'HOIST nested fn %s out of fn %s' % (b.name, inner_of), 'repl': '', 'count': 1})
        found = []
        for lo, hi in spans:
            try:
                found.append(find_item(text, masked, lo, hi, b.kind, b.name))
            except AnchorLost:
                pass
        if len(found) != 1:
            raise AnchorLost('%s: %s %s in [%s]: %d matches' % (b.file, b.kind, b.name, b.container, len(found)))
        start, body_open, end = found[0]
        src_line0 = text.count('\n', 0, start) + 1
        item = text[start:end]
        for rx in b.expects:
            if not re.search(rx, norm_ws(mask_keep_code(item))):
                raise AnchorLost('%s::%s does not match the expected shape /%s/' % (b.file, b.name, rx))
        if b.discard:
            g.rewrites.append({'item': b.name, 'file': b.file, 'regex': 'EXPECT ' + ' ; '.join(b.expects), 'repl': '', 'count': 1})
            continue
        for dn in b.dropinner:
            mi0 = mask(item)
            bo0 = mi0.find('{')
            try:
                ds, _, de = find_item(item, mi0, bo0 + 1, match_brace(mi0, bo0), 'fn', dn)
            except AnchorLost as e:
                raise AnchorLost('%s::%s @dropinner fn %s: %s' % (b.file, b.name, dn, e))
            # keep the line count (diagnostics map back to source lines)
            item = item[:ds] + '\n' * item[ds:de].count('\n') + item[de:]
            g.rewrites.append({'item': b.name, 'file': b.file, 'regex': 'DROPINNER nested fn %s (hoisted: extracted as its own item)' % dn, 'repl': '', 'count': 1})
        # declared rewrites, applied to the raw item text
        for n, rx, repl in b.rewrites:
            new, cnt = re.subn(rx, repl, item, flags=re.M | re.S)
            # `?n` = at most n matches (an annotation-only rewrite whose target may legitimately be absent)
            # `a..b` = between a and b matches (a rewrite that applies to every occurrence, whose number a code change may alter)
            if '..' in n:
                lo_, hi_ = n.split('..')
                okcnt = int(lo_) <= cnt <= int(hi_)
            else:
                okcnt = (cnt <= int(n[1:])) if n.startswith('?') else (cnt == int(n))
            if not okcnt:
                raise AnchorLost('%s::%s rewrite /%s/ matched %d times, declared %s' % (b.file, b.name, rx, cnt, n))
            g.rewrites.append({'item': b.name, 'file': b.file, 'regex': rx, 'repl': repl, 'count': cnt})
            item = new
        mitem = mask(item)
        qual = (b.container + ' :: ' if b.container not in ('-', '') else '') + b.name
        out_start = len(g.lines) + 1
        origin_base = {'k': 'extract', 'file': b.file, 'fn': b.name, 'qual': qual, 'tline': b.tline, 'fn_props': b.props}
        for a in b.attrs:
            g.emit(a, {'k': 'attr', 'fn': b.name, 'tline': b.tline})
        n_clauses = 0
        has_requires = False
        if b.kind == 'fn':
            # locate signature end
            k = re.search(item_regex('fn', b.name), mitem).start()
            par = 0
            bo = None
            semi = None
            while k < len(mitem):
                ch = mitem[k]
                if ch in '([':
                    par += 1
                elif ch in ')]':
                    par -= 1
                elif ch == '{' and par == 0:
                    bo = k
                    break
                elif ch == ';' and par == 0:
                    semi = k
                    break
                k += 1
            sig_end = bo if bo is not None else semi
            sig = item[:sig_end].rstrip()
            if b.pub and not re.match(r'^\s*pub\b', sig):
                sig = 'pub ' + sig
            if b.ret:
                # last '->' at paren depth 0 in the signature; where-clause (if any) follows the type
                msig = mask(sig)
                par = 0
                arrow = None
                for k2 in range(len(msig) - 1):
                    ch = msig[k2]
                    if ch in '([':
                        par += 1
                    elif ch in ')]':
                        par -= 1
                    elif par == 0 and msig[k2:k2 + 2] == '->':
                        arrow = k2
                if arrow is None:
                    raise AnchorLost('%s::%s has no return type but @ret given' % (b.file, b.name))
                mw = re.search(r'\bwhere\b', msig[arrow:])
                tend = arrow + mw.start() if mw else len(sig)
                rty = sig[arrow + 2:tend].strip()
                sig = sig[:arrow] + '-> (' + b.ret + ': ' + rty + ')' + (' ' + sig[tend:] if mw else '')
            if getattr(b, 'assumed', False) and bo is not None and not b.nobody:
                g.emit('#[verifier::external_body]', {'k': 'attr', 'fn': b.name, 'tline': b.tline})
            g.emit(sig, dict(origin_base, part='sig', src_line=src_line0))
            secs = split_sections(b.spec)
            has_requires = 'requires' in secs
            n_clauses += sum(count_clauses(v) for kk, v in secs.items() if kk in ('ensures', 'decreases'))
            spec_lines = list(b.spec)
            idx_spec_start = len(g.lines)
            for j, (tl, t) in enumerate(spec_lines):
                g.emit(t, {'k': 'spec', 'fn': b.name, 'qual': qual, 'tline': tl, 'clause': j, 'props': clause_props(t), 'fn_props': b.props})
            idx_spec_end = len(g.lines)
            if b.nobody or bo is None:
                g.emit(';', dict(origin_base, part='sig'))
            elif getattr(b, 'assumed', False):
                g.emit('{ unimplemented!() }', dict(origin_base, part='sig'))
            else:
                body = item[bo:]
                mbody = mitem[bo:]
                # splice loop invariants (from last to first to keep offsets) and entry block
                loops = find_loops(mbody, 0)
                inserts = []  # (offset, text, origin)
                for kidx, (rx, lines) in b.loops.items():
                    if kidx < 1 or kidx > len(loops):
                        raise AnchorLost('%s::%s loop %d not found (%d loops)' % (b.file, b.name, kidx, len(loops)))
                    ls, lb = loops[kidx - 1]
                    hdr = norm_ws(body[ls:lb])
                    if not re.search(rx, hdr):
                        raise AnchorLost('%s::%s loop %d header %r does not match /%s/' % (b.file, b.name, kidx, hdr, rx))
                    inserts.append((lb, lines, 'loop%d' % kidx))
                    n_clauses += 2 * sum(count_clauses(v) for kk, v in split_sections(lines).items() if kk.startswith('invariant')) \
                        + sum(count_clauses(v) for kk, v in split_sections(lines).items() if kk == 'decreases')
                for kidx, lines in b.loopbody.items():
                    if kidx < 1 or kidx > len(loops):
                        raise AnchorLost('%s::%s loop %d not found (%d loops)' % (b.file, b.name, kidx, len(loops)))
                    inserts.append((loops[kidx - 1][1] + 1, lines, 'loopbody%d' % kidx))
                for kidx, lines in b.loopend.items():
                    if kidx < 1 or kidx > len(loops):
                        raise AnchorLost('%s::%s loop %d not found (%d loops)' % (b.file, b.name, kidx, len(loops)))
                    inserts.append((match_brace(mbody, loops[kidx - 1][1]), lines, 'loopend%d' % kidx))
                for ai, (rx, lines, where) in enumerate(b.afters):
                    # ghost code after / before the unique line of the body that matches rx (searched in the comment-preserving text)
                    offs, pos0 = [], 0
                    for ln0 in body.split('\n'):
                        start0 = pos0
                        pos0 += len(ln0) + 1
                        if re.search(rx, ln0):
                            offs.append(pos0 if where == 'after' else start0)
                    if len(offs) != 1:
                        raise AnchorLost('%s::%s @after /%s/ matched %d lines' % (b.file, b.name, rx, len(offs)))
                    inserts.append((min(offs[0], len(body)), lines, 'after%d' % (ai + 1)))
                if b.entry:
                    inserts.append((1, b.entry, 'entry'))
                inserts.sort(key=lambda x: x[0])
                pos = 0
                src_line = src_line0 + item[:bo].count('\n')
                for off, lines, tag in inserts:
                    chunk = body[pos:off]
                    g.emit_chunk = None
                    _emit_src(g, chunk, origin_base, src_line)
                    src_line += chunk.count('\n')
                    for j, (tl, t) in enumerate(lines):
                        g.emit(t, {'k': tag if tag == 'entry' else 'inv', 'fn': b.name, 'qual': qual, 'tline': tl, 'clause': j, 'loop': tag, 'props': clause_props(t), 'fn_props': b.props})
                    pos = off
                _emit_src(g, body[pos:], origin_base, src_line)
            if canary and has_requires and not getattr(b, 'assumed', False) and bo is not None and not b.nobody:
                # a renamed copy of the function whose contract additionally claims `false`: it must FAIL.
                # (a copy, so that callers of the original never see the bogus postcondition)
                blk_lines = g.lines[out_start - 1:]
                blk_orig = g.origin[out_start - 1:]
                a, z = idx_spec_start - (out_start - 1), idx_spec_end - (out_start - 1)
                cname = b.name + '__canary'
                g.emit('', {'k': 'template', 'tline': b.tline})
                for ln, o in zip(blk_lines[:a], blk_orig[:a]):
                    ln2 = re.sub(r'\bfn\s+' + re.escape(b.name) + r'\b', 'fn ' + cname, ln, count=1)
                    g.lines.append(ln2)
                    g.origin.append(dict(o, fn=cname, canary=True))
                for j, (tl, t) in enumerate(add_canary(spec_lines)):
                    g.emit(t, {'k': 'spec', 'fn': cname, 'qual': qual, 'tline': tl, 'clause': j, 'canary': True})
                for ln, o in zip(blk_lines[z:], blk_orig[z:]):
                    g.lines.append(ln)
                    g.origin.append(dict(o, fn=cname, canary=True))
                g.canaried.append(b.name)
        else:
            if b.pub:
                item = make_pub(item, b.kind)
            _emit_src(g, item, origin_base, src_line0)
        g.functions.append({
            'name': b.name, 'qual': qual, 'kind': b.kind, 'file': b.file,
            'src_lines': [src_line0, src_line0 + text[start:end].count('\n')],
            'has_requires': has_requires, 'n_clauses': n_clauses,
            'out_range': [out_start, len(g.lines)], 'tline': b.tline,
            'sha256': hashlib.sha256(text[start:end].encode()).hexdigest()[:16],
            'assumed': bool(getattr(b, 'assumed', False)),
            'props': b.props,
            'n_requires': count_clauses(split_sections(b.spec).get('requires', [])) if b.kind == 'fn' else 0,
        })
    return g


SEM_PROPS = ['C01', 'C05', 'C06', 'C08', 'C16', 'T06', 'T07', 'T08']


def clause_props(t):
    """`// #C02` or `// #C02,C08` at the end of a contract line: the clause serves only those properties"""
    m = re.search(r'//\s*#((?:C\d+|SEM)(?:\s*,\s*(?:C\d+|SEM))*)\s*$', t)
    if not m:
        return None
    res = []
    for x in m.group(1).split(','):
        x = x.strip()
        # #SEM marks a semantic-correctness clause: it serves every property except the canonical-form one (C02)
        res.extend(SEM_PROPS if x == 'SEM' else [x])
    return res


def add_canary(spec_lines):
    """add `ensures false` (must FAIL: shows the requires clause is satisfiable and the exits reachable)"""
    out = []
    done = False
    for tl, t in spec_lines:
        if not done and re.match(r'^\s*ensures\b', t):
            out.append((tl, re.sub(r'\bensures\b', 'ensures', t, count=1)))
            out.append(('canary', '            false,'))
            # the rest of this line (if it had a clause after the keyword) is kept by splitting
            m = re.match(r'^(\s*ensures)\b(.*)$', t)
            out[-2] = (tl, m.group(1))
            if m.group(2).strip():
                out.append((tl, m.group(2)))
            done = True
        else:
            out.append((tl, t))
    if not done:
        # insert before a decreases clause, or at the end
        idx = len(out)
        for k, (tl, t) in enumerate(out):
            if re.match(r'^\s*decreases\b', t):
                idx = k
                break
        # make sure the preceding clause ends with a comma
        j = idx - 1
        while j >= 0 and not out[j][1].strip():
            j -= 1
        if j >= 0 and not out[j][1].rstrip().endswith(','):
            out[j] = (out[j][0], out[j][1].rstrip() + ',')
        out.insert(idx, ('canary', '        ensures false,'))
    return out


def _emit_src(g, chunk, origin_base, src_line):
    parts = chunk.split('\n')
    for j, ln in enumerate(parts):
        if j == 0 and g.lines and origin_base.get('_cont'):
            pass
        g.lines.append(ln)
        g.origin.append(dict(origin_base, part='body', src_line=src_line + j))


def make_pub(item, kind):
    m = mask(item)
    if not re.match(r'^\s*pub\b', item):
        item = 'pub ' + item
        m = 'pub ' + m
    if kind == 'struct':
        b = m.find('{')
        p = m.find('(')
        if b >= 0 and (p < 0 or b < p):
            e = match_brace(m, b)
            inner = item[b + 1:e]
            minner = m[b + 1:e]
            out = []
            depth = 0
            pos = 0
            # add pub to each field at depth 0: identifier followed by ':' at start of a field
            res = ''
            fields_start = True
            k = 0
            while k < len(inner):
                ch = minner[k]
                if fields_start and (ch.isalpha() or ch == '_'):
                    mm = re.match(r'(pub(?:\s*\([^)]*\))?\s+)?(\w+)\s*:', minner[k:])
                    if mm and depth == 0:
                        if not mm.group(1):
                            res += 'pub '
                        fields_start = False
                if ch in '<([{':
                    depth += 1
                elif ch in '>)]}':
                    if not (ch == '>' and k > 0 and minner[k - 1] == '-'):
                        depth -= 1
                elif ch == ',' and depth == 0:
                    fields_start = True
                res += inner[k]
                k += 1
            item = item[:b + 1] + res + item[e:]
        elif p >= 0:
            # tuple struct: pub on every field
            e = p
            depth = 0
            for k in range(p, len(m)):
                if m[k] == '(':
                    depth += 1
                elif m[k] == ')':
                    depth -= 1
                    if depth == 0:
                        e = k
                        break
            inner = item[p + 1:e]
            fields = [f.strip() for f in inner.split(',') if f.strip()]
            fields = [f if f.startswith('pub') else 'pub ' + f for f in fields]
            item = item[:p + 1] + ', '.join(fields) + item[e:]
    return item


def header_comment(g, unit, repo_root, template_path):
    import subprocess
    try:
        head = subprocess.run(['git', '-C', repo_root, 'rev-parse', 'HEAD'], capture_output=True, text=True).stdout.strip()
        dirty = subprocess.run(['git', '-C', repo_root, 'status', '--porcelain', '--', 'src', 'bin'], capture_output=True, text=True).stdout.strip()
    except Exception:
        head, dirty = '?', ''
    lines = ['// GENERATED by /verif/vfw/extract.py -- do not edit',
             '// unit: %s   template: %s' % (unit, os.path.relpath(template_path, '/verif')),
             '// repo HEAD: %s%s' % (head, ' (dirty working tree)' if dirty else ''),
             '// sources read:']
    for f, h in sorted(g.sources.items()):
        lines.append('//   %s sha256=%s' % (f, h))
    lines.append('// declared rewrites applied (item, regex, count):')
    for r in g.rewrites:
        lines.append('//   %s: /%s/ x%d' % (r['item'], r['regex'], r['count']))
    return lines
