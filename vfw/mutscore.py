"""Development tool (not used by any registered check): mutation score of the CONTRACTS.

For every function under contract, apply syntactic mutation operators to its text in a scratch worktree of /repo,
keep the mutants that still compile (`cargo check`), and run the proof part of the property's check on the scratch
tree (VERIF_PROOF_ONLY: Verus obligations only -- no Kani, no replay, no bounded checks).  A mutant is
  killed        -- a named obligation fails (VIOLATION),
  inconclusive  -- the verifier cannot process the mutated text (anchor lost / unsupported / termination),
  survived      -- every obligation is still discharged: an equivalent mutant or a gap in the contracts (to be read by hand).
usage: python3 vfw/mutscore.py <unit>[,<unit>...] [--workers N] [--out file.json] [--max-per-fn K]
"""
import concurrent.futures as cf
import json
import os
import re
import subprocess
import sys

ROOT = os.path.dirname(os.path.dirname(os.path.abspath(__file__)))
sys.path.insert(0, ROOT)
from vfw import props  # noqa: E402

OPS = [
    (r'==', '!='), (r'!=', '=='),
    (r' <= ', ' < '), (r' >= ', ' > '), (r' < ', ' <= '), (r' > ', ' >= '),
    (r'&&', '||'), (r'\|\|', '&&'),
    (r'\+ 1\b', '+ 2'), (r'\+ 1\b', ''), (r'- 1\b', '- 2'), (r'- 1\b', ''),
    (r'\btrue\b', 'false'), (r'\bfalse\b', 'true'),
    (r'\.neg\(\)', ''),
    (r'\blow_raw\b', 'high_raw'), (r'\bhigh_raw\b', 'low_raw'), (r'\.low\b', '.high'), (r'\.high\b', '.low'),
    (r'\blow\(\)', 'high()'), (r'\bhigh\(\)', 'low()'),
    (r'\bis_true\b', 'is_false'), (r'\bis_false\b', 'is_true'),
    (r'\btrue_ptr\b', 'false_ptr'), (r'\bfalse_ptr\b', 'true_ptr'),
    (r'self\.and\(', 'self.or('), (r'self\.or\(', 'self.and('),
    (r'\bis_neg\(\)', 'is_true()'),
    (r'if !', 'if '), (r'\(!', '('),
    (r'\bcontinue\b', 'break'), (r'\bbreak\b', 'continue'),
    (r' \+ ', ' - '), (r' - ', ' + '), (r' \* ', ' + '), (r' % ', ' / '),
    (r'\.push\(', '.insert(0, '),
    (r'\b0\b', '1'), (r'\b1\b', '0'),
    (r'Some\(true\)', 'Some(false)'), (r'Some\(false\)', 'Some(true)'),
    (r'\.pop\(\);', '.pop(); self.state_stack.pop();'),
    (r'\bnew_v, cur_ptr\b', 'new_v, new_v'),
]


OPSET = 'A'


def unit_props(unit):
    return [pid for pid, sp in props.PROPS.items() if unit in sp.get('units', [])]


def functions_of(unit):
    """(file, first line, last line, name) of every function the unit extracts non-assumed, read from a fresh generation"""
    os.environ['VERIF_REPO'] = '/tmp/ms/w0'   # read the committed text, not /repo's working tree
    from vfw import main as M
    g, _ = M.gen_unit(unit, sub='_mutscore')
    res = []
    for f in g.functions:
        if f.get('assumed') or f.get('kind') != 'fn':
            continue
        res.append((f['file'], f['src_lines'][0], f['src_lines'][1], f['qual']))
    return res


def mutants_for(path, lo, hi, max_per_fn):
    lines = open(path).read().split('\n')
    out = []
    for ln in range(lo - 1, hi):
        text = lines[ln]
        code = text.split('//')[0]
        if not code.strip() or 'debug_assert' in code or code.strip().startswith('#['):
            continue
        for (rx, rep) in (OPS if OPSET == 'A' else []):
            for m in re.finditer(rx, code):
                new = code[:m.start()] + rep + code[m.end():] + text[len(code):]
                if new != text:
                    out.append((ln, text, new, '%s -> %s' % (rx, rep)))
        if OPSET == 'B':
            st = code.strip()
            # statement deletion (not a binding, not a return, not a brace line)
            if st.endswith(';') and not st.startswith(('let ', 'return', 'use ', '}')) and '{' not in st:
                out.append((ln, text, '', 'delete statement'))
            # swap two simple arguments
            for m in re.finditer(r'\((\w+(?:\.\w+\(\))?), (\w+(?:\.\w+\(\))?)\)', code):
                if m.group(1) != m.group(2):
                    new = code[:m.start()] + '(%s, %s)' % (m.group(2), m.group(1)) + code[m.end():] + text[len(code):]
                    out.append((ln, text, new, 'swap arguments'))
            # negate a boolean variable use
            for m in re.finditer(r'\b(value|polarity|v)\b(?!\s*:)(?!\w)', code):
                if re.search(r'\b(fn|let|Some\()\s*$', code[:m.start()]) or code[m.end():m.end() + 1] in ('.', '(', '['):
                    continue
                new = code[:m.start()] + '!' + m.group(1) + code[m.end():] + text[len(code):]
                out.append((ln, text, new, 'negate %s' % m.group(1)))
            # force a condition
            m = re.match(r'^(\s*(?:\} else )?if )(?!let )(.*)( \{\s*)$', code)
            if m:
                out.append((ln, text, m.group(1) + 'true' + m.group(3), 'condition -> true'))
                out.append((ln, text, m.group(1) + 'false' + m.group(3), 'condition -> false'))
    # thin deterministically
    if max_per_fn and len(out) > max_per_fn:
        step = len(out) / float(max_per_fn)
        out = [out[int(i * step)] for i in range(max_per_fn)]
    return out


def run_one(job):
    (wid, unit, pids, file, ln, old, new, op, fname) = job
    wt = '/tmp/ms/w%d' % wid
    path = os.path.join(wt, file)
    lines = open(path).read().split('\n')
    assert lines[ln] == old, (file, ln)
    lines[ln] = new
    open(path, 'w').write('\n'.join(lines))
    res = {'unit': unit, 'function': fname, 'file': file, 'line': ln + 1, 'op': op, 'old': old.strip(), 'new': new.strip()}
    try:
        env = dict(os.environ, CARGO_NET_OFFLINE='true', CARGO_TARGET_DIR='/tmp/ms/t%d' % wid)
        p = subprocess.run(['cargo', 'check', '--offline', '--lib', '-q'], cwd=wt, env=env, capture_output=True, text=True, timeout=900)
        if p.returncode != 0:
            res['status'] = 'does-not-compile'
            return res
        status, detail = 'survived', ''
        for pid in pids:
            env2 = dict(os.environ, VERIF_REPO=wt, VERIF_BUILD='/tmp/ms/b%d' % wid, VERIF_EVIDENCE_DIR='/tmp/ms/e%d' % wid,
                        VERIF_PROOF_ONLY='1', VERIF_ONLY_UNITS=unit)
            q = subprocess.run([os.path.join(ROOT, 'check'), pid, '--tier', 'quick'], cwd=ROOT, env=env2, capture_output=True, text=True, timeout=1800)
            out = q.stdout
            if 'VIOLATION' in out:
                fo = [l for l in out.split('\n') if l.startswith('failed obligation')]
                status, detail = 'killed', '%s: %s' % (pid, fo[0][:160] if fo else '')
                break
            if 'INCONCLUSIVE' in out or q.returncode == 2:
                inc = [l for l in out.split('\n') if l.startswith('INCONCLUSIVE')]
                status, detail = 'inconclusive', '%s: %s' % (pid, inc[0][:200] if inc else '')
                # keep looking: another property may kill it
                continue
            if q.returncode != 0:
                status, detail = 'error', out[-300:]
        res['status'] = status
        res['detail'] = detail
        return res
    finally:
        lines[ln] = old
        open(path, 'w').write('\n'.join(lines))


def main(argv):
    units = argv[0].split(',')
    workers = int(argv[argv.index('--workers') + 1]) if '--workers' in argv else 8
    outp = argv[argv.index('--out') + 1] if '--out' in argv else '/tmp/ms/result.json'
    maxfn = int(argv[argv.index('--max-per-fn') + 1]) if '--max-per-fn' in argv else 0
    global OPSET
    OPSET = argv[argv.index('--ops') + 1] if '--ops' in argv else 'A'
    os.makedirs('/tmp/ms', exist_ok=True)
    for w in range(workers):
        wt = '/tmp/ms/w%d' % w
        if not os.path.isdir(wt):
            subprocess.run(['git', '-C', '/repo', 'worktree', 'add', '-q', '--detach', wt, 'HEAD'], check=True)
        subprocess.run(['git', '-C', wt, 'checkout', '-q', '--', '.'], check=True)
    jobs = []
    for unit in units:
        pids = unit_props(unit)
        for (file, lo, hi, fname) in functions_of(unit):
            for (ln, old, new, op) in mutants_for(os.path.join('/tmp/ms/w0', file), lo, hi, maxfn):
                jobs.append([unit, pids, file, ln, old, new, op, fname])
    print('mutants:', len(jobs), flush=True)
    results = []
    # a worker owns one worktree: run jobs of worker w sequentially
    buckets = [[] for _ in range(workers)]
    for i, j in enumerate(jobs):
        buckets[i % workers].append([i % workers] + j)

    def run_bucket(b):
        r = []
        for j in b:
            try:
                r.append(run_one(tuple(j)))
            except Exception as e:  # noqa
                r.append({'unit': j[1], 'function': j[8], 'status': 'error', 'detail': repr(e)[:200], 'line': j[4] + 1, 'op': j[7]})
            x = r[-1]
            print('%-16s %-28s L%-5s %-22s %s' % (x['status'], x['function'][-28:], x.get('line'), x.get('op', '')[:22], x.get('detail', '')[:110]), flush=True)
        return r
    with cf.ThreadPoolExecutor(max_workers=workers) as ex:
        for r in ex.map(run_bucket, buckets):
            results.extend(r)
    summ = {}
    for r in results:
        summ[r['status']] = summ.get(r['status'], 0) + 1
    json.dump({'summary': summ, 'results': results}, open(outp, 'w'), indent=1)
    print('SUMMARY', summ)
    # scratch worktrees and their build output are removed as soon as the run is over
    for w in range(workers):
        subprocess.run(['git', '-C', '/repo', 'worktree', 'remove', '--force', '/tmp/ms/w%d' % w])
        subprocess.run(['rm', '-rf', '/tmp/ms/t%d' % w, '/tmp/ms/b%d' % w, '/tmp/ms/e%d' % w])


if __name__ == '__main__':
    main(sys.argv[1:])
