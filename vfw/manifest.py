"""writes MANIFEST.json from vfw/props.py and properties.jsonl"""
import json
import os
import sys

ROOT = os.path.dirname(os.path.dirname(os.path.abspath(__file__)))
sys.path.insert(0, ROOT)
from vfw import props  # noqa

NA = {}


def main():
    plist = [json.loads(l) for l in open(os.path.join(ROOT, 'properties.jsonl'))]
    na_path = os.path.join(ROOT, 'vfw', 'not_applicable.json')
    na = json.load(open(na_path)) if os.path.exists(na_path) else {}
    checks = []
    not_app = []
    for p in plist:
        pid = p['id']
        if pid in props.PROPS:
            sp = props.PROPS[pid]
            tech = 'contract-based deductive verification: Verus contracts on functions extracted from /repo'
            if sp.get('kani'):
                tech += ' + loop-free Kani harnesses over the full bit domain'
            rp = sp.get('replay')
            keys = sorted((set(rp.values()) if isinstance(rp, dict) else set([rp] if rp else [])) | set(sp.get('bounded_extra', [])))
            if keys:
                tech += '; the functions of the property that the verifier cannot process (listed under Not covered) have labelled BOUNDED checks on the real code (enumerators %s; bounds in evidence.coverage.bounded_checks), never counted as proved' % ', '.join(keys)
            checks.append({
                'property_id': pid,
                'quick_cmd': './check %s --tier quick' % pid,
                'thorough_cmd': './check %s --tier thorough' % pid,
                'evidence_file': '/verif/evidence/%s.json' % pid,
                'replay_cmd_template': './check %s --replay {path}' % pid,
                'engine': 'vfw',
                'level_claimed': {
                    'category': 'proof',
                    'text': sp.get('explanation', ''),
                    'design_ref': 'DESIGN.md section 6 (%s)' % pid,
                },
                'level_note': 'Trusted base: ' + ' | '.join(sp.get('assumptions', [])) + ' || Not covered: ' + ' ; '.join(sp.get('not_covered', [])),
                'technique': tech,
            })
        else:
            not_app.append({'property_id': pid, 'reason': na.get(pid, 'check not built yet (see DESIGN.md section 6)')})
    m = {
        'version': 1,
        'setup_cmd': './setup.sh',
        'hooks': {
            'guard': 'rsdd_verif',
            'enable': "RUSTFLAGS='--cfg rsdd_verif' when building the replay crate /verif/replay (Verus units read source text; Kani uses the public API)",
            'baseline_off_cmd': 'cd /repo && cargo test --workspace --no-fail-fast --offline',
            'source_commits': json.load(open(os.path.join(ROOT, 'vfw', 'hook_commits.json'))) if os.path.exists(os.path.join(ROOT, 'vfw', 'hook_commits.json')) else [],
            'add_only': True,
        },
        'engines': [{'name': 'vfw', 'path': '/verif/vfw', 'serves_properties': [c['property_id'] for c in checks],
                     'kind_free_text': 'mechanical extractor + Verus runner + Kani runner + replay crate; see DESIGN.md section 1'}],
        'checks': checks,
        'notes': 'Exit codes of ./check: 0 held, 1 VIOLATION printed, 2 inconclusive (tool limit / lost anchor; never an alarm).',
        'not_applicable': not_app,
    }
    json.dump(m, open(os.path.join(ROOT, 'MANIFEST.json'), 'w'), indent=1)
    print('MANIFEST.json: %d checks, %d not applicable' % (len(checks), len(not_app)))


if __name__ == '__main__':
    main()
