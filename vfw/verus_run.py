"""Run Verus on a generated unit file and map diagnostics to named obligations."""
import json
import os
import re
import subprocess
import time

VERIF_PREFIXES = (
    'postcondition not satisfied',
    'precondition not satisfied',
    'precondition not met',
    'invariant not satisfied',
    'loop invariant not satisfied',
    'decreases not satisfied',
    'assertion failed',
    'assert_by_compute',
    'possible arithmetic underflow/overflow',
    'possible division by zero',
    'possible bit shift underflow/overflow',
    'unable to prove this pattern will successfully match',
    'constructed value may fail to meet its declared type invariant',
    'failed to simplify down to true',
)
LIMIT_MARKERS = ('rlimit exceeded', 'resource limit exceeded', 'Resource limit', 'timed out', 'while loop: Resource limit')


class VerusResult:
    def __init__(self):
        self.ran = False
        self.verified = 0
        self.errors = 0
        self.failed = []        # obligations that failed: dicts
        self.tool_errors = []   # strings (=> inconclusive)
        self.warnings = 0
        self.smt_ms = 0
        self.total_ms = 0
        self.wall_s = 0.0
        self.func_times = []    # (function, mode, ms, success)
        self.cmd = ''
        self.stderr = ''
        self.rc = None


def _span_key(sp):
    return (sp.get('line_start'), sp.get('column_start'))


def classify(diag, gen, unit):
    """-> ('verif', obligation dict) | ('tool', text) | ('ignore', None)"""
    msg = diag.get('message', '')
    level = diag.get('level')
    if level != 'error':
        return 'ignore', None
    if msg.startswith('aborting due to'):
        return 'ignore', None
    spans = diag.get('spans', [])
    is_verif = any(msg.startswith(p) for p in VERIF_PREFIXES)
    if any(m in msg for m in LIMIT_MARKERS):
        return 'tool', msg
    if not is_verif:
        loc = ''
        for sp in spans:
            if sp.get('is_primary'):
                loc = ' at generated line %s' % sp.get('line_start')
        return 'tool', msg + loc
    # find the spans
    primary = [sp for sp in spans if sp.get('is_primary')]
    secondary = [sp for sp in spans if not sp.get('is_primary')]
    # where is the failing code (the function being verified)?  For postconditions verus marks the
    # clause as primary and the exit as secondary; for preconditions the call is primary and the
    # callee clause secondary.
    clause_sp = None
    site_sp = None
    for sp in spans:
        lab = (sp.get('label') or '')
        if 'failed this' in lab or 'failed precondition' in lab or 'failed this postcondition' in lab:
            clause_sp = sp
        elif 'at this exit' in lab or 'at this loop exit' in lab or 'at this call' in lab:
            site_sp = sp
    if site_sp is None:
        cand = [sp for sp in spans if sp is not clause_sp and os.path.basename(sp.get('file_name') or '').startswith(unit)]
        site_sp = (cand[0] if cand else (primary[0] if primary else None))
    if site_sp is None and clause_sp is not None:
        site_sp = clause_sp
    fn_site = describe_line(gen, site_sp.get('line_start')) if site_sp else {'fn': '?'}
    kind = msg.split(':')[0].strip()
    kind_short = {
        'postcondition not satisfied': 'post',
        'precondition not satisfied': 'pre',
        'precondition not met': 'pre',
        'assertion failed': 'assert',
        'possible arithmetic underflow/overflow': 'arith-overflow',
        'possible division by zero': 'div-by-zero',
        'possible bit shift underflow/overflow': 'shift-overflow',
    }.get(kind, re.sub(r'[^a-z]+', '-', kind.lower()).strip('-'))
    name = '%s::%s::%s' % (unit, fn_site.get('fn', '?'), kind_short)
    clause_txt = None
    unit_file = unit + '.rs'
    def own(sp):
        fn = os.path.basename(sp.get('file_name') or '')
        return fn in (unit_file, unit + '_canary.rs')
    if clause_sp is not None and not own(clause_sp):
        clause_txt = norm(' '.join(t.get('text', '') for t in clause_sp.get('text', []))) or None
        name += '@vstd:%s:%s' % (clause_sp.get('file_name'), clause_sp.get('line_start'))
    elif clause_sp is not None:
        cd = describe_line(gen, clause_sp.get('line_start'))
        clause_txt = norm(' '.join(t.get('text', '') for t in clause_sp.get('text', [])))
        if cd.get('k') in ('spec', 'inv'):
            name += '@%s.%s#%s' % (cd.get('fn'), cd.get('loop', 'spec') if cd.get('k') == 'inv' else 'spec', cd.get('clause'))
        elif cd.get('k') == 'template':
            name += '@template:%s:%s' % (cd['tline'][0], cd['tline'][1])
        else:
            name += '@line%s' % clause_sp.get('line_start')
    elif site_sp is not None:
        sd = describe_line(gen, site_sp.get('line_start'))
        if sd.get('k') == 'extract':
            name += '@src:%s' % sd.get('src_line')
        elif sd.get('k') in ('inv', 'spec', 'entry'):
            name += '@%s#%s' % (sd.get('loop', sd.get('k')), sd.get('clause'))
    site_d = describe_line(gen, site_sp.get('line_start')) if (site_sp is not None and own(site_sp)) else {}
    clause_d = describe_line(gen, clause_sp.get('line_start')) if (clause_sp is not None and own(clause_sp)) else {}
    # a `// #Cxx` tag on any line of the failed clause (template text or contract section) restricts the
    # obligation to those properties
    if clause_sp is not None and own(clause_sp) and not clause_d.get('props'):
        from .extract import clause_props
        for ln in range(clause_sp.get('line_start'), (clause_sp.get('line_end') or clause_sp.get('line_start')) + 1):
            if 1 <= ln <= len(gen.lines):
                pr = clause_props(gen.lines[ln - 1])
                if pr:
                    clause_d = dict(clause_d, props=pr)
                    break
    ob = {
        'props_site': site_d.get('fn_props'),
        'props_clause': clause_d.get('props') if clause_d.get('props') else clause_d.get('fn_props') if clause_d.get('k') in ('spec', 'inv') and kind.startswith('post') else clause_d.get('props'),
        'name': name,
        'unit': unit,
        'function': fn_site.get('fn', '?'),
        'kind': kind,
        'clause': clause_txt,
        'site': ({'gen_line': site_sp.get('line_start'), 'src_file': fn_site.get('file'), 'src_line': fn_site.get('src_line'),
                  'text': norm(' '.join(t.get('text', '') for t in site_sp.get('text', [])))} if site_sp else None),
        'rendered': diag.get('rendered', ''),
    }
    return 'verif', ob


def norm(s):
    return re.sub(r'\s+', ' ', s).strip()


def describe_line(gen, line):
    """origin info for generated line (1-based)"""
    if line is None or line < 1 or line > len(gen.origin):
        return {'fn': '?', 'k': '?'}
    o = dict(gen.origin[line - 1])
    if o.get('k') == 'template' or 'fn' not in o:
        # find the enclosing template fn by scanning backwards
        fn = '?'
        for tf in reversed(gen.template_fns):
            if tf['out_line'] <= line:
                fn = tf['name']
                break
        o['fn'] = fn
    return o


def run(path, gen, unit, rlimit=30, seed=None, extra=None, timeout=900, threads=None):
    res = VerusResult()
    cmd = ['verus', os.path.basename(path), '--output-json', '--time-expanded', '--multiple-errors', '50',
           '--error-format=json', '--rlimit', str(rlimit)]
    if threads:
        cmd += ['--num-threads', str(threads)]
    if seed is not None:
        cmd += ['--smt-option', 'smt.random_seed=%d' % seed, '--smt-option', 'sat.random_seed=%d' % seed]
    if extra:
        cmd += extra
    res.cmd = ' '.join(cmd)
    t0 = time.time()
    try:
        p = subprocess.run(cmd, cwd=os.path.dirname(path), capture_output=True, text=True, timeout=timeout)
    except subprocess.TimeoutExpired:
        res.tool_errors.append('verus timed out after %ds' % timeout)
        res.wall_s = time.time() - t0
        return res
    res.wall_s = time.time() - t0
    res.rc = p.returncode
    res.stderr = p.stderr
    res.ran = True
    # stdout: verus JSON
    try:
        j = json.loads(p.stdout)
    except Exception:
        j = None
    if j is None:
        res.tool_errors.append('verus produced no JSON (rc=%s): %s' % (p.returncode, (p.stderr or p.stdout)[-600:]))
        return res
    vr = j.get('verification-results', {})
    res.verified = vr.get('verified', 0)
    res.errors = vr.get('errors', 0)
    tm = j.get('times-ms', {})
    res.total_ms = tm.get('total', 0)
    smt = tm.get('smt', {})
    res.smt_ms = smt.get('total', 0)
    for mod in smt.get('smt-run-module-times', []):
        for fb in mod.get('function-breakdown', []):
            res.func_times.append((fb.get('function'), fb.get('mode:'), fb.get('time'), fb.get('success')))
    seen = set()
    for ln in p.stderr.split('\n'):
        ln = ln.strip()
        if not ln.startswith('{'):
            if ln and ('error' in ln.lower() and 'internal' in ln.lower()):
                res.tool_errors.append(ln)
            continue
        try:
            d = json.loads(ln)
        except Exception:
            continue
        if d.get('level') == 'warning':
            res.warnings += 1
            continue
        kind, ob = classify(d, gen, unit)
        if kind == 'verif':
            key = (ob['name'], ob['site']['gen_line'] if ob['site'] else None)
            if key in seen:
                continue
            seen.add(key)
            res.failed.append(ob)
        elif kind == 'tool':
            res.tool_errors.append(ob)
    if vr.get('encountered-vir-error') or (vr.get('encountered-error') and not res.failed and not res.tool_errors):
        res.tool_errors.append('verus reported an error without a verification diagnostic: ' + p.stderr[-600:])
    if res.errors > 0 and not res.failed and not res.tool_errors:
        res.tool_errors.append('verus counted %d errors but no diagnostic was parsed' % res.errors)
    return res
