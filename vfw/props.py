"""Property -> units / kani harnesses / replay key / stated gaps.  See DESIGN.md section 6."""
import os
import re

PROPS = {}

# stated bounds of the replay enumerators (used as bounded stand-in / bounded cross-check; never counted as proved)
REPLAY_BOUNDS = {
    'bdd': 'straight-line programs of RobddBuilder operations over 3 variables (and 4 variables: a systematic family o1(o2(v0,v1), [neg] o3(v2,v3)) followed by every condition / exists under all 24 orders (thinned), and every third random program): all binary ops on all pairs of literals followed by cond/exists/neg/compose/semhash, x all 6 variable orders x both cache kinds (7776 programs), plus 3000 seeded random programs of 7-16 operations incl. condition_model on 0-2 pairs and and_lst/or_lst of 0-3 diagrams, and_lst/or_lst on lists of 1-24 elements with exactly one essential element at every position (1200 programs), plus new_var on 7 orders of 1-3 variables x 2 polarities (semantics of old and new diagrams; every literal and every and/or/xor of two literals rebuilt after one and after two extensions must be pointer-equal to the one built before); truth tables by walking the nodes; smooth over all variables: unsmoothed_wmc in FiniteField<1000000007> with 3 weight vectors (unit, non-normalised, with a zero) = explicit weighted sum over models',
    'table': 'BackedRobinhoodTable with capacity 4 and 8: every sequence of <= 4 (cap 4) / <= 3 (cap 8) insertions with hashes in 0..2*cap followed by re-requesting each element, plus 200 seeded random sequences of 12 insertions',
    'lru': 'Lru<u32,u32> with initial capacity 2 or 4: 3000 seeded random insert/get sequences (up to 64 operations, up to 15 keys, colliding hashes, frequent overwrites, final read-back)',
    'ff': 'FiniteField over all 7 exported primes: 12 residues (0,1,2,3,P/2,P/2+1,P-2,P-1 and 4 seeded random) in all pairs (x3 third operands for the ternary laws), 9 operations/laws',
    'lattice': 'RealSemiring on a 9-value grid (signed zeros, infinities), ExpectedUtility on an 8-pair grid incl. incomparable pairs, all triples; Boolean semiring exhaustively; RationalSemiring on the naturals 0..4 built from one()/zero() (all triples); value grids incl. integers around 2^52 / 2^53 for sub-inverts-add with an exactness test in 128-bit integers; Complex on a 9-value grid incl. magnitudes 2^53 (identities, annihilation, commutativity on all; associativity / distributivity on small integers)',
    'dnnf': 'top-down compilation + conditioning with BOTH node stores (StandardDecisionNNFBuilder, SemanticDecisionNNFBuilder<U64_LARGEST>): 11 CNFs over 3 variables (incl. unsatisfiable by propagation / by search, an empty clause, tautological and repeated literals) x 6 orders x {diagram, negation} x 3 labels x 2 values, plus ~300 seeded random CNFs over 4 variables and ~200 over 5-6 variables with 3-9 clauses, ~350 formulas of 2-5 four-literal clauses over 6 variables under random orders, formulas that are unsatisfiable only by search with unit clauses present, 40 batches of 60 formulas over 3-5 variables compiled one after the other in ONE builder per node store (standard, semantic U64_LARGEST), each conditioned -- diagram and negation -- on every literal, and two random 3-CNFs with 40 variables / 70 clauses (~10^5 component-cache states; checked by SAMPLING: 20000 random assignments and guided walks); checks: models = CNF models, false constant <=> unsatisfiable, no path decides a variable twice, condition = restriction; one random 3-CNF over 72 variables with 16 clauses and one over 12 variables with 70 clauses (more than 64 variables / clauses), checked by sampling',
    'cnf': 'Cnf::eval / is_sat_partial on 7 clause lists (incl. empty list, empty clause, duplicate and complementary literals) x all total and one-hole partial assignments of 3 variables, and every partial model over FOUR variables (81; a universe larger than the formula mentions) on 11 lists; 300 seeded random PartialModel set/unset sequences; Cnf::condition on the 7 lists x 6 literals and 300 seeded random CNFs over 4 variables (all assignments); Cnf::wmc in FiniteField<1000000007> on the 7 lists x 2 weight vectors and 300 random CNFs/weights against the explicit sum; VarSet union / union_with / minus / intersect_varset / difference / iter / len / is_empty against BTreeSet on 300 random pairs of sets over 0..9; PartialModel from_assignments / from_litvec / from_total_model / assignment_iter / difference on 300 random pairs of partial assignments of 5 variables; size-threshold family: 12 formulas with clauses of 9-14 literals over 10-12 variables (condition on every literal, wmc), sets with labels up to 139, partial models over 70 variables',
    'order': 'VarOrder::new on every permutation of 0..4 variables, each extended 0-2 times with new_last; linear_order / force_order / min_fill_order on 202 CNFs over 1-6 variables and 10 over 66-70 variables: bijection between labels and levels',
    'compile': 'compile_cnf / collapse_clauses on 8 fixed clause lists x 6 orders and 600 seeded random CNFs; compile_logical_expr / compile_plan on 600 seeded random expressions of depth <= 4 over 3 variables; compile_cnf_with_assignments against compile-then-condition_model (same pointer) on 8 lists x 6 orders x 5 partial assignments and 600 random; BottomUpPlan::from_dtree(DTree::from_cnf) + compile_plan on 600 random CNFs without and 600 with their empty clauses, and on 36 formulas of 1-3 empty clauses next to 0-3 independent clauses; CompressionSddBuilder compile_cnf / compile_logical_expr / compile_plan under all 12 vtrees over 3 variables (8 fixed lists + 400 random CNFs and expressions) and 4 vtrees over 4 variables (100 random CNFs) and 5 vtrees over 5 variables (200 random CNFs and expressions), evaluated by a structural walk of the SDD; 40 formulas over 66-70 variables (labels beyond 64) for compile_cnf / plan from dtree / compile_cnf_with_assignments / SDD, evaluated on all assignments of the <= 10 mentioned variables; systematic SDD expressions o1(o2(l,l),l) and ite(l,o(l,l),l) over all literals of 3 variables in shared builders; SemanticSddBuilder<U64_LARGEST> compile_cnf on the same CNFs (its ite is an explicit todo!(), so no expressions / plans)',
    'dtree': 'DTree::from_cnf + VTree::from_dtree on 10 fixed CNFs with independent components / unused labels and 700 seeded random CNFs over 2-6 variables (half connected through one clause over all variables, half arbitrary) with random elimination orders over 0..largest label and, for a third of them, over a proper prefix of the labels; 30 formulas with labels up to 130, four with one or two clauses over 66-72 variables (cutsets of more than 64 variables): leaves = clauses, vars = union of children, cutset formula, vtree leaves = CNF variables',
    'sdd': 'CompressionSddBuilder: a systematic family (56 ordered pairs of non-literal operands x 6 vtrees: iff, xor and twelve ite combinations of the operands, their negations and the constants in one builder, so that ite-cache entries written first are read later) and 1200 seeded random straight-line programs of 9-18 operations (var, negate, and, or, iff, xor, ite, condition, exists, and verbatim repetitions of earlier operations so that the apply and ite caches hit) over 8 vtrees with 3-4 variables; every result evaluated by a structural walk against the truth table of the definition; earlier results re-checked after every operation',
    'hasher': 'CnfHasher new / push / decide / pop / hash: EXHAUSTIVE walk over all partial assignments (push, decide, recurse, pop) of 501 formulas with 3-5 variables and 2-5 clauses of 2-3 literals (half with a pivot variable and otherwise positive literals, so literals repeat across clauses), every pair of visited states compared; half of them again through Cnf::new(..).hasher() with repeated literals, a clause that is one literal repeated and a reversed clause; plus 2 fixed and 600 seeded random histories of 4-15 operations on CNFs with 2-4 variables and 1-5 clauses of <= 3 literals (prime product < 2^128), partial model kept in step with the decisions; every pair of visited states that falsify no clause: equal hash <=> the unsatisfied non-unit clauses restricted to unassigned literals coincide clause by clause; size thresholds: 20 histories over formulas whose variables carry labels up to 129 and 20 over formulas of 66-80 clauses (there only same residual => same hash is demanded: the prime product may wrap)',
    'vtree': 'VTreeManager::new / var_index / vtree / lca / is_prime_index / is_prime_var / num_vars on every binary tree shape x every labelling with 1-4 leaves (dense labels 0..n-1) and every shape with 3 seeded labellings for 5 and 6 leaves (303 trees) and five random trees with 20-70 leaves, all pairs of in-order indices, against a direct walk of the shape',
    'unitprop': 'SATSolver new / decide / pop / is_set / cur_hash / is_sat / difference_iter: 12 fixed histories (replacement-watch corners in both polarities, unit chains, tautologies, duplicates, unsatisfiable core, empty formula), a systematic family (every 3-literal clause over 3 of 4 variables in all 8 polarities x every ordered pair of decisions in all polarities, then two pops), 1500 seeded random histories (2-6 variables, 1-7 clauses of 1-4 literals, 1-10 operations), 400 deeper ones (5-8 variables, 4-15 clauses, 6-25 operations) and 320 EXHAUSTIVE walks over every partial assignment (decide / recurse / pop; all pairs of visited states compared for the hash clause) of 40 relabelled 2-regular square designs, 120 random regular formulas (every variable occurs twice) and 160 uniform formulas over 4-6 variables; size thresholds: 60 formulas whose 4-7 mentioned variables carry labels up to 129 (walks and histories; a variable no clause mentions must stay unassigned) and 40 formulas of 66-90 clauses over 7-8 variables, half of them with a planted model whose literals the history decides so that SAT has to be reported; after every step compared with brute-force entailment over all assignments: assigned values entailed by CNF + decisions, UNSAT only if no model extends the decisions, otherwise no clause falsified or unit, pop restores is_set / hash / is_sat, is_sat iff every non-tautological clause has a true literal, equal hashes only for identical residual formulas, compared as SETS of clauses (checked while the prime product cannot wrap: <= 26 literal occurrences)',
    'poly': 'Polynomial<FiniteField<U32_TINY>>: 403 pairs of polynomials with 0..33 coefficients (seeded random), + and * against the schoolbook definition, and the semiring laws (+,* commutative and associative, identities, annihilation, distributivity) as == on the results, third operand = second reversed',
}


def prop(pid, **kw):
    PROPS[pid] = kw


A_VERUS = 'A-verus: soundness of Verus 0.2026.09.13 / Z3 and of the vstd specifications of Vec, slices, Option, HashMap and integer operations'
A_EXTRACT = 'A-extract: the declared extractor rewrites (listed per unit under coverage.units[].rewrites) preserve behaviour; attributes and doc comments of extracted items are dropped'

A_PTREQ = 'A-ptreq: `impl PartialEq for BddPtr` (address comparison) is modelled by an uninterpreted relation eq_spec with three assumed facts: it implies structural equality, it is an equivalence relation, and it commutes with `neg`; the converse (structurally equal nodes share an address) is never assumed'
A_CELL = 'A-cell/A-unsafe: the RefCell fields of RobddBuilder are replaced by trusted accessors (trusted/robdd_cells.rs): the order is constant during the functions under contract; the apply-table invariant is ASSUMED where the table is read and PROVED where it is written; the unique table returns a reference to a node equal to its argument (proved for the real table in unit `table` as `*r == elem`; bumpalo never moves or frees it: A-bump)'
A_TERM = 'A-term: termination is PROVED (decreases clauses) for ite_helper (height(f)+height(g)+height(h)), cond_with_alloc (structural), smooth_helper (levels left, then complement flag), DTree::init_vars / gen_cutset / balanced and every for/while loop with a decreases clause; it is NOT claimed (exec_allows_no_decreases_clause, partial correctness) for the recursive trait DEFAULT methods compile_logical_expr, compile_plan, collapse_clauses, topdown_h and the decision-DNNF cond_helper (Verus: trait default methods do not yet support recursion and decreases), for the probing loops of the unique table and for Lru insert/grow; a failed termination obligation is reported as inconclusive, not as a violation (no listed property is about termination)'
A_CAP = 'A-cap: Lru capacity exponent < 31 before a growth and fill counter < usize::MAX (Lru::in_range, a precondition); 2^31 slots of >= 40 bytes are not allocatable on the machines the library targets, and beyond cap 31 the i32 literal in the grow test overflows'
A_HASH = 'A-hash: hashing is a deterministic function of the key (uninterpreted H); no other property of the hash is used, so every collision pattern is covered'
A_CLONE = 'A-clone: Clone::clone of the cache key/value types returns an equal value (the builders instantiate them with Copy pointer types)'
A_F64 = 'A-f64: the floating-point grow test of the Lru is replaced by an arbitrary function of (num_filled, cap) that can answer true only above half full; under C16 this fact is PROVED for the real condition text by the Kani harness k_lru_grow_test_only_above_half (all n, all cap < 32)'
A_MODEL_ITER = 'A-model-iter: in unit robdd `PartialModel::assignment_iter()` (iterator-adapter chain over two BitSets) is a trusted stub yielding the sequence m.lits(); Literal is the two-field stub of A-lit'
A_CNF_STUB = 'A-cnf-stub / A-iter-std: in the builder units `Cnf` is an opaque stub exposing its clause list; in compile_cnf the expression `cnf.clauses().iter().any(|x| x.is_empty())` and the sorting prologue (`to_vec` + `sort_by` with a comparator built from max_by closures) are replaced by stubs with the std semantics -- the sort stub returns SOME rearrangement of the clauses (two mutually inverse index maps), so the comparator heuristic is outside the proof and nothing is assumed about the order it produces; Literal is the two-field stub of A-lit'
A_HEAP = 'R-fold: in BottomUpPlan::from_dtree the iterator fold is replaced by its definition (loop over the same elements, closure body verbatim) | A-heap / A-count / R-for-while: in compile_cnf_with_assignments the std BinaryHeap is a trusted stub whose pop returns SOME held element and removes that occurrence (the proof covers every pop order, so the Ord impl of CompiledCNF and count_nodes -- unverified, scratch-based, used only as priority -- carry no proof weight); the inner `for lit in clause.iter()` (break/continue) is desugared to an indexed while over the same Vec with the body text unchanged; PartialModel is the stub of A-model-iter with `get` returning val(label) (the contract proved for the real get in unit cnf)'
A_KANI = 'A-kani: soundness of Kani 0.68 / CBMC 6.11; kani::any() ranges over every bit pattern of the type'

prop('C01',
     units=['ite', 'ptr', 'order', 'lru', 'cache', 'bottomup', 'builder', 'robdd'],
     assumptions=[A_VERUS, A_EXTRACT, A_PTREQ, A_CELL, A_MODEL_ITER, A_CNF_STUB, A_TERM, A_CAP, A_HASH, A_CLONE, A_F64],
     replay='bdd',
     explanation='every public BDD operation carries the postcondition  forall env. ptr_sem(result, env) == <definition>(ptr_sem(args..)), '
                 'with ptr_sem the structural denotation of a diagram; proved function by function against callee contracts, for an arbitrary '
                 'order closure in Ite::new, any VarOrder satisfying wf, and any IteTable implementation (both shipped adapters are proved to implement the contract)',
     not_covered=[
         'RobddBuilder::new_label / new_var: interior mutation of the order cannot be expressed through the RefCell stub; covered only by the composition of VarOrder::new_last (proved: old positions unchanged) with lemma_ordered_extend (proved) [+ bounded check `bdd`: new_var on 7 orders]',
         'condition_model / cond_model_h are under contract with ONE declared rewrite: the loop header `for m in m.assignment_iter()` iterates a trusted stub standing for the iterator-adapter chain (A-model-iter); that the iterator yields every assigned variable once with its value is not proved here [bounded check `bdd`: condition_model on models of 0-2 variables]',
         'RobddBuilder::new, VarOrder::linear_order (iterator chain)',
         '"a diagram keeps denoting the same function afterwards": by construction (ptr_sem depends only on immutable arena nodes; A-bump, A-unsafe), not a discharged obligation',
     ])

prop('C16',
     units=['lru', 'cache'],
     kani=[{'name': 'k_lru_grow_test_only_above_half'}],
     assumptions=[A_VERUS, A_EXTRACT, A_CAP, A_HASH, A_CLONE, A_F64,
                  'A-fxhashmap: rustc_hash::FxHashMap is replaced by a trusted stub that only promises: get returns nothing or a value inserted under an equal key'],
     replay={'lru': 'lru', 'cache': 'bdd', '*': 'lru'},
     bounded_extra=['sdd'],
     explanation='Lru::{new,insert,get,grow} are proved against a slot/view invariant for every capacity and every hash function; lemma_lru_history_* turn the three '
                 'contracts into the history statement (a lookup returns nothing or the latest insertion under exactly that key); both ITE adapters are proved to return only what was stored under the queried standard triple, complement flag re-applied',
     not_covered=[
         'SDD apply cache (std HashMap) and SDD ite cache never changing an SDD result: a proof needs C03 (not applicable) [bounded check `sdd` only: SDD programs with repeated operations give the right truth tables]',
         '"a builder with the lossy cache returns the same canonical diagrams": follows from C01 (ite_helper is correct for any IteTable behaviour) plus C02; not a separate obligation',
         'LruIteTable::hash body (FxHasher, external crate): assumed deterministic (A-hash)',
     ])

prop('C13',
     units=['ff', 'poly', 'polyff'],
     kani=[{'name': 'k_bool_laws'}, {'name': 'k_real_lattice'}, {'name': 'k_eu_lattice'},
           {'name': 'k_real_add_small_int'}, {'name': 'k_real_mul_small_int'},
           {'name': 'k_eu_semiring_small_int'}, {'name': 'k_complex_small_int'},
           {'name': 'k_complex_identities_all_finite'}, {'name': 'k_real_identities_all_finite'}, {'name': 'k_eu_identities_all_finite'},
           {'name': 'k_complex_add_comm_all_finite', 'thorough_only': True},
           {'name': 'k_real_sub_inverts_add_exact_ints', 'thorough_only': True}, {'name': 'k_eu_sub_inverts_add_exact_ints', 'thorough_only': True}, {'name': 'k_complex_sub_inverts_add_exact_ints', 'thorough_only': True},
           {'name': 'k_eu_mulassoc_small_int', 'thorough_only': True}, {'name': 'k_complex_mulassoc_small_int', 'thorough_only': True}],
     assumptions=[A_VERUS, A_EXTRACT, A_KANI],
     replay={'kani': 'lattice', 'poly': 'poly', '*': 'ff'},
     explanation='FiniteField: new/value/negate/one/zero/add/mul/sub verbatim against integer arithmetic modulo P (generic P with 2(P-1) <= u128::MAX, discharged for each exported prime by compute); '
                 'ring laws are lemmas over the operator specifications.  Truncated polynomials (unit poly): zero, one, + and * against their definitions, generic in the coefficient semiring.  Boolean semiring and the real / expected-utility lattice operations: loop-free Kani harnesses over the whole bit domain.',
     not_covered=[
         'RationalSemiring (external crate `rational`; its field is private, so only values built from one()/zero() are reachable) [bounded check `lattice` only: naturals 0..4]',
         'truncated polynomials: the laws are proved (unit poly, prelude/polylaws.rs) for polynomials in normal form over any coefficient type whose VALID elements form a commutative semiring under its operator specifications (hypothesis `csr`); unit polyff discharges `csr` for FiniteField<P> (valid = reduced residue) for every P with ff_ok, i.e. all seven exported primes; for the float-based coefficient types `csr` is not established (floating-point + is not associative), so polynomials over them are covered only by the bounded check `poly`-style reasoning of the next item',
         'real +,* ASSOCIATIVITY / DISTRIBUTIVITY beyond integers |x| <= 8 and expected-utility / complex beyond integers |x| <= 4 (domain-bounded Kani harnesses, labelled as such; the identities, annihilation and commutativity of + are proved over ALL finite floats by the k_*_all_finite harnesses; floating-point addition is not associative in general); the multiplication associativity / distributivity harnesses of the latter two run in the thorough tier only (50-100 s)',
     ])


prop('C08',
     units=['robdd'],
     sites={'robdd': ['smooth_helper', 'smooth', 'get_or_insert']},
     assumptions=[A_VERUS, A_EXTRACT, A_CELL, A_TERM, A_PTREQ],
     replay='bdd',
     explanation='smooth_helper / smooth carry the postconditions  forall env. ptr_sem(r, env) == ptr_sem(bdd, env)  and  smooth_from(r, 0, n): '
                 'on every path the variables at levels 0..n-1 are tested exactly once, in order; get_or_insert (node creation) is under contract',
     not_covered=[
         'the counting consequence (weighted count of the smoothed diagram equals the brute-force sum): a statement about fold / bdd_fold, which memoise in RefCell<dyn Any> scratch (C07, not applicable) [bounded check `bdd` only: unsmoothed_wmc of diagrams smoothed over all 3 variables, 3 weight vectors]',
         'callers in bin/weighted_model_count.rs and src/ffi/bdd.rs',
     ])

prop('C06',
     units=['dnnf'],
     assumptions=[A_VERUS, A_EXTRACT, A_PTREQ, A_TERM,
                  'A-scratch: the per-node scratch memo read by cond_helper is modelled as empty (nothing in the crate stores a BddPtr there; its set_scratch line is commented out)',
                  'A-unsafe: the unique table of StandardDecisionNNFBuilder returns a reference to a node equal to its argument (proved for the real table in unit `table`)',
                  'A-lit-iter: in unit dnnf the `impl Iterator<Item = Literal>` parameter of conjoin_implied is the trusted container LitIter; verif_lits_vec stands for draining it; Literal is the two-field stub of A-lit',
                  'A-sat (assumed contract of a dependency, trusted/sat_stub.rs): SATSolver is an opaque stub -- a stack of partial models; decide either reports UNSAT (no assignment extending the model and the literal satisfies the formula) and leaves the stack alone, or pushes a model extending the top one by the literal and by literals ENTAILED by the formula (SAT: every extension satisfies the formula); a model that assigns every variable satisfies the formula; pop removes the top model; difference_iter() yields exactly the new assignments; SATSolver::new returns None iff a conflict at the start, else the stack [empty model, entailed literals].  Of this interface the STACK SHAPE (decide pushes one frame or none on UNSAT, pop removes the top frame, observers read the top frame) is proved for the real SATSolver in unit satstack (C09); the semantic half (entailment, UNSAT only when no model extends, the residual hash) is unverified and has the bounded check `unitprop` (C09) besides `dnnf`',
                  'A-reshash: component caching is assumed sound -- two solver states with equal 128-bit residual hashes are interchangeable for diagram validity (on the real code: the prime-product hash identifies the residual formula and diagrams mention residual variables only); FxHashMap is the weak stub of A-fxhashmap; Cnf is the stub of A-cnf-stub with an uninterpreted truth function csem_of(id, env)'],
     replay='dnnf',
     explanation='last sentence of the property: DecisionNNFBuilder::cond_helper / TopDownBuilder::condition carry  forall env. ptr_sem(r, env) == ptr_sem(bdd, upd(env, lbl, value))  '
                 'for regular AND complemented pointers of any diagram in which no path decides a variable twice (no ordering assumption); var and the standard store get_or_insert are under contract; conjoin_implied (the step by which unit-propagated literals enter a diagram) returns the diagram conjoined with the literals and keeps "decides once".  First sentence of the property, RELATIVE to the assumed solver interface (A-sat) and cache soundness (A-reshash): topdown_h returns a diagram that agrees with the formula on every assignment extending the current partial model, decides no variable twice and none that the model assigns, restores the solver stack and keeps the component cache valid; compile_cnf_topdown returns a diagram with exactly the models of the formula in which no path decides a variable twice, and returns the false CONSTANT exactly when the formula is unsatisfiable (validity carries a witness: any diagram other than the false constant is true on some assignment extending the model)',
     not_covered=[
         'topdown_h / compile_cnf_topdown are proved only RELATIVE to the assumed solver contract A-sat and cache soundness A-reshash: a defect inside SATSolver (unit propagation, the residual hash) is invisible to the proof [bounded check `dnnf`, both node stores]',
         'conjoin_implied is under contract with two declared rewrites: its `impl Iterator<Item = Literal>` parameter is the trusted container LitIter and the loop iterates the vector it stands for (A-lit-iter); proved: the result is the diagram conjoined with every implied literal and still decides each variable once, provided the literals are on distinct variables the diagram does not decide -- the callers (topdown_h) are not under contract',
         'SemanticDecisionNNFBuilder (semantic-hash node store): C11',
     ])

prop('C15',
     units=['cnf'],
     kani=[{'name': 'k_lit_roundtrip'}, {'name': 'k_lit_implies'}],
     assumptions=[A_VERUS, A_EXTRACT, A_KANI,
                  'A-bitset: bit_set::BitSet insert/remove/contains behave as a mathematical set of usize (external crate, trusted stub)',
                  'A-lit: in the Verus unit Literal is a two-field stub (label, polarity); the bit packing it stands for is proved on the real code by the Kani harnesses of this same check',
                  'A-std-sort-dedup: Vec::sort_by_key and Vec::dedup (std, no Verus specification) are stubs in Cnf::new that promise only that the vector keeps exactly its set of elements; nothing about order, so the sort key carries no proof weight', 'A-clone: Vec<Literal>::clone returns an equal vector'],
     replay='cnf',
     bounded_extra=['hasher'],
     explanation='Cnf::eval == "every clause has a literal true under the assignment" and Cnf::is_sat_partial == "every clause has a literal ASSIGNED true" (empty clause => false, empty list => true), '
                 'by nested loop invariants over the real loops; Cnf::condition against substitution of the literal; PartialModel get/set/unset/is_set/lit_implied/lit_neg_implied and VarSet insert/remove/contains against a set view, with the frame '
                 '(other variables unchanged) and the invariant that no variable is in both sets; Literal bit packing by Kani over all u64 x bool',
     not_covered=[
         'Cnf::new is under contract -- same number of clauses, clause by clause the same set of literals, hence the same meaning on every assignment, every label below num_vars and num_vars exact (0 without literals, else the largest label + 1) -- with declared rewrites (R-map-collect, R-max twice, the hasher initialiser dropped) and the std methods sort_by_key / dedup as stubs that keep exactly the set of elements (A-std-sort-dedup); precondition: labels fit 63 bits [+ bounded check `cnf`]', 'Cnf::condition is under contract -- (F | l) evaluates on every assignment a like F on a with l\'s variable set to l\'s polarity, by invariants over the two real loops (whole clause skipped on a literal equal to l, the opposite literal dropped) -- with two declared loop-header rewrites (R-for-while: labelled `continue` needs a `while`); its final call `Cnf::new(&new_cnf)` is answered by the proved contract of Cnf::new [+ bounded check `cnf`]', 'CnfHasher (HashSet; external prime sieve; labelled continue): the residual-formula hasher sentence of the property has a bounded check only (`hasher`)',
         'AssignmentIter::next (fold closure) and Cnf::wmc (brute-force counting) [bounded check `cnf` only; it found the empty-formula defect fixed in 18754bc]',
         'PartialModel::new / from_assignments / from_total_model / from_litvec are under contract (variable i gets exactly entry i; the last literal on a variable wins; everything else unset; never in both sets) with declared header rewrites (R-enumerate, R-map-collect) and BitSet::new / with_capacity as stubs returning the empty set (A-bitset)', 'VarSet union / minus / intersect_varset / difference and PartialModel assignment_iter / difference (BitSet iterator adapters) [bounded check `cnf` only]',
     ])

prop('C09',
     units=['satstack'],
     assumptions=[A_VERUS, A_EXTRACT,
                  'A-sat-deps: PartialModel, BitSet, UnitPropagate::decide and SATSolver::update_hash_and_sat_set are opaque stubs about whose results NOTHING is assumed (is_set returns the model\'s set_s, the contract proved for the real accessor in unit cnf); the stack discipline is proved for any propagator and any hash update',
                  'A-lit: Literal is the two-field stub (bit packing proved by Kani under C15)'],
     replay='unitprop',
     explanation='PARTIAL. Proved (for every history, any propagator): the decision stack is a stack -- SATSolver::decide pushes exactly one frame, or none when it reports UNSAT, and never touches the frames below; pop removes exactly the top frame; '
                 'is_set / cur_hash / is_sat read only the top frame and the immutable clause list; DecisionResult::SAT is returned exactly when is_sat() holds afterwards.  Hence (lemma_pop_undoes_decide) a decide that does not report UNSAT followed by pop '
                 'restores every observable answer -- the property\'s "popping restores exactly the state that held before the matching decision".  The other clauses of the property (soundness, UNSAT only when no model extends the decisions, fixpoint, '
                 'satisfied flag, hash injectivity) concern UnitPropagate::decide and update_hash_and_sat_set, which are outside Verus; they have a BOUNDED check only (`unitprop`)',
     not_covered=[
         'UnitPropagate::new / decide (iterator adapters over closures capturing the partial model: filter, clone().count(), nth(1); recursion through &mut self): soundness, "UNSAT only when no model extends the decisions" and the fixpoint clause have the bounded check `unitprop` only -- it found the replacement-watch defect fixed in e08fc81',
         'SATSolver::new and update_hash_and_sat_set (iterator chains, external prime sieve, labelled continue over BitSet iterators): the satisfied-flag and hash clauses have the bounded check `unitprop` only',
         'difference_iter (returns impl Iterator; reads the two top frames): used by the bounded check to reconstruct the model, not under contract',
         'the watch lists are mutated by decide and not restored by pop (by design): they are not observable through the public API, and their effect on later propagation is covered only by the bounded check (histories with pops followed by further decisions)',
     ])

prop('C14',
     units=['order', 'dtree', 'vtreed'],
     assumptions=[A_VERUS, A_EXTRACT,
                  'A-bitset / A-varset: BitSet insert/contains behave as a set of usize; the VarSet wrappers new/union/minus/intersect_varset (one-line functions over BitSet iterators) compute the set operation they name',
                  'A-clone: the derived Clone of DTree is a structural copy; Vec<Literal>::clone returns an equal vector',
                  'A-varset-iter: where VTree::from_dtree collects `cutset.iter()` the vector is a stub holding exactly the elements of the set, each once, in some order; the derived Clone of BTree is a structural copy',
                  'A-order-iter / A-cnf-stub: in unit dtree VarOrder::in_order_iter() is a stub yielding SOME sequence of labels (nothing assumed) and Cnf is the opaque stub exposing its clause list', A_TERM],
     replay={'order': 'order', 'dtree': 'dtree', '*': 'order'},
     bounded_extra=['vtree'],
     explanation='first sentence of the property, for the orders VarOrder itself builds: VarOrder::new(order) for ANY permutation `order` yields mutually inverse position/label maps (wf) with '
                 'get(order[i]) == i; new_last (run-time extension) preserves wf, keeps every old position and appends the new label; get / var_at_level / lt / lte / first / first_essential / sort / above / below are proved against the maps.  '
                 'dtree helpers (unit dtree): init_vars establishes vars = vars(l) U vars(r) at every node and the clause variables at every leaf; gen_cutset establishes cutset = (vars(l) /\\ vars(r)) minus the ancestors\' cutsets at every node (leaf: remaining variables) and changes nothing else; balanced keeps exactly the leaves of its input trees, in order',
     not_covered=[
         'VarOrder::linear_order is under contract (the identity order: label v at level v) with one declared rewrite (R-map-collect over the range) [+ bounded check `order`]',
         'min-fill (petgraph) and FORCE (f64, sort_by, partial_cmp) order heuristics [bounded check `order` only: the result is a bijection]',
         'DTree::from_cnf is under contract -- the leaves are exactly the clauses of the formula (every clause occurs at the leaves as often as in the formula), vars = clause variables at a leaf / union of the children at a node everywhere, cutsets = shared by the children and not cut above, for ANY sequence of labels as elimination order -- with three declared rewrites that replace std iterator adaptors by their definition over the same elements (R-map-collect, R-partition, R-for-while over the stub of in_order_iter: A-order-iter); it requires at least one clause (for the empty formula the real function panics in `balanced`: there is no dtree without leaves) [+ bounded check `dtree`]; cutwidth is not under contract', 'VTree::from_dtree and right_linear_c are under contract (unit vtreed) -- for a dtree with vars_ok and cut_ok the derived vtree is None exactly when no variable is left uncut, and otherwise has every variable of the subtree that the ancestors have not cut as EXACTLY ONE leaf (with from_cnf: every variable of the formula exactly once) -- with declared rewrites (R-slice-pattern for the five arms of right_linear_c, `match &&dtree` -> `match dtree`) and the collected cutset as a stub (A-varset-iter: exactly the elements of the set, each once, in some order); the SHAPE of the vtree (right-linear spines) is deliberately not part of the contract [+ bounded check `dtree`]', 'VTreeManager [bounded check `vtree` only: dense labels, <= 6 leaves; it found the variable-count defect fixed in ad19bb4] (in-order indices, lca via segment tree, prime test, variable count)',
     ])

prop('C05',
     units=['bottomup', 'builder', 'plan', 'ite', 'ptr', 'order', 'cache', 'lru', 'robdd'],
     assumptions=[A_VERUS, A_EXTRACT, A_PTREQ, A_CELL, A_MODEL_ITER, A_CNF_STUB, A_HEAP, A_TERM, A_CAP, A_HASH, A_CLONE, A_F64],
     replay='compile',
     explanation='compile_logical_expr(e) and compile_plan(p) (trait default methods, generic in the pointer type) denote expr_sem(e) / plan_sem(p), the structural meaning of the enum; '
                 'collapse_clauses denotes the conjunction of its slice and is None exactly for the empty slice; for the BDD builder the operations they call are the ones proved under C01 (same units), for any variable order',
     not_covered=[
         'compile_cnf (BDD builder) is under contract -- empty list: true; an empty clause: false; otherwise the diagram of the conjunction of the clauses, by invariants over the real per-clause and per-literal loops and the proved collapse_clauses -- with four declared rewrites: the empty-clause test and the clause-sorting prologue are the stubs of A-cnf-stub (the comparator heuristic is NOT verified; the proof holds for any rearrangement of the clauses), and two loop headers are written with `.iter()` [+ bounded check `compile`]',
         'compile_cnf_with_assignments is under contract -- the result is ordered, canonical and denotes the formula with the assigned variables overridden by the partial model (cnf_holds(cls, over(env, m)), i.e. the formula conditioned on the assignment), for every heap pop order -- with the rewrites and stubs of A-heap; that it is the SAME POINTER as condition_model(compile_cnf(..)) follows from the canonicity theorem (unit canonthm) given equal functions, and is additionally observed by the bounded check `compile`',
         'BottomUpPlan::from_dtree is under contract (unit plan) -- the plan means the conjunction of the leaf clauses of the dtree and mentions only their variables -- with ONE declared rewrite (R-fold: `clause.iter().skip(1).fold(first_lit, |acc, i| BODY)` replaced by the definition of fold, an indexed while over clause[1..] with the real closure text as body); that the leaves of DTree::from_cnf are the clauses of the CNF is proved under C14 (unit dtree) [+ bounded checks `compile`, `dtree`]',
         'everything SDD (C03 is not applicable): compile_* under the SDD builder and any vtree [bounded check `compile` only: all vtrees over 3 variables, four over 4]',
     ])

prop('C02',
     units=['ptr', 'bottomup', 'builder', 'robdd', 'table', 'canonthm'],
     kani=[{'name': 'k_next_power_of_two_ge'}],
     assumptions=[A_VERUS, A_EXTRACT, A_PTREQ, A_CELL, A_MODEL_ITER, A_CNF_STUB, A_TERM, A_CLONE,
                  'A-bump: bumpalo::Bump::alloc returns a reference to a value equal to its argument that is never moved, freed or mutated while the arena lives',
                  'A-psl: a probe sequence is shorter than min(255, cap) (u8 probe counter, no wrap around the whole table); assumed exactly where the counters are incremented',
                  'A-cap: node count < usize::MAX and capacity < 2^62; usize::next_power_of_two returns a value >= its argument',
                  'A-eq: `==` on table elements is an equivalence relation (std::cmp::Eq contract)',
                  'A-hash (table): UniqueTable::get_or_insert hashes the element with FxHasher (external crate) and calls get_or_insert_by_hash(hash, elem, false); the hash is an arbitrary u64 in the proof, so every collision pattern is covered',
                  'A-addr: reference identity is not expressible in Verus (a `&T` is its value), so in the model two structurally equal nodes ARE one node (pointer equality is reflexive on values). That structurally equal nodes share an address in the running program is the operational content of the lookup-completeness contract proved for the real table (unit table: a matching stored element is returned, never a second copy) applied bottom-up; this last induction over construction histories is argued, not mechanised. The canonicity theorem itself (ordered + canon + same function => same diagram) IS mechanised: unit canonthm'],
     replay={'table': 'table', '*': 'bdd'},
     explanation='shape: get_or_insert / ite_helper / cond_with_alloc / condition_essential and every public operation built on them return diagrams that respect the variable order (`ordered`) and, given canonical arguments, '
                 'are canonical (`canon`: no complemented or false high edge, children not the same pointer) -- clauses tagged #C02 plus the untagged order clauses.  hash-consing: the REAL robin-hood table code (propagate, grow, get_or_insert_by_hash) '
                 'is proved to keep the robin-hood invariant wfl (stored probe length = true displacement; no gaps in probe chains) for every capacity, every hash sequence and any number of growths, to keep exactly the stored (pointer, hash) pairs across grow, '
                 'and get_or_insert_by_hash is proved to return a reference that was ALREADY stored whenever a matching element is present (no second copy), otherwise to store exactly one new entry.  canonicity theorem (unit canonthm, spec-level): two diagrams that are ordered for the same order, canonical and denote the same function are equal, and therefore eq() <=> same function; each of the three conjuncts of `canon` is necessary for the proof (checked by deleting it)',
     not_covered=[
         'the "if and only if" is proved inside the model only (unit canonthm: lemma_eq_iff_same_function, for diagrams satisfying `ordered` and `canon`, which is what every operation is proved to return); its transfer to machine addresses rests on A-addr',
         'get_by_hash (used only by the semantic-hash builders), BackedRobinhoodTable::new / iter',
         'BddNode Hash impl consistency with PartialEq (hash is an arbitrary function in the proof; only lookup COMPLETENESS for one hash value per element is proved, so `Hash` must be a function of (var, low, high): A-hash)',
         'apply-cache evictions: by C16/C01 the cache cannot change results',
     ])


def proved_includes(root):
    """set of inc/*.rs files that some unit template includes non-assumed"""
    res = set()
    udir = os.path.join(root, 'units')
    for fn in os.listdir(udir):
        if fn.endswith('.rs'):
            for ln in open(os.path.join(udir, fn)):
                m = re.match(r'\s*//%%\s*include\s+(\S+)', ln)
                if m:
                    res.add(m.group(1))
    return res
