"""Property -> units / kani harnesses / replay key / stated gaps.  See DESIGN.md section 6."""
import os
import re

PROPS = {}


def prop(pid, **kw):
    PROPS[pid] = kw


A_VERUS = 'A-verus: soundness of Verus 0.2026.09.13 / Z3 and of the vstd specifications of Vec, slices, Option, HashMap and integer operations'
A_EXTRACT = 'A-extract: the declared extractor rewrites (listed per unit under coverage.units[].rewrites) preserve behaviour; attributes and doc comments of extracted items are dropped'

prop('T00',   # framework self-check property (not in MANIFEST): Ite::new only
     units=['ite'],
     assumptions=[A_VERUS, A_EXTRACT],
     not_covered=[], replay=None)

prop('T01', units=['ff'], assumptions=[A_VERUS, A_EXTRACT], not_covered=[], replay='ff')

prop('T02', units=['lru'], assumptions=[A_VERUS, A_EXTRACT], not_covered=[], replay=None)

prop('T03', units=['cache'], assumptions=[A_VERUS, A_EXTRACT], not_covered=[], replay=None)

prop('T04', units=['ptr'], assumptions=[A_VERUS, A_EXTRACT], not_covered=[], replay=None)

prop('T05', units=['order'], assumptions=[A_VERUS, A_EXTRACT], not_covered=[], replay=None)

prop('T06', units=['bottomup', 'builder'], assumptions=[A_VERUS, A_EXTRACT], not_covered=[], replay=None)

prop('T07', units=['robdd'], assumptions=[A_VERUS, A_EXTRACT], not_covered=[], replay=None)


def proved_includes(root):
    """set of inc/*.rs files that some unit template includes non-assumed"""
    res = set()
    udir = os.path.join(root, 'units')
    for fn in os.listdir(udir):
        if fn.endswith('.rs'):
            for ln in open(os.path.join(udir, fn)):
                m = re.match(r'\s*//%%\s*include\s+(\S+)', ln)
                if m:
                    res.add(m.group(1))
    return res
