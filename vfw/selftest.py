"""./check --selftest : applies deliberately broken bodies to a scratch copy of /repo/src (outside /repo and /verif,
removed afterwards) and requires the named obligation of the named property to fail -- guards the generator, the
line map and the obligation naming."""
import os
import shutil
import subprocess
import sys
import tempfile

ROOT = os.path.dirname(os.path.dirname(os.path.abspath(__file__)))

# (property, file, old text, new text, substring expected in a failed-obligation name)
MUTANTS = [
    ('C01', 'src/builder/cache/ite.rs', 'return IteConst(f.neg())', 'return IteConst(f)', 'ite::new::post'),
    ('C01', 'src/builder/bdd/robdd.rs', 'let node = BddNode::new(lbl, f, t);', 'let node = BddNode::new(lbl, t, f);', 'robdd::ite_helper'),
    ('C01', 'src/builder/bdd/robdd.rs', 'Some(v) => return if bdd.is_neg() { v.neg() } else { *v },', 'Some(v) => return *v,', 'robdd::cond_with_alloc::post'),
    ('C02', 'src/builder/bdd/robdd.rs', 'if bdd.high.is_neg() || bdd.high.is_false() {', 'if bdd.high.is_neg() {', 'robdd::get_or_insert::post'),
    ('C02', 'src/backing_store/bump_table.rs', 'if cur_itm.psl < searcher.psl {', 'if cur_itm.psl <= searcher.psl {', 'table::'),
    ('C02', 'src/backing_store/bump_table.rs', '                if cur_itm.psl < psl {\n                    // elem is not in the table', '                if cur_itm.psl <= psl {\n                    // elem is not in the table', 'table::get_or_insert_by_hash'),
    ('C05', 'src/builder/mod.rs', 'LogicalExpr::Xor(ref l, ref r) => {\n                let r1 = self.compile_logical_expr(l);\n                let r2 = self.compile_logical_expr(r);\n                self.xor(r1, r2)', 'LogicalExpr::Xor(ref l, ref r) => {\n                let r1 = self.compile_logical_expr(l);\n                let r2 = self.compile_logical_expr(r);\n                self.iff(r1, r2)', 'bottomup::compile_logical_expr::post'),
    ('C06', 'src/builder/decision_nnf/builder.rs', 'let r = if value { bdd.high_raw() } else { bdd.low_raw() };', 'let r = if value { bdd.low_raw() } else { bdd.high_raw() };', 'dnnf::cond_helper::post'),
    ('C08', 'src/builder/bdd/robdd.rs', 'self.smooth_helper(node.high, current + 1, total),', 'self.smooth_helper(node.high, current, total),', 'robdd::smooth_helper'),
    ('C13', 'src/util/semirings/finitefield.rs', 'FiniteField::new(P - self.v + 1)', 'FiniteField::new(P - self.v)', 'ff::negate::post'),
    ('C14', 'src/repr/var_order.rs', '        self.var_to_pos.push(pos);\n        self.pos_to_var.push(pos);', '        self.var_to_pos.push(pos);\n        self.pos_to_var.push(pos + 1);', 'order::new_last::post'),
    ('C15', 'src/repr/cnf.rs', '                if lit.polarity() == assgn {\n                    clause_sat = true;\n                }\n            }\n            if !clause_sat {\n                return false;\n            }\n        }\n        // no unsat clauses', '                if lit.polarity() != assgn {\n                    clause_sat = true;\n                }\n            }\n            if !clause_sat {\n                return false;\n            }\n        }\n        // no unsat clauses', 'cnf::eval'),
    ('C16', 'src/util/lru.rs', 'Some(ref v) if v.key == key => Some(v.val.clone()),', 'Some(ref v) if v.hash == hash_v => Some(v.val.clone()),', 'lru::get'),
]


def run():
    ok = True
    for pid, file, old, new, expect in MUTANTS:
        d = tempfile.mkdtemp(prefix='rsdd_selftest_')
        try:
            shutil.copytree('/repo/src', os.path.join(d, 'src'))
            p = os.path.join(d, file)
            s = open(p).read()
            if old not in s:
                print('SELFTEST anchor missing for %s in %s' % (pid, file))
                ok = False
                continue
            open(p, 'w').write(s.replace(old, new, 1))
            env = dict(os.environ, VERIF_REPO=d)
            r = subprocess.run([os.path.join(ROOT, 'check'), pid], env=env, capture_output=True, text=True, timeout=1800)
            hit = [ln for ln in r.stdout.split('\n') if ln.startswith('failed obligation') and expect in ln]
            status = 'ok' if (r.returncode == 1 and hit) else 'MISSED'
            if status != 'ok':
                ok = False
            print('SELFTEST %s %-4s %-45s expect %-38s rc=%d' % (status, pid, file, expect, r.returncode))
        finally:
            shutil.rmtree(d, ignore_errors=True)
    print('SELFTEST ' + ('all mutants detected' if ok else 'FAILED'))
    return 0 if ok else 2
