"""./check <Cxx> [--tier quick|thorough] [--replay FILE] [--selftest]"""
import concurrent.futures as cf
import hashlib
import json
import os
import re
import subprocess
import sys
import time

from . import extract, verus_run, kani_run, props

ROOT = os.path.dirname(os.path.dirname(os.path.abspath(__file__)))
REPO = os.environ.get('VERIF_REPO', '/repo')
BUILD = os.environ.get('VERIF_BUILD') or os.path.join(ROOT, 'build')
EVID = os.environ.get('VERIF_EVIDENCE_DIR') or os.path.join(ROOT, 'evidence')
# development switch (mutation scoring, vfw/mutscore.py): Verus obligations only -- no Kani, no replay search, no bounded checks
PROOF_ONLY = bool(os.environ.get('VERIF_PROOF_ONLY'))


def log(*a):
    print(*a, flush=True)


def load_known():
    known, fixed = [], []
    p = os.path.join(ROOT, 'known_findings.txt')
    if os.path.exists(p):
        for ln in open(p):
            ln = ln.strip()
            if ln.startswith('known:'):
                d = {}
                head, _, what = ln[len('known:'):].partition('::')
                for tok in head.split():
                    if '=' in tok:
                        k, v = tok.split('=', 1)
                        d[k] = v
                d['what'] = what.strip()
                known.append(d)
            elif ln.startswith('fixed:'):
                fixed.append(ln)
    return known, fixed


def gen_unit(unit, canary=False, sub=None):
    tpl = os.path.join(ROOT, 'units', unit + '.rs')
    g = extract.generate(tpl, REPO, unit, canary=canary)
    d = os.path.join(BUILD, sub) if sub else BUILD
    os.makedirs(d, exist_ok=True)
    out = os.path.join(d, unit + ('_canary' if canary else '') + '.rs')
    trailer = extract.header_comment(g, unit, REPO, tpl)
    with open(out, 'w') as f:
        f.write(g.text())
        f.write('\n'.join(trailer) + '\n')
    return g, out


def unit_obligations(g, failed_fns, pid=None, sites=None):
    """(obligations, discharged, functions under contract) measured from the generated text; functions that an
    `@props` directive or the property's `sites` list attributes to other properties only are not counted"""
    ob = 0
    dis = 0
    fns = []
    for fn in g.functions:
        if fn['kind'] != 'fn' or fn['assumed']:
            continue
        if pid and fn.get('props') and pid not in fn['props']:
            continue
        if sites is not None and fn['name'] not in sites:
            continue
        n = fn['n_clauses'] + 1   # +1: body safety (panics, overflow, callee preconditions, bounds)
        ob += n
        if fn['name'] not in failed_fns:
            dis += n
        fns.append(fn)
    for tf in g.template_fns:
        if tf['mode'] == 'proof':
            ob += 1
            if tf['name'] not in failed_fns:
                dis += 1
    return ob, dis, fns


def scan_trusted(text):
    """mechanical scan for assumption-bearing constructs in the generated file"""
    found = []
    lines = text.split('\n')
    for i, ln in enumerate(lines):
        s = ln.strip()
        if s.startswith('//'):
            continue
        for pat in ('external_body', 'assume_specification', 'assume(', 'admit(', 'external_fn_specification', 'exec_allows_no_decreases_clause', 'uninterp spec fn', 'external_type_specification', 'axiom fn', 'broadcast axiom'):
            if pat in s:
                # name: next fn line
                nm = ''
                for k in range(i, min(i + 6, len(lines))):
                    m = re.search(r'\bfn\s+(\w+)', lines[k])
                    if m:
                        nm = m.group(1)
                        break
                found.append('%s %s' % (pat.rstrip('('), nm))
    return sorted(set(found))


def run_property(pid, tier, seed):
    t0 = time.time()
    spec = props.PROPS[pid]
    os.makedirs(BUILD, exist_ok=True)
    os.makedirs(os.path.join(BUILD, 'replay'), exist_ok=True)
    os.makedirs(EVID, exist_ok=True)
    inconclusive = []
    failed = []          # obligations
    foreign = []         # failed obligations that belong to other properties only
    unit_info = []
    gens = {}
    jobs = []
    seeds = [None]
    if tier == 'thorough':
        seeds += [(seed * 7919 + k * 104729 + 1) % 100000 for k in range(3)]
    # 1. extract
    only_units = [u for u in (os.environ.get('VERIF_ONLY_UNITS') or '').split(',') if u]   # development switch (mutscore)
    for unit in spec.get('units', []):
        if only_units and unit not in only_units:
            continue
        try:
            g, path = gen_unit(unit, sub=pid)
            gc, pathc = gen_unit(unit, canary=True, sub=pid)
        except extract.AnchorLost as e:
            inconclusive.append('anchor-lost unit=%s: %s' % (unit, e))
            continue
        except extract.TemplateError as e:
            inconclusive.append('template-error unit=%s: %s' % (unit, e))
            continue
        gens[unit] = (g, path, gc, pathc)
        for sd in seeds:
            jobs.append((unit, 'main', sd, g, path))
        jobs.append((unit, 'canary', None, gc, pathc))
    # 2. verify (parallel)
    results = {}
    rl = spec.get('rlimit', 30)
    with cf.ThreadPoolExecutor(max_workers=8) as ex:
        futs = {}
        for (unit, kind, sd, g, path) in jobs:
            futs[ex.submit(verus_run.run, path, g, unit, rl, sd, None, 1500, 2)] = (unit, kind, sd)
        kfut = None
        if spec.get('kani') and not PROOF_ONLY:
            hs = [h for h in spec['kani'] if tier == 'thorough' or not h.get('thorough_only')]
            kfut = ex.submit(kani_run.run_harnesses, ROOT, REPO, hs, BUILD)
        for fu in cf.as_completed(futs):
            results[futs[fu]] = fu.result()
        kres = kfut.result() if kfut else None
    # 3. classify
    total_ob = total_dis = 0
    smt_ms = 0
    functions = []
    trusted = set()
    samples = []
    verus_cmds = []
    for unit, (g, path, gc, pathc) in gens.items():
        r = results[(unit, 'main', None)]
        verus_cmds.append('cd build/%s && %s' % (pid, r.cmd))
        smt_ms += r.smt_ms
        if r.tool_errors:
            for te in r.tool_errors:
                inconclusive.append('tool-limit unit=%s: %s' % (unit, str(te)[:400]))
        failed_fns = set(o['function'] for o in r.failed)
        # for the obligation count only failures that belong to this property matter (a clause tagged for another
        # property is not one of this property's obligations)
        sites_u = spec.get('sites', {}).get(unit)
        own_failed_fns = set(o['function'] for o in r.failed
                             if not ((o.get('props_site') and pid not in o['props_site']) or (o.get('props_clause') and pid not in o['props_clause'])
                                     or (sites_u is not None and o.get('function') not in sites_u)))
        # other seeds: instability
        for sd in seeds[1:]:
            r2 = results[(unit, 'main', sd)]
            smt_ms += r2.smt_ms
            n1 = sorted(o['name'] for o in r.failed)
            n2 = sorted(o['name'] for o in r2.failed)
            if r2.tool_errors or n1 != n2:
                inconclusive.append('unstable-proof unit=%s seed=%s: default seed failed=%s, this seed failed=%s tool=%s' % (unit, sd, n1, n2, r2.tool_errors[:1]))
        ob, dis, fns = unit_obligations(g, own_failed_fns, pid, spec.get('sites', {}).get(unit))
        if ob == 0:
            inconclusive.append('vacuity unit=%s generated zero obligations' % unit)
        if not r.tool_errors and not r.failed and r.verified == 0:
            inconclusive.append('vacuity unit=%s verus verified zero functions' % unit)
        total_ob += ob
        total_dis += dis
        for fn in fns:
            functions.append({'unit': unit, 'function': fn['qual'], 'file': fn['file'], 'lines': fn['src_lines'], 'text_sha256': fn['sha256'],
                              'clauses': fn['n_clauses'], 'requires': fn['n_requires']})
            samples.append('%s::%s (%d ensures/invariant clauses + body safety)' % (unit, fn['name'], fn['n_clauses']))
        for f in r.failed:
            f['property'] = pid
            ps, pc = f.get('props_site'), f.get('props_clause')
            sites = spec.get('sites', {}).get(unit)
            if (ps and pid not in ps) or (pc and pid not in pc) or (sites is not None and f.get('function') not in sites):
                foreign.append(f)       # the obligation serves another property (tagged in the template)
            else:
                failed.append(f)
        trusted.update('%s: %s' % (unit, t) for t in scan_trusted(g.text()))
        for inc in g.includes:
            if inc['assumed']:
                trusted.add('%s: contracts of %s assumed here (proved in the unit that includes it non-assumed)' % (unit, inc['file']))
        # canaries
        rc = results[(unit, 'canary', None)]
        smt_ms += rc.smt_ms
        if rc.tool_errors:
            inconclusive.append('tool-limit unit=%s (canary run): %s' % (unit, str(rc.tool_errors[0])[:300]))
        else:
            hit = set()
            for o in rc.failed:
                if o['kind'].startswith('postcondition') and re.sub(r'^ensures\s+', '', (o.get('clause') or '').strip()).rstrip(',') == 'false' and o['function'].endswith('__canary'):
                    hit.add(o['function'][:-len('__canary')])
            for nm in gc.canaried:
                if nm not in hit and nm not in failed_fns:
                    inconclusive.append('vacuity unit=%s fn=%s: `ensures false` was PROVED under its requires clause (contradictory precondition or no reachable exit)' % (unit, nm))
        unit_info.append({'unit': unit, 'verus_verified_items': r.verified, 'verus_errors': r.errors, 'smt_ms': r.smt_ms,
                          'wall_s': round(r.wall_s, 2), 'obligations': ob, 'discharged': dis,
                          'canaries_expected_to_fail': len(gc.canaried), 'sources': g.sources,
                          'rewrites': g.rewrites,
                          'slowest': sorted([(t[2], t[0]) for t in r.func_times if t[2]], reverse=True)[:3]})
    # include closure: every assumed include must be verified by some unit of some property
    proved_incs = props.proved_includes(ROOT)
    for unit, (g, _, _, _) in gens.items():
        for inc in g.includes:
            if inc['assumed'] and inc['file'] not in proved_incs and not inc['file'].startswith('prelude/') and not inc['file'].startswith('trusted/'):
                inconclusive.append('assumed include %s (unit %s) is not verified by any unit' % (inc['file'], unit))
    # kani
    kani_info = None
    if kres is not None:
        kani_info = kres['summary']
        total_ob += kres['checks']
        total_dis += kres['checks_ok']
        for te in kres['tool_errors']:
            inconclusive.append('tool-limit kani: %s' % te[:400])
        for f in kres['failed']:
            f['property'] = pid
            failed.append(f)
        samples.extend(kres['samples'][:6])
        trusted.add('kani: CBMC bit-precise translation of the compiled crate; kani::any() covers the whole bit domain of the type')
    # 4. violations vs known findings
    known, fixed = load_known()
    violations = []
    known_hits = []
    for f in failed:
        k = None
        for kn in known:
            if kn.get('property') == pid and kn.get('obligation') == f['name']:
                k = kn
        if k is not None:
            known_hits.append((f, k))
        else:
            violations.append(f)
    rc_exit = 0
    for f, k in known_hits:
        log('KNOWN-FINDING: property=%s obligation=%s %s' % (pid, f['name'], k.get('what', '')))
    replay_paths = []
    if violations and not inconclusive_blocks(inconclusive):
        for f in violations:
            path = write_replay(pid, f, tier, seed)
            replay_paths.append(path)
    # 4b. bounded stand-in: a unit the verifier could not process (lost anchor / unsupported construct after a
    # code change) is undecided for the proof; the replay enumerator is then run on the REAL code as a bounded
    # check.  A concrete failing input is a demonstrated violation; finding none leaves the run inconclusive.
    bounded = None
    if any(m.startswith(('anchor-lost', 'tool-limit')) for m in inconclusive) and not violations and spec.get('replay') and not PROOF_ONLY:
        rp = spec['replay']
        keys = sorted(set(rp.values()) | set(spec.get('bounded_extra', []))) if isinstance(rp, dict) else sorted(set([rp]) | set(spec.get('bounded_extra', [])))
        bounded = {'keys': keys, 'found': None, 'bounds': {k: props.REPLAY_BOUNDS.get(k, '') for k in keys}}
        for key in keys:
            try:
                cex, slog = run_replay_search(key, {'name': 'bounded-standin', 'function': 'prop:' + pid}, seed)
            except Exception as e:
                cex, slog = None, 'replay search failed to run: %r' % (e,)
            bounded[key] = slog.strip().split('\n')[-1][:200] if slog else ''
            if cex:
                f = {'name': 'bounded-standin::%s' % key, 'unit': 'replay', 'function': key, 'kind': 'bounded check on the real code (the verifier could not process the changed source)',
                     'clause': None, 'site': None, 'rendered': 'unit(s) undecided by the verifier: ' + ' | '.join(inconclusive)[:1500], 'property': pid}
                path = os.path.join(BUILD, 'replay', '%s-bounded-standin-%s.json' % (pid, key))
                with open(path, 'w') as fo:
                    json.dump({'property': pid, 'obligation': f['name'], 'kind': f['kind'], 'verifier_output': f['rendered'], 'failing_input': cex,
                               'how_to_rerun': './check %s --replay %s' % (pid, path), 'label': 'bounded (not a proof obligation)'}, fo, indent=1)
                violations.append(f)
                replay_paths.append(path)
                bounded['found'] = key
                break
    # 4c. bounded checks (every tier): the replay enumerators run on the real code.  They stand in, labelled bounded
    # and never counted as proved, for the functions of this property that the verifier cannot reach (listed under
    # not_covered), and cross-check the trusted stubs; a failing input found here is a demonstrated violation.
    # quick: one enumerator seed; thorough: five.
    crosscheck = None
    if spec.get('replay') and not violations and bounded is None and not os.environ.get('VERIF_NO_BOUNDED') and not PROOF_ONLY:
        rp = spec['replay']
        keys = sorted(set(rp.values()) | set(spec.get('bounded_extra', []))) if isinstance(rp, dict) else sorted(set([rp]) | set(spec.get('bounded_extra', [])))
        crosscheck = {'label': 'bounded: NOT counted in obligations/discharged', 'bounds': {k: props.REPLAY_BOUNDS.get(k, '') for k in keys}}
        for key in keys:
            cex, logs = None, []
            # five enumerator runs with seeds derived from VERIF_SEED (the random part of every enumerator is seeded)
            for rs in [seed * 31 + k * 7919 + 1 for k in range(5 if tier == 'thorough' else 1)]:
                try:
                    cex, slog = run_replay_search(key, {'name': 'bounded-check', 'function': 'prop:' + pid}, rs)
                except Exception as e:
                    # a bounded check that cannot be completed (enumerator does not build against the changed tree, or does
                    # not finish: a hang of the real code) leaves the run undecided -- never "held"
                    cex, slog = None, 'replay search failed to run: %r' % (e,)
                    inconclusive.append('bounded-check %s could not be completed: %s' % (key, describe_search_failure(e)))
                logs.append('seed %d: %s' % (rs, slog.strip().split('\n')[-1][:160] if slog else ''))
                if cex:
                    break
            crosscheck[key] = logs
            if cex:
                f = {'name': 'bounded-check::%s' % key, 'unit': 'replay', 'function': key, 'kind': 'bounded check on the real code', 'clause': None, 'site': None,
                     'rendered': 'the replay enumerator found a failing input on the real code although every proof obligation was discharged: the failing function is outside the functions under contract (see not_covered), or a trusted stub misrepresents the code', 'property': pid}
                path = os.path.join(BUILD, 'replay', '%s-bounded-check-%s.json' % (pid, key))
                with open(path, 'w') as fo:
                    json.dump({'property': pid, 'obligation': f['name'], 'kind': f['kind'], 'verifier_output': f['rendered'], 'failing_input': cex,
                               'how_to_rerun': './check %s --replay %s' % (pid, path), 'label': 'bounded (not a proof obligation)'}, fo, indent=1)
                violations.append(f)
                replay_paths.append(path)
    wall = time.time() - t0
    # 5. evidence
    ev = {
        'property_id': pid, 'tier': tier, 'seed': seed, 'level': 'proof',
        'coverage': {
            'obligations': total_ob, 'discharged': total_dis,
            'checker_cmd': ' ; '.join(verus_cmds + ([kres['cmd']] if kres else [])),
            'trusted_base': sorted(trusted) + spec.get('assumptions', []),
            'samples': samples[:40],
            'functions_under_contract': functions,
            'units': unit_info,
            'kani': kani_info,
            'back_ends': {'verus(z3)': {'obligations': total_ob - (kres['checks'] if kres else 0), 'smt_ms': smt_ms},
                          'kani(cbmc)': {'obligations': kres['checks'] if kres else 0, 'solver_s': kres['solver_s'] if kres else 0}},
            'not_covered': spec.get('not_covered', []),
            'failed_obligations': [f['name'] for f in failed],
            'failed_obligations_of_other_properties': [f['name'] for f in foreign],
            'known_findings_hit': [f['name'] for f, _ in known_hits],
            'inconclusive': inconclusive,
            'bounded_standin': bounded,
            'bounded_checks': crosscheck,
            'obligation_counting_rule': 'per extracted function: ensures clauses + 2 x loop-invariant clauses + decreases clauses + 1 (body safety: panics, overflow, bounds, callee preconditions); per template lemma: 1; per Kani harness: number of CBMC checks reported',
            'explanation': spec.get('explanation', ''),
        },
        'assumptions': sorted(trusted) + spec.get('assumptions', []),
        'wall_s': round(wall, 2),
        'violations': len(violations),
    }
    with open(os.path.join(EVID, pid + '.json'), 'w') as fo:
        json.dump(ev, fo, indent=1)
    # 6. verdict
    if inconclusive:
        for m in inconclusive:
            log('INCONCLUSIVE property=%s %s' % (pid, m))
    if violations and not inconclusive_blocks(inconclusive):
        for f, path in zip(violations, replay_paths):
            cex = json.load(open(path)).get('failing_input')
            log('failed obligation: %s' % f['name'])
            log(f.get('rendered', '')[:1500])
            log('VIOLATION property=%s replay=%s%s' % (pid, path, '' if cex else ' no-failing-input-found'))
        return 1
    if inconclusive:
        return 2
    log('OK property=%s tier=%s obligations=%d discharged=%d units=%s wall=%.1fs' % (pid, tier, total_ob, total_dis, ','.join(gens.keys()), wall))
    return 0


def inconclusive_blocks(inc):
    """a failed obligation is reported even when another unit was inconclusive: verus only reports
    verification failures for files that type-checked, so the two do not interfere"""
    return False


def write_replay(pid, f, tier, seed):
    name = re.sub(r'[^A-Za-z0-9_.#@-]+', '_', f['name'])[:150]
    path = os.path.join(BUILD, 'replay', '%s-%s.json' % (pid, name))
    cex = None
    search_log = ''
    rp = props.PROPS[pid].get('replay')
    if isinstance(rp, dict):
        rp = rp.get('%s::%s' % (f.get('unit'), f.get('function'))) or rp.get(f.get('unit')) or rp.get('*')
    if rp:
        try:
            cex, search_log = run_replay_search(rp, f, seed)
        except Exception as e:  # replay search is best effort
            search_log = 'replay search failed to run: %r' % (e,)
    doc = {
        'property': pid,
        'obligation': f['name'],
        'unit': f.get('unit'),
        'function': f.get('function'),
        'kind': f.get('kind'),
        'clause': f.get('clause'),
        'site': f.get('site'),
        'verifier_output': f.get('rendered'),
        'failing_input': cex,
        'replay_search_log': search_log[-4000:],
        'how_to_rerun': './check %s --replay %s' % (pid, path),
    }
    if f.get('kani_trace'):
        doc['kani_counterexample'] = f['kani_trace']
    with open(path, 'w') as fo:
        json.dump(doc, fo, indent=1)
    return path


def replay_bin():
    """build the replay crate against the current /repo tree (hooks on)"""
    crate = os.path.join(ROOT, 'replay')
    env = dict(os.environ, CARGO_NET_OFFLINE='true', RUSTFLAGS='--cfg rsdd_verif', CARGO_TARGET_DIR=os.path.join(BUILD, 'replay-target'))
    lock = os.path.join(crate, 'Cargo.lock')
    p = subprocess.run(['cargo', 'build', '--release', '--offline', '--manifest-path', os.path.join(crate, 'Cargo.toml')],
                       env=env, capture_output=True, text=True, timeout=1200)
    if p.returncode != 0:
        raise RuntimeError('replay crate build failed: ' + p.stderr[-1500:])
    return os.path.join(BUILD, 'replay-target', 'release', 'rsdd-replay')


def describe_search_failure(e):
    if isinstance(e, subprocess.TimeoutExpired):
        err = e.stderr.decode('utf-8', 'replace') if isinstance(e.stderr, bytes) else (e.stderr or '')
        running = [ln for ln in err.split('\n') if ln.startswith('RUNNING ')]
        return 'the enumerator did not finish within %s s; last case started: %s' % (e.timeout, running[-1][len('RUNNING '):][:300] if running else 'unknown')
    return repr(e)[:300]


def run_replay_search(rp, f, seed):
    if PROOF_ONLY:
        return None, 'replay search skipped (VERIF_PROOF_ONLY)'
    b = replay_bin()
    args = [b, 'search', rp, '--obligation', f['name'], '--function', f.get('function', ''), '--seed', str(seed)]
    if f.get('kani_trace'):
        args += ['--hint', json.dumps(f['kani_trace'])]
    p = subprocess.run(args, capture_output=True, text=True, timeout=300)
    out = p.stdout
    cex = None
    for ln in out.split('\n'):
        if ln.startswith('FAILING-INPUT '):
            try:
                cex = json.loads(ln[len('FAILING-INPUT '):])
            except Exception:
                cex = {'raw': ln[len('FAILING-INPUT '):]}
            break
    running = [ln for ln in p.stderr.split('\n') if ln.startswith('RUNNING ')]
    if cex is None and 'NO-FAILING-INPUT' not in out and p.returncode != 0 and running:
        # the enumerator died (stack overflow / abort: not catchable as a panic): the real code crashed on the last case it announced
        try:
            cex = json.loads(running[-1][len('RUNNING '):])
        except Exception:
            cex = {'raw': running[-1][len('RUNNING '):]}
        cex['why'] = 'the real code crashed on this input (enumerator exit status %s: stack overflow or abort)' % p.returncode
    err = '\n'.join(ln for ln in p.stderr.split('\n') if not ln.startswith('RUNNING '))
    return cex, out + err


def do_replay(pid, path):
    doc = json.load(open(path))
    cex = doc.get('failing_input')
    log('replay of %s: obligation %s' % (path, doc.get('obligation')))
    if not cex:
        log('no failing input recorded (verifier gave no counterexample); verifier output follows')
        log(doc.get('verifier_output') or '')
        return 0
    b = replay_bin()
    p = subprocess.run([b, 'replay', json.dumps(cex)], capture_output=True, text=True, timeout=600)
    log(p.stdout + p.stderr)
    if p.returncode not in (0,) and 'PASSES' not in p.stdout and 'STILL-FAILS' not in p.stdout:
        log('STILL-FAILS: the replay process crashed (exit status %s)' % p.returncode)
        return 1
    return 1 if 'STILL-FAILS' in p.stdout else 0


def main(argv):
    if len(argv) < 2:
        log(__doc__)
        return 2
    pid = argv[1]
    if pid == '--selftest':
        from . import selftest
        return selftest.run()
    tier = os.environ.get('VERIF_TIER', 'quick')
    seed = int(os.environ.get('VERIF_SEED', '0') or 0)
    replay = None
    i = 2
    while i < len(argv):
        if argv[i] == '--tier':
            tier = argv[i + 1]
            i += 2
        elif argv[i] == '--replay':
            replay = argv[i + 1]
            i += 2
        else:
            log('unknown argument ' + argv[i])
            return 2
    if pid == '--selftest':
        from . import selftest
        return selftest.run()
    if pid not in props.PROPS:
        log('unknown or unclaimed property %s' % pid)
        return 2
    if replay:
        return do_replay(pid, replay)
    return run_property(pid, tier, seed)
