#!/bin/sh
# dev helper: ./seedrun.sh <patch-file> <Cxx> [<Cyy> ...]  -- applies a seeded change to /repo, runs checks, reverts
cd "$(dirname "$0")"
pf=$(readlink -f "$1"); shift
if ! git -C /repo diff --quiet; then echo "/repo is dirty"; exit 3; fi
git -C /repo apply "$pf" || { echo "patch does not apply"; exit 3; }
rm -f build/replay/*.json
# evidence written while a change is applied must not survive: keep the files of the unchanged tree
rm -rf build/evidence.keep; cp -r evidence build/evidence.keep
for p in "$@"; do
  ./check $p 2>&1 | grep -E "^(VIOLATION|INCONCLUSIVE|OK|KNOWN|failed obligation)" | cut -c1-260
  for f in build/replay/$p-*.json; do [ -f "$f" ] && python3 -c "
import json,sys
d=json.load(open('$f')); fi=d.get('failing_input'); print('   replay:', (json.dumps(fi)[:300] if fi else 'none'))"; done
  rm -f build/replay/$p-*.json
done
git -C /repo checkout -- .
rm -rf evidence; mv build/evidence.keep evidence
