#!/bin/sh
# dev helper: generate a unit and run verus on it, printing rendered diagnostics
# usage: ./dev.sh <unit> [extra verus args]
cd "$(dirname "$0")"
u=$1; shift
python3 -c "
import sys; sys.path.insert(0,'/verif')
from vfw import main
g,p=main.gen_unit('$u'); print(p)
" && cd build && verus $u.rs --multiple-errors 10 --rlimit 30 "$@" 2>&1 | grep -v "^warning: autoderive\|^   = help\|^$" | head -${LINES_MAX:-120}
