// ---- powers of two and shifts on usize (64-bit) ----
global size_of usize == 8;

pub open spec fn pow2(p: nat) -> nat decreases p { if p == 0 { 1 } else { 2 * pow2((p - 1) as nat) } }

pub proof fn lemma_pow2_pos(p: nat) ensures pow2(p) > 0 decreases p { if p > 0 { lemma_pow2_pos((p - 1) as nat); } }

pub proof fn lemma_pow2_mono(a: nat, b: nat) requires a <= b ensures pow2(a) <= pow2(b) decreases b
{ if a < b { lemma_pow2_mono(a, (b - 1) as nat); lemma_pow2_pos((b - 1) as nat); } }

pub proof fn lemma_pow2_63() ensures pow2(63) == 0x8000_0000_0000_0000nat
{ reveal_with_fuel(pow2, 64); }

pub proof fn lemma_shl(p: u64)
    requires p < 64,
    ensures (1usize << p) == pow2(p as nat),
    decreases p,
{
    if p == 0 {
        assert((1usize << 0u64) == 1) by(bit_vector);
    } else {
        lemma_shl((p - 1) as u64);
        assert((1usize << p) == 2 * (1usize << ((p - 1) as u64))) by(bit_vector) requires 0 < p < 64;
    }
}
