// ---- the counting theorems (C07, C08): the structural weighted count `wmc_spec` equals the semiring sum over assignments ----
// Spec-level only.  `zsum(g, w, vs, env)` is the sum, over all assignments of the variables listed in `vs` (the other
// variables keep their value in `env`), of the product of the chosen literal weights times g(assignment); it is
// written variable by variable -- the last variable of `vs` outermost -- with each weight multiplied in at its
// variable (the factored form of  SUM_a  PROD_i w(vs[i], a(vs[i])) * g(a)).

pub type GF<T> = spec_fn(Env) -> T;

pub open spec fn zsum<T: Semiring>(g: GF<T>, w: W<T>, vs: Seq<u64>, env: Env) -> T
    decreases vs.len()
{
    if vs.len() == 0 { g(env) } else {
        let v = vs.last();
        (w(v).0.mul_spec(zsum(g, w, vs.drop_last(), upd(env, v, false)))).add_spec(
         w(v).1.mul_spec(zsum(g, w, vs.drop_last(), upd(env, v, true))))
    }
}
/// the weighted count of the diagram as the library's fold computes it (proved for the real code: unit wmc, `unsmoothed_wmc`)
pub open spec fn wmc_spec<T: Semiring>(p: BddPtr, c: bool, w: W<T>) -> T { bfs(p, c, wmc_alg(w, T::one_s(), T::zero_s())) }
/// indicator of "p (complemented when c) is true under env", as a semiring value
pub open spec fn indf<T: Semiring>(p: BddPtr, c: bool) -> GF<T> { |e: Env| if ptr_sem(p, e) != c { T::one_s() } else { T::zero_s() } }

pub open spec fn distinct(vs: Seq<u64>) -> bool { forall|i: int, j: int| 0 <= i < j < vs.len() ==> vs[i] != vs[j] }
pub open spec fn wv<T: Semiring>(w: W<T>) -> bool { forall|v: u64| (#[trigger] w(v)).0.valid() && w(v).1.valid() }
pub open spec fn gv<T: Semiring>(g: GF<T>) -> bool { forall|e: Env| (#[trigger] g(e)).valid() }
pub open spec fn indep<T>(g: GF<T>, v: u64) -> bool { forall|e: Env, b: bool| #[trigger] g(upd(e, v, b)) == g(e) }
/// low and high weight of v sum to one
pub open spec fn normalised<T: Semiring>(w: W<T>, v: u64) -> bool { w(v).0.add_spec(w(v).1) == T::one_s() }

pub proof fn lemma_upd_comm(env: Env, u: u64, x: bool, v: u64, b: bool)
    requires u != v,
    ensures upd(upd(env, v, b), u, x) == upd(upd(env, u, x), v, b),
{
    assert(upd(upd(env, v, b), u, x) =~= upd(upd(env, u, x), v, b));
}
pub proof fn zsum_valid<T: Semiring>(g: GF<T>, w: W<T>, vs: Seq<u64>, env: Env)
    requires csr::<T>(), wv(w), gv(g),
    ensures zsum(g, w, vs, env).valid(),
    decreases vs.len(),
{
    if vs.len() > 0 {
        let v = vs.last();
        zsum_valid(g, w, vs.drop_last(), upd(env, v, false));
        zsum_valid(g, w, vs.drop_last(), upd(env, v, true));
        let a = zsum(g, w, vs.drop_last(), upd(env, v, false)); let b = zsum(g, w, vs.drop_last(), upd(env, v, true));
        c_closed(w(v).0, a); c_closed(w(v).1, b); c_closed(w(v).0.mul_spec(a), w(v).1.mul_spec(b));
    }
}
/// two functions that agree wherever variable v has value b have the same sum from an environment in which v has
/// value b, provided v is not summed over
pub proof fn zsum_cong_fix<T: Semiring>(g: GF<T>, g2: GF<T>, w: W<T>, vs: Seq<u64>, env: Env, v: u64, b: bool)
    requires !vs.contains(v), env(v) == b, forall|e: Env| e(v) == b ==> #[trigger] g(e) == g2(e),
    ensures zsum(g, w, vs, env) == zsum(g2, w, vs, env),
    decreases vs.len(),
{
    if vs.len() > 0 {
        let u = vs.last();
        assert(vs[vs.len() - 1] == u);
        assert forall|x: u64| !vs.drop_last().contains(x) || vs.contains(x) by {
            if vs.drop_last().contains(x) { let i = choose|i: int| 0 <= i < vs.drop_last().len() && vs.drop_last()[i] == x; assert(vs[i] == x); }
        }
        zsum_cong_fix(g, g2, w, vs.drop_last(), upd(env, u, false), v, b);
        zsum_cong_fix(g, g2, w, vs.drop_last(), upd(env, u, true), v, b);
    }
}
/// a function that does not depend on v has the same sum whatever v's value in the environment (v not summed over)
pub proof fn zsum_indep<T: Semiring>(g: GF<T>, w: W<T>, vs: Seq<u64>, env: Env, v: u64, b: bool)
    requires !vs.contains(v), indep(g, v),
    ensures zsum(g, w, vs, upd(env, v, b)) == zsum(g, w, vs, env),
    decreases vs.len(),
{
    if vs.len() > 0 {
        let u = vs.last();
        assert(vs[vs.len() - 1] == u);
        assert forall|x: u64| !vs.drop_last().contains(x) || vs.contains(x) by {
            if vs.drop_last().contains(x) { let i = choose|i: int| 0 <= i < vs.drop_last().len() && vs.drop_last()[i] == x; assert(vs[i] == x); }
        }
        lemma_upd_comm(env, u, false, v, b); lemma_upd_comm(env, u, true, v, b);
        zsum_indep(g, w, vs.drop_last(), upd(env, u, false), v, b);
        zsum_indep(g, w, vs.drop_last(), upd(env, u, true), v, b);
    }
}
/// a(l*x0 + h*y0) + b(l*x1 + h*y1) == l(a*x0 + b*x1) + h(a*y0 + b*y1)
pub proof fn alg_shuffle<T: Semiring>(a: T, b: T, l: T, h: T, x0: T, y0: T, x1: T, y1: T)
    requires csr::<T>(), a.valid(), b.valid(), l.valid(), h.valid(), x0.valid(), y0.valid(), x1.valid(), y1.valid(),
    ensures
        a.mul_spec(l.mul_spec(x0).add_spec(h.mul_spec(y0))).add_spec(b.mul_spec(l.mul_spec(x1).add_spec(h.mul_spec(y1))))
        == l.mul_spec(a.mul_spec(x0).add_spec(b.mul_spec(x1))).add_spec(h.mul_spec(a.mul_spec(y0).add_spec(b.mul_spec(y1)))),
{
    let lx0 = l.mul_spec(x0); let hy0 = h.mul_spec(y0); let lx1 = l.mul_spec(x1); let hy1 = h.mul_spec(y1);
    c_closed(l, x0); c_closed(h, y0); c_closed(l, x1); c_closed(h, y1);
    c_distr(a, lx0, hy0); c_distr(b, lx1, hy1);
    // a*(l*x0) == l*(a*x0) etc.
    c_mul_assoc(a, l, x0); c_mul_comm(a, l); c_mul_assoc(l, a, x0);
    c_mul_assoc(a, h, y0); c_mul_comm(a, h); c_mul_assoc(h, a, y0);
    c_mul_assoc(b, l, x1); c_mul_comm(b, l); c_mul_assoc(l, b, x1);
    c_mul_assoc(b, h, y1); c_mul_comm(b, h); c_mul_assoc(h, b, y1);
    let ax0 = a.mul_spec(x0); let ay0 = a.mul_spec(y0); let bx1 = b.mul_spec(x1); let by1 = b.mul_spec(y1);
    c_closed(a, x0); c_closed(a, y0); c_closed(b, x1); c_closed(b, y1);
    c_closed(l, ax0); c_closed(h, ay0); c_closed(l, bx1); c_closed(h, by1);
    c_add_swap(l.mul_spec(ax0), h.mul_spec(ay0), l.mul_spec(bx1), h.mul_spec(by1));
    c_distr(l, ax0, bx1); c_distr(h, ay0, by1);
}
/// Shannon expansion of the sum at a summed variable whose two weights add up to one
pub proof fn zsum_shannon<T: Semiring>(g: GF<T>, gl: GF<T>, gh: GF<T>, w: W<T>, vs: Seq<u64>, env: Env, v: u64)
    requires
        csr::<T>(), wv(w), gv(gl), gv(gh), distinct(vs), vs.contains(v), normalised(w, v), indep(gl, v), indep(gh, v),
        forall|e: Env| #[trigger] g(e) == (if e(v) { gh(e) } else { gl(e) }),
    ensures
        zsum(g, w, vs, env) == w(v).0.mul_spec(zsum(gl, w, vs, env)).add_spec(w(v).1.mul_spec(zsum(gh, w, vs, env))),
    decreases vs.len(),
{
    let u = vs.last();
    let rest = vs.drop_last();
    assert(vs[vs.len() - 1] == u);
    let e0 = upd(env, u, false); let e1 = upd(env, u, true);
    assert(distinct(rest)) by { assert forall|i: int, j: int| 0 <= i < j < rest.len() implies rest[i] != rest[j] by { assert(vs[i] != vs[j]); } }
    zsum_valid(gl, w, rest, e0); zsum_valid(gl, w, rest, e1); zsum_valid(gh, w, rest, e0); zsum_valid(gh, w, rest, e1);
    if u == v {
        assert(!rest.contains(v)) by {
            if rest.contains(v) { let i = choose|i: int| 0 <= i < rest.len() && rest[i] == v; assert(vs[i] == v); assert(vs[vs.len() - 1] == v); }
        }
        // under v = false g is gl, under v = true g is gh
        zsum_cong_fix(g, gl, w, rest, e0, v, false);
        zsum_cong_fix(g, gh, w, rest, e1, v, true);
        // gl, gh do not depend on v: their sums over vs collapse ( (l + h) * S == S )
        zsum_indep(gl, w, rest, env, v, false); zsum_indep(gl, w, rest, env, v, true);
        zsum_indep(gh, w, rest, env, v, false); zsum_indep(gh, w, rest, env, v, true);
        zsum_valid(gl, w, rest, env); zsum_valid(gh, w, rest, env);
        let sl = zsum(gl, w, rest, env); let sh = zsum(gh, w, rest, env);
        c_distr(sl, w(v).0, w(v).1); c_distr(sh, w(v).0, w(v).1);
        c_mul_one(sl); c_mul_one(sh);
        assert(zsum(gl, w, vs, env) == sl);
        assert(zsum(gh, w, vs, env) == sh);
    } else {
        assert(rest.contains(v)) by { let i = choose|i: int| 0 <= i < vs.len() && vs[i] == v; assert(i < rest.len()); assert(rest[i] == v); }
        zsum_shannon(g, gl, gh, w, rest, e0, v);
        zsum_shannon(g, gl, gh, w, rest, e1, v);
        alg_shuffle(w(u).0, w(u).1, w(v).0, w(v).1, zsum(gl, w, rest, e0), zsum(gh, w, rest, e0), zsum(gl, w, rest, e1), zsum(gh, w, rest, e1));
    }
}
/// the sum of a constant over variables with normalised weights is the constant
pub proof fn zsum_const<T: Semiring>(g: GF<T>, k: T, w: W<T>, vs: Seq<u64>, env: Env)
    requires csr::<T>(), wv(w), k.valid(), forall|e: Env| #[trigger] g(e) == k, forall|i: int| 0 <= i < vs.len() ==> normalised(w, #[trigger] vs[i]),
    ensures zsum(g, w, vs, env) == k,
    decreases vs.len(),
{
    if vs.len() > 0 {
        let v = vs.last();
        assert(vs[vs.len() - 1] == v);
        zsum_const(g, k, w, vs.drop_last(), upd(env, v, false));
        zsum_const(g, k, w, vs.drop_last(), upd(env, v, true));
        c_distr(k, w(v).0, w(v).1); c_mul_one(k);
    }
}

/// THEOREM (C07, first sentence, for BDD / decision-DNNF pointers).  For a diagram in which no path decides a variable
/// twice, any listing `vs` (without repetition) of variables that includes every variable of the diagram, and weights
/// whose low and high weight sum to one on each listed variable, the count computed by the fold equals the semiring sum,
/// over all assignments of the listed variables, of the product of the chosen literal weights times the indicator of
/// "the diagram (complemented when c) is true" -- whatever the order of the listing, the shape of the diagram, its
/// complement edges or its sharing.
pub proof fn wmc_theorem<T: Semiring>(p: BddPtr, c: bool, w: W<T>, vs: Seq<u64>, env: Env)
    requires
        csr::<T>(), wv(w), distinct(vs), decides_once(p),
        forall|x: VarLabel| mentions(p, x) ==> vs.contains(x.0),
        forall|i: int| 0 <= i < vs.len() ==> normalised(w, #[trigger] vs[i]),
    ensures
        wmc_spec(p, c, w) == zsum(indf::<T>(p, c), w, vs, env),
        wmc_spec(p, c, w).valid(),
    decreases p,
{
    c_consts::<T>();
    let g = indf::<T>(p, c);
    assert(gv(g));
    zsum_valid(g, w, vs, env);
    match p {
        BddPtr::Reg(n) => { wmc_node(p, *n, c, c, w, vs, env); },
        BddPtr::Compl(n) => { wmc_node(p, *n, c, !c, w, vs, env); },
        BddPtr::PtrTrue => { zsum_const(g, if c { T::zero_s() } else { T::one_s() }, w, vs, env); },
        BddPtr::PtrFalse => { zsum_const(g, if c { T::one_s() } else { T::zero_s() }, w, vs, env); },
    }
}
/// node case of the theorem: cc is the complement passed on to the children
proof fn wmc_node<T: Semiring>(p: BddPtr, n: BddNode, c: bool, cc: bool, w: W<T>, vs: Seq<u64>, env: Env)
    requires
        csr::<T>(), wv(w), distinct(vs), decides_once(p),
        forall|x: VarLabel| mentions(p, x) ==> vs.contains(x.0),
        forall|i: int| 0 <= i < vs.len() ==> normalised(w, #[trigger] vs[i]),
        is_node(p), node_of(p) == n, cc == (c != (p is Compl)),
    ensures
        wmc_spec(p, c, w) == zsum(indf::<T>(p, c), w, vs, env),
    decreases p, 0int,
{
    c_consts::<T>();
    let v = n.var.0;
    let g = indf::<T>(p, c);
    let gl = indf::<T>(n.low, cc);
    let gh = indf::<T>(n.high, cc);
    assert forall|x: VarLabel| mentions(n.low, x) implies vs.contains(x.0) by { assert(mentions(p, x)); }
    assert forall|x: VarLabel| mentions(n.high, x) implies vs.contains(x.0) by { assert(mentions(p, x)); }
    wmc_theorem(n.low, cc, w, vs, env);
    wmc_theorem(n.high, cc, w, vs, env);
    assert(gv(gl)); assert(gv(gh));
    assert(indep(gl, v)) by { assert forall|e: Env, b: bool| #[trigger] gl(upd(e, v, b)) == gl(e) by { lemma_unmentioned(n.low, n.var, e, b); } }
    assert(indep(gh, v)) by { assert forall|e: Env, b: bool| #[trigger] gh(upd(e, v, b)) == gh(e) by { lemma_unmentioned(n.high, n.var, e, b); } }
    assert(mentions(p, n.var));
    let i = choose|i: int| 0 <= i < vs.len() && vs[i] == v;
    assert(normalised(w, vs[i]));
    assert forall|e: Env| #[trigger] g(e) == (if e(v) { gh(e) } else { gl(e) }) by {}
    zsum_shannon(g, gl, gh, w, vs, env, v);
}

/// the variables at levels k, k+1, .. of the order, listed from the bottom level up (so that level k is summed outermost)
pub open spec fn levels(o: VarOrder, k: int) -> Seq<u64> {
    Seq::new((o.n() - k) as nat, |i: int| o.pos_to_var[o.n() - 1 - i] as u64)
}
/// THEOREM (C08, counting consequence; C07, last sentence for smoothed diagrams).  For a diagram that tests the variables at
/// levels k.. of the order exactly once on every path, in order (`smooth_from` up to the last level -- what `smooth`
/// is proved to return), and ARBITRARY weights (no normalisation), the count computed by the fold equals the semiring sum
/// over all assignments of those variables of the product of the chosen literal weights times the indicator of the
/// diagram's function.
pub proof fn wmc_smooth_theorem<T: Semiring>(p: BddPtr, c: bool, w: W<T>, o: VarOrder, k: int, env: Env)
    requires
        csr::<T>(), wv(w), o.wf(), ordered(p, o), 0 <= k <= o.n(), top(p, o) >= k,
        smooth_from(p, k, o.n() as int, o),
    ensures
        wmc_spec(p, c, w) == zsum(indf::<T>(p, c), w, levels(o, k), env),
    decreases o.n() - k,
{
    reveal(VarOrder::wf);
    c_consts::<T>();
    let g = indf::<T>(p, c);
    let n = o.n() as int;
    if k >= n {
        // below the last level an ordered diagram is a terminal
        if is_node(p) { assert(o.has(node_of(p).var)); assert(o.pos(node_of(p).var) < n); }
        assert(levels(o, k).len() == 0);
    } else {
        let nd = node_of(p);
        let v = nd.var.0;
        let cc = (c != (p is Compl));
        let vs = levels(o, k);
        assert(vs.last() == v);
        assert(vs.drop_last() =~= levels(o, k + 1));
        let e0 = upd(env, v, false); let e1 = upd(env, v, true);
        wmc_smooth_theorem(nd.low, cc, w, o, k + 1, e0);
        wmc_smooth_theorem(nd.high, cc, w, o, k + 1, e1);
        let gl = indf::<T>(nd.low, cc); let gh = indf::<T>(nd.high, cc);
        assert(!levels(o, k + 1).contains(v)) by {
            let lv = levels(o, k + 1);
            if lv.contains(v) {
                let i = choose|i: int| 0 <= i < lv.len() && lv[i] == v;
                let j = n - 1 - i;
                assert(o.pos_to_var[j] == o.pos_to_var[k]);
                assert(o.var_to_pos[o.pos_to_var[j] as int] == j);
                assert(o.var_to_pos[o.pos_to_var[k] as int] == k);
            }
        }
        zsum_cong_fix(g, gl, w, levels(o, k + 1), e0, v, false);
        zsum_cong_fix(g, gh, w, levels(o, k + 1), e1, v, true);
    }
}

/// every variable tested in an ordered diagram is in the order, at or after the root's level
pub proof fn lemma_ordered_mentions(p: BddPtr, o: VarOrder, x: VarLabel)
    requires o.wf(), ordered(p, o), mentions(p, x),
    ensures o.has(x), o.pos(x) >= top(p, o), is_node(p),
    decreases p,
{
    match p {
        BddPtr::Reg(n) | BddPtr::Compl(n) => {
            if n.var != x {
                if mentions(n.low, x) { lemma_ordered_mentions(n.low, o, x); } else { lemma_ordered_mentions(n.high, o, x); }
            }
        },
        _ => {},
    }
}
/// an ordered diagram (what every BDD operation is proved to return: C01 / C02) decides no variable twice on a path
pub proof fn lemma_ordered_decides_once(p: BddPtr, o: VarOrder)
    requires o.wf(), ordered(p, o),
    ensures decides_once(p),
    decreases p,
{
    match p {
        BddPtr::Reg(n) | BddPtr::Compl(n) => {
            lemma_ordered_decides_once(n.low, o); lemma_ordered_decides_once(n.high, o);
            if mentions(n.low, n.var) { lemma_ordered_mentions(n.low, o, n.var); }
            if mentions(n.high, n.var) { lemma_ordered_mentions(n.high, o, n.var); }
        },
        _ => {},
    }
}
/// the variables 0 .. n-1 in label order
pub open spec fn labels(n: nat) -> Seq<u64> { Seq::new(n, |i: int| i as u64) }
/// COROLLARY for BDDs: an ordered diagram over an order with n variables (n < 2^64), weights normalised on every label:
/// the count is the sum over all assignments of the labels 0 .. n-1
pub proof fn wmc_bdd_corollary<T: Semiring>(p: BddPtr, c: bool, w: W<T>, o: VarOrder, env: Env)
    requires
        csr::<T>(), wv(w), o.wf(), ordered(p, o), o.n() <= u64::MAX,
        forall|l: u64| l < o.n() ==> normalised(w, l),
    ensures
        wmc_spec(p, c, w) == zsum(indf::<T>(p, c), w, labels(o.n()), env),
{
    lemma_ordered_decides_once(p, o);
    let vs = labels(o.n());
    assert forall|x: VarLabel| mentions(p, x) implies vs.contains(x.0) by {
        lemma_ordered_mentions(p, o, x);
        assert(vs[x.0 as int] == x.0);
    }
    wmc_theorem(p, c, w, vs, env);
}

/// pointwise sum of two functions
pub open spec fn gadd<T: Semiring>(g1: GF<T>, g2: GF<T>) -> GF<T> { |e: Env| g1(e).add_spec(g2(e)) }
/// the sum is additive
pub proof fn zsum_add<T: Semiring>(g1: GF<T>, g2: GF<T>, w: W<T>, vs: Seq<u64>, env: Env)
    requires csr::<T>(), wv(w), gv(g1), gv(g2),
    ensures zsum(gadd(g1, g2), w, vs, env) == zsum(g1, w, vs, env).add_spec(zsum(g2, w, vs, env)),
    decreases vs.len(),
{
    if vs.len() > 0 {
        let v = vs.last(); let r = vs.drop_last();
        let e0 = upd(env, v, false); let e1 = upd(env, v, true);
        zsum_add(g1, g2, w, r, e0); zsum_add(g1, g2, w, r, e1);
        zsum_valid(g1, w, r, e0); zsum_valid(g1, w, r, e1); zsum_valid(g2, w, r, e0); zsum_valid(g2, w, r, e1);
        let a0 = zsum(g1, w, r, e0); let a1 = zsum(g1, w, r, e1); let b0 = zsum(g2, w, r, e0); let b1 = zsum(g2, w, r, e1);
        c_distr(w(v).0, a0, b0); c_distr(w(v).1, a1, b1);
        c_closed(w(v).0, a0); c_closed(w(v).0, b0); c_closed(w(v).1, a1); c_closed(w(v).1, b1);
        c_add_swap(w(v).0.mul_spec(a0), w(v).0.mul_spec(b0), w(v).1.mul_spec(a1), w(v).1.mul_spec(b1));
    }
}
/// THEOREM (C11, first sentence, for BDD / decision-DNNF pointers): under normalised weights the count -- and so the
/// semantic hash, which is the count under the hash weights -- is determined by the Boolean function: two diagrams of
/// any shape, order or history that denote the same function have the same count
pub proof fn wmc_denotational<T: Semiring>(p: BddPtr, q: BddPtr, w: W<T>, vs: Seq<u64>)
    requires
        csr::<T>(), wv(w), distinct(vs), decides_once(p), decides_once(q),
        forall|x: VarLabel| mentions(p, x) || mentions(q, x) ==> vs.contains(x.0),
        forall|i: int| 0 <= i < vs.len() ==> normalised(w, #[trigger] vs[i]),
        forall|e: Env| ptr_sem(p, e) == ptr_sem(q, e),
    ensures
        wmc_spec(p, false, w) == wmc_spec(q, false, w),
{
    let env = |x: u64| false;
    wmc_theorem(p, false, w, vs, env);
    wmc_theorem(q, false, w, vs, env);
    assert(indf::<T>(p, false) =~= indf::<T>(q, false));
}
/// THEOREM (C11, "a negation hashes to one minus the hash", in semiring form): the counts of a diagram and of its
/// complement add up to one
pub proof fn wmc_neg_complement<T: Semiring>(p: BddPtr, w: W<T>, vs: Seq<u64>)
    requires
        csr::<T>(), wv(w), distinct(vs), decides_once(p),
        forall|x: VarLabel| mentions(p, x) ==> vs.contains(x.0),
        forall|i: int| 0 <= i < vs.len() ==> normalised(w, #[trigger] vs[i]),
    ensures
        wmc_spec(p, false, w).add_spec(wmc_spec(p, true, w)) == T::one_s(),
        wmc_spec(p.neg_s(), false, w) == wmc_spec(p, true, w),
{
    c_consts::<T>();
    let env = |x: u64| false;
    wmc_theorem(p, false, w, vs, env);
    wmc_theorem(p, true, w, vs, env);
    let g1 = indf::<T>(p, false); let g2 = indf::<T>(p, true);
    assert(gv(g1)); assert(gv(g2));
    zsum_add(g1, g2, w, vs, env);
    let k = |e: Env| T::one_s();
    assert(gadd(g1, g2) =~= k) by {
        assert forall|e: Env| #[trigger] gadd(g1, g2)(e) == T::one_s() by { c_add_zero(T::one_s()); }
    }
    zsum_const(k, T::one_s(), w, vs, env);
    lemma_bfs_neg(p, false, wmc_alg(w, T::one_s(), T::zero_s()));
}
