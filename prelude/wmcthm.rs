// ---- the counting theorems (C07, C08): the structural weighted count `wmc_spec` equals the semiring sum over assignments ----
// Spec-level only.  `zsum(g, w, vs, env)` is the sum, over all assignments of the variables listed in `vs` (the other
// variables keep their value in `env`), of the product of the chosen literal weights times g(assignment); it is
// written variable by variable -- the last variable of `vs` outermost -- with each weight multiplied in at its
// variable (the factored form of  SUM_a  PROD_i w(vs[i], a(vs[i])) * g(a)).

//%% include prelude/zsum.rs

/// the weighted count of the diagram as the library's fold computes it (proved for the real code: unit wmc, `unsmoothed_wmc`)
pub open spec fn wmc_spec<T: Semiring>(p: BddPtr, c: bool, w: W<T>) -> T { bfs(p, c, wmc_alg(w, T::one_s(), T::zero_s())) }
/// indicator of "p (complemented when c) is true under env", as a semiring value
pub open spec fn indf<T: Semiring>(p: BddPtr, c: bool) -> GF<T> { |e: Env| if ptr_sem(p, e) != c { T::one_s() } else { T::zero_s() } }

/// THEOREM (C07, first sentence, for BDD / decision-DNNF pointers).  For a diagram in which no path decides a variable
/// twice, any listing `vs` (without repetition) of variables that includes every variable of the diagram, and weights
/// whose low and high weight sum to one on each listed variable, the count computed by the fold equals the semiring sum,
/// over all assignments of the listed variables, of the product of the chosen literal weights times the indicator of
/// "the diagram (complemented when c) is true" -- whatever the order of the listing, the shape of the diagram, its
/// complement edges or its sharing.
pub proof fn wmc_theorem<T: Semiring>(p: BddPtr, c: bool, w: W<T>, vs: Seq<u64>, env: Env)
    requires
        csr::<T>(), wv(w), distinct(vs), decides_once(p),
        forall|x: VarLabel| mentions(p, x) ==> vs.contains(x.0),
        forall|i: int| 0 <= i < vs.len() ==> normalised(w, #[trigger] vs[i]),
    ensures
        wmc_spec(p, c, w) == zsum(indf::<T>(p, c), w, vs, env),
        wmc_spec(p, c, w).valid(),
    decreases p,
{
    c_consts::<T>();
    let g = indf::<T>(p, c);
    assert(gv(g));
    zsum_valid(g, w, vs, env);
    match p {
        BddPtr::Reg(n) => { wmc_node(p, *n, c, c, w, vs, env); },
        BddPtr::Compl(n) => { wmc_node(p, *n, c, !c, w, vs, env); },
        BddPtr::PtrTrue => { zsum_const(g, if c { T::zero_s() } else { T::one_s() }, w, vs, env); },
        BddPtr::PtrFalse => { zsum_const(g, if c { T::one_s() } else { T::zero_s() }, w, vs, env); },
    }
}
/// node case of the theorem: cc is the complement passed on to the children
proof fn wmc_node<T: Semiring>(p: BddPtr, n: BddNode, c: bool, cc: bool, w: W<T>, vs: Seq<u64>, env: Env)
    requires
        csr::<T>(), wv(w), distinct(vs), decides_once(p),
        forall|x: VarLabel| mentions(p, x) ==> vs.contains(x.0),
        forall|i: int| 0 <= i < vs.len() ==> normalised(w, #[trigger] vs[i]),
        is_node(p), node_of(p) == n, cc == (c != (p is Compl)),
    ensures
        wmc_spec(p, c, w) == zsum(indf::<T>(p, c), w, vs, env),
    decreases p, 0int,
{
    c_consts::<T>();
    let v = n.var.0;
    let g = indf::<T>(p, c);
    let gl = indf::<T>(n.low, cc);
    let gh = indf::<T>(n.high, cc);
    assert forall|x: VarLabel| mentions(n.low, x) implies vs.contains(x.0) by { assert(mentions(p, x)); }
    assert forall|x: VarLabel| mentions(n.high, x) implies vs.contains(x.0) by { assert(mentions(p, x)); }
    wmc_theorem(n.low, cc, w, vs, env);
    wmc_theorem(n.high, cc, w, vs, env);
    assert(gv(gl)); assert(gv(gh));
    assert(indep(gl, v)) by { assert forall|e: Env, b: bool| #[trigger] gl(upd(e, v, b)) == gl(e) by { lemma_unmentioned(n.low, n.var, e, b); } }
    assert(indep(gh, v)) by { assert forall|e: Env, b: bool| #[trigger] gh(upd(e, v, b)) == gh(e) by { lemma_unmentioned(n.high, n.var, e, b); } }
    assert(mentions(p, n.var));
    let i = choose|i: int| 0 <= i < vs.len() && vs[i] == v;
    assert(normalised(w, vs[i]));
    assert forall|e: Env| #[trigger] g(e) == (if e(v) { gh(e) } else { gl(e) }) by {}
    zsum_shannon(g, gl, gh, w, vs, env, v);
}

/// the variables at levels k, k+1, .. of the order, listed from the bottom level up (so that level k is summed outermost)
pub open spec fn levels(o: VarOrder, k: int) -> Seq<u64> {
    Seq::new((o.n() - k) as nat, |i: int| o.pos_to_var[o.n() - 1 - i] as u64)
}
/// THEOREM (C08, counting consequence; C07, last sentence for smoothed diagrams).  For a diagram that tests the variables at
/// levels k.. of the order exactly once on every path, in order (`smooth_from` up to the last level -- what `smooth`
/// is proved to return), and ARBITRARY weights (no normalisation), the count computed by the fold equals the semiring sum
/// over all assignments of those variables of the product of the chosen literal weights times the indicator of the
/// diagram's function.
pub proof fn wmc_smooth_theorem<T: Semiring>(p: BddPtr, c: bool, w: W<T>, o: VarOrder, k: int, env: Env)
    requires
        csr::<T>(), wv(w), o.wf(), ordered(p, o), 0 <= k <= o.n(), top(p, o) >= k,
        smooth_from(p, k, o.n() as int, o),
    ensures
        wmc_spec(p, c, w) == zsum(indf::<T>(p, c), w, levels(o, k), env),
    decreases o.n() - k,
{
    reveal(VarOrder::wf);
    c_consts::<T>();
    let g = indf::<T>(p, c);
    let n = o.n() as int;
    if k >= n {
        // below the last level an ordered diagram is a terminal
        if is_node(p) { assert(o.has(node_of(p).var)); assert(o.pos(node_of(p).var) < n); }
        assert(levels(o, k).len() == 0);
    } else {
        let nd = node_of(p);
        let v = nd.var.0;
        let cc = (c != (p is Compl));
        let vs = levels(o, k);
        assert(vs.last() == v);
        assert(vs.drop_last() =~= levels(o, k + 1));
        let e0 = upd(env, v, false); let e1 = upd(env, v, true);
        wmc_smooth_theorem(nd.low, cc, w, o, k + 1, e0);
        wmc_smooth_theorem(nd.high, cc, w, o, k + 1, e1);
        let gl = indf::<T>(nd.low, cc); let gh = indf::<T>(nd.high, cc);
        assert(!levels(o, k + 1).contains(v)) by {
            let lv = levels(o, k + 1);
            if lv.contains(v) {
                let i = choose|i: int| 0 <= i < lv.len() && lv[i] == v;
                let j = n - 1 - i;
                assert(o.pos_to_var[j] == o.pos_to_var[k]);
                assert(o.var_to_pos[o.pos_to_var[j] as int] == j);
                assert(o.var_to_pos[o.pos_to_var[k] as int] == k);
            }
        }
        zsum_cong_fix(g, gl, w, levels(o, k + 1), e0, v, false);
        zsum_cong_fix(g, gh, w, levels(o, k + 1), e1, v, true);
    }
}

/// the levels k.. of an order list every variable once
pub proof fn lemma_levels_distinct(o: VarOrder, k: int)
    requires o.wf(), 0 <= k <= o.n(),
    ensures distinct(levels(o, k)),
{
    reveal(VarOrder::wf);
    let lv = levels(o, k);
    let n = o.n() as int;
    assert forall|i: int, j: int| 0 <= i < j < lv.len() implies lv[i] != lv[j] by {
        let a = n - 1 - i; let b = n - 1 - j;
        if lv[i] == lv[j] {
            assert(o.var_to_pos[o.pos_to_var[a] as int] == a);
            assert(o.var_to_pos[o.pos_to_var[b] as int] == b);
        }
    }
}
/// every variable tested in an ordered diagram is in the order, at or after the root's level
pub proof fn lemma_ordered_mentions(p: BddPtr, o: VarOrder, x: VarLabel)
    requires o.wf(), ordered(p, o), mentions(p, x),
    ensures o.has(x), o.pos(x) >= top(p, o), is_node(p),
    decreases p,
{
    match p {
        BddPtr::Reg(n) | BddPtr::Compl(n) => {
            if n.var != x {
                if mentions(n.low, x) { lemma_ordered_mentions(n.low, o, x); } else { lemma_ordered_mentions(n.high, o, x); }
            }
        },
        _ => {},
    }
}
/// an ordered diagram (what every BDD operation is proved to return: C01 / C02) decides no variable twice on a path
pub proof fn lemma_ordered_decides_once(p: BddPtr, o: VarOrder)
    requires o.wf(), ordered(p, o),
    ensures decides_once(p),
    decreases p,
{
    match p {
        BddPtr::Reg(n) | BddPtr::Compl(n) => {
            lemma_ordered_decides_once(n.low, o); lemma_ordered_decides_once(n.high, o);
            if mentions(n.low, n.var) { lemma_ordered_mentions(n.low, o, n.var); }
            if mentions(n.high, n.var) { lemma_ordered_mentions(n.high, o, n.var); }
        },
        _ => {},
    }
}
/// the variables 0 .. n-1 in label order
pub open spec fn labels(n: nat) -> Seq<u64> { Seq::new(n, |i: int| i as u64) }
/// COROLLARY for BDDs: an ordered diagram over an order with n variables (n < 2^64), weights normalised on every label:
/// the count is the sum over all assignments of the labels 0 .. n-1
pub proof fn wmc_bdd_corollary<T: Semiring>(p: BddPtr, c: bool, w: W<T>, o: VarOrder, env: Env)
    requires
        csr::<T>(), wv(w), o.wf(), ordered(p, o), o.n() <= u64::MAX,
        forall|l: u64| l < o.n() ==> normalised(w, l),
    ensures
        wmc_spec(p, c, w) == zsum(indf::<T>(p, c), w, labels(o.n()), env),
{
    lemma_ordered_decides_once(p, o);
    let vs = labels(o.n());
    assert forall|x: VarLabel| mentions(p, x) implies vs.contains(x.0) by {
        lemma_ordered_mentions(p, o, x);
        assert(vs[x.0 as int] == x.0);
    }
    wmc_theorem(p, c, w, vs, env);
}

/// THEOREM (C08 for ANY n, joining the two regimes): a diagram smoothed over the levels k .. n-1 of the order (what `smooth(bdd, n)` is
/// proved to return, for any n up to the number of variables) counts, under weights that are ARBITRARY on those levels and normalised on the
/// levels from n on, to the sum over all assignments of the variables at levels k.. of the product of the chosen literal weights times the
/// indicator of its function.  n == number of variables is wmc_smooth_theorem, n == k is the unsmoothed theorem.
pub proof fn wmc_partial_smooth_theorem<T: Semiring>(p: BddPtr, c: bool, w: W<T>, o: VarOrder, k: int, n: int, env: Env)
    requires
        csr::<T>(), wv(w), o.wf(), ordered(p, o), 0 <= k <= n <= o.n(), top(p, o) >= k,
        smooth_from(p, k, n, o),
        forall|i: int| n <= i < o.n() ==> normalised(w, #[trigger] o.pos_to_var[i] as u64),
    ensures
        wmc_spec(p, c, w) == zsum(indf::<T>(p, c), w, levels(o, k), env),
    decreases n - k,
{
    reveal(VarOrder::wf);
    c_consts::<T>();
    let g = indf::<T>(p, c);
    let nn = o.n() as int;
    if k >= n {
        // the rest of the diagram is an arbitrary ordered diagram over the levels n..: the normalised-weights theorem
        let vs = levels(o, n);
        lemma_levels_distinct(o, n);
        lemma_ordered_decides_once(p, o);
        assert forall|x: VarLabel| mentions(p, x) implies vs.contains(x.0) by {
            lemma_ordered_mentions(p, o, x);
            let j = o.pos(x);
            assert(o.pos_to_var[j] == x.0);
            assert(vs[nn - 1 - j] == x.0);
        }
        assert forall|i: int| 0 <= i < vs.len() implies normalised(w, #[trigger] vs[i]) by {
            let j = nn - 1 - i;
            assert(normalised(w, o.pos_to_var[j] as u64));
        }
        wmc_theorem(p, c, w, vs, env);
    } else {
        let nd = node_of(p);
        let v = nd.var.0;
        let cc = (c != (p is Compl));
        let vs = levels(o, k);
        assert(vs.last() == v);
        assert(vs.drop_last() =~= levels(o, k + 1));
        let e0 = upd(env, v, false); let e1 = upd(env, v, true);
        wmc_partial_smooth_theorem(nd.low, cc, w, o, k + 1, n, e0);
        wmc_partial_smooth_theorem(nd.high, cc, w, o, k + 1, n, e1);
        let gl = indf::<T>(nd.low, cc); let gh = indf::<T>(nd.high, cc);
        lemma_levels_distinct(o, k);
        assert(!levels(o, k + 1).contains(v)) by {
            let lv = levels(o, k + 1);
            if lv.contains(v) {
                let i = choose|i: int| 0 <= i < lv.len() && lv[i] == v;
                let j = nn - 1 - i;
                assert(o.var_to_pos[o.pos_to_var[j] as int] == j);
                assert(o.var_to_pos[o.pos_to_var[k] as int] == k);
            }
        }
        zsum_cong_fix(g, gl, w, levels(o, k + 1), e0, v, false);
        zsum_cong_fix(g, gh, w, levels(o, k + 1), e1, v, true);
    }
}

/// THEOREM (C11, first sentence, for BDD / decision-DNNF pointers): under normalised weights the count -- and so the
/// semantic hash, which is the count under the hash weights -- is determined by the Boolean function: two diagrams of
/// any shape, order or history that denote the same function have the same count
pub proof fn wmc_denotational<T: Semiring>(p: BddPtr, q: BddPtr, w: W<T>, vs: Seq<u64>)
    requires
        csr::<T>(), wv(w), distinct(vs), decides_once(p), decides_once(q),
        forall|x: VarLabel| mentions(p, x) || mentions(q, x) ==> vs.contains(x.0),
        forall|i: int| 0 <= i < vs.len() ==> normalised(w, #[trigger] vs[i]),
        forall|e: Env| ptr_sem(p, e) == ptr_sem(q, e),
    ensures
        wmc_spec(p, false, w) == wmc_spec(q, false, w),
{
    let env = |x: u64| false;
    wmc_theorem(p, false, w, vs, env);
    wmc_theorem(q, false, w, vs, env);
    assert(indf::<T>(p, false) =~= indf::<T>(q, false));
}
/// THEOREM (C11, "a negation hashes to one minus the hash", in semiring form): the counts of a diagram and of its
/// complement add up to one
pub proof fn wmc_neg_complement<T: Semiring>(p: BddPtr, w: W<T>, vs: Seq<u64>)
    requires
        csr::<T>(), wv(w), distinct(vs), decides_once(p),
        forall|x: VarLabel| mentions(p, x) ==> vs.contains(x.0),
        forall|i: int| 0 <= i < vs.len() ==> normalised(w, #[trigger] vs[i]),
    ensures
        wmc_spec(p, false, w).add_spec(wmc_spec(p, true, w)) == T::one_s(),
        wmc_spec(p.neg_s(), false, w) == wmc_spec(p, true, w),
{
    c_consts::<T>();
    let env = |x: u64| false;
    wmc_theorem(p, false, w, vs, env);
    wmc_theorem(p, true, w, vs, env);
    let g1 = indf::<T>(p, false); let g2 = indf::<T>(p, true);
    assert(gv(g1)); assert(gv(g2));
    zsum_add(g1, g2, w, vs, env);
    let k = |e: Env| T::one_s();
    assert(gadd(g1, g2) =~= k) by {
        assert forall|e: Env| #[trigger] gadd(g1, g2)(e) == T::one_s() by { c_add_zero(T::one_s()); }
    }
    zsum_const(k, T::one_s(), w, vs, env);
    lemma_bfs_neg(p, false, wmc_alg(w, T::one_s(), T::zero_s()));
}

/// COROLLARY (composition with the compilers): a diagram that is proved to denote a given Boolean function F and to decide no
/// variable twice -- every result of `compile_cnf_topdown` (C06: `ptr_sem(r, env) == csem_of(formula, env)`, `decides_once(r)`) and,
/// through `lemma_ordered_decides_once`, every ordered BDD (C01 / C05) -- has as its count the weighted sum over the MODELS OF F:
/// compile-then-count is weighted model counting of the formula
pub proof fn wmc_of_function<T: Semiring>(p: BddPtr, f: spec_fn(Env) -> bool, w: W<T>, vs: Seq<u64>, env: Env)
    requires
        csr::<T>(), wv(w), distinct(vs), decides_once(p),
        forall|x: VarLabel| mentions(p, x) ==> vs.contains(x.0),
        forall|i: int| 0 <= i < vs.len() ==> normalised(w, #[trigger] vs[i]),
        forall|e: Env| ptr_sem(p, e) == #[trigger] f(e),
    ensures
        wmc_spec(p, false, w) == zsum(|e: Env| if f(e) { T::one_s() } else { T::zero_s() }, w, vs, env),
{
    wmc_theorem(p, false, w, vs, env);
    let g: GF<T> = |e: Env| if f(e) { T::one_s() } else { T::zero_s() };
    assert(indf::<T>(p, false) =~= g);
}
