// ---- "no path decides a variable twice" (decision-DNNF shape; also what counting needs: C06, C07) ----
/// variable x is tested somewhere in p
pub open spec fn mentions(p: BddPtr, x: VarLabel) -> bool
    decreases p
{
    match p {
        BddPtr::Reg(n) | BddPtr::Compl(n) => n.var == x || mentions(n.low, x) || mentions(n.high, x),
        _ => false,
    }
}
/// no path of p decides a variable twice
pub open spec fn decides_once(p: BddPtr) -> bool
    decreases p
{
    match p {
        BddPtr::Reg(n) | BddPtr::Compl(n) =>
            !mentions(n.low, n.var) && !mentions(n.high, n.var) && decides_once(n.low) && decides_once(n.high),
        _ => true,
    }
}
pub proof fn lemma_unmentioned(p: BddPtr, x: VarLabel, env: Env, v: bool)
    requires !mentions(p, x),
    ensures ptr_sem(p, upd(env, x.0, v)) == ptr_sem(p, env),
    decreases p,
{
    match p {
        BddPtr::Reg(n) | BddPtr::Compl(n) => { lemma_unmentioned(n.low, x, env, v); lemma_unmentioned(n.high, x, env, v); },
        _ => {},
    }
}
pub proof fn lemma_neg_mentions()
    ensures forall|p: BddPtr| #![trigger p.neg_s()]
        decides_once(p.neg_s()) == decides_once(p) && (forall|x: VarLabel| #![trigger mentions(p.neg_s(), x)] #![trigger mentions(p, x)] mentions(p.neg_s(), x) == mentions(p, x)),
{
}

