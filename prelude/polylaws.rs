// ---- semiring laws of truncated polynomials, derived from the laws of the coefficient type (C13) ----
// Everything here is spec-level: the operators are characterised by `add_def` / `mul_def`, which unit poly proves for the
// real `+` and `*`.  The laws hold on polynomials in normal form (`nf`: len <= MAX_COEFFS and every coefficient at or
// beyond `len` is the coefficient zero) -- `zero`, `one`, and every result of `+` and `*` are in normal form.

//%% include prelude/csr.rs

pub type CF<C> = spec_fn(int) -> C;

/// every value of f is a valid coefficient
pub open spec fn tv<C: Semiring>(f: CF<C>) -> bool { forall|i: int| (#[trigger] f(i)).valid() }

/// f(0) + f(1) + .. + f(n-1), accumulated from the left
pub open spec fn sum<C: Semiring>(f: CF<C>, n: int) -> C
    decreases n
{
    if n <= 0 { C::zero_s() } else { sum(f, n - 1).add_spec(f(n - 1)) }
}

pub proof fn sum_valid<C: Semiring>(f: CF<C>, n: int)
    requires csr::<C>(), tv(f),
    ensures sum(f, n).valid(),
    decreases n,
{
    c_consts::<C>();
    if n > 0 { sum_valid(f, n - 1); c_closed(sum(f, n - 1), f(n - 1)); }
}
pub proof fn sum_cong<C: Semiring>(f: CF<C>, g: CF<C>, n: int)
    requires forall|i: int| 0 <= i < n ==> #[trigger] f(i) == g(i),
    ensures sum(f, n) == sum(g, n),
    decreases n,
{
    if n > 0 { sum_cong(f, g, n - 1); }
}
pub proof fn sum_zero<C: Semiring>(f: CF<C>, n: int)
    requires csr::<C>(), forall|i: int| 0 <= i < n ==> #[trigger] f(i) == C::zero_s(),
    ensures sum(f, n) == C::zero_s(),
    decreases n,
{
    c_consts::<C>();
    if n > 0 { sum_zero(f, n - 1); c_add_zero(C::zero_s()); }
}
/// trailing zero terms do not matter
pub proof fn sum_ext<C: Semiring>(f: CF<C>, n: int, m: int)
    requires csr::<C>(), tv(f), 0 <= n <= m, forall|i: int| n <= i < m ==> #[trigger] f(i) == C::zero_s(),
    ensures sum(f, m) == sum(f, n),
    decreases m - n,
{
    if m > n { sum_ext(f, n, m - 1); sum_valid(f, m - 1); c_add_zero(sum(f, m - 1)); }
}
pub proof fn sum_add<C: Semiring>(f: CF<C>, g: CF<C>, n: int)
    requires csr::<C>(), tv(f), tv(g),
    ensures sum(|i: int| f(i).add_spec(g(i)), n) == sum(f, n).add_spec(sum(g, n)),
    decreases n,
{
    let h = |i: int| f(i).add_spec(g(i));
    c_consts::<C>();
    if n > 0 {
        sum_add(f, g, n - 1);
        sum_valid(f, n - 1); sum_valid(g, n - 1);
        c_add_swap(sum(f, n - 1), sum(g, n - 1), f(n - 1), g(n - 1));
        assert(h(n - 1) == f(n - 1).add_spec(g(n - 1)));
    } else { c_add_zero(C::zero_s()); }
}
pub proof fn sum_mul_left<C: Semiring>(c: C, f: CF<C>, n: int)
    requires csr::<C>(), tv(f), c.valid(),
    ensures sum(|i: int| c.mul_spec(f(i)), n) == c.mul_spec(sum(f, n)),
    decreases n,
{
    let h = |i: int| c.mul_spec(f(i));
    if n > 0 {
        sum_mul_left(c, f, n - 1);
        sum_valid(f, n - 1);
        c_distr(c, sum(f, n - 1), f(n - 1));
        assert(h(n - 1) == c.mul_spec(f(n - 1)));
    } else { c_mul_zero(c); }
}
pub proof fn sum_mul_right<C: Semiring>(f: CF<C>, c: C, n: int)
    requires csr::<C>(), tv(f), c.valid(),
    ensures sum(|i: int| f(i).mul_spec(c), n) == sum(f, n).mul_spec(c),
    decreases n,
{
    let h = |i: int| f(i).mul_spec(c);
    if n > 0 {
        sum_mul_right(f, c, n - 1);
        sum_valid(f, n - 1);
        c_distr(c, sum(f, n - 1), f(n - 1));
        assert(h(n - 1) == f(n - 1).mul_spec(c));
    } else { c_mul_zero(c); }
}
/// exchange of two finite sums
pub proof fn sum_fubini<C: Semiring>(g: spec_fn(int, int) -> C, n: int, m: int)
    requires csr::<C>(), forall|i: int, j: int| (#[trigger] g(i, j)).valid(),
    ensures sum(|i: int| sum(|j: int| g(i, j), m), n) == sum(|j: int| sum(|i: int| g(i, j), n), m),
    decreases n,
{
    let rows = |i: int| sum(|j: int| g(i, j), m);
    let cols = |j: int| sum(|i: int| g(i, j), n);
    if n <= 0 {
        assert forall|j: int| 0 <= j < m implies #[trigger] cols(j) == C::zero_s() by {}
        sum_zero(cols, m);
    } else {
        sum_fubini(g, n - 1, m);
        let cols1 = |j: int| sum(|i: int| g(i, j), n - 1);
        let last = |j: int| g(n - 1, j);
        // cols(j) == cols1(j) + g(n-1, j)
        assert forall|j: int| 0 <= j < m implies #[trigger] cols(j) == (|j: int| cols1(j).add_spec(last(j)))(j) by {
            let col = |i: int| g(i, j);
            assert(sum(col, n) == sum(col, n - 1).add_spec(col(n - 1)));
        }
        sum_cong(cols, |j: int| cols1(j).add_spec(last(j)), m);
        assert(tv(last));
        assert(tv(cols1)) by {
            assert forall|j: int| (#[trigger] cols1(j)).valid() by { let col = |i: int| g(i, j); assert(tv(col)); sum_valid(col, n - 1); }
        }
        sum_add(cols1, last, m);
        assert(rows(n - 1) == sum(last, m)) by { sum_cong(|j: int| g(n - 1, j), last, m); }
        let rows1 = |i: int| sum(|j: int| g(i, j), m);
        assert(sum(rows, n - 1) == sum(rows1, n - 1)) by { sum_cong(rows, rows1, n - 1); }
    }
}
/// peeling the first term: sum(f, n) = f(0) + sum(i -> f(i+1), n-1)
pub proof fn sum_front<C: Semiring>(f: CF<C>, n: int)
    requires csr::<C>(), tv(f), n >= 1,
    ensures sum(f, n) == f(0).add_spec(sum(|i: int| f(i + 1), n - 1)),
    decreases n,
{
    let s = |i: int| f(i + 1);
    assert(tv(s)) by { assert forall|i: int| (#[trigger] s(i)).valid() by { assert(f(i + 1).valid()); } }
    if n == 1 {
        c_add_zero(f(0));
        assert(sum(f, 0) == C::zero_s());
        assert(sum(s, 0) == C::zero_s());
    } else {
        sum_front(f, n - 1);
        assert(s(n - 2) == f(n - 1));
        sum_valid(s, n - 2);
        c_add_assoc(f(0), sum(s, n - 2), f(n - 1));
    }
}
/// reading the terms backwards
pub proof fn sum_reverse<C: Semiring>(f: CF<C>, n: int)
    requires csr::<C>(), tv(f), n >= 0,
    ensures sum(|i: int| f(n - 1 - i), n) == sum(f, n),
    decreases n,
{
    let r = |i: int| f(n - 1 - i);
    assert(tv(r)) by { assert forall|i: int| (#[trigger] r(i)).valid() by { assert(f(n - 1 - i).valid()); } }
    if n > 0 {
        sum_front(r, n);
        let r1 = |i: int| r(i + 1);
        let rr = |i: int| f(n - 1 - 1 - i);
        sum_cong(r1, rr, n - 1);
        sum_reverse(f, n - 1);
        sum_valid(f, n - 1);
        c_add_comm(r(0), sum(f, n - 1));
    }
}
/// a shifted summand that vanishes on negative arguments: sum_{i<n} g(i-j) = sum_{i<n-j} g(i)  (0 <= j <= n)
pub proof fn sum_shift<C: Semiring>(g: CF<C>, j: int, n: int)
    requires csr::<C>(), tv(g), 0 <= j <= n, forall|i: int| i < 0 ==> #[trigger] g(i) == C::zero_s(),
    ensures sum(|i: int| g(i - j), n) == sum(g, n - j),
    decreases j,
{
    let sh = |i: int| g(i - j);
    assert(tv(sh)) by { assert forall|i: int| (#[trigger] sh(i)).valid() by { assert(g(i - j).valid()); } }
    if j == 0 {
        sum_cong(sh, g, n);
    } else {
        sum_front(sh, n);
        let sh1 = |i: int| sh(i + 1);
        let sh2 = |i: int| g(i - (j - 1));
        sum_cong(sh1, sh2, n - 1);
        sum_shift(g, j - 1, n - 1);
        assert(sh(0) == C::zero_s());
        sum_valid(g, n - j);
        c_add_zero(sum(g, n - j));
    }
}

// ---- polynomials as coefficient functions ----
impl<C: Semiring + Copy> Polynomial<C> {
    /// normal form: valid coefficients, and every coefficient at or beyond `len` is zero
    pub open spec fn nf(self) -> bool {
        &&& self.len <= MAX_COEFFS
        &&& forall|i: int| 0 <= i < MAX_COEFFS ==> (#[trigger] self.coefficients@[i]).valid()
        &&& forall|i: int| self.len <= i < MAX_COEFFS ==> #[trigger] self.coefficients@[i] == C::zero_s()
    }
    /// coefficient function, zero outside 0..MAX_COEFFS
    pub open spec fn cf(self) -> CF<C> {
        |k: int| if 0 <= k < MAX_COEFFS { self.coefficients@[k] } else { C::zero_s() }
    }
    /// equality as the derived `==` sees it: same length, same coefficient array
    pub open spec fn peq(self, o: Self) -> bool { self.len == o.len && self.coefficients@ =~= o.coefficients@ }
    pub open spec fn is_zero_poly(self) -> bool { self.len == 0 && forall|i: int| 0 <= i < MAX_COEFFS ==> #[trigger] self.coefficients@[i] == C::zero_s() }
    pub open spec fn is_one_poly(self) -> bool {
        self.len == 1 && self.coefficients@[0] == C::one_s() && forall|i: int| 1 <= i < MAX_COEFFS ==> #[trigger] self.coefficients@[i] == C::zero_s()
    }
}
pub proof fn lemma_cf_valid<C: Semiring + Copy>(a: Polynomial<C>)
    requires csr::<C>(), a.nf(),
    ensures tv(a.cf()),
{
    c_consts::<C>();
    assert forall|i: int| (#[trigger] a.cf()(i)).valid() by {}
}
/// the summand of a product coefficient
pub open spec fn pterm<C: Semiring + Copy>(a: Polynomial<C>, b: Polynomial<C>, k: int) -> CF<C> {
    |i: int| a.cf()(i).mul_spec(b.cf()(k - i))
}
pub proof fn lemma_pterm_valid<C: Semiring + Copy>(a: Polynomial<C>, b: Polynomial<C>, k: int)
    requires csr::<C>(), a.nf(), b.nf(),
    ensures tv(pterm(a, b, k)),
{
    lemma_cf_valid(a); lemma_cf_valid(b);
    assert forall|i: int| (#[trigger] pterm(a, b, k)(i)).valid() by { c_closed(a.cf()(i), b.cf()(k - i)); }
}

/// the k-th product coefficient as a full-range sum over zero-extended coefficient functions
pub open spec fn prod_cf<C: Semiring + Copy>(a: Polynomial<C>, b: Polynomial<C>, k: int) -> C {
    sum(pterm(a, b, k), MAX_COEFFS as int)
}

pub proof fn lemma_conv_sum<C: Semiring + Copy>(a: Polynomial<C>, b: Polynomial<C>, k: int, n: int)
    requires csr::<C>(), a.nf(), b.nf(), 0 <= k < MAX_COEFFS, 0 <= n <= a.len,
    ensures conv(a.coefficients@, a.len as int, b.coefficients@, b.len as int, k, n) == sum(pterm(a, b, k), n),
    decreases n,
{
    let t = pterm(a, b, k);
    lemma_pterm_valid(a, b, k); lemma_cf_valid(a); lemma_cf_valid(b);
    if n > 0 {
        lemma_conv_sum(a, b, k, n - 1);
        let i = n - 1;
        if 0 <= k - i < b.len {
            assert(t(i) == a.coefficients@[i].mul_spec(b.coefficients@[k - i]));
        } else {
            // the skipped term is zero: b's coefficient function vanishes at k - i
            assert(b.cf()(k - i) == C::zero_s());
            c_mul_zero(a.cf()(i));
            sum_valid(t, n - 1);
            c_add_zero(sum(t, n - 1));
        }
    }
}

/// what `mul_def` says, coefficient by coefficient
pub proof fn lemma_mul_cf<C: Semiring + Copy>(a: Polynomial<C>, b: Polynomial<C>, r: Polynomial<C>)
    requires csr::<C>(), a.nf(), b.nf(), a.mul_def(b, r),
    ensures
        r.nf(),
        forall|k: int| 0 <= k < MAX_COEFFS ==> #[trigger] r.coefficients@[k] == prod_cf(a, b, k),
{
    lemma_cf_valid(a); lemma_cf_valid(b); c_consts::<C>();
    assert forall|k: int| 0 <= k < MAX_COEFFS implies #[trigger] r.coefficients@[k] == prod_cf(a, b, k) by {
        let t = pterm(a, b, k);
        lemma_pterm_valid(a, b, k);
        if a.len == 0 || b.len == 0 {
            assert forall|i: int| 0 <= i < MAX_COEFFS implies #[trigger] t(i) == C::zero_s() by {
                if a.len == 0 { c_mul_zero(b.cf()(k - i)); } else { c_mul_zero(a.cf()(i)); }
            }
            sum_zero(t, MAX_COEFFS as int);
        } else {
            lemma_conv_sum(a, b, k, a.len as int);
            assert forall|i: int| a.len <= i < MAX_COEFFS implies #[trigger] t(i) == C::zero_s() by { c_mul_zero(b.cf()(k - i)); }
            sum_ext(t, a.len as int, MAX_COEFFS as int);
        }
    }
    assert forall|k: int| 0 <= k < MAX_COEFFS implies (#[trigger] r.coefficients@[k]).valid() by {
        lemma_pterm_valid(a, b, k); sum_valid(pterm(a, b, k), MAX_COEFFS as int);
    }
    // normal form of the result: beyond len every product term has one zero factor
    assert forall|k: int| r.len <= k < MAX_COEFFS implies #[trigger] r.coefficients@[k] == C::zero_s() by {
        let t = pterm(a, b, k);
        if !(a.len == 0 || b.len == 0) {
            assert forall|i: int| 0 <= i < MAX_COEFFS implies #[trigger] t(i) == C::zero_s() by {
                if i >= a.len { c_mul_zero(b.cf()(k - i)); } else { assert(k - i >= b.len); c_mul_zero(a.cf()(i)); }
            }
            sum_zero(t, MAX_COEFFS as int);
        }
    }
}

pub proof fn lemma_add_nf<C: Semiring + Copy>(a: Polynomial<C>, b: Polynomial<C>, r: Polynomial<C>)
    requires csr::<C>(), a.nf(), b.nf(), a.add_def(b, r),
    ensures r.nf(), forall|k: int| 0 <= k < MAX_COEFFS ==> #[trigger] r.coefficients@[k] == a.coefficients@[k].add_spec(b.coefficients@[k]),
{
    c_consts::<C>();
    assert forall|k: int| 0 <= k < MAX_COEFFS implies #[trigger] r.coefficients@[k] == a.coefficients@[k].add_spec(b.coefficients@[k]) by {
        if k >= r.len { c_add_zero(C::zero_s()); }
    }
    assert forall|k: int| 0 <= k < MAX_COEFFS implies (#[trigger] r.coefficients@[k]).valid() by { c_closed(a.coefficients@[k], b.coefficients@[k]); }
}

// ---- the laws ----
pub proof fn poly_add_comm<C: Semiring + Copy>(a: Polynomial<C>, b: Polynomial<C>, r1: Polynomial<C>, r2: Polynomial<C>)
    requires csr::<C>(), a.nf(), b.nf(), a.add_def(b, r1), b.add_def(a, r2),
    ensures r1.peq(r2),
{
    lemma_add_nf(a, b, r1); lemma_add_nf(b, a, r2);
    assert forall|k: int| 0 <= k < MAX_COEFFS implies r1.coefficients@[k] == r2.coefficients@[k] by { c_add_comm(a.coefficients@[k], b.coefficients@[k]); }
}
pub proof fn poly_add_assoc<C: Semiring + Copy>(a: Polynomial<C>, b: Polynomial<C>, c: Polynomial<C>, ab: Polynomial<C>, bc: Polynomial<C>, r1: Polynomial<C>, r2: Polynomial<C>)
    requires csr::<C>(), a.nf(), b.nf(), c.nf(), a.add_def(b, ab), ab.add_def(c, r1), b.add_def(c, bc), a.add_def(bc, r2),
    ensures r1.peq(r2),
{
    lemma_add_nf(a, b, ab); lemma_add_nf(ab, c, r1); lemma_add_nf(b, c, bc); lemma_add_nf(a, bc, r2);
    assert forall|k: int| 0 <= k < MAX_COEFFS implies r1.coefficients@[k] == r2.coefficients@[k] by { c_add_assoc(a.coefficients@[k], b.coefficients@[k], c.coefficients@[k]); }
}
pub proof fn poly_add_zero<C: Semiring + Copy>(a: Polynomial<C>, z: Polynomial<C>, r: Polynomial<C>)
    requires csr::<C>(), a.nf(), z.is_zero_poly(), a.add_def(z, r),
    ensures r.peq(a),
{
    c_consts::<C>();
    lemma_add_nf(a, z, r);
    assert forall|k: int| 0 <= k < MAX_COEFFS implies r.coefficients@[k] == a.coefficients@[k] by { c_add_zero(a.coefficients@[k]); }
}
pub proof fn poly_mul_zero<C: Semiring + Copy>(a: Polynomial<C>, z: Polynomial<C>, r1: Polynomial<C>, r2: Polynomial<C>)
    requires a.nf(), z.is_zero_poly(), a.mul_def(z, r1), z.mul_def(a, r2),
    ensures r1.peq(z), r2.peq(z),
{
}
pub proof fn poly_mul_one<C: Semiring + Copy>(a: Polynomial<C>, o: Polynomial<C>, r: Polynomial<C>)
    requires csr::<C>(), a.nf(), o.is_one_poly(), a.mul_def(o, r),
    ensures r.peq(a),
{
    c_consts::<C>();
    if a.len > 0 {
        assert(o.nf());
        lemma_mul_cf(a, o, r);
        lemma_cf_valid(a);
        assert forall|k: int| 0 <= k < MAX_COEFFS implies r.coefficients@[k] == a.coefficients@[k] by {
            // only the term i == k survives
            let t = pterm(a, o, k);
            lemma_pterm_valid(a, o, k);
            assert forall|i: int| 0 <= i < k implies #[trigger] t(i) == C::zero_s() by { c_mul_zero(a.cf()(i)); }
            sum_zero(t, k);
            assert(sum(t, k + 1) == sum(t, k).add_spec(t(k)));
            c_mul_one(a.cf()(k)); c_add_zero(t(k));
            assert forall|i: int| k + 1 <= i < MAX_COEFFS implies #[trigger] t(i) == C::zero_s() by { c_mul_zero(a.cf()(i)); }
            sum_ext(t, k + 1, MAX_COEFFS as int);
        }
    } else {
        assert forall|k: int| 0 <= k < MAX_COEFFS implies r.coefficients@[k] == a.coefficients@[k] by {}
    }
}
pub proof fn poly_mul_comm<C: Semiring + Copy>(a: Polynomial<C>, b: Polynomial<C>, r1: Polynomial<C>, r2: Polynomial<C>)
    requires csr::<C>(), a.nf(), b.nf(), a.mul_def(b, r1), b.mul_def(a, r2),
    ensures r1.peq(r2),
{
    lemma_mul_cf(a, b, r1); lemma_mul_cf(b, a, r2); lemma_cf_valid(a); lemma_cf_valid(b);
    assert forall|k: int| 0 <= k < MAX_COEFFS implies r1.coefficients@[k] == r2.coefficients@[k] by {
        let f = pterm(a, b, k);
        let g = pterm(b, a, k);
        lemma_pterm_valid(a, b, k); lemma_pterm_valid(b, a, k);
        // both vanish beyond k; on 0..=k one is the other read backwards
        assert forall|i: int| k + 1 <= i < MAX_COEFFS implies #[trigger] f(i) == C::zero_s() by { c_mul_zero(a.cf()(i)); }
        assert forall|i: int| k + 1 <= i < MAX_COEFFS implies #[trigger] g(i) == C::zero_s() by { c_mul_zero(b.cf()(i)); }
        sum_ext(f, k + 1, MAX_COEFFS as int); sum_ext(g, k + 1, MAX_COEFFS as int);
        sum_reverse(f, k + 1);
        let fr = |i: int| f(k + 1 - 1 - i);
        assert forall|i: int| 0 <= i < k + 1 implies #[trigger] fr(i) == g(i) by { c_mul_comm(a.cf()(k - i), b.cf()(i)); }
        sum_cong(fr, g, k + 1);
    }
}
pub proof fn poly_distr<C: Semiring + Copy>(a: Polynomial<C>, b: Polynomial<C>, c: Polynomial<C>, bc: Polynomial<C>, r1: Polynomial<C>, ab: Polynomial<C>, ac: Polynomial<C>, r2: Polynomial<C>)
    requires csr::<C>(), a.nf(), b.nf(), c.nf(), b.add_def(c, bc), a.mul_def(bc, r1), a.mul_def(b, ab), a.mul_def(c, ac), ab.add_def(ac, r2),
    ensures r1.peq(r2),
{
    lemma_add_nf(b, c, bc); lemma_mul_cf(a, bc, r1); lemma_mul_cf(a, b, ab); lemma_mul_cf(a, c, ac); lemma_add_nf(ab, ac, r2);
    lemma_cf_valid(a); lemma_cf_valid(b); lemma_cf_valid(c); c_consts::<C>();
    assert forall|k: int| 0 <= k < MAX_COEFFS implies r1.coefficients@[k] == r2.coefficients@[k] by {
        let f = pterm(a, b, k);
        let g = pterm(a, c, k);
        let h = pterm(a, bc, k);
        lemma_pterm_valid(a, b, k); lemma_pterm_valid(a, c, k);
        let fg = |i: int| f(i).add_spec(g(i));
        assert forall|i: int| 0 <= i < MAX_COEFFS implies #[trigger] h(i) == fg(i) by {
            if 0 <= k - i < MAX_COEFFS { c_distr(a.cf()(i), b.cf()(k - i), c.cf()(k - i)); }
            else { c_mul_zero(a.cf()(i)); c_add_zero(C::zero_s()); }
        }
        sum_cong(h, fg, MAX_COEFFS as int);
        sum_add(f, g, MAX_COEFFS as int);
    }
}

/// the inner sum of the re-associated triple product: sum_{i<N} B(i-j) * C(k-i) is the (k-j)-th coefficient of b*c
pub proof fn lemma_inner_shift<C: Semiring + Copy>(b: Polynomial<C>, c: Polynomial<C>, bc: Polynomial<C>, k: int, j: int)
    requires csr::<C>(), b.nf(), c.nf(), b.mul_def(c, bc), 0 <= k < MAX_COEFFS, 0 <= j < MAX_COEFFS,
    ensures sum(|i: int| b.cf()(i - j).mul_spec(c.cf()(k - i)), MAX_COEFFS as int) == bc.cf()(k - j),
{
    let n = MAX_COEFFS as int;
    lemma_cf_valid(b); lemma_cf_valid(c); c_consts::<C>();
    let inner = |i: int| b.cf()(i - j).mul_spec(c.cf()(k - i));
    let h = pterm(b, c, k - j);
    lemma_pterm_valid(b, c, k - j);
    assert forall|m: int| m < 0 implies #[trigger] h(m) == C::zero_s() by { c_mul_zero(c.cf()(k - j - m)); }
    sum_shift(h, j, n);
    let hs = |i: int| h(i - j);
    assert forall|i: int| 0 <= i < n implies #[trigger] inner(i) == hs(i) by {}
    sum_cong(inner, hs, n);
    // now sum(inner, n) == sum(h, n - j)
    lemma_mul_cf(b, c, bc);
    if k - j >= 0 {
        assert forall|m: int| n - j <= m < n implies #[trigger] h(m) == C::zero_s() by { c_mul_zero(b.cf()(m)); }
        sum_ext(h, n - j, n);
        assert(bc.cf()(k - j) == prod_cf(b, c, k - j));
    } else {
        assert forall|m: int| 0 <= m < n - j implies #[trigger] h(m) == C::zero_s() by { c_mul_zero(b.cf()(m)); }
        sum_zero(h, n - j);
    }
}

pub proof fn poly_mul_assoc<C: Semiring + Copy>(a: Polynomial<C>, b: Polynomial<C>, c: Polynomial<C>, ab: Polynomial<C>, bc: Polynomial<C>, r1: Polynomial<C>, r2: Polynomial<C>)
    requires csr::<C>(), a.nf(), b.nf(), c.nf(), a.mul_def(b, ab), ab.mul_def(c, r1), b.mul_def(c, bc), a.mul_def(bc, r2),
    ensures r1.peq(r2),
{
    let n = MAX_COEFFS as int;
    lemma_mul_cf(a, b, ab); lemma_mul_cf(ab, c, r1); lemma_mul_cf(b, c, bc); lemma_mul_cf(a, bc, r2);
    lemma_cf_valid(a); lemma_cf_valid(b); lemma_cf_valid(c); lemma_cf_valid(ab); lemma_cf_valid(bc); c_consts::<C>();
    assert forall|k: int| 0 <= k < MAX_COEFFS implies r1.coefficients@[k] == r2.coefficients@[k] by {
        let g = |i: int, j: int| a.cf()(j).mul_spec(b.cf()(i - j)).mul_spec(c.cf()(k - i));
        assert forall|i: int, j: int| (#[trigger] g(i, j)).valid() by { c_closed(a.cf()(j), b.cf()(i - j)); c_closed(a.cf()(j).mul_spec(b.cf()(i - j)), c.cf()(k - i)); }
        let lhs = pterm(ab, c, k);
        let rows = |i: int| sum(|j: int| g(i, j), n);
        // step 1: each term of the outer sum is a row sum of g
        assert forall|i: int| 0 <= i < n implies #[trigger] lhs(i) == rows(i) by {
            let f = pterm(a, b, i);
            lemma_pterm_valid(a, b, i);
            sum_mul_right(f, c.cf()(k - i), n);
            assert(ab.cf()(i) == prod_cf(a, b, i));
            sum_cong(|j: int| f(j).mul_spec(c.cf()(k - i)), |j: int| g(i, j), n);
        }
        sum_cong(lhs, rows, n);
        // step 2: exchange the sums
        sum_fubini(g, n, n);
        let cols = |j: int| sum(|i: int| g(i, j), n);
        let rhs = pterm(a, bc, k);
        // steps 3, 4: each column sum is a(j) times the (k-j)-th coefficient of b*c
        assert forall|j: int| 0 <= j < n implies #[trigger] cols(j) == rhs(j) by {
            let inner = |i: int| b.cf()(i - j).mul_spec(c.cf()(k - i));
            assert(tv(inner)) by { assert forall|i: int| (#[trigger] inner(i)).valid() by { c_closed(b.cf()(i - j), c.cf()(k - i)); } }
            let colf = |i: int| g(i, j);
            let scaled = |i: int| a.cf()(j).mul_spec(inner(i));
            assert forall|i: int| 0 <= i < n implies #[trigger] colf(i) == scaled(i) by {
                c_mul_assoc(a.cf()(j), b.cf()(i - j), c.cf()(k - i));
            }
            sum_cong(colf, scaled, n);
            sum_mul_left(a.cf()(j), inner, n);
            lemma_inner_shift(b, c, bc, k, j);
        }
        sum_cong(cols, rhs, n);
        assert(r1.coefficients@[k] == prod_cf(ab, c, k));
        assert(r2.coefficients@[k] == prod_cf(a, bc, k));
    }
}

/// closure: the results of the operators are again in normal form, so the laws compose over any expression
pub proof fn poly_closed<C: Semiring + Copy>(a: Polynomial<C>, b: Polynomial<C>, s: Polynomial<C>, p: Polynomial<C>)
    requires csr::<C>(), a.nf(), b.nf(), a.add_def(b, s), a.mul_def(b, p),
    ensures s.nf(), p.nf(),
{
    lemma_add_nf(a, b, s); lemma_mul_cf(a, b, p);
}
/// `zero` and `one` are in normal form
pub proof fn poly_consts_nf<C: Semiring + Copy>(z: Polynomial<C>, o: Polynomial<C>)
    requires csr::<C>(), z.is_zero_poly(), o.is_one_poly(),
    ensures z.nf(), o.nf(),
{
    c_consts::<C>();
}
