// ---- sums over assignments in a commutative semiring: zsum and its laws (shared by the BDD and SDD counting theorems) ----
pub type GF<T> = spec_fn(Env) -> T;

pub open spec fn zsum<T: Semiring>(g: GF<T>, w: W<T>, vs: Seq<u64>, env: Env) -> T
    decreases vs.len()
{
    if vs.len() == 0 { g(env) } else {
        let v = vs.last();
        (w(v).0.mul_spec(zsum(g, w, vs.drop_last(), upd(env, v, false)))).add_spec(
         w(v).1.mul_spec(zsum(g, w, vs.drop_last(), upd(env, v, true))))
    }
}
pub open spec fn distinct(vs: Seq<u64>) -> bool { forall|i: int, j: int| 0 <= i < j < vs.len() ==> vs[i] != vs[j] }
pub open spec fn wv<T: Semiring>(w: W<T>) -> bool { forall|v: u64| (#[trigger] w(v)).0.valid() && w(v).1.valid() }
pub open spec fn gv<T: Semiring>(g: GF<T>) -> bool { forall|e: Env| (#[trigger] g(e)).valid() }
pub open spec fn indep<T>(g: GF<T>, v: u64) -> bool { forall|e: Env, b: bool| #[trigger] g(upd(e, v, b)) == g(e) }
/// low and high weight of v sum to one
pub open spec fn normalised<T: Semiring>(w: W<T>, v: u64) -> bool { w(v).0.add_spec(w(v).1) == T::one_s() }

pub proof fn lemma_upd_comm(env: Env, u: u64, x: bool, v: u64, b: bool)
    requires u != v,
    ensures upd(upd(env, v, b), u, x) == upd(upd(env, u, x), v, b),
{
    assert(upd(upd(env, v, b), u, x) =~= upd(upd(env, u, x), v, b));
}
pub proof fn zsum_valid<T: Semiring>(g: GF<T>, w: W<T>, vs: Seq<u64>, env: Env)
    requires csr::<T>(), wv(w), gv(g),
    ensures zsum(g, w, vs, env).valid(),
    decreases vs.len(),
{
    if vs.len() > 0 {
        let v = vs.last();
        zsum_valid(g, w, vs.drop_last(), upd(env, v, false));
        zsum_valid(g, w, vs.drop_last(), upd(env, v, true));
        let a = zsum(g, w, vs.drop_last(), upd(env, v, false)); let b = zsum(g, w, vs.drop_last(), upd(env, v, true));
        c_closed(w(v).0, a); c_closed(w(v).1, b); c_closed(w(v).0.mul_spec(a), w(v).1.mul_spec(b));
    }
}
/// two functions that agree wherever variable v has value b have the same sum from an environment in which v has
/// value b, provided v is not summed over
pub proof fn zsum_cong_fix<T: Semiring>(g: GF<T>, g2: GF<T>, w: W<T>, vs: Seq<u64>, env: Env, v: u64, b: bool)
    requires !vs.contains(v), env(v) == b, forall|e: Env| e(v) == b ==> #[trigger] g(e) == g2(e),
    ensures zsum(g, w, vs, env) == zsum(g2, w, vs, env),
    decreases vs.len(),
{
    if vs.len() > 0 {
        let u = vs.last();
        assert(vs[vs.len() - 1] == u);
        assert forall|x: u64| !vs.drop_last().contains(x) || vs.contains(x) by {
            if vs.drop_last().contains(x) { let i = choose|i: int| 0 <= i < vs.drop_last().len() && vs.drop_last()[i] == x; assert(vs[i] == x); }
        }
        zsum_cong_fix(g, g2, w, vs.drop_last(), upd(env, u, false), v, b);
        zsum_cong_fix(g, g2, w, vs.drop_last(), upd(env, u, true), v, b);
    }
}
/// a function that does not depend on v has the same sum whatever v's value in the environment (v not summed over)
pub proof fn zsum_indep<T: Semiring>(g: GF<T>, w: W<T>, vs: Seq<u64>, env: Env, v: u64, b: bool)
    requires !vs.contains(v), indep(g, v),
    ensures zsum(g, w, vs, upd(env, v, b)) == zsum(g, w, vs, env),
    decreases vs.len(),
{
    if vs.len() > 0 {
        let u = vs.last();
        assert(vs[vs.len() - 1] == u);
        assert forall|x: u64| !vs.drop_last().contains(x) || vs.contains(x) by {
            if vs.drop_last().contains(x) { let i = choose|i: int| 0 <= i < vs.drop_last().len() && vs.drop_last()[i] == x; assert(vs[i] == x); }
        }
        lemma_upd_comm(env, u, false, v, b); lemma_upd_comm(env, u, true, v, b);
        zsum_indep(g, w, vs.drop_last(), upd(env, u, false), v, b);
        zsum_indep(g, w, vs.drop_last(), upd(env, u, true), v, b);
    }
}
/// a(l*x0 + h*y0) + b(l*x1 + h*y1) == l(a*x0 + b*x1) + h(a*y0 + b*y1)
pub proof fn alg_shuffle<T: Semiring>(a: T, b: T, l: T, h: T, x0: T, y0: T, x1: T, y1: T)
    requires csr::<T>(), a.valid(), b.valid(), l.valid(), h.valid(), x0.valid(), y0.valid(), x1.valid(), y1.valid(),
    ensures
        a.mul_spec(l.mul_spec(x0).add_spec(h.mul_spec(y0))).add_spec(b.mul_spec(l.mul_spec(x1).add_spec(h.mul_spec(y1))))
        == l.mul_spec(a.mul_spec(x0).add_spec(b.mul_spec(x1))).add_spec(h.mul_spec(a.mul_spec(y0).add_spec(b.mul_spec(y1)))),
{
    let lx0 = l.mul_spec(x0); let hy0 = h.mul_spec(y0); let lx1 = l.mul_spec(x1); let hy1 = h.mul_spec(y1);
    c_closed(l, x0); c_closed(h, y0); c_closed(l, x1); c_closed(h, y1);
    c_distr(a, lx0, hy0); c_distr(b, lx1, hy1);
    // a*(l*x0) == l*(a*x0) etc.
    c_mul_assoc(a, l, x0); c_mul_comm(a, l); c_mul_assoc(l, a, x0);
    c_mul_assoc(a, h, y0); c_mul_comm(a, h); c_mul_assoc(h, a, y0);
    c_mul_assoc(b, l, x1); c_mul_comm(b, l); c_mul_assoc(l, b, x1);
    c_mul_assoc(b, h, y1); c_mul_comm(b, h); c_mul_assoc(h, b, y1);
    let ax0 = a.mul_spec(x0); let ay0 = a.mul_spec(y0); let bx1 = b.mul_spec(x1); let by1 = b.mul_spec(y1);
    c_closed(a, x0); c_closed(a, y0); c_closed(b, x1); c_closed(b, y1);
    c_closed(l, ax0); c_closed(h, ay0); c_closed(l, bx1); c_closed(h, by1);
    c_add_swap(l.mul_spec(ax0), h.mul_spec(ay0), l.mul_spec(bx1), h.mul_spec(by1));
    c_distr(l, ax0, bx1); c_distr(h, ay0, by1);
}
/// Shannon expansion of the sum at a summed variable whose two weights add up to one
pub proof fn zsum_shannon<T: Semiring>(g: GF<T>, gl: GF<T>, gh: GF<T>, w: W<T>, vs: Seq<u64>, env: Env, v: u64)
    requires
        csr::<T>(), wv(w), gv(gl), gv(gh), distinct(vs), vs.contains(v), normalised(w, v), indep(gl, v), indep(gh, v),
        forall|e: Env| #[trigger] g(e) == (if e(v) { gh(e) } else { gl(e) }),
    ensures
        zsum(g, w, vs, env) == w(v).0.mul_spec(zsum(gl, w, vs, env)).add_spec(w(v).1.mul_spec(zsum(gh, w, vs, env))),
    decreases vs.len(),
{
    let u = vs.last();
    let rest = vs.drop_last();
    assert(vs[vs.len() - 1] == u);
    let e0 = upd(env, u, false); let e1 = upd(env, u, true);
    assert(distinct(rest)) by { assert forall|i: int, j: int| 0 <= i < j < rest.len() implies rest[i] != rest[j] by { assert(vs[i] != vs[j]); } }
    zsum_valid(gl, w, rest, e0); zsum_valid(gl, w, rest, e1); zsum_valid(gh, w, rest, e0); zsum_valid(gh, w, rest, e1);
    if u == v {
        assert(!rest.contains(v)) by {
            if rest.contains(v) { let i = choose|i: int| 0 <= i < rest.len() && rest[i] == v; assert(vs[i] == v); assert(vs[vs.len() - 1] == v); }
        }
        // under v = false g is gl, under v = true g is gh
        zsum_cong_fix(g, gl, w, rest, e0, v, false);
        zsum_cong_fix(g, gh, w, rest, e1, v, true);
        // gl, gh do not depend on v: their sums over vs collapse ( (l + h) * S == S )
        zsum_indep(gl, w, rest, env, v, false); zsum_indep(gl, w, rest, env, v, true);
        zsum_indep(gh, w, rest, env, v, false); zsum_indep(gh, w, rest, env, v, true);
        zsum_valid(gl, w, rest, env); zsum_valid(gh, w, rest, env);
        let sl = zsum(gl, w, rest, env); let sh = zsum(gh, w, rest, env);
        c_distr(sl, w(v).0, w(v).1); c_distr(sh, w(v).0, w(v).1);
        c_mul_one(sl); c_mul_one(sh);
        assert(zsum(gl, w, vs, env) == sl);
        assert(zsum(gh, w, vs, env) == sh);
    } else {
        assert(rest.contains(v)) by { let i = choose|i: int| 0 <= i < vs.len() && vs[i] == v; assert(i < rest.len()); assert(rest[i] == v); }
        zsum_shannon(g, gl, gh, w, rest, e0, v);
        zsum_shannon(g, gl, gh, w, rest, e1, v);
        alg_shuffle(w(u).0, w(u).1, w(v).0, w(v).1, zsum(gl, w, rest, e0), zsum(gh, w, rest, e0), zsum(gl, w, rest, e1), zsum(gh, w, rest, e1));
    }
}
/// the sum of a constant over variables with normalised weights is the constant
pub proof fn zsum_const<T: Semiring>(g: GF<T>, k: T, w: W<T>, vs: Seq<u64>, env: Env)
    requires csr::<T>(), wv(w), k.valid(), forall|e: Env| #[trigger] g(e) == k, forall|i: int| 0 <= i < vs.len() ==> normalised(w, #[trigger] vs[i]),
    ensures zsum(g, w, vs, env) == k,
    decreases vs.len(),
{
    if vs.len() > 0 {
        let v = vs.last();
        assert(vs[vs.len() - 1] == v);
        zsum_const(g, k, w, vs.drop_last(), upd(env, v, false));
        zsum_const(g, k, w, vs.drop_last(), upd(env, v, true));
        c_distr(k, w(v).0, w(v).1); c_mul_one(k);
    }
}

/// pointwise sum of two functions
pub open spec fn gadd<T: Semiring>(g1: GF<T>, g2: GF<T>) -> GF<T> { |e: Env| g1(e).add_spec(g2(e)) }
/// the sum is additive
pub proof fn zsum_add<T: Semiring>(g1: GF<T>, g2: GF<T>, w: W<T>, vs: Seq<u64>, env: Env)
    requires csr::<T>(), wv(w), gv(g1), gv(g2),
    ensures zsum(gadd(g1, g2), w, vs, env) == zsum(g1, w, vs, env).add_spec(zsum(g2, w, vs, env)),
    decreases vs.len(),
{
    if vs.len() > 0 {
        let v = vs.last(); let r = vs.drop_last();
        let e0 = upd(env, v, false); let e1 = upd(env, v, true);
        zsum_add(g1, g2, w, r, e0); zsum_add(g1, g2, w, r, e1);
        zsum_valid(g1, w, r, e0); zsum_valid(g1, w, r, e1); zsum_valid(g2, w, r, e0); zsum_valid(g2, w, r, e1);
        let a0 = zsum(g1, w, r, e0); let a1 = zsum(g1, w, r, e1); let b0 = zsum(g2, w, r, e0); let b1 = zsum(g2, w, r, e1);
        c_distr(w(v).0, a0, b0); c_distr(w(v).1, a1, b1);
        c_closed(w(v).0, a0); c_closed(w(v).0, b0); c_closed(w(v).1, a1); c_closed(w(v).1, b1);
        c_add_swap(w(v).0.mul_spec(a0), w(v).0.mul_spec(b0), w(v).1.mul_spec(a1), w(v).1.mul_spec(b1));
    }
}
