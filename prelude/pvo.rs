// ---- contract of src/repr/var_order.rs `PartialVariableOrder` ----
pub trait PartialVariableOrder {
    spec fn var_s(&self) -> Option<VarLabel>;
    fn var(&self) -> (r: Option<VarLabel>)
        ensures r == self.var_s();
}
