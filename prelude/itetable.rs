// ---- contract of the apply-cache trait (src/builder/cache/mod.rs `IteTable`) ----
// The contract is structural (C16): a table remembers (standard triple, stored value) pairs; `get` returns
// nothing or what was stored under exactly that triple, with the complement flag of the query re-applied.
// What the stored values *mean* is the builder's invariant (see trusted/robdd_cells.rs), not the table's.

/// the key a non-constant Ite is stored under
pub open spec fn ite_key<T: DDNNFPtr>(ite: Ite<T>) -> (T, T, T) {
    match ite {
        Ite::IteChoice { f, g, h } | Ite::IteComplChoice { f, g, h } => (f, g, h),
        Ite::IteConst(c) => (c, c, c),
    }
}
/// the value stored for a result `res` of `ite` (complemented triples store the negation)
pub open spec fn ite_stored<T: DDNNFPtr>(ite: Ite<T>, res: T) -> T {
    if ite is IteComplChoice { res.neg_s() } else { res }
}

pub trait IteTable<T: DDNNFPtr> {
    /// ghost view: the (triple, stored value) pairs the table may still return
    spec fn entries(&self) -> ISet<((T, T, T), T)>;
    /// representation invariant of the backing store
    spec fn wf(&self) -> bool;
    /// A-cap: machine-word limits of the backing store are not reached (see Lru::in_range)
    spec fn cap_ok(&self) -> bool;
    /// the hash the table expects for a triple
    spec fn hash_spec(ite: Ite<T>) -> u64;

    fn hash(&self, ite: &Ite<T>) -> (r: u64)
        ensures r == Self::hash_spec(*ite);

    fn insert(&mut self, ite: Ite<T>, res: T, hash: u64)
        requires
            old(self).wf(), old(self).cap_ok(), hash == Self::hash_spec(ite),
        ensures
            final(self).wf(),
            // nothing appears in the table except (possibly) the pair just inserted
            forall|k: (T, T, T), s: T| #[trigger] final(self).entries().contains((k, s)) ==>
                old(self).entries().contains((k, s)) || (!(ite is IteConst) && k == ite_key(ite) && s == ite_stored(ite, res));

    fn get(&self, ite: Ite<T>, hash: u64) -> (r: Option<T>)
        requires
            self.wf(), hash == Self::hash_spec(ite),
        ensures
            r matches Some(v) ==>
                if ite is IteConst { v == ite->IteConst_0 } else { self.entries().contains((ite_key(ite), ite_stored(ite, v))) };
}
