// ---- contract of the apply-cache trait (src/builder/cache/mod.rs `IteTable`) ----
pub trait IteTable<T: DDNNFPtr> {
    /// validity invariant: every stored entry (f,g,h) -> r satisfies  sem r == ite(sem f, sem g, sem h)
    /// (plus the representation invariant of the backing store)
    spec fn valid(&self) -> bool;
    /// A-cap: machine-word limits of the backing store are not reached (see Lru::in_range)
    spec fn cap_ok(&self) -> bool;
    /// the hash the table expects for a triple
    spec fn hash_spec(ite: Ite<T>) -> u64;

    fn hash(&self, ite: &Ite<T>) -> (r: u64)
        ensures r == Self::hash_spec(*ite);

    fn insert(&mut self, ite: Ite<T>, res: T, hash: u64)
        requires
            old(self).valid(), old(self).cap_ok(), hash == Self::hash_spec(ite),
            forall|env: Env| #[trigger] tr(env) ==> res.sem(env) == ite_sem(ite, env),
        ensures
            final(self).valid();

    fn get(&self, ite: Ite<T>, hash: u64) -> (r: Option<T>)
        requires
            self.valid(), hash == Self::hash_spec(ite),
        ensures
            r matches Some(v) ==> forall|env: Env| #[trigger] tr(env) ==> v.sem(env) == ite_sem(ite, env);
}
