// ---- commutative-semiring hypothesis on a weight / coefficient type and its instantiation lemmas (C13, C07) ----
/// the VALID elements of the coefficient type form a commutative semiring under its operator specifications
/// (`valid` is the representation invariant of the type, e.g. "the residue is reduced" for FiniteField)
#[verifier::opaque]
pub open spec fn csr<C: Semiring>() -> bool {
    &&& C::zero_s().valid() && C::one_s().valid()
    &&& forall|a: C, b: C| a.valid() && b.valid() ==> (#[trigger] a.add_spec(b)).valid()
    &&& forall|a: C, b: C| a.valid() && b.valid() ==> (#[trigger] a.mul_spec(b)).valid()
    &&& forall|a: C, b: C| a.valid() && b.valid() ==> #[trigger] a.add_spec(b) == b.add_spec(a)
    &&& forall|a: C, b: C, c: C| a.valid() && b.valid() && c.valid() ==> #[trigger] a.add_spec(b).add_spec(c) == a.add_spec(b.add_spec(c))
    &&& forall|a: C| a.valid() ==> #[trigger] a.add_spec(C::zero_s()) == a
    &&& forall|a: C, b: C| a.valid() && b.valid() ==> #[trigger] a.mul_spec(b) == b.mul_spec(a)
    &&& forall|a: C, b: C, c: C| a.valid() && b.valid() && c.valid() ==> #[trigger] a.mul_spec(b).mul_spec(c) == a.mul_spec(b.mul_spec(c))
    &&& forall|a: C| a.valid() ==> #[trigger] a.mul_spec(C::one_s()) == a
    &&& forall|a: C| a.valid() ==> #[trigger] a.mul_spec(C::zero_s()) == C::zero_s()
    &&& forall|a: C, b: C, c: C| a.valid() && b.valid() && c.valid() ==> #[trigger] a.mul_spec(b.add_spec(c)) == a.mul_spec(b).add_spec(a.mul_spec(c))
}
pub proof fn c_consts<C: Semiring>() requires csr::<C>() ensures C::zero_s().valid(), C::one_s().valid() { reveal(csr); }
pub proof fn c_closed<C: Semiring>(a: C, b: C) requires csr::<C>(), a.valid(), b.valid() ensures a.add_spec(b).valid(), a.mul_spec(b).valid() { reveal(csr); }
pub proof fn c_add_comm<C: Semiring>(a: C, b: C) requires csr::<C>(), a.valid(), b.valid() ensures a.add_spec(b) == b.add_spec(a) { reveal(csr); }
pub proof fn c_add_assoc<C: Semiring>(a: C, b: C, c: C) requires csr::<C>(), a.valid(), b.valid(), c.valid() ensures a.add_spec(b).add_spec(c) == a.add_spec(b.add_spec(c)) { reveal(csr); }
pub proof fn c_add_zero<C: Semiring>(a: C) requires csr::<C>(), a.valid() ensures a.add_spec(C::zero_s()) == a, C::zero_s().add_spec(a) == a { reveal(csr); }
pub proof fn c_mul_comm<C: Semiring>(a: C, b: C) requires csr::<C>(), a.valid(), b.valid() ensures a.mul_spec(b) == b.mul_spec(a) { reveal(csr); }
pub proof fn c_mul_assoc<C: Semiring>(a: C, b: C, c: C) requires csr::<C>(), a.valid(), b.valid(), c.valid() ensures a.mul_spec(b).mul_spec(c) == a.mul_spec(b.mul_spec(c)) { reveal(csr); }
pub proof fn c_mul_one<C: Semiring>(a: C) requires csr::<C>(), a.valid() ensures a.mul_spec(C::one_s()) == a, C::one_s().mul_spec(a) == a { reveal(csr); }
pub proof fn c_mul_zero<C: Semiring>(a: C) requires csr::<C>(), a.valid() ensures a.mul_spec(C::zero_s()) == C::zero_s(), C::zero_s().mul_spec(a) == C::zero_s() { reveal(csr); }
pub proof fn c_distr<C: Semiring>(a: C, b: C, c: C) requires csr::<C>(), a.valid(), b.valid(), c.valid()
    ensures a.mul_spec(b.add_spec(c)) == a.mul_spec(b).add_spec(a.mul_spec(c)), b.add_spec(c).mul_spec(a) == b.mul_spec(a).add_spec(c.mul_spec(a))
{ reveal(csr); }
/// (a+b)+(c+d) == (a+c)+(b+d)
pub proof fn c_add_swap<C: Semiring>(a: C, b: C, c: C, d: C) requires csr::<C>(), a.valid(), b.valid(), c.valid(), d.valid()
    ensures a.add_spec(b).add_spec(c.add_spec(d)) == a.add_spec(c).add_spec(b.add_spec(d))
{
    c_closed(c, d); c_closed(b, d); c_closed(b, c); c_closed(c, b);
    c_add_assoc(a, b, c.add_spec(d)); c_add_assoc(b, c, d); c_add_comm(b, c); c_add_assoc(c, b, d); c_add_assoc(a, c, b.add_spec(d));
}

