// ---- the solver interface the top-down compiler is verified against (A-sat), in a form generic in the formula's truth
// function `sem`, so that the SAME predicates can be (i) assumed of the opaque solver stub in unit dnnf (with the uninterpreted
// csem_of) and (ii) PROVED of the real SATSolver in unit satsolver (with sem = "every clause holds"): lemma_refines_* ----
pub type PM = Map<u64, bool>;
pub type Sem = spec_fn(Env) -> bool;

pub open spec fn agrees(env: Env, m: PM) -> bool { forall|x: u64| #[trigger] m.contains_key(x) ==> env(x) == m[x] }
pub open spec fn submodel(a: PM, b: PM) -> bool { forall|x: u64| #[trigger] a.contains_key(x) ==> b.contains_key(x) && b[x] == a[x] }
pub open spec fn total(m: PM, nv: nat) -> bool { forall|x: u64| (x as nat) < nv ==> #[trigger] m.contains_key(x) }
/// a model in which every variable is assigned satisfies the formula (otherwise the solver would have reported a conflict)
pub open spec fn sound_model_g(sem: Sem, nv: nat, m: PM) -> bool {
    total(m, nv) ==> forall|env: Env| #[trigger] tr(env) ==> (agrees(env, m) ==> sem(env))
}
/// what `decide(lit)` establishes when it does not report UNSAT: m2 is the pushed model
pub open spec fn decide_ok_g(sem: Sem, m0: PM, lit_lbl: u64, lit_pol: bool, sat: bool, m2: PM) -> bool {
    &&& submodel(m0, m2)
    &&& m2.contains_key(lit_lbl) && m2[lit_lbl] == lit_pol
    // propagation is sound: every model of the formula that extends m0 + lit extends m2
    &&& forall|env: Env| #[trigger] tr(env) ==> (agrees(env, m0) && env(lit_lbl) == lit_pol && sem(env) ==> agrees(env, m2))
    &&& (sat ==> forall|env: Env| #[trigger] tr(env) ==> (agrees(env, m2) ==> sem(env)))
}
pub open spec fn decide_unsat_g(sem: Sem, m0: PM, lit_lbl: u64, lit_pol: bool) -> bool {
    forall|env: Env| #[trigger] tr(env) ==> (agrees(env, m0) && env(lit_lbl) == lit_pol ==> !sem(env))
}
