/// exists b. (b <=> g[lbl := b]) /\ f[lbl := b], with the two values of b written out
pub open spec fn compose_def<Ptr: DDNNFPtr>(f: Ptr, lbl: VarLabel, g: Ptr, env: Env) -> bool {
    (g.sem(upd(env, lbl.0, true)) && f.sem(upd(env, lbl.0, true)))
    || (!g.sem(upd(env, lbl.0, false)) && f.sem(upd(env, lbl.0, false)))
}
pub proof fn lemma_compose_def_is_exists<Ptr: DDNNFPtr>(f: Ptr, lbl: VarLabel, g: Ptr, env: Env)
    ensures compose_def(f, lbl, g, env) == (exists|b: bool| (b == #[trigger] g.sem(upd(env, lbl.0, b))) && f.sem(upd(env, lbl.0, b))),
{
    if compose_def(f, lbl, g, env) {
        if g.sem(upd(env, lbl.0, true)) && f.sem(upd(env, lbl.0, true)) {
            assert(true == g.sem(upd(env, lbl.0, true)) && f.sem(upd(env, lbl.0, true)));
        } else {
            assert(false == g.sem(upd(env, lbl.0, false)) && f.sem(upd(env, lbl.0, false)));
        }
    }
}

//%% extract src/repr/logical_expr.rs :: - :: enum LogicalExpr
//%% @pub
//%% end

//%% include prelude/plansem.rs

//%% include trusted/literal.rs
//%% include trusted/cnf_stub.rs

// ---- contract of src/builder/mod.rs `BottomUpBuilder` ----
pub trait BottomUpBuilder<'a, Ptr: DDNNFPtr> {
    /// builder invariant
    spec fn bu_inv(&self) -> bool;
    /// the pointer is a diagram of this builder (for BDDs: it respects the builder's variable order)
    spec fn ok(&self, p: Ptr) -> bool;
    /// the label is known to the builder
    spec fn lbl_ok(&self, l: VarLabel) -> bool;
    /// canonical-form predicate preserved by every operation (C02; for BDDs: `canon`)
    spec fn shape2(&self, p: Ptr) -> bool;

    /// the constants are diagrams of every builder
    proof fn consts_ok(&self)
        ensures forall|p: Ptr| #![trigger p.is_true_s()] #![trigger p.is_false_s()] (p.is_true_s() || p.is_false_s()) ==> self.ok(p) && self.shape2(p);

    fn true_ptr(&self) -> (r: Ptr)
        ensures
            self.ok(r),
            self.shape2(r), // #C02
            forall|env: Env| #![trigger tr(env)] #![trigger r.sem(env)] tr(env) ==> r.sem(env); // #SEM
    fn false_ptr(&self) -> (r: Ptr)
        ensures
            self.ok(r),
            self.shape2(r), // #C02
            forall|env: Env| #![trigger tr(env)] #![trigger r.sem(env)] tr(env) ==> !r.sem(env); // #SEM

    fn var(&'a self, label: VarLabel, polarity: bool) -> (r: Ptr)
        requires self.bu_inv(), self.lbl_ok(label),
        ensures
            self.ok(r),
            self.shape2(r), // #C02
            forall|env: Env| #![trigger tr(env)] #![trigger r.sem(env)] tr(env) ==> r.sem(env) == (env(label.0) == polarity); // #SEM

    /// the builder's equality test is the pointer type's `==` (for BddPtr: pointer identity, A-ptreq)
    fn eq(&'a self, a: Ptr, b: Ptr) -> (r: bool)
        ensures r == a.eq_spec(&b); // #C02

    fn and(&'a self, a: Ptr, b: Ptr) -> (r: Ptr)
        requires self.bu_inv(), self.ok(a), self.ok(b),
        ensures
            self.ok(r),
            self.shape2(a) && self.shape2(b) ==> self.shape2(r), // #C02
            forall|env: Env| #![trigger tr(env)] #![trigger r.sem(env)] tr(env) ==> r.sem(env) == (a.sem(env) && b.sem(env)); // #SEM

    /// the diagram of a clause list: exactly the assignments that satisfy every clause (empty list: true; an empty
    /// clause: false)
    fn compile_cnf(&'a self, cnf: &Cnf) -> (r: Ptr)
        requires
            self.bu_inv(),
            forall|i: int, j: int| 0 <= i < cnf.cls().len() && 0 <= j < cnf.cls()[i].len() ==> self.lbl_ok((#[trigger] cnf.cls()[i][j]).lbl),
        ensures
            self.ok(r),
            self.shape2(r), // #C02
            forall|env: Env| #![trigger tr(env)] #![trigger r.sem(env)] tr(env) ==> r.sem(env) == cnf_holds(cnf.cls(), env); // #SEM

//%% extract src/builder/mod.rs :: trait BottomUpBuilder<'a, Ptr> :: fn or
//%% @ret r
//%% @spec
        requires self.bu_inv(), self.ok(a), self.ok(b),
        ensures self.ok(r),
            self.shape2(a) && self.shape2(b) ==> self.shape2(r), // #C02
            forall|env: Env| #![trigger tr(env)] #![trigger r.sem(env)] tr(env) ==> r.sem(env) == (a.sem(env) || b.sem(env)), // #SEM
//%% end

    fn negate(&'a self, f: Ptr) -> (r: Ptr)
        requires self.bu_inv(), self.ok(f),
        ensures
            self.ok(r),
            self.shape2(f) ==> self.shape2(r), // #C02
            forall|env: Env| #![trigger tr(env)] #![trigger r.sem(env)] tr(env) ==> r.sem(env) == !f.sem(env); // #SEM

    fn ite(&'a self, f: Ptr, g: Ptr, h: Ptr) -> (r: Ptr)
        requires self.bu_inv(), self.ok(f), self.ok(g), self.ok(h),
        ensures
            self.ok(r),
            self.shape2(f) && self.shape2(g) && self.shape2(h) ==> self.shape2(r), // #C02
            forall|env: Env| #![trigger tr(env)] #![trigger r.sem(env)] tr(env) ==> r.sem(env) == ite3(f.sem(env), g.sem(env), h.sem(env)); // #SEM

    fn iff(&'a self, a: Ptr, b: Ptr) -> (r: Ptr)
        requires self.bu_inv(), self.ok(a), self.ok(b),
        ensures
            self.ok(r),
            self.shape2(a) && self.shape2(b) ==> self.shape2(r), // #C02
            forall|env: Env| #![trigger tr(env)] #![trigger r.sem(env)] tr(env) ==> r.sem(env) == (a.sem(env) == b.sem(env)); // #SEM

    fn xor(&'a self, a: Ptr, b: Ptr) -> (r: Ptr)
        requires self.bu_inv(), self.ok(a), self.ok(b),
        ensures
            self.ok(r),
            self.shape2(a) && self.shape2(b) ==> self.shape2(r), // #C02
            forall|env: Env| #![trigger tr(env)] #![trigger r.sem(env)] tr(env) ==> r.sem(env) == (a.sem(env) != b.sem(env)); // #SEM

    /// exists v. f  ==  f[v := true] or f[v := false]
    fn exists(&'a self, f: Ptr, v: VarLabel) -> (r: Ptr)
        requires self.bu_inv(), self.ok(f), self.lbl_ok(v),
        ensures self.ok(r), self.shape2(f) ==> self.shape2(r),
            forall|env: Env| #![trigger tr(env)] #![trigger r.sem(env)] tr(env) ==> r.sem(env) == (f.sem(upd(env, v.0, true)) || f.sem(upd(env, v.0, false))); // #SEM

    /// f | v = value
    fn condition(&'a self, a: Ptr, v: VarLabel, value: bool) -> (r: Ptr)
        requires self.bu_inv(), self.ok(a), self.lbl_ok(v),
        ensures
            self.ok(r),
            self.shape2(a) ==> self.shape2(r), // #C02
            forall|env: Env| #![trigger tr(env)] #![trigger r.sem(env)] tr(env) ==> r.sem(env) == a.sem(upd(env, v.0, value)); // #SEM

    /// the documented definition:  exists v. (v <=> g) /\ f
//%% extract src/builder/mod.rs :: trait BottomUpBuilder<'a, Ptr> :: fn compose
//%% @ret r
//%% @spec
        requires self.bu_inv(), self.ok(f), self.ok(g), self.lbl_ok(lbl),
        ensures self.ok(r),
            self.shape2(f) && self.shape2(g) ==> self.shape2(r), // #C02
            forall|env: Env| #![trigger tr(env)] #![trigger r.sem(env)] tr(env) ==> r.sem(env) == compose_def(f, lbl, g, env), // #SEM
//%% @entry
        proof { tr_all(); }
//%% end

//%% extract src/builder/mod.rs :: trait BottomUpBuilder<'a, Ptr> :: fn compile_logical_expr
//%% @attr #[verifier::exec_allows_no_decreases_clause]
//%% @ret r
//%% @spec
        requires self.bu_inv(), expr_ok(|l: VarLabel| self.lbl_ok(l), *expr),
        ensures
            self.ok(r),
            self.shape2(r), // #C02
            forall|env: Env| #![trigger tr(env)] #![trigger r.sem(env)] tr(env) ==> r.sem(env) == expr_sem(*expr, env), // #SEM
//%% end

//%% extract src/builder/mod.rs :: trait BottomUpBuilder<'a, Ptr> :: fn compile_plan
//%% @attr #[verifier::exec_allows_no_decreases_clause]
//%% @ret r
//%% @spec
        requires self.bu_inv(), plan_ok(|l: VarLabel| self.lbl_ok(l), *expr),
        ensures
            self.ok(r),
            self.shape2(r), // #C02
            forall|env: Env| #![trigger tr(env)] #![trigger r.sem(env)] tr(env) ==> r.sem(env) == plan_sem(*expr, env), // #SEM
//%% end
}

/// the Boolean meaning of a logical expression (literal x is variable x)
pub open spec fn expr_sem(e: LogicalExpr, env: Env) -> bool
    decreases e
{
    match e {
        LogicalExpr::Literal(l, p) => env(l as u64) == p,
        LogicalExpr::Not(a) => !expr_sem(*a, env),
        LogicalExpr::And(a, b) => expr_sem(*a, env) && expr_sem(*b, env),
        LogicalExpr::Or(a, b) => expr_sem(*a, env) || expr_sem(*b, env),
        LogicalExpr::Iff(a, b) => expr_sem(*a, env) == expr_sem(*b, env),
        LogicalExpr::Xor(a, b) => expr_sem(*a, env) != expr_sem(*b, env),
        LogicalExpr::Ite { guard, thn, els } => if expr_sem(*guard, env) { expr_sem(*thn, env) } else { expr_sem(*els, env) },
    }
}
/// every literal of the expression is a label the builder knows
pub open spec fn expr_ok(b: spec_fn(VarLabel) -> bool, e: LogicalExpr) -> bool
    decreases e
{
    match e {
        LogicalExpr::Literal(l, p) => b(VarLabel(l as u64)),
        LogicalExpr::Not(a) => expr_ok(b, *a),
        LogicalExpr::And(a, c) | LogicalExpr::Or(a, c) | LogicalExpr::Iff(a, c) | LogicalExpr::Xor(a, c) => expr_ok(b, *a) && expr_ok(b, *c),
        LogicalExpr::Ite { guard, thn, els } => expr_ok(b, *guard) && expr_ok(b, *thn) && expr_ok(b, *els),
    }
}
