// ---- the commutative-semiring hypothesis discharged for FiniteField<P> from the ring-law lemmas of unit ff ----
/// the reduced residues of FiniteField<P> form a commutative semiring under the operator specifications that unit ff
/// proves for the real `+` and `*`
pub proof fn lemma_csr_ff<const P: u128>()
    requires ff_ok::<P>(),
    ensures csr::<FiniteField<P>>(),
{
    reveal(csr);
    lemma_small_mod(0, P as nat);
    lemma_small_mod(1, P as nat);
    assert forall|a: FiniteField<P>, b: FiniteField<P>| a.valid() && b.valid() implies (#[trigger] AddSpec::add_spec(a, b)).valid() by { lemma_closed(a, b); }
    assert forall|a: FiniteField<P>, b: FiniteField<P>| a.valid() && b.valid() implies (#[trigger] MulSpec::mul_spec(a, b)).valid() by { lemma_closed(a, b); }
    assert forall|a: FiniteField<P>, b: FiniteField<P>| a.valid() && b.valid() implies #[trigger] AddSpec::add_spec(a, b) == AddSpec::add_spec(b, a) by { lemma_add_comm(a, b); }
    assert forall|a: FiniteField<P>, b: FiniteField<P>, c: FiniteField<P>| a.valid() && b.valid() && c.valid() implies #[trigger] AddSpec::add_spec(AddSpec::add_spec(a, b), c) == AddSpec::add_spec(a, AddSpec::add_spec(b, c)) by { lemma_add_assoc(a, b, c); }
    assert forall|a: FiniteField<P>| a.valid() implies #[trigger] AddSpec::add_spec(a, FiniteField::<P>::zero_s()) == a by { lemma_identities(a); }
    assert forall|a: FiniteField<P>, b: FiniteField<P>| a.valid() && b.valid() implies #[trigger] MulSpec::mul_spec(a, b) == MulSpec::mul_spec(b, a) by { lemma_mul_comm(a, b); }
    assert forall|a: FiniteField<P>, b: FiniteField<P>, c: FiniteField<P>| a.valid() && b.valid() && c.valid() implies #[trigger] MulSpec::mul_spec(MulSpec::mul_spec(a, b), c) == MulSpec::mul_spec(a, MulSpec::mul_spec(b, c)) by { lemma_mul_assoc(a, b, c); }
    assert forall|a: FiniteField<P>| a.valid() implies #[trigger] MulSpec::mul_spec(a, FiniteField::<P>::one_s()) == a by { lemma_identities(a); }
    assert forall|a: FiniteField<P>| a.valid() implies #[trigger] MulSpec::mul_spec(a, FiniteField::<P>::zero_s()) == FiniteField::<P>::zero_s() by { lemma_identities(a); }
    assert forall|a: FiniteField<P>, b: FiniteField<P>, c: FiniteField<P>| a.valid() && b.valid() && c.valid() implies #[trigger] MulSpec::mul_spec(a, AddSpec::add_spec(b, c)) == AddSpec::add_spec(MulSpec::mul_spec(a, b), MulSpec::mul_spec(a, c)) by { lemma_distrib(a, b, c); }
}

