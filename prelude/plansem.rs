// ---- src/plan/bottom_up_plan.rs: the plan type and THE definition of what a plan means (shared by units bottomup / builder / plan) ----
//%% extract src/plan/bottom_up_plan.rs :: - :: enum BottomUpPlan
//%% @pub
//%% end

pub open spec fn plan_sem(e: BottomUpPlan, env: Env) -> bool
    decreases e
{
    match e {
        BottomUpPlan::And(a, b) => plan_sem(*a, env) && plan_sem(*b, env),
        BottomUpPlan::Or(a, b) => plan_sem(*a, env) || plan_sem(*b, env),
        BottomUpPlan::Iff(a, b) => plan_sem(*a, env) == plan_sem(*b, env),
        BottomUpPlan::Ite(f, g, h) => if plan_sem(*f, env) { plan_sem(*g, env) } else { plan_sem(*h, env) },
        BottomUpPlan::Not(a) => !plan_sem(*a, env),
        BottomUpPlan::ConstTrue => true,
        BottomUpPlan::ConstFalse => false,
        BottomUpPlan::Literal(v, p) => env(v.0) == p,
    }
}
pub open spec fn plan_ok(b: spec_fn(VarLabel) -> bool, e: BottomUpPlan) -> bool
    decreases e
{
    match e {
        BottomUpPlan::And(a, c) | BottomUpPlan::Or(a, c) | BottomUpPlan::Iff(a, c) => plan_ok(b, *a) && plan_ok(b, *c),
        BottomUpPlan::Ite(f, g, h) => plan_ok(b, *f) && plan_ok(b, *g) && plan_ok(b, *h),
        BottomUpPlan::Not(a) => plan_ok(b, *a),
        BottomUpPlan::ConstTrue | BottomUpPlan::ConstFalse => true,
        BottomUpPlan::Literal(v, p) => b(v),
    }
}
