// ---- the ROBDD canonicity theorem for complement-edge diagrams, mechanised over the spec vocabulary (C02) ----
// Two diagrams that respect the same order, are reduced and in complement-edge normal form (`canon`), and denote the
// same function are the same diagram.  Together with the shape postconditions of every node-creating function this is
// the "only if" half of C02's first sentence inside the model; see DESIGN.md section 4 (A-addr) for what "the same
// diagram" means for addresses.

pub open spec fn dsize(p: BddPtr) -> nat
    decreases p
{
    match p {
        BddPtr::Reg(n) | BddPtr::Compl(n) => 1 + dsize(n.low) + dsize(n.high),
        _ => 0,
    }
}

pub open spec fn all_true() -> Env { |y: u64| true }

/// complement-edge normal form: a regular pointer is true on the all-true assignment, a complemented one false
pub proof fn lemma_alltrue(p: BddPtr)
    requires canon(p),
    ensures
        p is Reg ==> ptr_sem(p, all_true()),
        p is Compl ==> !ptr_sem(p, all_true()),
        p is PtrTrue ==> ptr_sem(p, all_true()),
    decreases p,
{
    match p {
        BddPtr::Reg(n) | BddPtr::Compl(n) => { lemma_alltrue(n.high); },
        _ => {},
    }
}

/// same function ==> same diagram
pub proof fn lemma_canonical_unique(f: BddPtr, g: BddPtr, o: VarOrder)
    requires
        o.wf(), ordered(f, o), ordered(g, o), canon(f), canon(g),
        forall|env: Env| ptr_sem(f, env) == ptr_sem(g, env),
    ensures f == g,
    decreases dsize(f) + dsize(g), 1nat,
{
    if is_node(f) && is_node(g) {
        let nf = node_of(f);
        let ng = node_of(g);
        if o.pos(nf.var) < o.pos(ng.var) {
            let env = lemma_depends(f, o);
            lemma_indep(g, o, nf.var, env, true);
            lemma_indep(g, o, nf.var, env, false);
            assert(false);
        } else if o.pos(ng.var) < o.pos(nf.var) {
            let env = lemma_depends(g, o);
            lemma_indep(f, o, ng.var, env, true);
            lemma_indep(f, o, ng.var, env, false);
            assert(false);
        } else {
            lemma_pos_inj(o, nf.var, ng.var);
            let v = nf.var;
            lemma_alltrue(f);
            lemma_alltrue(g);
            assert((f is Reg) == (g is Reg)) by { assert(ptr_sem(f, all_true()) == ptr_sem(g, all_true())); }
            assert forall|env: Env| ptr_sem(nf.high, env) == ptr_sem(ng.high, env) by {
                let e = upd(env, v.0, true);
                lemma_indep(nf.high, o, v, env, true);
                lemma_indep(ng.high, o, v, env, true);
                assert(ptr_sem(f, e) == ptr_sem(g, e));
            }
            assert forall|env: Env| ptr_sem(nf.low, env) == ptr_sem(ng.low, env) by {
                let e = upd(env, v.0, false);
                lemma_indep(nf.low, o, v, env, false);
                lemma_indep(ng.low, o, v, env, false);
                assert(ptr_sem(f, e) == ptr_sem(g, e));
            }
            lemma_canonical_unique(nf.high, ng.high, o);
            lemma_canonical_unique(nf.low, ng.low, o);
            assert(nf == ng);
        }
    } else if is_node(f) {
        let env = lemma_depends(f, o);
        assert(false);
    } else if is_node(g) {
        let env = lemma_depends(g, o);
        assert(false);
    } else {
        assert(ptr_sem(f, all_true()) == ptr_sem(g, all_true()));
    }
}

/// a canonical node really depends on its top variable (witness environment returned)
pub proof fn lemma_depends(p: BddPtr, o: VarOrder) -> (env: Env)
    requires o.wf(), ordered(p, o), canon(p), is_node(p),
    ensures ptr_sem(p, upd(env, node_of(p).var.0, true)) != ptr_sem(p, upd(env, node_of(p).var.0, false)),
    decreases dsize(p), 0nat,
{
    let n = node_of(p);
    axiom_bddptr_eq_equiv();
    assert(n.low != n.high);   // children are not the same pointer (reflexivity of pointer equality)
    if forall|e: Env| ptr_sem(n.high, e) == ptr_sem(n.low, e) {
        lemma_canonical_unique(n.high, n.low, o);
        assert(false);
    }
    let env = choose|e: Env| ptr_sem(n.high, e) != ptr_sem(n.low, e);
    lemma_indep(n.high, o, n.var, env, true);
    lemma_indep(n.low, o, n.var, env, false);
    env
}

/// C02, first sentence, inside the model: for canonical ordered diagrams, equal function <=> equal diagram <=> the
/// builder's equality test
pub proof fn lemma_eq_iff_same_function(f: BddPtr, g: BddPtr, o: VarOrder)
    requires o.wf(), ordered(f, o), ordered(g, o), canon(f), canon(g),
    ensures PartialEqSpec::eq_spec(&f, &g) <==> (forall|env: Env| ptr_sem(f, env) == ptr_sem(g, env)),
{
    axiom_bddptr_eq();
    axiom_bddptr_eq_equiv();
    if forall|env: Env| ptr_sem(f, env) == ptr_sem(g, env) {
        lemma_canonical_unique(f, g, o);
    }
}

/// THEOREM (C07, last sentence: "the variables each sub-function actually depends on"): in an ordered canonical diagram every variable
/// that is tested somewhere is a variable the denoted function depends on (witness environment returned); the converse is
/// lemma_unmentioned.  So the structural recursion the count is proved to be (one Shannon step per node on a path: wmc_spec) steps
/// through exactly the variables the sub-functions depend on.
pub proof fn lemma_mentions_essential(p: BddPtr, o: VarOrder, x: VarLabel) -> (env: Env)
    requires o.wf(), ordered(p, o), canon(p), mentions(p, x),
    ensures ptr_sem(p, upd(env, x.0, true)) != ptr_sem(p, upd(env, x.0, false)),
    decreases p,
{
    let n = node_of(p);
    if n.var == x {
        lemma_depends(p, o)
    } else {
        let (c, b) = if mentions(n.low, x) { (n.low, false) } else { (n.high, true) };
        let e = lemma_mentions_essential(c, o, x);
        let env = upd(e, n.var.0, b);
        assert forall|v: bool| ptr_sem(p, upd(env, x.0, v)) == ((p is Compl) != ptr_sem(c, upd(e, x.0, v))) by {
            let e1 = upd(env, x.0, v);
            let e2 = upd(upd(e, x.0, v), n.var.0, b);
            assert(e1 =~= e2);
            assert(e1(n.var.0) == b);
            lemma_indep(c, o, n.var, upd(e, x.0, v), b);
        }
        env
    }
}
/// ... and conversely (any diagram): a variable that is not tested is not depended on
pub proof fn lemma_essential_mentions(p: BddPtr, x: VarLabel, env: Env)
    requires ptr_sem(p, upd(env, x.0, true)) != ptr_sem(p, upd(env, x.0, false)),
    ensures mentions(p, x),
{
    if !mentions(p, x) { lemma_unmentioned(p, x, env, true); lemma_unmentioned(p, x, env, false); }
}
