// ---- contract of the pointer trait (src/repr/ddnnf.rs `DDNNFPtr`); proved for BddPtr in unit U-ptr ----
pub trait DDNNFPtr: Copy + PartialEq {
    /// the Boolean function denoted by the pointer
    spec fn sem(self, env: Env) -> bool;
    spec fn is_true_s(self) -> bool;
    spec fn is_false_s(self) -> bool;
    /// the pointer `neg` returns
    spec fn neg_s(self) -> Self;

    /// `==` on pointers implies equal denotation; constants denote constants
    proof fn eq_is_sem()
        ensures
            Self::obeys_eq_spec(),
            // `==` on pointers is (at least as fine as) structural equality of what they point to
            forall|a: Self, b: Self| #[trigger] a.eq_spec(&b) ==> a == b,
            forall|a: Self, b: Self, env: Env| #![trigger a.eq_spec(&b), tr(env)] a.eq_spec(&b) ==> a.sem(env) == b.sem(env),
            forall|a: Self, env: Env| #![trigger a.is_true_s(), tr(env)] a.is_true_s() ==> a.sem(env),
            forall|a: Self, env: Env| #![trigger a.is_false_s(), tr(env)] a.is_false_s() ==> !a.sem(env),
            forall|a: Self, env: Env| #![trigger a.neg_s().sem(env)] a.neg_s().sem(env) == !a.sem(env),
            forall|a: Self| #![trigger a.neg_s().neg_s()] a.neg_s().neg_s() == a,
            forall|a: Self| #![trigger a.neg_s()] (a.is_true_s() ==> a.neg_s().is_false_s()) && (a.is_false_s() ==> a.neg_s().is_true_s());

    fn neg(&self) -> (r: Self)
        ensures r == self.neg_s(), forall|env: Env| #[trigger] tr(env) ==> r.sem(env) == !self.sem(env);
    fn false_ptr() -> (r: Self)
        ensures r.is_false_s(), forall|env: Env| #[trigger] tr(env) ==> !r.sem(env);
    fn true_ptr() -> (r: Self)
        ensures r.is_true_s(), forall|env: Env| #[trigger] tr(env) ==> r.sem(env);
    fn is_true(&self) -> (b: bool)
        ensures b == self.is_true_s();
    fn is_false(&self) -> (b: bool)
        ensures b == self.is_false_s();
    fn is_neg(&self) -> (b: bool);
    /// number of nodes (a size heuristic for callers; nothing is claimed about the number)
    fn count_nodes(&self) -> (n: usize);
}
