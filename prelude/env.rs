// ---- shared specification vocabulary (DESIGN.md section 3) ----
pub type Env = spec_fn(u64) -> bool;

/// trigger marker: always true, opaque so that `forall|env| tr(env) ==> ..` has a usable trigger
#[verifier::opaque]
pub open spec fn tr(env: Env) -> bool { true }

pub open spec fn ite3(a: bool, b: bool, c: bool) -> bool { if a { b } else { c } }

pub open spec fn upd(env: Env, x: u64, v: bool) -> Env { |y: u64| if y == x { v } else { env(y) } }

pub proof fn tr_all()
    ensures forall|env: Env| #[trigger] tr(env)
{ reveal(tr); }
