// ---- mirror of src/util/semirings/semiring_traits.rs `Semiring` (Debug/Display supertraits dropped), with the spec-level
// constants the contracts need.  Shared by the units ff, poly and polyff.
pub trait Semiring: Copy + ops::Add<Self, Output = Self> + ops::Mul<Self, Output = Self> {
    spec fn one_s() -> Self;
    spec fn zero_s() -> Self;
    /// representation invariant of the type (used by the laws in prelude/polylaws.rs)
    spec fn valid(self) -> bool;
    /// side condition under which the arithmetic of the type is exact (e.g. the modulus of a finite field fits)
    spec fn ops_ok() -> bool;
    fn one() -> (r: Self) requires Self::ops_ok() ensures r == Self::one_s();
    fn zero() -> (r: Self) requires Self::ops_ok() ensures r == Self::zero_s();
}
