// ---- shape predicates over BDDs (C01 needs `ordered`; C02 additionally `canon`) ----

/// position of the top variable of p (terminals come after every variable)
pub open spec fn top(p: BddPtr, o: VarOrder) -> int { o.opos(p.var_s()) }
pub proof fn lemma_height_neg(p: BddPtr)
    ensures height(p.neg_s()) == height(p),
{}
/// height of a diagram (termination measure of the recursive builder functions)
pub open spec fn height(p: BddPtr) -> nat
    decreases p
{
    match p {
        BddPtr::Reg(n) => 1 + (if height(n.low) >= height(n.high) { height(n.low) } else { height(n.high) }),
        BddPtr::Compl(n) => 1 + (if height(n.low) >= height(n.high) { height(n.low) } else { height(n.high) }),
        _ => 0,
    }
}
pub open spec fn min3(a: int, b: int, c: int) -> int { if a <= b && a <= c { a } else if b <= c { b } else { c } }

/// the top variable of p comes strictly after position k in the order
pub open spec fn below(p: BddPtr, o: VarOrder, k: int) -> bool { top(p, o) > k }

/// every variable of p is in the order, and on every path positions strictly increase
pub open spec fn ordered(p: BddPtr, o: VarOrder) -> bool
    decreases p
{
    match p {
        BddPtr::Reg(n) | BddPtr::Compl(n) =>
            o.has(n.var) && ordered(n.low, o) && ordered(n.high, o)
            && below(n.low, o, o.pos(n.var)) && below(n.high, o, o.pos(n.var)),
        _ => true,
    }
}
pub open spec fn ordered_node(n: BddNode, o: VarOrder) -> bool {
    o.has(n.var) && ordered(n.low, o) && ordered(n.high, o)
    && below(n.low, o, o.pos(n.var)) && below(n.high, o, o.pos(n.var))
}

/// complement-edge normal form and reduction, at every node: the high edge is neither complemented nor
/// the false terminal, and the two children are not the same pointer
pub open spec fn canon(p: BddPtr) -> bool
    decreases p
{
    match p {
        BddPtr::Reg(n) | BddPtr::Compl(n) =>
            canon(n.low) && canon(n.high)
            && !(n.high is Compl) && !(n.high is PtrFalse)
            && !PartialEqSpec::eq_spec(&n.low, &n.high),
        _ => true,
    }
}

pub proof fn lemma_pos_inj(o: VarOrder, a: VarLabel, b: VarLabel)
    requires o.wf(), o.has(a), o.has(b), o.pos(a) == o.pos(b),
    ensures a == b,
{
    reveal(VarOrder::wf);
    assert(o.pos_to_var[o.var_to_pos[a.0 as int] as int] == a.0 as int);
    assert(o.pos_to_var[o.var_to_pos[b.0 as int] as int] == b.0 as int);
}

/// an ordered diagram does not depend on a variable that comes before its root
pub proof fn lemma_indep(p: BddPtr, o: VarOrder, x: VarLabel, env: Env, v: bool)
    requires o.wf(), ordered(p, o), o.has(x), below(p, o, o.pos(x)),
    ensures ptr_sem(p, upd(env, x.0, v)) == ptr_sem(p, env),
    decreases p,
{
    match p {
        BddPtr::Reg(n) | BddPtr::Compl(n) => {
            assert(n.var != x);
            lemma_indep(n.low, o, x, env, v);
            lemma_indep(n.high, o, x, env, v);
        },
        _ => {},
    }
}

/// o2 extends o: every label of o keeps its position (run-time variable addition)
pub open spec fn extends(o2: VarOrder, o: VarOrder) -> bool {
    forall|v: VarLabel| o.has(v) ==> o2.has(v) && #[trigger] o2.pos(v) == o.pos(v)
}
pub proof fn lemma_ordered_extend(p: BddPtr, o: VarOrder, o2: VarOrder)
    requires ordered(p, o), extends(o2, o),
    ensures ordered(p, o2),
    decreases p,
{
    reveal_with_fuel(ordered, 2);
    match p {
        BddPtr::Reg(n) | BddPtr::Compl(n) => {
            lemma_ordered_extend(n.low, o, o2);
            lemma_ordered_extend(n.high, o, o2);
            assert(o2.pos(n.var) == o.pos(n.var));
            if is_node(n.low) { assert(o2.pos(node_of(n.low).var) == o.pos(node_of(n.low).var)); }
            if is_node(n.high) { assert(o2.pos(node_of(n.high).var) == o.pos(node_of(n.high).var)); }
        },
        _ => {},
    }
}

/// negation keeps every shape property (it only flips the tag of the root pointer)
pub proof fn lemma_neg_shape(o: VarOrder)
    ensures
        forall|p: BddPtr| #![trigger p.neg_s()]
            ordered(p.neg_s(), o) == ordered(p, o) && canon(p.neg_s()) == canon(p)
            && is_node(p.neg_s()) == is_node(p) && (is_node(p) ==> node_of(p.neg_s()) == node_of(p))
            && top(p.neg_s(), o) == top(p, o),
{
}

pub proof fn lemma_neg_canon()
    ensures forall|p: BddPtr| #![trigger p.neg_s()] canon(p.neg_s()) == canon(p),
{
}

/// shape part of the `ite` contract: the result respects the order and its top variable is not before all
/// of the arguments' top variables
pub open spec fn res_shape(f: BddPtr, g: BddPtr, h: BddPtr, r: BddPtr, o: VarOrder) -> bool {
    &&& ordered(r, o)
    &&& top(r, o) >= min3(top(f, o), top(g, o), top(h, o))
}
/// canonical arguments give a canonical result (C02)
pub open spec fn res_canon(f: BddPtr, g: BddPtr, h: BddPtr, r: BddPtr) -> bool {
    canon(f) && canon(g) && canon(h) ==> canon(r)
}

/// on every path from p the variables at levels k, k+1, .., n-1 are tested exactly once, in this order
pub open spec fn smooth_from(p: BddPtr, k: int, n: int, o: VarOrder) -> bool
    decreases n - k
{
    if k >= n { true } else {
        is_node(p) && 0 <= k < o.pos_to_var.len() && node_of(p).var.0 == o.pos_to_var[k]
        && smooth_from(node_of(p).low, k + 1, n, o) && smooth_from(node_of(p).high, k + 1, n, o)
    }
}
pub proof fn lemma_smooth_neg(o: VarOrder)
    ensures forall|p: BddPtr, k: int, n: int| #![trigger smooth_from(p.neg_s(), k, n, o)] smooth_from(p.neg_s(), k, n, o) == smooth_from(p, k, n, o),
{
}
