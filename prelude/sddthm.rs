// ---- the counting theorem for SDDs (C07), RELATIVE to the structural invariant of property C04 taken as a hypothesis (`sdd_ok`):
// at every decision node the primes are mutually exclusive and jointly exhaustive, and a prime shares no variable with its sub ----

/// the Boolean function an SDD pointer denotes, complemented when c (structural; independent of any library evaluator)
pub open spec fn sdd_sem(p: SddPtr, c: bool, env: Env) -> bool
    decreases p, 0int, 0int
{
    match p {
        SddPtr::PtrTrue => !c,
        SddPtr::PtrFalse => c,
        SddPtr::Var(v, pol) => (env(v.0) == pol) != c,
        SddPtr::BDD(b) => (if env(b.label.0) { sdd_sem(b.high, false, env) } else { sdd_sem(b.low, false, env) }) != c,
        SddPtr::ComplBDD(b) => (if env(b.label.0) { sdd_sem(b.high, false, env) } else { sdd_sem(b.low, false, env) }) == c,
        SddPtr::Reg(o) => ex_el(o.nodes@, o.nodes@.len() as int, false, env) != c,
        SddPtr::Compl(o) => ex_el(o.nodes@, o.nodes@.len() as int, false, env) == c,
    }
}
/// some element among the first k has its prime true and its sub (complemented when c) true
pub open spec fn ex_el(s: Seq<SddAnd>, k: int, c: bool, env: Env) -> bool
    decreases s, k, 1int
{
    if k <= 0 || k > s.len() { false } else { ex_el(s, k - 1, c, env) || (sdd_sem(s[k - 1].prime, false, env) && sdd_sem(s[k - 1].sub, c, env)) }
}
pub open spec fn vdisjoint(a: SddPtr, b: SddPtr) -> bool { forall|v: VarLabel| !(#[trigger] sdd_mentions(a, v) && sdd_mentions(b, v)) }
/// the primes of the elements are mutually exclusive and jointly exhaustive
pub open spec fn partition(s: Seq<SddAnd>) -> bool {
    &&& forall|e: Env| #[trigger] tr(e) ==> exists|i: int| 0 <= i < s.len() && sdd_sem((#[trigger] s[i]).prime, false, e)
    &&& forall|e: Env, i: int, j: int| #![trigger tr(e), s[i], s[j]] 0 <= i < j < s.len() ==> !(sdd_sem(s[i].prime, false, e) && sdd_sem(s[j].prime, false, e))
}
/// HYPOTHESIS of the SDD theorem (what C04 states of every SDD the compressing builder returns; not proved here)
pub open spec fn sdd_ok(p: SddPtr) -> bool
    decreases p, 0int
{
    match p {
        SddPtr::BDD(b) | SddPtr::ComplBDD(b) => sdd_ok(b.low) && sdd_ok(b.high) && !sdd_mentions(b.low, b.label) && !sdd_mentions(b.high, b.label),
        SddPtr::Reg(o) | SddPtr::Compl(o) => elems_ok(o.nodes@, o.nodes@.len() as int) && partition(o.nodes@),
        _ => true,
    }
}
pub open spec fn elems_ok(s: Seq<SddAnd>, k: int) -> bool
    decreases s, k
{
    if k <= 0 || k > s.len() { true } else { elems_ok(s, k - 1) && sdd_ok(s[k - 1].prime) && sdd_ok(s[k - 1].sub) && vdisjoint(s[k - 1].prime, s[k - 1].sub) }
}
pub open spec fn ind<T: Semiring>(b: bool) -> T { if b { T::one_s() } else { T::zero_s() } }
pub open spec fn sind<T: Semiring>(p: SddPtr, c: bool) -> GF<T> { |e: Env| ind::<T>(sdd_sem(p, c, e)) }
pub open spec fn swmc<T: Semiring>(p: SddPtr, c: bool, w: W<T>) -> T { sfs(p, c, wmc_alg(w, T::one_s(), T::zero_s())) }
pub open spec fn gmul<T: Semiring>(g1: GF<T>, g2: GF<T>) -> GF<T> { |e: Env| g1(e).mul_spec(g2(e)) }

pub proof fn lemma_sdd_sem_flip(p: SddPtr, c: bool, e: Env)
    ensures sdd_sem(p, !c, e) == !sdd_sem(p, c, e)
{}
/// an SDD does not depend on a variable it does not mention
pub proof fn lemma_sdd_indep(p: SddPtr, c: bool, v: VarLabel, e: Env, b: bool)
    requires !sdd_mentions(p, v),
    ensures sdd_sem(p, c, upd(e, v.0, b)) == sdd_sem(p, c, e),
    decreases p, 0int, 0int,
{
    match p {
        SddPtr::BDD(n) | SddPtr::ComplBDD(n) => { lemma_sdd_indep(n.low, false, v, e, b); lemma_sdd_indep(n.high, false, v, e, b); },
        SddPtr::Reg(o) | SddPtr::Compl(o) => { lemma_elems_indep(o.nodes@, o.nodes@.len() as int, v, e, b); },
        _ => {},
    }
}
pub proof fn lemma_elems_indep(s: Seq<SddAnd>, k: int, v: VarLabel, e: Env, b: bool)
    requires !sdd_mentions_elems(s, k, v),
    ensures ex_el(s, k, false, upd(e, v.0, b)) == ex_el(s, k, false, e),
    decreases s, k, 1int,
{
    if 0 < k <= s.len() {
        lemma_elems_indep(s, k - 1, v, e, b);
        lemma_sdd_indep(s[k - 1].prime, false, v, e, b);
        lemma_sdd_indep(s[k - 1].sub, false, v, e, b);
    }
}
pub proof fn lemma_sind_indep<T: Semiring>(p: SddPtr, c: bool, v: VarLabel)
    requires !sdd_mentions(p, v),
    ensures indep(sind::<T>(p, c), v.0),
{
    assert forall|e: Env, b: bool| #[trigger] sind::<T>(p, c)(upd(e, v.0, b)) == sind::<T>(p, c)(e) by { lemma_sdd_indep(p, c, v, e, b); }
}

/// the sum of a product is the product of the sums when no summed variable matters to both factors (weights normalised)
pub proof fn zsum_product<T: Semiring>(g1: GF<T>, g2: GF<T>, w: W<T>, vs: Seq<u64>, env: Env)
    requires
        csr::<T>(), wv(w), gv(g1), gv(g2), distinct(vs),
        forall|i: int| 0 <= i < vs.len() ==> normalised(w, #[trigger] vs[i]),
        forall|i: int| 0 <= i < vs.len() ==> indep(g1, #[trigger] vs[i]) || indep(g2, vs[i]),
    ensures zsum(gmul(g1, g2), w, vs, env) == zsum(g1, w, vs, env).mul_spec(zsum(g2, w, vs, env)),
    decreases vs.len(),
{
    if vs.len() > 0 {
        let v = vs.last(); let r = vs.drop_last();
        assert(vs[vs.len() - 1] == v);
        let e0 = upd(env, v, false); let e1 = upd(env, v, true);
        assert(distinct(r)) by { assert forall|i: int, j: int| 0 <= i < j < r.len() implies r[i] != r[j] by { assert(vs[i] != vs[j]); } }
        assert forall|i: int| 0 <= i < r.len() implies normalised(w, #[trigger] r[i]) && (indep(g1, r[i]) || indep(g2, r[i])) by { assert(vs[i] == r[i]); }
        assert(!r.contains(v)) by { if r.contains(v) { let i = choose|i: int| 0 <= i < r.len() && r[i] == v; assert(vs[i] == v); } }
        zsum_product(g1, g2, w, r, e0); zsum_product(g1, g2, w, r, e1);
        zsum_valid(g1, w, r, e0); zsum_valid(g1, w, r, e1); zsum_valid(g2, w, r, e0); zsum_valid(g2, w, r, e1); zsum_valid(g1, w, r, env); zsum_valid(g2, w, r, env);
        let a0 = zsum(g1, w, r, e0); let a1 = zsum(g1, w, r, e1); let b0 = zsum(g2, w, r, e0); let b1 = zsum(g2, w, r, e1);
        let l = w(v).0; let h = w(v).1;
        if indep(g1, v) {
            zsum_indep(g1, w, r, env, v, false); zsum_indep(g1, w, r, env, v, true);
            let a = zsum(g1, w, r, env);
            // l*(a*b0) + h*(a*b1) == a*(l*b0 + h*b1),  and  l*a + h*a == a
            c_closed(l, b0); c_closed(h, b1); c_closed(a, b0); c_closed(a, b1);
            c_mul_assoc(l, a, b0); c_mul_comm(l, a); c_mul_assoc(a, l, b0);
            c_mul_assoc(h, a, b1); c_mul_comm(h, a); c_mul_assoc(a, h, b1);
            c_distr(a, l.mul_spec(b0), h.mul_spec(b1));
            c_distr(a, l, h); c_mul_one(a);
            c_mul_comm(a, l); c_mul_comm(a, h);
        } else {
            zsum_indep(g2, w, r, env, v, false); zsum_indep(g2, w, r, env, v, true);
            let b = zsum(g2, w, r, env);
            // l*(a0*b) + h*(a1*b) == (l*a0 + h*a1)*b,  and  l*b + h*b == b
            c_closed(l, a0); c_closed(h, a1); c_closed(a0, b); c_closed(a1, b);
            c_mul_assoc(l, a0, b); c_mul_assoc(h, a1, b);
            c_distr(b, l.mul_spec(a0), h.mul_spec(a1));
            c_distr(b, l, h); c_mul_one(b);
            c_mul_comm(b, l); c_mul_comm(b, h);
        }
    }
}

/// pointwise: the sum over the first k elements of  [prime] * [sub, complemented when c]
pub open spec fn gel<T: Semiring>(el: Seq<SddAnd>, k: int, c: bool) -> GF<T>
    decreases k
{
    if k <= 0 { |e: Env| T::zero_s() } else { gadd(gel::<T>(el, k - 1, c), gmul(sind::<T>(el[k - 1].prime, false), sind::<T>(el[k - 1].sub, c))) }
}
pub proof fn lemma_gel_valid<T: Semiring>(el: Seq<SddAnd>, k: int, c: bool)
    requires csr::<T>(), 0 <= k <= el.len(),
    ensures gv(gel::<T>(el, k, c)),
    decreases k,
{
    c_consts::<T>();
    if k > 0 {
        lemma_gel_valid::<T>(el, k - 1, c);
        assert forall|e: Env| (#[trigger] gel::<T>(el, k, c)(e)).valid() by {
            let x = gel::<T>(el, k - 1, c)(e);
            c_closed(sind::<T>(el[k - 1].prime, false)(e), sind::<T>(el[k - 1].sub, c)(e));
            c_closed(x, sind::<T>(el[k - 1].prime, false)(e).mul_spec(sind::<T>(el[k - 1].sub, c)(e)));
        }
    }
}
/// the IH facts about the elements, for every environment
pub open spec fn el_ih<T: Semiring>(el: Seq<SddAnd>, k: int, c: bool, w: W<T>, vs: Seq<u64>) -> bool {
    forall|i: int, e: Env| #![trigger zsum(sind::<T>(el[i].prime, false), w, vs, e)] 0 <= i < k ==>
        swmc(el[i].prime, false, w) == zsum(sind::<T>(el[i].prime, false), w, vs, e) && swmc(el[i].sub, c, w) == zsum(sind::<T>(el[i].sub, c), w, vs, e)
        && swmc(el[i].prime, false, w).valid() && swmc(el[i].sub, c, w).valid()
}
/// LEMMA A: the fold of the first k elements is the sum of `gel`
pub proof fn lemma_elems_zsum<T: Semiring>(el: Seq<SddAnd>, k: int, c: bool, w: W<T>, vs: Seq<u64>, env: Env)
    requires
        csr::<T>(), wv(w), distinct(vs), 0 <= k <= el.len(),
        forall|i: int| 0 <= i < vs.len() ==> normalised(w, #[trigger] vs[i]),
        el_ih(el, k, c, w, vs),
        forall|i: int| 0 <= i < k ==> vdisjoint((#[trigger] el[i]).prime, el[i].sub),
    ensures
        sfs_elems(el, k, c, wmc_alg(w, T::one_s(), T::zero_s())) == zsum(gel::<T>(el, k, c), w, vs, env),
        sfs_elems(el, k, c, wmc_alg(w, T::one_s(), T::zero_s())).valid(),
    decreases k,
{
    reveal(tr);
    c_consts::<T>();
    let alg = wmc_alg(w, T::one_s(), T::zero_s());
    if k == 0 {
        zsum_const(gel::<T>(el, 0, c), T::zero_s(), w, vs, env);
    } else {
        lemma_elems_zsum(el, k - 1, c, w, vs, env);
        let p = el[k - 1].prime; let sb = el[k - 1].sub;
        let g1 = sind::<T>(p, false); let g2 = sind::<T>(sb, c);
        let ghost kk = k - 1;
        assert(swmc(el[kk].prime, false, w) == zsum(sind::<T>(el[kk].prime, false), w, vs, env));
        assert(swmc(el[kk].sub, c, w) == zsum(sind::<T>(el[kk].sub, c), w, vs, env));
        assert(gv(g1) && gv(g2));
        assert forall|i: int| 0 <= i < vs.len() implies indep(g1, #[trigger] vs[i]) || indep(g2, vs[i]) by {
            let v = VarLabel(vs[i]);
            assert(vdisjoint(p, sb));
            if !sdd_mentions(p, v) { lemma_sind_indep::<T>(p, false, v); } else { assert(!sdd_mentions(sb, v)); lemma_sind_indep::<T>(sb, c, v); }
        }
        zsum_product(g1, g2, w, vs, env);
        lemma_gel_valid::<T>(el, k - 1, c);
        assert(gv(gmul(g1, g2))) by { assert forall|e: Env| (#[trigger] gmul(g1, g2)(e)).valid() by { c_closed(g1(e), g2(e)); } }
        zsum_add(gel::<T>(el, k - 1, c), gmul(g1, g2), w, vs, env);
        c_closed(swmc(p, false, w), swmc(sb, c, w));
        c_closed(sfs_elems(el, k - 1, c, alg), swmc(p, false, w).mul_spec(swmc(sb, c, w)));
    }
}
/// a witness of ex_el
pub proof fn lemma_ex_witness(el: Seq<SddAnd>, k: int, c: bool, e: Env)
    requires 0 <= k <= el.len(),
    ensures ex_el(el, k, c, e) == (exists|i: int| 0 <= i < k && sdd_sem((#[trigger] el[i]).prime, false, e) && sdd_sem(el[i].sub, c, e)),
    decreases k,
{
    if k > 0 {
        lemma_ex_witness(el, k - 1, c, e);
        if ex_el(el, k, c, e) {
            if ex_el(el, k - 1, c, e) {
                let i = choose|i: int| 0 <= i < k - 1 && sdd_sem((#[trigger] el[i]).prime, false, e) && sdd_sem(el[i].sub, c, e);
                assert(0 <= i < k && sdd_sem(el[i].prime, false, e) && sdd_sem(el[i].sub, c, e));
            } else {
                assert(sdd_sem(el[k - 1].prime, false, e) && sdd_sem(el[k - 1].sub, c, e));
            }
        }
        if exists|i: int| 0 <= i < k && sdd_sem((#[trigger] el[i]).prime, false, e) && sdd_sem(el[i].sub, c, e) {
            let i = choose|i: int| 0 <= i < k && sdd_sem((#[trigger] el[i]).prime, false, e) && sdd_sem(el[i].sub, c, e);
            if i < k - 1 { assert(ex_el(el, k - 1, c, e)); }
        }
    }
}
/// LEMMA B: with mutually exclusive primes, `gel` is pointwise the indicator of "some element is true"
pub proof fn lemma_gel_pointwise<T: Semiring>(el: Seq<SddAnd>, k: int, c: bool, e: Env)
    requires
        csr::<T>(), 0 <= k <= el.len(),
        forall|i: int, j: int| 0 <= i < j < el.len() ==> !(sdd_sem((#[trigger] el[i]).prime, false, e) && sdd_sem((#[trigger] el[j]).prime, false, e)),
    ensures gel::<T>(el, k, c)(e) == ind::<T>(ex_el(el, k, c, e)),
    decreases k,
{
    c_consts::<T>();
    if k > 0 {
        lemma_gel_pointwise::<T>(el, k - 1, c, e);
        lemma_ex_witness(el, k - 1, c, e);
        let pk = sdd_sem(el[k - 1].prime, false, e); let sk = sdd_sem(el[k - 1].sub, c, e);
        c_mul_one(T::one_s()); c_mul_zero(T::one_s()); c_mul_zero(T::zero_s());
        c_add_zero(T::one_s()); c_add_zero(T::zero_s());
        if ex_el(el, k - 1, c, e) {
            let i = choose|i: int| 0 <= i < k - 1 && sdd_sem((#[trigger] el[i]).prime, false, e) && sdd_sem(el[i].sub, c, e);
            assert(!(sdd_sem(el[i].prime, false, e) && sdd_sem(el[k - 1].prime, false, e)));
            assert(!pk);
        }
    }
}
/// LEMMA C: with primes that partition the assignments, complementing every sub complements the node
pub proof fn lemma_ex_flip(el: Seq<SddAnd>, e: Env)
    requires partition(el),
    ensures ex_el(el, el.len() as int, true, e) == !ex_el(el, el.len() as int, false, e),
{
    reveal(tr);
    let n = el.len() as int;
    lemma_ex_witness(el, n, true, e); lemma_ex_witness(el, n, false, e);
    assert(tr(e));
    let i0 = choose|i: int| 0 <= i < el.len() && sdd_sem((#[trigger] el[i]).prime, false, e);
    if ex_el(el, n, true, e) && ex_el(el, n, false, e) {
        let i = choose|i: int| 0 <= i < n && sdd_sem((#[trigger] el[i]).prime, false, e) && sdd_sem(el[i].sub, true, e);
        let j = choose|j: int| 0 <= j < n && sdd_sem((#[trigger] el[j]).prime, false, e) && sdd_sem(el[j].sub, false, e);
        lemma_sdd_sem_flip(el[i].sub, false, e);
        if i < j { assert(!(sdd_sem(el[i].prime, false, e) && sdd_sem(el[j].prime, false, e))); }
        if j < i { assert(!(sdd_sem(el[j].prime, false, e) && sdd_sem(el[i].prime, false, e))); }
    }
    if !ex_el(el, n, true, e) && !ex_el(el, n, false, e) {
        lemma_sdd_sem_flip(el[i0].sub, false, e);
        assert(sdd_sem(el[i0].prime, false, e));
    }
}

/// a literal leaf
pub proof fn lemma_var_leaf<T: Semiring>(v: VarLabel, pol: bool, c: bool, w: W<T>, vs: Seq<u64>, env: Env)
    requires csr::<T>(), wv(w), distinct(vs), vs.contains(v.0), forall|i: int| 0 <= i < vs.len() ==> normalised(w, #[trigger] vs[i]),
    ensures swmc(SddPtr::Var(v, pol), c, w) == zsum(sind::<T>(SddPtr::Var(v, pol), c), w, vs, env), swmc(SddPtr::Var(v, pol), c, w).valid(),
{
    c_consts::<T>();
    let p = SddPtr::Var(v, pol);
    let g = sind::<T>(p, c);
    let kh = ind::<T>((true == pol) != c); let kl = ind::<T>((false == pol) != c);
    let gh: GF<T> = |e: Env| kh; let gl: GF<T> = |e: Env| kl;
    assert(gv(gl) && gv(gh));
    assert(indep(gl, v.0) && indep(gh, v.0));
    let i = choose|i: int| 0 <= i < vs.len() && vs[i] == v.0;
    assert(normalised(w, vs[i]));
    assert forall|e: Env| #[trigger] g(e) == (if e(v.0) { gh(e) } else { gl(e) }) by {}
    zsum_shannon(g, gl, gh, w, vs, env, v.0);
    zsum_const(gl, kl, w, vs, env); zsum_const(gh, kh, w, vs, env);
    c_mul_one(w(v.0).0); c_mul_one(w(v.0).1); c_mul_zero(w(v.0).0); c_mul_zero(w(v.0).1);
    c_add_zero(w(v.0).0); c_add_zero(w(v.0).1);
}
/// the two elements of a binary node partition the assignments
pub proof fn lemma_bdd_partition(p: SddPtr)
    requires p is BDD || p is ComplBDD,
    ensures partition(sdd_elems(p)), sdd_elems(p).len() == 2,
{
    let el = sdd_elems(p);
    let l = match p { SddPtr::BDD(b) => b.label, SddPtr::ComplBDD(b) => b.label, _ => arbitrary() };
    assert forall|e: Env| #[trigger] tr(e) implies exists|i: int| 0 <= i < el.len() && sdd_sem((#[trigger] el[i]).prime, false, e) by {
        if e(l.0) { assert(sdd_sem(el[0].prime, false, e)); } else { assert(sdd_sem(el[1].prime, false, e)); }
    }
}
/// the value of a decision node is "some element is true", with the complement pushed to the subs
pub proof fn lemma_node_sem(p: SddPtr, c: bool, e: Env)
    requires sdd_is_node(p), partition(sdd_elems(p)),
    ensures sdd_sem(p, c, e) == ex_el(sdd_elems(p), sdd_elems(p).len() as int, c != sdd_is_neg(p), e),
{
    let el = sdd_elems(p); let n = el.len() as int;
    lemma_ex_flip(el, e);
    match p {
        SddPtr::BDD(b) | SddPtr::ComplBDD(b) => {
            let cc = (c != sdd_is_neg(p));
            lemma_sdd_sem_flip(b.high, false, e); lemma_sdd_sem_flip(b.low, false, e);
            assert(ex_el(el, 0, cc, e) == false);
            assert(ex_el(el, 1, cc, e) == (ex_el(el, 0, cc, e) || (sdd_sem(el[0].prime, false, e) && sdd_sem(el[0].sub, cc, e))));
            assert(ex_el(el, 2, cc, e) == (ex_el(el, 1, cc, e) || (sdd_sem(el[1].prime, false, e) && sdd_sem(el[1].sub, cc, e))));
        },
        _ => {},
    }
}
/// the node case, from the facts about the elements
pub proof fn lemma_node_finish<T: Semiring>(p: SddPtr, c: bool, w: W<T>, vs: Seq<u64>, env: Env)
    requires
        csr::<T>(), wv(w), distinct(vs), sdd_is_node(p), partition(sdd_elems(p)),
        forall|i: int| 0 <= i < vs.len() ==> normalised(w, #[trigger] vs[i]),
        el_ih(sdd_elems(p), sdd_elems(p).len() as int, c != sdd_is_neg(p), w, vs),
        forall|i: int| 0 <= i < sdd_elems(p).len() ==> vdisjoint((#[trigger] sdd_elems(p)[i]).prime, sdd_elems(p)[i].sub),
    ensures swmc(p, c, w) == zsum(sind::<T>(p, c), w, vs, env), swmc(p, c, w).valid(),
{
    reveal(tr);
    let el = sdd_elems(p); let n = el.len() as int; let cc = (c != sdd_is_neg(p));
    let alg = wmc_alg(w, T::one_s(), T::zero_s());
    lemma_sfs_node(p, c, alg);
    lemma_elems_zsum(el, n, cc, w, vs, env);
    assert(gel::<T>(el, n, cc) =~= sind::<T>(p, c)) by {
        assert forall|e: Env| #[trigger] gel::<T>(el, n, cc)(e) == sind::<T>(p, c)(e) by {
            assert(tr(e));
            assert forall|i: int, j: int| 0 <= i < j < el.len() implies !(sdd_sem((#[trigger] el[i]).prime, false, e) && sdd_sem((#[trigger] el[j]).prime, false, e)) by {}
            lemma_gel_pointwise::<T>(el, n, cc, e);
            lemma_node_sem(p, c, e);
        }
    }
}
/// THEOREM (C07 for SDD pointers, relative to C04's invariant `sdd_ok`): for an SDD whose decision nodes have primes that
/// partition the assignments and share no variable with their subs, any duplicate-free listing of variables that contains
/// its variables and weights with low + high == one on them, the count the fold computes (swmc = the structural fold that the
/// real memoised SddPtr::fold is proved to return, under the counting algebra) equals the sum over all assignments of the
/// listed variables of the product of the chosen literal weights times the indicator of the denoted function
pub proof fn sdd_wmc_theorem<T: Semiring>(p: SddPtr, c: bool, w: W<T>, vs: Seq<u64>, env: Env)
    requires
        csr::<T>(), wv(w), distinct(vs), sdd_ok(p),
        forall|x: VarLabel| sdd_mentions(p, x) ==> vs.contains(x.0),
        forall|i: int| 0 <= i < vs.len() ==> normalised(w, #[trigger] vs[i]),
    ensures swmc(p, c, w) == zsum(sind::<T>(p, c), w, vs, env), swmc(p, c, w).valid(),
    decreases p, 0int, 0int,
{
    c_consts::<T>();
    match p {
        SddPtr::PtrTrue => { zsum_const(sind::<T>(p, c), ind::<T>(!c), w, vs, env); },
        SddPtr::PtrFalse => { zsum_const(sind::<T>(p, c), ind::<T>(c), w, vs, env); },
        SddPtr::Var(v, pol) => { assert(sdd_mentions(p, v)); lemma_var_leaf(v, pol, c, w, vs, env); },
        SddPtr::BDD(b) | SddPtr::ComplBDD(b) => {
            let el = sdd_elems(p); let cc = (c != sdd_is_neg(p));
            lemma_bdd_partition(p);
            assert(sdd_mentions(p, b.label));
            assert forall|x: VarLabel| sdd_mentions(b.high, x) || sdd_mentions(b.low, x) implies vs.contains(x.0) by { assert(sdd_mentions(p, x)); }
            assert(el_ih(el, 2, cc, w, vs)) by {
                assert forall|i: int, e: Env| 0 <= i < 2 implies
                    swmc(el[i].prime, false, w) == #[trigger] zsum(sind::<T>(el[i].prime, false), w, vs, e) && swmc(el[i].sub, cc, w) == zsum(sind::<T>(el[i].sub, cc), w, vs, e)
                    && swmc(el[i].prime, false, w).valid() && swmc(el[i].sub, cc, w).valid() by {
                    if i == 0 { lemma_var_leaf(b.label, true, false, w, vs, e); sdd_wmc_theorem(b.high, cc, w, vs, e); }
                    else { lemma_var_leaf(b.label, false, false, w, vs, e); sdd_wmc_theorem(b.low, cc, w, vs, e); }
                }
            }
            assert forall|i: int| 0 <= i < el.len() implies vdisjoint((#[trigger] el[i]).prime, el[i].sub) by {
                if i == 0 { assert forall|v: VarLabel| !(#[trigger] sdd_mentions(el[0].prime, v) && sdd_mentions(el[0].sub, v)) by {} }
                else { assert forall|v: VarLabel| !(#[trigger] sdd_mentions(el[1].prime, v) && sdd_mentions(el[1].sub, v)) by {} }
            }
            lemma_node_finish(p, c, w, vs, env);
        },
        SddPtr::Reg(o) | SddPtr::Compl(o) => {
            let el = sdd_elems(p); let cc = (c != sdd_is_neg(p)); let n = el.len() as int;
            assert forall|x: VarLabel| sdd_mentions_elems(o.nodes@, n, x) implies vs.contains(x.0) by { assert(sdd_mentions(p, x)); }
            sdd_wmc_elems(o.nodes@, n, cc, w, vs);
            lemma_node_finish(p, c, w, vs, env);
        },
    }
}
/// the theorem for the first k elements of a decision node (mutual recursion with the theorem)
pub proof fn sdd_wmc_elems<T: Semiring>(s: Seq<SddAnd>, k: int, c: bool, w: W<T>, vs: Seq<u64>)
    requires
        csr::<T>(), wv(w), distinct(vs), 0 <= k <= s.len(), elems_ok(s, k),
        forall|x: VarLabel| sdd_mentions_elems(s, k, x) ==> vs.contains(x.0),
        forall|i: int| 0 <= i < vs.len() ==> normalised(w, #[trigger] vs[i]),
    ensures
        el_ih(s, k, c, w, vs),
        forall|i: int| 0 <= i < k ==> vdisjoint((#[trigger] s[i]).prime, s[i].sub),
    decreases s, k, 1int,
{
    if k > 0 {
        let kk = k - 1;
        assert forall|x: VarLabel| sdd_mentions_elems(s, kk, x) implies vs.contains(x.0) by { assert(sdd_mentions_elems(s, k, x)); }
        sdd_wmc_elems(s, kk, c, w, vs);
        assert forall|x: VarLabel| sdd_mentions(s[kk].prime, x) || sdd_mentions(s[kk].sub, x) implies vs.contains(x.0) by { assert(sdd_mentions_elems(s, k, x)); }
        assert forall|i: int, e: Env| 0 <= i < k implies
            swmc(s[i].prime, false, w) == #[trigger] zsum(sind::<T>(s[i].prime, false), w, vs, e) && swmc(s[i].sub, c, w) == zsum(sind::<T>(s[i].sub, c), w, vs, e)
            && swmc(s[i].prime, false, w).valid() && swmc(s[i].sub, c, w).valid() by {
            if i == kk { sdd_wmc_theorem(s[kk].prime, false, w, vs, e); sdd_wmc_theorem(s[kk].sub, c, w, vs, e); }
            else {
                assert(0 <= i < kk);
                assert(swmc(s[i].prime, false, w) == zsum(sind::<T>(s[i].prime, false), w, vs, e));
                assert(swmc(s[i].sub, c, w) == zsum(sind::<T>(s[i].sub, c), w, vs, e));
                assert(swmc(s[i].prime, false, w).valid() && swmc(s[i].sub, c, w).valid());
            }
        }
    }
}

/// THEOREM (C11, first sentence, for SDD pointers, relative to the partition / decomposability hypothesis sdd_ok of C04): under
/// normalised weights the count -- hence the semantic hash, which is the count under the hash weights -- of an SDD is determined by
/// the Boolean function: two SDDs (over any vtrees, of any shape or history) that denote the same function have the same count
pub proof fn sdd_wmc_denotational<T: Semiring>(p: SddPtr, q: SddPtr, w: W<T>, vs: Seq<u64>)
    requires
        csr::<T>(), wv(w), distinct(vs), sdd_ok(p), sdd_ok(q),
        forall|x: VarLabel| sdd_mentions(p, x) || sdd_mentions(q, x) ==> vs.contains(x.0),
        forall|i: int| 0 <= i < vs.len() ==> normalised(w, #[trigger] vs[i]),
        forall|e: Env| sdd_sem(p, false, e) == sdd_sem(q, false, e),
    ensures
        swmc(p, false, w) == swmc(q, false, w),
{
    let env = |x: u64| false;
    sdd_wmc_theorem(p, false, w, vs, env);
    sdd_wmc_theorem(q, false, w, vs, env);
    assert(sind::<T>(p, false) =~= sind::<T>(q, false));
}
/// ... and an SDD and its negation count to one together (a negation hashes to one minus the hash)
pub proof fn sdd_wmc_neg_complement<T: Semiring>(p: SddPtr, w: W<T>, vs: Seq<u64>)
    requires
        csr::<T>(), wv(w), distinct(vs), sdd_ok(p),
        forall|x: VarLabel| sdd_mentions(p, x) ==> vs.contains(x.0),
        forall|i: int| 0 <= i < vs.len() ==> normalised(w, #[trigger] vs[i]),
    ensures
        swmc(p, false, w).add_spec(swmc(p, true, w)) == T::one_s(),
{
    c_consts::<T>();
    let env = |x: u64| false;
    sdd_wmc_theorem(p, false, w, vs, env);
    sdd_wmc_theorem(p, true, w, vs, env);
    let g1 = sind::<T>(p, false); let g2 = sind::<T>(p, true);
    assert(gv(g1)); assert(gv(g2));
    zsum_add(g1, g2, w, vs, env);
    let k = |e: Env| T::one_s();
    assert(gadd(g1, g2) =~= k) by {
        assert forall|e: Env| #[trigger] gadd(g1, g2)(e) == T::one_s() by { lemma_sdd_sem_flip(p, false, e); c_add_zero(T::one_s()); c_add_comm(T::one_s(), T::zero_s()); }
    }
    zsum_const(k, T::one_s(), w, vs, env);
}
