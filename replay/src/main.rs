//! rsdd-replay: executes concrete cases against the real rsdd crate (compiled from /repo's working tree).
//!   rsdd-replay search <key> [--obligation N] [--function F] [--seed S] [--hint JSON]
//!       bounded search for a concrete failing input of the family `key`; prints `FAILING-INPUT <json>`
//!   rsdd-replay replay '<json>'
//!       re-executes one case; prints STILL-FAILS <why> or PASSES
use serde_json::{json, Value};
use std::panic;

mod bdd;
mod cnf;
mod compile;
mod dnnf;
mod dtree;
mod ff;
mod hasher;
mod lattice;
mod lru;
mod order;
mod poly;
mod sdd;
mod ser;
mod table;
mod unitprop;
mod vtree;
mod wmc;

pub type CaseResult = Result<(), String>;

pub fn run_case(c: &Value) -> CaseResult {
    let kind = c["case"].as_str().unwrap_or("");
    let r = panic::catch_unwind(|| match kind {
        k if k.starts_with("ff_") => ff::run(c),
        "table_seq" => table::run(c),
        "bdd_prog" | "bdd_newvar" => bdd::run(c),
        "dnnf_cond" | "dnnf_large" | "dnnf_batch" => dnnf::run(c),
        "cnf_eval" | "pm_ops" | "cnf_condition" | "cnf_wmc" | "varset_ops" | "pm_build" => cnf::run(c),
        "order_perm" | "order_heur" => order::run(c),
        "lru_seq" => lru::run(c),
        "poly_ops" => poly::run(c),
        "dtree_cnf" => dtree::run(c),
        "vtree_mgr" | "vtree_ctor" => vtree::run(c),
        "hasher_hist" | "hasher_all" => hasher::run(c),
        "sdd_prog" => sdd::run(c),
        "unitprop" => unitprop::run(c),
        "lat_eu" | "lat_real" | "lat_bool" | "lat_rational" | "lat_complex" => lattice::run(c),
        "wmc" => wmc::run(c),
        "ser_bdd" | "ser_sdd" | "ser_vtree" | "ser_dimacs" | "ser_sexpr" | "ser_ledimacs" => ser::run(c),
        "compile_expr" | "compile_cnf" | "compile_sdd" | "compile_wide" => compile::run(c),
        _ => Err(format!("unknown case kind {kind}")),
    });
    match r {
        Ok(x) => x,
        Err(e) => {
            let msg = if let Some(s) = e.downcast_ref::<String>() {
                s.clone()
            } else if let Some(s) = e.downcast_ref::<&str>() {
                s.to_string()
            } else {
                "panic".to_string()
            };
            Err(format!("panicked: {msg}"))
        }
    }
}

fn arg_after(args: &[String], flag: &str) -> Option<String> {
    args.iter().position(|a| a == flag).and_then(|i| args.get(i + 1).cloned())
}

fn main() {
    panic::set_hook(Box::new(|_| {}));
    let args: Vec<String> = std::env::args().collect();
    if args.len() < 3 {
        eprintln!("usage: rsdd-replay search <key> ... | replay <json>");
        std::process::exit(2);
    }
    match args[1].as_str() {
        "replay" => {
            let c: Value = serde_json::from_str(&args[2]).expect("json");
            match run_case(&c) {
                Ok(()) => println!("PASSES {}", c),
                Err(e) => println!("STILL-FAILS {} :: {}", c, e),
            }
        }
        "search" => {
            let key = args[2].clone();
            let seed: u64 = arg_after(&args, "--seed").and_then(|s| s.parse().ok()).unwrap_or(0);
            let function = arg_after(&args, "--function").unwrap_or_default();
            let obligation = arg_after(&args, "--obligation").unwrap_or_default();
            let hint: Option<Value> = arg_after(&args, "--hint").and_then(|h| serde_json::from_str(&h).ok());
            let cases: Vec<Value> = match key.as_str() {
                "ff" => ff::candidates(&function, &obligation, seed, hint.as_ref()),
                "table" => table::candidates(seed),
                "bdd" => bdd::candidates(&function, seed),
                "dnnf" => dnnf::candidates(seed),
                "cnf" => cnf::candidates(seed),
                "order" => order::candidates(seed),
                "lru" => lru::candidates(seed),
                "poly" => poly::candidates(seed),
                "dtree" => dtree::candidates(seed),
                "vtree" => vtree::candidates(seed),
                "hasher" => hasher::candidates(seed),
                "sdd" => sdd::candidates(seed),
                "unitprop" => unitprop::candidates(seed),
                "lattice" => lattice::candidates(seed),
                "compile" => compile::candidates(seed),
                "wmc" => wmc::candidates(seed),
                "ser" => ser::candidates(seed),
                _ => vec![],
            };
            // C11 (semantic hashing): of the shared enumerators only failures of the hash-identified builders / of the hash count
            let must: Option<&str> = if function == "prop:C11" { match key.as_str() { "dnnf" => Some("semantic store"), "compile" => Some("semantic SDD"), "wmc" => Some("hash"), _ => None } } else { None };
            let mut tried = 0usize;
            for c in cases {
                tried += 1;
                // a crash that cannot be caught (stack overflow, abort) is attributed to the last case announced here
                eprintln!("RUNNING {}", c);
                if let Err(e) = run_case(&c) {
                    // a run for one property counts only the failures that property is about
                    if let Some(m) = must { if !e.contains(m) { continue; } }
                    let mut c = c;
                    c["why"] = json!(e);
                    println!("FAILING-INPUT {}", c);
                    println!("tried {tried} cases");
                    return;
                }
            }
            println!("NO-FAILING-INPUT after {tried} cases (key {key}, function {function})");
        }
        _ => std::process::exit(2),
    }
}
