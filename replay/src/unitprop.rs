//! SATSolver (unit propagation) cases on the REAL code: a decide/pop history is run against the solver and, after
//! every step, compared with brute-force entailment over all assignments of the CNF's variables.
//!   sound:     every literal the solver reports as assigned is entailed by CNF + decisions on the stack
//!   unsat:     UNSAT is reported only if no model of the CNF extends decisions + the new literal
//!   fixpoint:  otherwise no clause is falsified and no unsatisfied clause has exactly one unassigned literal
//!   pop:       pop after a non-UNSAT decide restores is_set (all variables), cur_hash, is_sat and the literals
//!   sat flag:  is_sat / DecisionResult::SAT exactly when every non-tautological clause has a true literal
//!   hash:      within one solver, equal hashes only for identical residual formulas
//! The solver's model is reconstructed from difference_iter (its only accessor for values) and is_set.
use crate::CaseResult;
use rsdd::repr::{Cnf, DecisionResult, Literal, SATSolver, VarLabel};
use serde_json::{json, Value};

type Cl = Vec<(usize, bool)>;

// sparse labels: a case may carry "labels": [l0, l1, ..]; variable i of the case (dense, used by the brute force) is then the
// solver's variable l_i, so that formulas whose labels go beyond 64 stay enumerable over their few mentioned variables
thread_local! { static LABELS: std::cell::RefCell<Vec<usize>> = std::cell::RefCell::new(vec![]); }
thread_local! { static NV: std::cell::Cell<usize> = std::cell::Cell::new(0); }
/// only variables the formula knows (label < num_vars) may be decided: anything else is a misuse of the solver, not a case
fn decidable(v: usize) -> bool { lbl(v).value_usize() < NV.with(|n| n.get()) }
fn lbl(v: usize) -> VarLabel { LABELS.with(|l| VarLabel::new(*l.borrow().get(v).unwrap_or(&v) as u64)) }
fn dense(l: VarLabel) -> Result<usize, String> {
    LABELS.with(|ls| {
        let ls = ls.borrow();
        if ls.is_empty() { return Ok(l.value_usize()); }
        ls.iter().position(|x| *x == l.value_usize()).ok_or(format!("variable {} is reported as assigned but no clause mentions it", l.value_usize()))
    })
}
fn unmentioned_set(s: &SATSolver, nv: usize) -> Option<usize> {
    LABELS.with(|ls| { let ls = ls.borrow(); if ls.is_empty() { return None; } (0..nv).find(|x| !ls.contains(x) && s.is_set(VarLabel::new(*x as u64))) })
}

fn parse_cnf(c: &Value) -> Vec<Cl> {
    c["cnf"].as_array().map(|cs| cs.iter().map(|cl| cl.as_array().map(|ls| ls.iter().map(|l| {
        let x = l.as_i64().unwrap_or(1);
        ((x.unsigned_abs() - 1) as usize, x > 0)
    }).collect()).unwrap_or_default()).collect()).unwrap_or_default()
}

fn holds(cls: &[Cl], a: u32) -> bool {
    cls.iter().all(|cl| cl.iter().any(|(v, p)| ((a >> v) & 1 == 1) == *p))
}

/// residual formula, as a SET of clauses: the (normalised, non-tautological) clauses not yet satisfied, each restricted
/// to its unassigned literals (clause positions are deliberately forgotten: the property speaks of the formula)
fn residual(norm: &[Cl], m: &[Option<bool>]) -> Vec<Cl> {
    let mut r: Vec<Cl> = norm.iter()
        .filter(|cl| !cl.iter().any(|(v, p)| m[*v] == Some(*p)))
        .map(|cl| cl.iter().filter(|(v, _)| m[*v].is_none()).cloned().collect())
        .collect();
    r.sort(); r.dedup();
    r
}

fn check_state(what: &str, s: &SATSolver, cls: &[Cl], norm: &[Cl], n: usize, m: &[Option<bool>], decisions: &[(usize, bool)],
               seen: &mut Vec<(u128, Vec<Cl>, Vec<Option<bool>>)>) -> CaseResult {
    // the reconstructed model and is_set agree
    for v in 0..n {
        if s.is_set(lbl(v)) != m[v].is_some() {
            return Err(format!("{what}: is_set({v}) = {} but the literals reported through difference_iter give {:?}", !m[v].is_some(), m[v]));
        }
    }
    if let Some(x) = unmentioned_set(s, 140) { return Err(format!("{what}: variable {x}, which no clause mentions, is reported as assigned")); }
    // sound: every assigned value is entailed by CNF + decisions
    let models: Vec<u32> = (0..(1u32 << n)).filter(|a| holds(cls, *a) && decisions.iter().all(|(v, p)| ((a >> v) & 1 == 1) == *p)).collect();
    for v in 0..n {
        if let Some(b) = m[v] {
            if let Some(a) = models.iter().find(|a| ((*a >> v) & 1 == 1) != b) {
                return Err(format!("{what}: variable {v} assigned {b} but assignment {a:#b} satisfies the CNF and the decisions {decisions:?} with the other value"));
            }
        }
    }
    // fixpoint: no clause falsified, none unit
    for (i, cl) in cls.iter().enumerate() {
        if cl.iter().any(|(v, p)| m[*v] == Some(*p)) { continue; }
        let mut un: Vec<(usize, bool)> = cl.iter().filter(|(v, _)| m[*v].is_none()).cloned().collect();
        un.sort(); un.dedup();
        if un.is_empty() { return Err(format!("{what}: clause {i} {cl:?} is falsified under {m:?} and UNSAT was not reported")); }
        if un.len() == 1 { return Err(format!("{what}: clause {i} {cl:?} has exactly one unassigned literal {:?} under {m:?} (not propagated)", un[0])); }
    }
    // satisfied flag
    let all_sat = norm.iter().all(|cl| cl.iter().any(|(v, p)| m[*v] == Some(*p)));
    if s.is_sat() != all_sat {
        return Err(format!("{what}: is_sat() = {} but under {m:?} every non-tautological clause has a true literal: {all_sat}", s.is_sat()));
    }
    // hash: equal hashes only for identical residual formulas
    // (only while the product of the literal primes cannot wrap: at most 26 literal occurrences)
    if norm.iter().map(|cl| cl.len()).sum::<usize>() > 26 { return Ok(()); }
    let (h, r) = (s.cur_hash(), residual(norm, m));
    for (h2, r2, m2) in seen.iter() {
        if *h2 == h && *r2 != r {
            return Err(format!("{what}: states {m2:?} and {m:?} have the same hash {h} but different residual formulas {r2:?} / {r:?}"));
        }
    }
    seen.push((h, r, m.to_vec()));
    Ok(())
}

/// every partial assignment reachable by deciding variables in increasing order (decide, recurse, pop), each state checked
fn dfs(s: &mut SATSolver, cls: &[Cl], norm: &[Cl], n: usize, m: &mut Vec<Option<bool>>, decisions: &mut Vec<(usize, bool)>, from: usize,
       seen: &mut Vec<(u128, Vec<Cl>, Vec<Option<bool>>)>) -> CaseResult {
    for v in from..n {
        if m[v].is_some() || !decidable(v) { continue; }
        for p in [true, false] {
            let (m0, h0, sat0) = (m.clone(), s.cur_hash(), s.is_sat());
            match s.decide(Literal::new(lbl(v), p)) {
                DecisionResult::UNSAT => {
                    decisions.push((v, p));
                    let ext = (0..(1u32 << n)).any(|a| holds(cls, a) && decisions.iter().all(|(v, p)| ((a >> v) & 1 == 1) == *p));
                    decisions.pop();
                    if ext { return Err(format!("walk: decide({v}={p}) after {decisions:?}: UNSAT reported but a model extends the decisions")); }
                }
                _ => {
                    for l in s.difference_iter() { m[dense(l.label())?] = Some(l.polarity()); }
                    decisions.push((v, p));
                    check_state(&format!("walk after {decisions:?}"), s, cls, norm, n, m, decisions, seen)?;
                    dfs(s, cls, norm, n, m, decisions, v + 1, seen)?;
                    decisions.pop();
                    s.pop();
                    *m = m0;
                    if s.cur_hash() != h0 || s.is_sat() != sat0 { return Err(format!("walk: pop after {decisions:?} + ({v}={p}) does not restore the hash / satisfied flag")); }
                }
            }
        }
    }
    Ok(())
}

pub fn run(c: &Value) -> CaseResult {
    let cls = parse_cnf(c);
    let labels: Vec<usize> = c["labels"].as_array().map(|a| a.iter().map(|x| x.as_u64().unwrap_or(0) as usize).collect()).unwrap_or_default();
    LABELS.with(|l| *l.borrow_mut() = labels.clone());
    let lits: Vec<Vec<Literal>> = cls.iter().map(|cl| cl.iter().map(|(v, p)| Literal::new(lbl(*v), *p)).collect()).collect();
    let cnf = Cnf::new(&lits);
    let nv = cnf.num_vars();
    NV.with(|x| x.set(nv));
    let n = if labels.is_empty() { nv } else { labels.len() };
    if n > 16 { return Err("case too large for the brute force".into()); }
    // the clauses the solver hashes: deduplicated, tautologies dropped
    let norm: Vec<Cl> = cls.iter().map(|cl| { let mut c = cl.clone(); c.sort(); c.dedup(); c })
        .filter(|cl| !cl.iter().any(|(v, p)| cl.contains(&(*v, !*p)))).collect();
    let solver = SATSolver::new(cnf);
    let satisfiable = (0..(1u32 << n)).any(|a| holds(&cls, a));
    let mut s = match solver {
        None => {
            if satisfiable { return Err("SATSolver::new reports UNSAT for a satisfiable CNF".into()); }
            return Ok(());
        }
        Some(s) => s,
    };
    let mut m: Vec<Option<bool>> = vec![None; n];
    for l in s.difference_iter() { m[dense(l.label())?] = Some(l.polarity()); }
    let mut decisions: Vec<(usize, bool)> = vec![];
    let mut seen = vec![];
    check_state("after new", &s, &cls, &norm, n, &m, &decisions, &mut seen)?;
    if c["walk"].as_bool().unwrap_or(false) {
        return dfs(&mut s, &cls, &norm, n, &mut m, &mut decisions, 0, &mut seen);
    }
    // stack of (model, hash, is_sat) before each successful decide
    let mut stack: Vec<(Vec<Option<bool>>, u128, bool)> = vec![];
    for (k, op) in c["ops"].as_array().cloned().unwrap_or_default().iter().enumerate() {
        let x = op.as_i64().unwrap_or(0);
        if x == 0 {
            // pop (only a frame this history pushed)
            if let Some((m0, h0, sat0)) = stack.pop() {
                s.pop();
                decisions.pop();
                for v in 0..n {
                    if s.is_set(lbl(v)) != m0[v].is_some() {
                        return Err(format!("step {k} pop: is_set({v}) = {} but before the matching decide it was {}", !m0[v].is_some(), m0[v].is_some()));
                    }
                }
                if s.cur_hash() != h0 { return Err(format!("step {k} pop: hash {} but before the matching decide it was {h0}", s.cur_hash())); }
                if s.is_sat() != sat0 { return Err(format!("step {k} pop: is_sat {} but before the matching decide it was {sat0}", s.is_sat())); }
                m = m0;
                check_state(&format!("step {k} after pop"), &s, &cls, &norm, n, &m, &decisions, &mut seen)?;
            }
            continue;
        }
        let (v, p) = ((x.unsigned_abs() - 1) as usize, x > 0);
        if v >= n || !decidable(v) { continue; }
        let before = (m.clone(), s.cur_hash(), s.is_sat());
        let r = s.decide(Literal::new(lbl(v), p));
        let mut dec2 = decisions.clone(); dec2.push((v, p));
        let ext = (0..(1u32 << n)).any(|a| holds(&cls, a) && dec2.iter().all(|(v, p)| ((a >> v) & 1 == 1) == *p));
        match r {
            DecisionResult::UNSAT => {
                if ext { return Err(format!("step {k} decide({x}): UNSAT reported but a model of the CNF extends the decisions {dec2:?}")); }
                // nothing was pushed: the observable state is the one before the call
                for u in 0..n {
                    if s.is_set(lbl(u)) != before.0[u].is_some() { return Err(format!("step {k} decide({x}) = UNSAT changed is_set({u})")); }
                }
                if s.cur_hash() != before.1 || s.is_sat() != before.2 { return Err(format!("step {k} decide({x}) = UNSAT changed the hash or the satisfied flag")); }
            }
            other => {
                for l in s.difference_iter() {
                    let u = dense(l.label())?;
                    if let Some(b) = m[u] { if b != l.polarity() { return Err(format!("step {k} decide({x}): variable {u} was {b} and is now reported {}", l.polarity())); } }
                    m[u] = Some(l.polarity());
                }
                if m[v] != Some(p) { return Err(format!("step {k} decide({x}): the decided variable is {:?} afterwards", m[v])); }
                decisions = dec2;
                stack.push(before);
                let is_sat_result = matches!(other, DecisionResult::SAT);
                if is_sat_result != s.is_sat() { return Err(format!("step {k} decide({x}): returned SAT = {is_sat_result} but is_sat() = {}", s.is_sat())); }
                check_state(&format!("step {k} after decide({x})"), &s, &cls, &norm, n, &m, &decisions, &mut seen)?;
            }
        }
    }
    Ok(())
}

pub fn candidates(seed: u64) -> Vec<Value> {
    let mut out = vec![];
    // fixed families: the replacement-watch corner (a clause whose first unassigned literal is already watched, in
    // both polarities), unit chains, tautologies, duplicates
    let fixed: Vec<(Vec<Vec<i64>>, Vec<i64>)> = vec![
        (vec![vec![-1, -2, 3]], vec![1, -3]),
        (vec![vec![1, 2, -3]], vec![-1, 3]),
        (vec![vec![1, 2, 3]], vec![-1, -2]),
        (vec![vec![1, 2, 3]], vec![-2, -1]),
        (vec![vec![1, 2, 3]], vec![-3, -1]),
        (vec![vec![-1, 2, 3]], vec![1, -3]),
        (vec![vec![1, -2, 3]], vec![-1, -3]),
        (vec![vec![-1, 2], vec![-2, 3], vec![-3, 4]], vec![1, 0, -4, 0, 2]),
        (vec![vec![1, -1, 2], vec![2, 2, 3]], vec![-2, 0, 2]),
        (vec![vec![1], vec![-1, 2], vec![-2, -1, 3]], vec![-3, 3, 0]),
        (vec![vec![1, 2], vec![-1, 2], vec![1, -2], vec![-1, -2]], vec![1, -1]),
        (vec![], vec![]),
        // an empty clause in every position (the formula has no model: SATSolver::new must report it)
        (vec![vec![]], vec![]),
        (vec![vec![], vec![1, 2]], vec![1]),
        (vec![vec![1, -2], vec![], vec![2, 3]], vec![-1]),
        (vec![vec![-1], vec![], vec![-1, -2, 3]], vec![2]),
        (vec![vec![1], vec![-1, 2], vec![2, -3], vec![]], vec![3]),
    ];
    for (cnf, ops) in fixed { out.push(json!({"case": "unitprop", "cnf": cnf, "ops": ops})); }
    // systematic: every clause of 3 distinct variables out of 4 (all polarities) x every ordered pair of decisions
    for vars in [[1i64, 2, 3], [1, 2, 4], [2, 3, 4]] {
        for pol in 0..8 {
            let cl: Vec<i64> = (0..3).map(|i| if (pol >> i) & 1 == 1 { vars[i] } else { -vars[i] }).collect();
            for d1 in 1..=4i64 { for d2 in 1..=4i64 { if d1 == d2 { continue; }
                for s in 0..4 {
                    let ops = vec![if s & 1 == 1 { d1 } else { -d1 }, if s & 2 == 2 { d2 } else { -d2 }, 0, 0];
                    out.push(json!({"case": "unitprop", "cnf": [cl.clone(), [4, -4, 1]], "ops": ops}));
                }
            }}
        }
    }
    // exhaustive walks (every partial assignment; all pairs of visited states compared for the hash clause) over
    // uniform formulas: k clauses of w literals over n variables, all-positive and mixed polarities
    {
        let mut s3 = seed.wrapping_add(99173);
        let mut nx3 = |n: u64| { s3 = s3.wrapping_mul(6364136223846793005).wrapping_add(1442695040888963407); (s3 >> 33) % n };
        // the 2-regular 'square' designs: clauses {a,c,d},{b,c,e},{a,e,f},{b,d,f} under every labelling would be too many; take
        // the canonical one and 40 random relabellings / polarity patterns
        let base: [[usize; 3]; 4] = [[0, 2, 3], [1, 2, 4], [0, 4, 5], [1, 3, 5]];
        for t in 0..40 {
            let mut perm: Vec<usize> = (0..6).collect();
            if t > 0 { for i in (1..6).rev() { let j = nx3(i as u64 + 1) as usize; perm.swap(i, j); } }
            let flip: Vec<bool> = (0..6).map(|_| t > 0 && nx3(3) == 0).collect();
            let cnf: Vec<Vec<i64>> = base.iter().map(|cl| cl.iter().map(|v| { let u = perm[*v]; if flip[u] { -(u as i64 + 1) } else { u as i64 + 1 } }).collect()).collect();
            out.push(json!({"case": "unitprop", "cnf": cnf, "walk": true}));
        }
        // regular formulas: every variable occurs exactly twice (random configuration: shuffle the multiset of occurrences
        // and cut it into clauses of 3 / 2 literals) -- states that differ in WHICH clauses are satisfied can then remove the
        // same number of occurrences of every literal
        for t in 0..120 {
            let n = if t % 2 == 0 { 6usize } else { 4 + nx3(3) as usize };
            let w = if t % 4 == 3 { 2usize } else { 3 };
            let mut occ: Vec<usize> = (0..n).chain(0..n).collect();
            for i in (1..occ.len()).rev() { let j = nx3(i as u64 + 1) as usize; occ.swap(i, j); }
            let flip: Vec<bool> = (0..n).map(|_| nx3(4) == 0).collect();
            let cnf: Vec<Vec<i64>> = occ.chunks(w).filter(|c| c.len() == w).map(|c| c.iter().map(|u| if flip[*u] { -(*u as i64 + 1) } else { *u as i64 + 1 }).collect()).collect();
            out.push(json!({"case": "unitprop", "cnf": cnf, "walk": true}));
        }
        for _ in 0..160 {
            let n = 4 + nx3(3) as i64;      // 4..6 variables
            let k = 3 + nx3(3);              // 3..5 clauses
            let w = 2 + nx3(2);              // 2..3 literals
            let positive = nx3(2) == 0;
            let cnf: Vec<Vec<i64>> = (0..k).map(|_| (0..w).map(|_| { let v = 1 + nx3(n as u64) as i64; if positive || nx3(2) == 0 { v } else { -v } }).collect()).collect();
            out.push(json!({"case": "unitprop", "cnf": cnf, "walk": true}));
        }
    }
    // size thresholds: labels beyond 64 (few mentioned variables, spread over 0..130) and more than 64 clauses
    {
        let mut s4 = seed.wrapping_add(55001);
        let mut nx4 = |n: u64| { s4 = s4.wrapping_mul(6364136223846793005).wrapping_add(1442695040888963407); (s4 >> 33) % n };
        for t in 0..60 {
            let k = 4 + nx4(4) as usize;  // 4..7 mentioned variables
            let mut labels: Vec<u64> = vec![];
            while labels.len() < k { let l = if labels.len() < 2 { 60 + nx4(70) } else { nx4(130) }; if !labels.contains(&l) { labels.push(l); } }
            labels.sort();
            let ncl = 3 + nx4(5);
            let cnf: Vec<Vec<i64>> = (0..ncl).map(|_| { let w = 2 + nx4(2); (0..w).map(|_| { let v = 1 + nx4(k as u64) as i64; if nx4(2) == 0 { v } else { -v } }).collect() }).collect();
            if t % 2 == 0 {
                out.push(json!({"case": "unitprop", "cnf": cnf, "labels": labels, "walk": true}));
            } else {
                let ops: Vec<i64> = (0..(4 + nx4(10))).map(|_| { if nx4(4) == 0 { 0 } else { let v = 1 + nx4(k as u64) as i64; if nx4(2) == 0 { v } else { -v } } }).collect();
                out.push(json!({"case": "unitprop", "cnf": cnf, "labels": labels, "ops": ops}));
            }
        }
        for _ in 0..20 {
            // 66-90 clauses over 7-8 variables (the satisfied-clause set and the watch lists go beyond one machine word)
            let n = 7 + nx4(2) as i64;
            let ncl = 66 + nx4(25);
            let cnf: Vec<Vec<i64>> = (0..ncl).map(|_| { let w = 3 + nx4(2); (0..w).map(|_| { let v = 1 + nx4(n as u64) as i64; if nx4(2) == 0 { v } else { -v } }).collect() }).collect();
            let ops: Vec<i64> = (0..(6 + nx4(14))).map(|_| { if nx4(4) == 0 { 0 } else { let v = 1 + nx4(n as u64) as i64; if nx4(2) == 0 { v } else { -v } } }).collect();
            out.push(json!({"case": "unitprop", "cnf": cnf, "ops": ops}));
            // the same size with a planted model: every clause gets one literal true under it, and the history decides the
            // planted literals (a pop now and then), so that the solver has to report SAT with more than 64 clauses
            let planted: Vec<bool> = (0..n).map(|_| nx4(2) == 0).collect();
            let cnf2: Vec<Vec<i64>> = cnf.iter().map(|cl| { let mut cl = cl.clone(); let v = nx4(n as u64) as usize; cl[0] = if planted[v] { v as i64 + 1 } else { -(v as i64 + 1) }; cl }).collect();
            let mut ops2: Vec<i64> = vec![];
            let mut vars: Vec<usize> = (0..n as usize).collect();
            for i in (1..vars.len()).rev() { let j = nx4(i as u64 + 1) as usize; vars.swap(i, j); }
            for (i, v) in vars.iter().enumerate() {
                ops2.push(if planted[*v] { *v as i64 + 1 } else { -(*v as i64 + 1) });
                if i == 2 { ops2.push(0); ops2.push(if planted[*v] { *v as i64 + 1 } else { -(*v as i64 + 1) }); }
            }
            out.push(json!({"case": "unitprop", "cnf": cnf2, "ops": ops2}));
        }
    }
    let mut s = seed.wrapping_add(4242);
    let mut nx = |n: u64| { s = s.wrapping_mul(6364136223846793005).wrapping_add(1442695040888963407); (s >> 33) % n };
    for _ in 0..1500 {
        let n = 2 + nx(5) as i64; // 2..6 variables
        let ncl = 1 + nx(7);
        let cnf: Vec<Vec<i64>> = (0..ncl).map(|_| { let w = 1 + nx(4); (0..w).map(|_| { let v = 1 + nx(n as u64) as i64; if nx(2) == 0 { v } else { -v } }).collect() }).collect();
        let nops = 1 + nx(10);
        let ops: Vec<i64> = (0..nops).map(|_| { if nx(4) == 0 { 0 } else { let v = 1 + nx(n as u64) as i64; if nx(2) == 0 { v } else { -v } } }).collect();
        out.push(json!({"case": "unitprop", "cnf": cnf, "ops": ops}));
    }
    // deeper histories over more variables and clauses (long implication chains, many pops)
    for _ in 0..400 {
        let n = 5 + nx(4) as i64; // 5..8 variables
        let ncl = 4 + nx(12);
        let cnf: Vec<Vec<i64>> = (0..ncl).map(|_| { let w = 2 + nx(3); (0..w).map(|_| { let v = 1 + nx(n as u64) as i64; if nx(2) == 0 { v } else { -v } }).collect() }).collect();
        let nops = 6 + nx(20);
        let ops: Vec<i64> = (0..nops).map(|_| { if nx(3) == 0 { 0 } else { let v = 1 + nx(n as u64) as i64; if nx(2) == 0 { v } else { -v } } }).collect();
        out.push(json!({"case": "unitprop", "cnf": cnf, "ops": ops}));
    }
    out
}
