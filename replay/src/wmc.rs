//! weighted-model-count cases (C07) on the REAL code: a CNF is compiled to a BDD (any order), a decision-DNNF (both node
//! stores) or an SDD (any vtree); then, for the diagram, its negation and a diagram that shares nodes with it,
//!   * `unsmoothed_wmc` in FiniteField<1000000007> under weights with low + high == 1 is compared with the explicit sum
//!     over all satisfying assignments (truth table by a structural walk, arithmetic in u128);
//!   * the same in the real semiring with dyadic weights k/16 (exact in f64 for <= 5 variables), compared exactly;
//!   * for BDDs and ARBITRARY finite-field weights the count is compared with the sum over only the variables each
//!     sub-function depends on (Shannon recursion over the truth table along the order);
//!   * `evaluate` is compared with the truth table on every assignment;
//!   * every count is taken twice, with other weights in between (the per-node memo must not leak).
use crate::CaseResult;
use rsdd::builder::bdd::RobddBuilder;
use rsdd::builder::cache::AllIteTable;
use rsdd::builder::decision_nnf::{DecisionNNFBuilder, SemanticDecisionNNFBuilder, StandardDecisionNNFBuilder};
use rsdd::builder::sdd::CompressionSddBuilder;
use rsdd::builder::BottomUpBuilder;
use rsdd::constants::primes;
use rsdd::repr::{create_semantic_hash_map, BddPtr, Cnf, DDNNFPtr, Literal, SddPtr, VTree, VarLabel, VarOrder, WmcParams};
use rsdd::util::semirings::{FiniteField, RealSemiring};
use serde_json::{json, Value};
use std::collections::HashMap;

const P: u128 = 1000000007;

fn beval(p: BddPtr, a: &[bool]) -> bool {
    match p {
        BddPtr::PtrTrue => true,
        BddPtr::PtrFalse => false,
        BddPtr::Reg(n) => if a[n.var.value() as usize] { beval(n.high, a) } else { beval(n.low, a) },
        BddPtr::Compl(n) => !beval(BddPtr::Reg(n), a),
    }
}
fn seval(p: SddPtr, a: &[bool]) -> bool {
    match p {
        SddPtr::PtrTrue => true,
        SddPtr::PtrFalse => false,
        SddPtr::Var(l, pol) => a[l.value() as usize] == pol,
        SddPtr::BDD(b) => if a[b.label().value() as usize] { seval(b.high(), a) } else { seval(b.low(), a) },
        SddPtr::ComplBDD(b) => !seval(SddPtr::BDD(b), a),
        SddPtr::Reg(o) => o.iter().any(|n| seval(n.prime(), a) && seval(n.sub(), a)),
        SddPtr::Compl(o) => !seval(SddPtr::Reg(o), a),
    }
}
fn vtree(v: &Value) -> VTree {
    match v.as_array() {
        Some(a) => VTree::new_node(Box::new(vtree(&a[0])), Box::new(vtree(&a[1]))),
        None => VTree::new_leaf(VarLabel::new(v.as_u64().unwrap_or(0))),
    }
}
fn asg(m: usize, nv: usize) -> Vec<bool> { (0..nv).map(|i| (m >> i) & 1 == 1).collect() }

/// explicit sum over the models in the table of the product of the chosen weights (mod P)
fn ff_sum(tt: &[bool], nv: usize, w: &[(u128, u128)]) -> u128 {
    let mut s = 0u128;
    for m in 0..tt.len() {
        if tt[m] {
            let mut x = 1u128;
            for i in 0..nv { x = x * (if (m >> i) & 1 == 1 { w[i].1 } else { w[i].0 }) % P; }
            s = (s + x) % P;
        }
    }
    s
}
/// the sum taken only over the variables each sub-function depends on: Shannon recursion over the truth table, splitting on
/// the first variable (in the order) the function depends on
fn ff_dep_sum(tt: &[bool], nv: usize, order: &[usize], w: &[(u128, u128)]) -> u128 {
    if tt.iter().all(|x| *x) { return 1; }
    if tt.iter().all(|x| !*x) { return 0; }
    for &v in order {
        let dep = (0..tt.len()).any(|m| tt[m] != tt[m ^ (1 << v)]);
        if dep {
            let lo: Vec<bool> = (0..tt.len()).map(|m| tt[m & !(1 << v)]).collect();
            let hi: Vec<bool> = (0..tt.len()).map(|m| tt[m | (1 << v)]).collect();
            return (w[v].0 * ff_dep_sum(&lo, nv, order, w) + w[v].1 * ff_dep_sum(&hi, nv, order, w)) % P;
        }
    }
    unreachable!()
}
/// the weights are installed in one of three ways, chosen from the weights themselves: `WmcParams::new` for all; `default` +
/// `set_weight` in descending label order (the table grows past its end); `new` with mirrored pairs, then overwritten by `set_weight`
fn ff_params(nv: usize, w: &[(u128, u128)]) -> WmcParams<FiniteField<P>> {
    let how = w.iter().map(|x| x.1 % 3).sum::<u128>() % 3;
    let mut hm: HashMap<VarLabel, (FiniteField<P>, FiniteField<P>)> = HashMap::new();
    for i in 0..nv {
        let (l, h) = if how == 2 { (w[i].1, w[i].0) } else { w[i] };
        hm.insert(VarLabel::new(i as u64), (FiniteField::new(l), FiniteField::new(h)));
    }
    match how {
        0 => WmcParams::new(hm),
        1 => { let mut p = WmcParams::default(); for i in (0..nv).rev() { p.set_weight(VarLabel::new(i as u64), FiniteField::new(w[i].0), FiniteField::new(w[i].1)); } p }
        _ => { let mut p = WmcParams::new(hm); for i in 0..nv { p.set_weight(VarLabel::new(i as u64), FiniteField::new(w[i].0), FiniteField::new(w[i].1)); } p }
    }
}
fn real_params(nv: usize, k: &[u64]) -> WmcParams<RealSemiring> {
    let mut hm: HashMap<VarLabel, (RealSemiring, RealSemiring)> = HashMap::new();
    for i in 0..nv { hm.insert(VarLabel::new(i as u64), (RealSemiring((16 - k[i]) as f64 / 16.0), RealSemiring(k[i] as f64 / 16.0))); }
    WmcParams::new(hm)
}
/// sum over models of the product of k/16 weights, as an integer numerator over 16^nv
fn real_sum_num(tt: &[bool], nv: usize, k: &[u64]) -> u128 {
    let mut s = 0u128;
    for m in 0..tt.len() {
        if tt[m] {
            let mut x = 1u128;
            for i in 0..nv { x *= if (m >> i) & 1 == 1 { k[i] as u128 } else { (16 - k[i]) as u128 }; }
            s += x;
        }
    }
    s
}

struct Ws { norm: Vec<(u128, u128)>, norm2: Vec<(u128, u128)>, arb: Vec<(u128, u128)>, dy: Vec<u64> }
fn weights(c: &Value, nv: usize) -> Ws {
    let g = |key: &str, i: usize| c[key][i].as_u64().unwrap_or(3 + i as u64) as u128 % P;
    Ws {
        norm: (0..nv).map(|i| { let h = g("h", i); ((P + 1 - h) % P, h) }).collect(),
        norm2: (0..nv).map(|i| { let h = (g("h", i) * 7 + 11) % P; ((P + 1 - h) % P, h) }).collect(),
        arb: (0..nv).map(|i| (g("l", i), g("h", i))).collect(),
        dy: (0..nv).map(|i| c["dy"][i].as_u64().unwrap_or(8) % 17).collect(),
    }
}

fn check_generic<'a, D: DDNNFPtr<'a>>(what: &str, d: D, tt: &[bool], nv: usize, ws: &Ws) -> CaseResult {
    // normalised finite-field weights, counted twice with other weights in between
    let want = ff_sum(tt, nv, &ws.norm);
    let got = d.unsmoothed_wmc(&ff_params(nv, &ws.norm)).value();
    if got != want { return Err(format!("{what}: weighted count {got} under normalised finite-field weights {:?}, the sum over the models is {want}", ws.norm)); }
    let want2 = ff_sum(tt, nv, &ws.norm2);
    let got2 = d.unsmoothed_wmc(&ff_params(nv, &ws.norm2)).value();
    if got2 != want2 { return Err(format!("{what}: second count (other weights {:?}) is {got2}, the sum over the models is {want2}", ws.norm2)); }
    let got3 = d.unsmoothed_wmc(&ff_params(nv, &ws.norm)).value();
    if got3 != want { return Err(format!("{what}: third count (first weights again) is {got3}, the sum over the models is {want}")); }
    // dyadic real weights
    let num = real_sum_num(tt, nv, &ws.dy);
    let wantr = num as f64 / (16u128.pow(nv as u32)) as f64;
    let gotr = d.unsmoothed_wmc(&real_params(nv, &ws.dy)).0;
    if gotr != wantr { return Err(format!("{what}: real-valued count {gotr} under dyadic weights h = {:?}/16, the sum over the models is {wantr}", ws.dy)); }
    // evaluation
    for m in 0..tt.len() {
        let a = asg(m, nv);
        if d.evaluate(&a) != tt[m] { return Err(format!("{what}: evaluate({a:?}) is {}, the diagram denotes {}", d.evaluate(&a), tt[m])); }
    }
    Ok(())
}

fn clauses_of(c: &Value) -> Vec<Vec<Literal>> {
    c["cnf"].as_array().map(|cs| cs.iter().map(|cl| cl.as_array().map(|ls| ls.iter().map(|l| {
        let x = l.as_i64().unwrap_or(1);
        Literal::new(VarLabel::new((x.unsigned_abs() - 1) as u64), x > 0)
    }).collect()).unwrap_or_default()).collect()).unwrap_or_default()
}

/// C11: the semantic hash (the count under the library's own hash weights, low + high == 1 in the field) is the same for
/// every representation of one function -- BDDs under two orders, decision-DNNFs of both stores, an SDD --, equals the
/// explicit sum over the models, a negation hashes to one minus the hash, and the hash cached on the nodes equals a recomputed one
fn run_semhash<const Q: u128>(c: &Value) -> CaseResult {
    let nv = c["nvars"].as_u64().unwrap_or(3) as usize;
    let clauses = clauses_of(c);
    let cnf = Cnf::new(&clauses);
    let nm = 1usize << nv;
    let map = create_semantic_hash_map::<Q>(nv);
    let wts: Vec<(u128, u128)> = (0..nv).map(|i| { let (l, h) = map.var_weight(VarLabel::new(i as u64)); (l.value(), h.value()) }).collect();
    for (i, (l, h)) in wts.iter().enumerate() { if (l + h) % Q != 1 { return Err(format!("hash weights of variable {i} do not sum to one: {l} + {h} mod {Q}")); } }
    let tt: Vec<bool> = (0..nm).map(|m| { let a = asg(m, nv); clauses.iter().all(|cl| cl.iter().any(|l| a[l.label().value() as usize] == l.polarity())) }).collect();
    let mut want = 0u128;
    for m in 0..nm { if tt[m] { let mut x = 1u128; for i in 0..nv { x = mulmod(x, if (m >> i) & 1 == 1 { wts[i].1 } else { wts[i].0 }, Q); } want = (want + x) % Q; } }
    let ords: Vec<Vec<usize>> = vec![
        c["order"].as_array().map(|a| a.iter().map(|v| v.as_u64().unwrap_or(0) as usize).collect()).unwrap_or_else(|| (0..nv).collect()),
        (0..nv).rev().collect(), (0..nv).collect()];
    let mut seen: Vec<(String, u128)> = vec![];
    for (k, ord) in ords.iter().enumerate() {
        let order: Vec<VarLabel> = ord.iter().map(|v| VarLabel::new(*v as u64)).collect();
        let vo = VarOrder::new(&order);
        let b = RobddBuilder::<AllIteTable<BddPtr>>::new(vo.clone());
        let f = b.compile_cnf(&cnf);
        let h = f.semantic_hash(&map).value();
        seen.push((format!("BDD under order {ord:?}"), h));
        let hn = b.negate(f).semantic_hash(&map).value();
        if hn != (Q + 1 - h) % Q { return Err(format!("BDD under order {ord:?}: the negation hashes to {hn}, one minus the hash {h} is {}", (Q + 1 - h) % Q)); }
        let hc = f.cached_semantic_hash(&vo, &map).value();
        if hc != h { return Err(format!("BDD under order {ord:?}: cached hash {hc}, recomputed hash {h}")); }
        let hc2 = f.cached_semantic_hash(&vo, &map).value();
        if hc2 != h { return Err(format!("BDD under order {ord:?}: cached hash read back as {hc2}, recomputed hash {h}")); }
        let hcn = b.negate(f).cached_semantic_hash(&vo, &map).value();
        if hcn != (Q + 1 - h) % Q { return Err(format!("BDD under order {ord:?}: cached hash of the negation {hcn}, one minus the hash is {}", (Q + 1 - h) % Q)); }
        if k == 0 {
            let d = StandardDecisionNNFBuilder::new(VarOrder::new(&order));
            let dd = d.compile_cnf_topdown(&cnf);
            seen.push((format!("decision-DNNF (standard store) under order {ord:?}"), dd.semantic_hash(&map).value()));
            let hn = dd.neg().semantic_hash(&map).value();
            let hd = dd.semantic_hash(&map).value();
            if hn != (Q + 1 - hd) % Q { return Err(format!("decision-DNNF: the negation hashes to {hn}, one minus the hash {hd} is {}", (Q + 1 - hd) % Q)); }
        }
    }
    let sb = CompressionSddBuilder::new(vtree(&c["vtree"]));
    let sf = sb.compile_cnf(&cnf);
    seen.push((format!("SDD under vtree {}", c["vtree"]), sf.semantic_hash(&map).value()));
    let shn = sb.negate(sf).semantic_hash(&map).value();
    for (what, h) in seen.iter() {
        if *h != want { return Err(format!("{what}: semantic hash {h}, the sum over the models under the hash weights is {want} (prime {Q})")); }
    }
    if shn != (Q + 1 - want) % Q { return Err(format!("SDD: the negation hashes to {shn}, one minus the hash is {}", (Q + 1 - want) % Q)); }
    Ok(())
}
fn mulmod(a: u128, b: u128, q: u128) -> u128 {
    // q < 2^64 here, so the product fits
    (a % q) * (b % q) % q
}

/// SDDs over 17-20 variables (vtree indices beyond 32): parity-like functions built with xor / and / or under an even-split or
/// right-linear vtree; every decision node is reached through both polarities; finite-field count and evaluate against the
/// structural truth table (2^n assignments)
fn run_sddbig(c: &Value) -> CaseResult {
    let nv = c["nvars"].as_u64().unwrap_or(17) as usize;
    let order: Vec<VarLabel> = (0..nv).map(|i| VarLabel::new(i as u64)).collect();
    let vt = if c["shape"].as_u64().unwrap_or(0) == 0 { VTree::even_split(&order, 2) } else { VTree::right_linear(&order) };
    let b = CompressionSddBuilder::new(vt);
    let step = c["step"].as_u64().unwrap_or(1) as usize;
    let mut f = b.var(VarLabel::new(0), true);
    for i in 1..nv {
        let x = b.var(VarLabel::new(i as u64), true);
        f = if i % step == 0 && step > 1 { b.and(f, b.or(x, b.negate(f))) } else { b.xor(f, x) };
    }
    let h: Vec<u128> = (0..nv).map(|i| (c["seed"].as_u64().unwrap_or(7) as u128 * 2654435761 + 97 * i as u128 * i as u128 + 13) % P).collect();
    let w: Vec<(u128, u128)> = h.iter().map(|x| ((P + 1 - x) % P, *x)).collect();
    for (what, d) in [("f", f), ("!f", b.negate(f))] {
        let nm = 1usize << nv;
        let mut want = 0u128; let mut models = 0usize;
        let mut a = vec![false; nv];
        for m in 0..nm {
            for i in 0..nv { a[i] = (m >> i) & 1 == 1; }
            if seval(d, &a) { models += 1; let mut x = 1u128; for i in 0..nv { x = x * (if a[i] { w[i].1 } else { w[i].0 }) % P; } want = (want + x) % P; }
        }
        let got = d.unsmoothed_wmc(&ff_params(nv, &w)).value();
        if got != want { return Err(format!("SDD {what} over {nv} variables ({models} models): weighted count {got}, the sum over the models is {want}")); }
        for k in 0..64usize { let m = (k * 2654435761usize) % nm; for i in 0..nv { a[i] = (m >> i) & 1 == 1; } if d.evaluate(&a) != seval(d, &a) { return Err(format!("SDD {what} over {nv} variables: evaluate({a:?}) is {}, the diagram denotes {}", d.evaluate(&a), seval(d, &a))); } }
    }
    Ok(())
}

pub fn run(c: &Value) -> CaseResult {
    if c["kind"].as_str() == Some("sddbig") { return run_sddbig(c); }
    if c["kind"].as_str() == Some("semhash") {
        return match c["prime"].as_u64().unwrap_or(0) { 0 => run_semhash::<{ primes::U32_TINY }>(c), 1 => run_semhash::<{ primes::U32_SMALL }>(c), _ => run_semhash::<{ primes::U64_LARGEST }>(c) };
    }
    let nv = c["nvars"].as_u64().unwrap_or(3) as usize;
    let clauses = clauses_of(c);
    let cnf = Cnf::new(&clauses);
    let ws = weights(c, nv);
    let ord: Vec<usize> = c["order"].as_array().map(|a| a.iter().map(|v| v.as_u64().unwrap_or(0) as usize).collect()).unwrap_or_else(|| (0..nv).collect());
    let order: Vec<VarLabel> = ord.iter().map(|v| VarLabel::new(*v as u64)).collect();
    let nm = 1usize << nv;
    match c["kind"].as_str().unwrap_or("bdd") {
        "bdd" => {
            let b = RobddBuilder::<AllIteTable<BddPtr>>::new(VarOrder::new(&order));
            let f = b.compile_cnf(&cnf);
            let x = c["extra"].as_u64().unwrap_or(0) as usize % nv;
            let lit = b.var(VarLabel::new(x as u64), c["extra_pol"].as_bool().unwrap_or(true));
            // g shares nodes with f and reaches some of them through complemented edges
            let g = b.xor(f, lit);
            let h = b.or(b.negate(f), b.and(g, lit));
            for (nm_, d) in [("f", f), ("!f", b.negate(f)), ("f xor lit", g), ("!f | (g & lit)", h), ("!(f xor lit)", b.negate(g))] {
                let tt: Vec<bool> = (0..nm).map(|m| beval(d, &asg(m, nv))).collect();
                check_generic(&format!("BDD {nm_}"), d, &tt, nv, &ws)?;
                // arbitrary weights: the sum over the variables each sub-function depends on
                let want = ff_dep_sum(&tt, nv, &ord, &ws.arb);
                let got = d.unsmoothed_wmc(&ff_params(nv, &ws.arb)).value();
                if got != want { return Err(format!("BDD {nm_}: count {got} under arbitrary finite-field weights {:?}, the sum over the variables each sub-function depends on is {want}", ws.arb)); }
            }
            Ok(())
        }
        "dnnf" => {
            let b = StandardDecisionNNFBuilder::new(VarOrder::new(&order));
            let d = b.compile_cnf_topdown(&cnf);
            for (nm_, d) in [("d", d), ("!d", d.neg())] {
                let tt: Vec<bool> = (0..nm).map(|m| beval(d, &asg(m, nv))).collect();
                check_generic(&format!("decision-DNNF (standard store) {nm_}"), d, &tt, nv, &ws)?;
            }
            let b2 = SemanticDecisionNNFBuilder::<{ primes::U64_LARGEST }>::new(VarOrder::new(&order));
            let d2 = b2.compile_cnf_topdown(&cnf);
            for (nm_, d) in [("d", d2), ("!d", d2.neg())] {
                let tt: Vec<bool> = (0..nm).map(|m| beval(d, &asg(m, nv))).collect();
                check_generic(&format!("decision-DNNF (semantic store) {nm_}"), d, &tt, nv, &ws)?;
            }
            Ok(())
        }
        _ => {
            let b = CompressionSddBuilder::new(vtree(&c["vtree"]));
            let f = b.compile_cnf(&cnf);
            let x = c["extra"].as_u64().unwrap_or(0) as usize % nv;
            let lit = b.var(VarLabel::new(x as u64), c["extra_pol"].as_bool().unwrap_or(true));
            let g = b.xor(f, lit);
            for (nm_, d) in [("f", f), ("!f", b.negate(f)), ("f xor lit", g), ("!(f xor lit)", b.negate(g))] {
                let tt: Vec<bool> = (0..nm).map(|m| seval(d, &asg(m, nv))).collect();
                check_generic(&format!("SDD {nm_}"), d, &tt, nv, &ws)?;
            }
            Ok(())
        }
    }
}

pub fn candidates(seed: u64) -> Vec<Value> {
    let mut out = vec![];
    for (nv, shape, step) in [(17u64, 0u64, 1u64), (18, 0, 1), (17, 1, 1), (19, 0, 5), (20, 0, 1)] { out.push(json!({"case": "wmc", "kind": "sddbig", "nvars": nv, "shape": shape, "step": step, "seed": seed % 1000})); }
    let mut s = seed.wrapping_add(90210);
    let mut nx = |n: u64| { s = s.wrapping_mul(6364136223846793005).wrapping_add(1442695040888963407); (s >> 33) % n };
    let vt3 = [json!([[0, 1], 2]), json!([0, [1, 2]]), json!([[2, 0], 1]), json!([1, [2, 0]])];
    let vt4 = [json!([[0, 1], [2, 3]]), json!([[[3, 1], 0], 2]), json!([2, [0, [3, 1]]]), json!([0, [1, [2, 3]]]), json!([[1, [3, 0]], 2])];
    let vt5 = [json!([[0, 1], [2, [3, 4]]]), json!([[[4, 1], 0], [2, 3]]), json!([0, [1, [2, [3, 4]]]])];
    for t in 0..1500u64 {
        let nv = 3 + (t % 3) as usize;
        let ncl = 1 + nx(2 * nv as u64) as usize;
        let mut cnf: Vec<Vec<i64>> = vec![];
        for _ in 0..ncl {
            let w = 1 + nx(if t % 5 == 0 { nv as u64 } else { 3 }) as usize;
            cnf.push((0..w).map(|_| { let v = 1 + nx(nv as u64) as i64; if nx(2) == 0 { v } else { -v } }).collect());
        }
        // make sure the last variable occurs (the builders size themselves from the order / vtree, the CNF from its labels)
        cnf.push(vec![nv as i64, -(1 + nx(nv as u64) as i64)]);
        let mut order: Vec<u64> = (0..nv as u64).collect();
        for i in (1..nv).rev() { let j = nx(i as u64 + 1) as usize; order.swap(i, j); }
        let h: Vec<u64> = (0..nv).map(|_| match nx(6) { 0 => 0, 1 => 1, _ => nx(1_000_000_007) }).collect();
        let l: Vec<u64> = (0..nv).map(|_| match nx(6) { 0 => 0, 1 => 1, _ => nx(1_000_000_007) }).collect();
        let dy: Vec<u64> = (0..nv).map(|_| nx(17)).collect();
        let kind = ["bdd", "dnnf", "sdd"][(t / 3 % 3) as usize];
        let vt = match nv { 3 => vt3[nx(4) as usize].clone(), 4 => vt4[nx(5) as usize].clone(), _ => vt5[nx(3) as usize].clone() };
        if t % 4 == 0 {
            out.push(json!({"case": "wmc", "kind": "semhash", "prime": t / 4 % 3, "nvars": nv, "cnf": cnf.clone(), "order": order.clone(), "vtree": vt.clone()}));
        }
        out.push(json!({"case": "wmc", "kind": kind, "nvars": nv, "cnf": cnf, "order": order, "vtree": vt, "h": h, "l": l, "dy": dy,
                        "extra": nx(nv as u64), "extra_pol": nx(2) == 0}));
    }
    out
}
