//! lattice / semiring cases for the float-based weight types and the Boolean semiring, on a grid of values
//! that includes incomparable pairs, equal elements, signed zeros and infinities
use crate::CaseResult;
use rsdd::util::semirings::{Complex, BBRing, BBSemiring, BooleanSemiring, ExpectedUtility, JoinSemilattice, MeetSemilattice, RationalSemiring, RealSemiring, Semiring};
use serde_json::{json, Value};

fn f(v: &Value) -> f64 {
    match v.as_str() { Some("inf") => f64::INFINITY, Some("-inf") => f64::NEG_INFINITY, Some("-0") => -0.0, _ => v.as_f64().unwrap_or(0.0) }
}

pub fn run(c: &Value) -> CaseResult {
    let chk = |what: &str, ok: bool| -> CaseResult { if ok { Ok(()) } else { Err(what.to_string()) } };
    match c["case"].as_str().unwrap_or("") {
        "lat_eu" => {
            let g = |k: &str| ExpectedUtility(f(&c[k][0]), f(&c[k][1]));
            let (a, b, d) = (g("a"), g("b"), g("c"));
            chk("join idempotent", a.join(&a) == a)?; chk("meet idempotent", a.meet(&a) == a)?;
            chk("join commutative", a.join(&b) == b.join(&a))?; chk("meet commutative", a.meet(&b) == b.meet(&a))?;
            chk("join associative", a.join(&b).join(&d) == a.join(&b.join(&d)))?; chk("meet associative", a.meet(&b).meet(&d) == a.meet(&b.meet(&d)))?;
            // ring subtraction inverts addition whenever every value involved is an exactly representable integer
            let int_ok = |x: f64| x.fract() == 0.0 && x.abs() <= 9007199254740992.0;
            if [a.0, a.1, b.0, b.1].iter().all(|x| int_ok(*x)) && int_ok(a.0 + b.0) && int_ok(a.1 + b.1) && int_ok(a.0 - b.0) && int_ok(a.1 - b.1)
                && (a.0 as i128 + b.0 as i128 == (a.0 + b.0) as i128) && (a.1 as i128 + b.1 as i128 == (a.1 + b.1) as i128)
                && (a.0 as i128 - b.0 as i128 == (a.0 - b.0) as i128) && (a.1 as i128 - b.1 as i128 == (a.1 - b.1) as i128) {
                chk("expected utility: (a+b)-b == a on exact integers", (a + b) - b == a)?;
                chk("expected utility: (a-b)+b == a on exact integers", (a - b) + b == a)?;
            }
            if a < b || a == b {
                chk("a<=b: join is the larger", a.join(&b) == b)?; chk("a<=b: meet is the smaller", a.meet(&b) == a)?;
                chk("a<=b: choose is the larger", BBSemiring::choose(&a, &b) == b && BBSemiring::choose(&b, &a) == b && BBRing::choose(&a, &b) == b && BBRing::choose(&b, &a) == b)?;
            }
            Ok(())
        }
        "lat_real" => {
            let (a, b, d) = (RealSemiring(f(&c["a"])), RealSemiring(f(&c["b"])), RealSemiring(f(&c["c"])));
            chk("join idempotent", a.join(&a) == a)?; chk("meet idempotent", a.meet(&a) == a)?;
            chk("join commutative", a.join(&b) == b.join(&a))?; chk("meet commutative", a.meet(&b) == b.meet(&a))?;
            chk("join associative", a.join(&b).join(&d) == a.join(&b.join(&d)))?; chk("meet associative", a.meet(&b).meet(&d) == a.meet(&b.meet(&d)))?;
            let int_ok = |x: f64| x.fract() == 0.0 && x.abs() <= 9007199254740992.0;
            if int_ok(a.0) && int_ok(b.0) && int_ok(a.0 + b.0) && int_ok(a.0 - b.0) && (a.0 as i128 + b.0 as i128 == (a.0 + b.0) as i128) && (a.0 as i128 - b.0 as i128 == (a.0 - b.0) as i128) {
                chk("real: (a+b)-b == a on exact integers", (a + b) - b == a)?;
                if int_ok(d.0) && ((a.0 as i128 + b.0 as i128 + d.0 as i128).abs() <= 9007199254740992) && ((b.0 as i128 + d.0 as i128).abs() <= 9007199254740992) && ((a.0 as i128 + b.0 as i128).abs() <= 9007199254740992) {
                    chk("real: + associative on exact integers", (a + b) + d == a + (b + d))?;
                }
                chk("real: (a-b)+b == a on exact integers", (a - b) + b == a)?;
            }
            if a <= b {
                chk("a<=b: join is the larger", a.join(&b) == b)?; chk("a<=b: meet is the smaller", a.meet(&b) == a)?;
                chk("a<=b: choose is the larger", BBSemiring::choose(&a, &b) == b && BBRing::choose(&b, &a) == b)?;
            }
            // semiring laws on small integers (exactly representable)
            if [a.0, b.0, d.0].iter().all(|x| x.fract() == 0.0 && x.abs() <= 8.0) {
                let (one, zero) = (RealSemiring::one(), RealSemiring::zero());
                chk("+ associative", (a + b) + d == a + (b + d))?; chk("+ commutative", a + b == b + a)?;
                chk("* associative", (a * b) * d == a * (b * d))?; chk("* commutative", a * b == b * a)?;
                chk("identities", a + zero == a && a * one == a && a * zero == zero)?;
                chk("distributive", a * (b + d) == (a * b) + (a * d))?; chk("sub inverts add", (a - b) + b == a)?;
            }
            Ok(())
        }
        "lat_complex" => {
            let g = |k: &str| Complex { re: f(&c[k][0]), im: f(&c[k][1]) };
            let (a, b, d) = (g("a"), g("b"), g("c"));
            let (one, zero) = (Complex::one(), Complex::zero());
            let eq = |x: Complex, y: Complex| x.re == y.re && x.im == y.im;
            // exact on every finite value: identities, annihilation, commutativity
            chk("complex a+0 == a", eq(a + zero, a) && eq(zero + a, a))?;
            chk("complex a*1 == a", eq(a * one, a) && eq(one * a, a))?;
            chk("complex a*0 == 0", eq(a * zero, zero) && eq(zero * a, zero))?;
            chk("complex + commutative", eq(a + b, b + a))?;
            chk("complex * commutative", eq(a * b, b * a))?;
            // small integers: everything is exact
            if [a.re, a.im, b.re, b.im, d.re, d.im].iter().all(|x| x.fract() == 0.0 && x.abs() <= 8.0) {
                chk("complex + associative", eq((a + b) + d, a + (b + d)))?;
                chk("complex * associative", eq((a * b) * d, a * (b * d)))?;
                chk("complex distributive", eq(a * (b + d), (a * b) + (a * d)))?;
                chk("complex sub inverts add", eq((a - b) + b, a))?;
            }
            Ok(())
        }
        "lat_rational" => {
            // the wrapped rational is private: values are the naturals reachable from one()/zero() by addition
            let nat = |n: u64| { let mut x = RationalSemiring::zero(); for _ in 0..n { x = x + RationalSemiring::one(); } x };
            let (na, nb, nd) = (c["a"].as_u64().unwrap_or(0), c["b"].as_u64().unwrap_or(0), c["c"].as_u64().unwrap_or(0));
            let (a, b, d) = (nat(na), nat(nb), nat(nd));
            let (one, zero) = (RationalSemiring::one(), RationalSemiring::zero());
            chk("rational + is addition", a + b == nat(na + nb))?; chk("rational * is multiplication", a * b == nat(na * nb))?;
            chk("rational + associative/commutative", (a + b) + d == a + (b + d) && a + b == b + a)?;
            chk("rational * associative/commutative", (a * b) * d == a * (b * d) && a * b == b * a)?;
            chk("rational identities", a + zero == a && a * one == a && a * zero == zero && one != zero)?;
            chk("rational distributive", a * (b + d) == (a * b) + (a * d))
        }
        _ => {
            let (a, b, d) = (BooleanSemiring(c["a"].as_bool().unwrap_or(false)), BooleanSemiring(c["b"].as_bool().unwrap_or(false)), BooleanSemiring(c["c"].as_bool().unwrap_or(false)));
            let (one, zero) = (BooleanSemiring::one(), BooleanSemiring::zero());
            chk("bool laws", (a + b) + d == a + (b + d) && a + b == b + a && (a * b) * d == a * (b * d) && a * b == b * a && a + zero == a && a * one == a && a * zero == zero && a * (b + d) == (a * b) + (a * d) && (a + b).0 == (a.0 || b.0) && (a * b).0 == (a.0 && b.0) && one.0 && !zero.0)
        }
    }
}

pub fn candidates(_seed: u64) -> Vec<Value> {
    let mut out = vec![];
    for a in [false, true] { for b in [false, true] { for c in [false, true] { out.push(json!({"case": "lat_bool", "a": a, "b": b, "c": c})); } } }
    for a in 0..5u64 { for b in 0..5u64 { for c in 0..4u64 { out.push(json!({"case": "lat_rational", "a": a, "b": b, "c": c})); } } }
    let cv = vec![json!([0.0, 0.0]), json!([1.0, 0.0]), json!([0.0, 1.0]), json!([-1.0, 2.0]), json!([3.0, -4.0]), json!([9007199254740992.0, 1.0]), json!([1.0, 9007199254740992.0]), json!([-9007199254740992.0, 3.0]), json!([0.5, 0.25])];
    for a in cv.iter() { for b in cv.iter() { for c in cv.iter().take(5) { out.push(json!({"case": "lat_complex", "a": a, "b": b, "c": c})); } } }
    let vals = vec![json!(0.0), json!("-0"), json!(0.25), json!(1.0), json!(2.0), json!(-3.0), json!(8.0), json!("inf"), json!("-inf"), json!(9007199254740991.0), json!(4503599627370497.0), json!(-4503599627370496.0)];
    for a in vals.iter() { for b in vals.iter() { for c in vals.iter().take(5) { out.push(json!({"case": "lat_real", "a": a, "b": b, "c": c})); } } }
    let pv = vec![json!([0.0, 0.0]), json!([0.0, 0.25]), json!([1.0, 2.0]), json!([2.0, 1.0]), json!([1.0, 1.0]), json!(["-0", 0.0]), json!([0.5, "inf"]), json!([-1.0, -1.0]), json!([1.0, 9007199254740991.0]), json!([4503599627370497.0, 5.0]), json!([-4503599627370496.0, 1.0])];
    for a in pv.iter() { for b in pv.iter() { for c in pv.iter().take(4) { out.push(json!({"case": "lat_eu", "a": a, "b": b, "c": c})); } } }
    out
}
