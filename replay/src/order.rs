//! variable-order cases on the REAL VarOrder: the position and label maps must be mutually inverse
use crate::CaseResult;
use rsdd::repr::{VarLabel, VarOrder};
use serde_json::{json, Value};

pub fn run(c: &Value) -> CaseResult {
    let perm: Vec<u64> = c["order"].as_array().map(|a| a.iter().map(|v| v.as_u64().unwrap_or(0)).collect()).unwrap_or_default();
    let labels: Vec<VarLabel> = perm.iter().map(|v| VarLabel::new(*v)).collect();
    let mut o = VarOrder::new(&labels);
    let extra = c["extend"].as_u64().unwrap_or(0);
    let mut expect: Vec<u64> = perm.clone();
    for _ in 0..extra {
        let l = o.new_last();
        if l.value() != expect.len() as u64 { return Err(format!("new_last returned label {} for an order of {} variables", l.value(), expect.len())); }
        expect.push(l.value());
    }
    if o.num_vars() != expect.len() { return Err(format!("num_vars = {}, expected {}", o.num_vars(), expect.len())); }
    for (pos, lbl) in expect.iter().enumerate() {
        if o.get(VarLabel::new(*lbl)) != pos { return Err(format!("position of label {lbl} is {}, expected {pos}", o.get(VarLabel::new(*lbl)))); }
        if o.var_at_level(pos).value() != *lbl { return Err(format!("label at level {pos} is {}, expected {lbl}", o.var_at_level(pos).value())); }
    }
    for a in expect.iter() {
        for b in expect.iter() {
            let (pa, pb) = (expect.iter().position(|x| x == a).unwrap(), expect.iter().position(|x| x == b).unwrap());
            if o.lt(VarLabel::new(*a), VarLabel::new(*b)) != (pa < pb) { return Err(format!("lt({a},{b}) wrong")); }
            if o.lte(VarLabel::new(*a), VarLabel::new(*b)) != (pa <= pb) { return Err(format!("lte({a},{b}) wrong")); }
        }
    }
    Ok(())
}

fn perms(n: usize) -> Vec<Vec<u64>> {
    if n == 0 { return vec![vec![]]; }
    let mut out = vec![];
    for p in perms(n - 1) {
        for i in 0..=p.len() {
            let mut q = p.clone();
            q.insert(i, (n - 1) as u64);
            out.push(q);
        }
    }
    out
}

pub fn candidates(_seed: u64) -> Vec<Value> {
    let mut out = vec![];
    for n in 0..=4 {
        for p in perms(n) {
            for ext in 0..3 {
                out.push(json!({"case": "order_perm", "order": p, "extend": ext}));
            }
        }
    }
    out
}
