//! variable-order cases on the REAL VarOrder: the position and label maps must be mutually inverse
use crate::CaseResult;
use rsdd::repr::{Cnf, Literal, VarLabel, VarOrder};
use serde_json::{json, Value};

/// orders derived from a CNF (linear, force, min-fill) must be bijections between its labels and 0..n
fn run_heur(c: &Value) -> CaseResult {
    let cls: Vec<Vec<Literal>> = c["cnf"].as_array().map(|cs| cs.iter().map(|cl| cl.as_array().map(|ls| ls.iter().map(|l| {
        let x = l.as_i64().unwrap_or(1);
        Literal::new(VarLabel::new((x.unsigned_abs() - 1) as u64), x > 0)
    }).collect()).unwrap_or_default()).collect()).unwrap_or_default();
    let cnf = Cnf::new(&cls);
    let n = cnf.num_vars();
    for (name, o) in [("linear_order", cnf.linear_order()), ("force_order", cnf.force_order()), ("min_fill_order", cnf.min_fill_order())] {
        if o.num_vars() != n { return Err(format!("{name}: {} variables, the CNF has {n}", o.num_vars())); }
        let mut seen = vec![false; n];
        for l in 0..n {
            let p = o.get(VarLabel::new(l as u64));
            if p >= n || seen[p] { return Err(format!("{name}: position {p} of label {l} is out of range or taken twice")); }
            seen[p] = true;
            if o.var_at_level(p).value() as usize != l { return Err(format!("{name}: label at level {p} is {}, expected {l}", o.var_at_level(p).value())); }
        }
        if name == "linear_order" { for l in 0..n { if o.get(VarLabel::new(l as u64)) != l { return Err("linear_order is not the identity".into()); } } }
    }
    Ok(())
}

pub fn run(c: &Value) -> CaseResult {
    if c["case"].as_str() == Some("order_heur") { return run_heur(c); }
    let perm: Vec<u64> = c["order"].as_array().map(|a| a.iter().map(|v| v.as_u64().unwrap_or(0)).collect()).unwrap_or_default();
    let labels: Vec<VarLabel> = perm.iter().map(|v| VarLabel::new(*v)).collect();
    let mut o = VarOrder::new(&labels);
    let extra = c["extend"].as_u64().unwrap_or(0);
    let mut expect: Vec<u64> = perm.clone();
    for _ in 0..extra {
        let l = o.new_last();
        if l.value() != expect.len() as u64 { return Err(format!("new_last returned label {} for an order of {} variables", l.value(), expect.len())); }
        expect.push(l.value());
    }
    if o.num_vars() != expect.len() { return Err(format!("num_vars = {}, expected {}", o.num_vars(), expect.len())); }
    for (pos, lbl) in expect.iter().enumerate() {
        if o.get(VarLabel::new(*lbl)) != pos { return Err(format!("position of label {lbl} is {}, expected {pos}", o.get(VarLabel::new(*lbl)))); }
        if o.var_at_level(pos).value() != *lbl { return Err(format!("label at level {pos} is {}, expected {lbl}", o.var_at_level(pos).value())); }
    }
    for a in expect.iter() {
        for b in expect.iter() {
            let (pa, pb) = (expect.iter().position(|x| x == a).unwrap(), expect.iter().position(|x| x == b).unwrap());
            if o.lt(VarLabel::new(*a), VarLabel::new(*b)) != (pa < pb) { return Err(format!("lt({a},{b}) wrong")); }
            if o.lte(VarLabel::new(*a), VarLabel::new(*b)) != (pa <= pb) { return Err(format!("lte({a},{b}) wrong")); }
        }
    }
    Ok(())
}

fn perms(n: usize) -> Vec<Vec<u64>> {
    if n == 0 { return vec![vec![]]; }
    let mut out = vec![];
    for p in perms(n - 1) {
        for i in 0..=p.len() {
            let mut q = p.clone();
            q.insert(i, (n - 1) as u64);
            out.push(q);
        }
    }
    out
}

pub fn candidates(seed: u64) -> Vec<Value> {
    let mut out = vec![];
    let mut s = seed.wrapping_add(99);
    let mut nx = |n: u64| { s = s.wrapping_mul(6364136223846793005).wrapping_add(1442695040888963407); (s >> 33) % n };
    out.push(json!({"case": "order_heur", "cnf": [[1]]}));
    out.push(json!({"case": "order_heur", "cnf": [[1, 2], [2, 3], [3, 4], [4, 5]]}));
    for _ in 0..10 {
        // a formula over 66-70 variables, most of them in no clause
        let nv = 66 + nx(5) as i64;
        let cnf: Vec<Vec<i64>> = vec![vec![1, -nv], vec![2, 65, -3], vec![nv - 1, 64], vec![nv]];
        out.push(json!({"case": "order_heur", "cnf": cnf}));
    }
    for _ in 0..200 {
        let nv = 1 + nx(6);
        let ncl = 1 + nx(6);
        let mut cnf: Vec<Vec<i64>> = (0..ncl).map(|_| (0..1 + nx(3)).map(|_| { let v = 1 + nx(nv) as i64; if nx(2) == 0 { v } else { -v } }).collect()).collect();
        cnf.push(vec![nv as i64]);
        out.push(json!({"case": "order_heur", "cnf": cnf}));
    }
    for n in 0..=4 {
        for p in perms(n) {
            for ext in 0..3 {
                out.push(json!({"case": "order_perm", "order": p, "extend": ext}));
            }
        }
    }
    out
}
