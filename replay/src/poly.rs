//! truncated polynomials on the REAL code: + and * over FiniteField coefficients against the schoolbook definition
use crate::CaseResult;
use rsdd::constants::primes;
use rsdd::util::semirings::{FiniteField, Polynomial, Semiring, MAX_COEFFS};
use serde_json::{json, Value};

type F = FiniteField<{ primes::U32_TINY }>;
const P: u128 = primes::U32_TINY;

fn mk(v: &Value) -> (Polynomial<F>, Vec<u128>) {
    let cs: Vec<u128> = v.as_array().map(|a| a.iter().map(|x| x.as_u64().unwrap_or(0) as u128 % P).collect()).unwrap_or_default();
    let mut p = Polynomial::<F>::zero();
    for (i, c) in cs.iter().enumerate().take(MAX_COEFFS) {
        p.coefficients[i] = F::new(*c);
    }
    p.len = cs.len().min(MAX_COEFFS);
    (p, cs.into_iter().take(MAX_COEFFS).collect())
}

pub fn run(c: &Value) -> CaseResult {
    let ((a, av), (b, bv)) = (mk(&c["a"]), mk(&c["b"]));
    let s = a + b;
    let want_len = av.len().max(bv.len());
    if s.len != want_len { return Err(format!("a+b has len {}, expected {}", s.len, want_len)); }
    for i in 0..MAX_COEFFS {
        let w = if i < want_len { (av.get(i).copied().unwrap_or(0) + bv.get(i).copied().unwrap_or(0)) % P } else { 0 };
        if s.coefficients[i].value() != w { return Err(format!("(a+b)[{i}] = {}, expected {w}", s.coefficients[i].value())); }
    }
    let m = a * b;
    let want_len = if av.is_empty() || bv.is_empty() { 0 } else { (av.len() + bv.len() - 1).min(MAX_COEFFS) };
    if m.len != want_len { return Err(format!("a*b has len {}, expected {}", m.len, want_len)); }
    for k in 0..MAX_COEFFS {
        let mut w = 0u128;
        if !av.is_empty() && !bv.is_empty() {
            for i in 0..av.len() { if k >= i && k - i < bv.len() { w = (w + av[i] * bv[k - i]) % P; } }
        }
        if m.coefficients[k].value() != w { return Err(format!("(a*b)[{k}] = {}, expected {w}", m.coefficients[k].value())); }
    }
    // the semiring laws on these operands (c defaults to b reversed): exact, the coefficients are residues
    let (cpoly, _) = if c["c"].is_null() { let mut r: Vec<Value> = c["b"].as_array().cloned().unwrap_or_default(); r.reverse(); mk(&json!(r)) } else { mk(&c["c"]) };
    let (zero, one) = (Polynomial::<F>::zero(), Polynomial::<F>::one());
    let chk = |what: &str, ok: bool| -> CaseResult { if ok { Ok(()) } else { Err(format!("polynomial law fails: {what}")) } };
    chk("a+b == b+a", a + b == b + a)?;
    chk("(a+b)+c == a+(b+c)", (a + b) + cpoly == a + (b + cpoly))?;
    chk("a+0 == a", a + zero == a && zero + a == a)?;
    chk("a*b == b*a", a * b == b * a)?;
    chk("(a*b)*c == a*(b*c)", (a * b) * cpoly == a * (b * cpoly))?;
    chk("a*1 == a", a * one == a && one * a == a)?;
    chk("a*0 == 0", a * zero == zero && zero * a == zero)?;
    chk("a*(b+c) == a*b + a*c", a * (b + cpoly) == (a * b) + (a * cpoly))?;
    Ok(())
}

pub fn candidates(seed: u64) -> Vec<Value> {
    let mut out = vec![json!({"case": "poly_ops", "a": [], "b": []}), json!({"case": "poly_ops", "a": [1], "b": []}), json!({"case": "poly_ops", "a": [1, 2], "b": [3]})];
    let mut s = seed.wrapping_add(909);
    let mut nx = |n: u64| { s = s.wrapping_mul(6364136223846793005).wrapping_add(1442695040888963407); (s >> 33) % n };
    for _ in 0..400 {
        let (la, lb) = (nx(34), nx(34));
        let a: Vec<u64> = (0..la).map(|_| nx(1000003)).collect();
        let b: Vec<u64> = (0..lb).map(|_| nx(1000003)).collect();
        out.push(json!({"case": "poly_ops", "a": a, "b": b}));
    }
    out.sort_by_key(|c| c["a"].as_array().map(|a| a.len()).unwrap_or(0) + c["b"].as_array().map(|a| a.len()).unwrap_or(0));
    out
}
