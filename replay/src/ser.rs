//! Serialiser cases on the REAL code (C17, table part): a diagram / vtree is built with the real builders, handed to
//! BDDSerializer::from_bdd / SDDSerializer::from_sdd / VTreeSerializer::from_vtree, turned into JSON by serde_json, and the
//! JSON is read back by an INDEPENDENT reader (a plain node table with complement flags); the function it denotes is compared
//! with the truth table of the function that was built (all assignments), the tree with the tree that was built.
use crate::CaseResult;
use rsdd::builder::bdd::RobddBuilder;
use rsdd::builder::cache::AllIteTable;
use rsdd::builder::sdd::CompressionSddBuilder;
use rsdd::builder::BottomUpBuilder;
use rsdd::repr::{BddPtr, Cnf, DDNNFPtr, LogicalExpr, SddPtr, VTree, VarLabel, VarOrder};
use rsdd::serialize::{BDDSerializer, LogicalSExpr, SDDSerializer, VTreeSerializer};
use serde_json::{json, Value};

fn vtree(v: &Value) -> VTree {
    match v.as_array() {
        Some(a) => VTree::new_node(Box::new(vtree(&a[0])), Box::new(vtree(&a[1]))),
        None => VTree::new_leaf(VarLabel::new(v.as_u64().unwrap_or(0))),
    }
}
fn vleaves(v: &Value, out: &mut Vec<u64>) { match v.as_array() { Some(a) => { vleaves(&a[0], out); vleaves(&a[1], out); } None => out.push(v.as_u64().unwrap_or(0)) } }

/// reader of the BDD table: {"Ptr": {"index", "compl"}} | "True" | "False"
fn rd_bdd(nodes: &[Value], p: &Value, a: &[bool], fuel: usize) -> Result<bool, String> {
    if fuel == 0 { return Err("the BDD table is cyclic".into()); }
    if p == "True" { return Ok(true); }
    if p == "False" { return Ok(false); }
    let q = &p["Ptr"];
    let (i, c) = (q["index"].as_u64().ok_or("pointer without index")? as usize, q["compl"].as_bool().ok_or("pointer without compl")?);
    let n = nodes.get(i).ok_or(format!("pointer to row {i} of a table with {} rows", nodes.len()))?;
    let v = n["topvar"].as_u64().ok_or("row without topvar")? as usize;
    let r = if a[v] { rd_bdd(nodes, &n["high"], a, fuel - 1)? } else { rd_bdd(nodes, &n["low"], a, fuel - 1)? };
    Ok(r != c)
}
/// reader of the SDD table: {"Ptr": {..}} | "True" | "False" | {"Literal": {"label", "polarity"}}; a row is a list of {prime, sub}
fn rd_sdd(nodes: &[Value], p: &Value, a: &[bool], fuel: usize) -> Result<bool, String> {
    if fuel == 0 { return Err("the SDD table is cyclic".into()); }
    if p == "True" { return Ok(true); }
    if p == "False" { return Ok(false); }
    if let Some(l) = p.get("Literal") {
        return Ok(a[l["label"].as_u64().ok_or("literal without label")? as usize] == l["polarity"].as_bool().ok_or("literal without polarity")?);
    }
    let q = &p["Ptr"];
    let (i, c) = (q["index"].as_u64().ok_or("pointer without index")? as usize, q["compl"].as_bool().ok_or("pointer without compl")?);
    let row = nodes.get(i).ok_or(format!("pointer to row {i} of a table with {} rows", nodes.len()))?.as_array().ok_or("row is not a list")?;
    let mut r = false;
    for e in row { if rd_sdd(nodes, &e["prime"], a, fuel - 1)? && rd_sdd(nodes, &e["sub"], a, fuel - 1)? { r = true; } }
    Ok(r != c)
}
fn same_tree(j: &Value, v: &Value) -> bool {
    match v.as_array() {
        Some(a) => j.get("Node").map_or(false, |n| same_tree(&n["left"], &a[0]) && same_tree(&n["right"], &a[1])),
        None => j.get("Leaf").and_then(|l| l.as_u64()) == v.as_u64(),
    }
}

/// operand programs shared by the BDD and the SDD case: op k builds function k from earlier ones; the truth table is kept alongside
fn tt_of(nv: usize, ops: &[Value]) -> Vec<Vec<bool>> {
    let nm = 1usize << nv;
    let mut ts: Vec<Vec<bool>> = vec![];
    let ix = |v: &Value| v.as_u64().unwrap_or(0) as usize;
    for op in ops {
        let name = op[0].as_str().unwrap_or("");
        let g = |i: usize| -> Vec<bool> { ts[i % ts.len().max(1)].clone() };
        let t: Vec<bool> = match name {
            "var" => { let (l, p) = (ix(&op[1]) % nv, op[2].as_bool().unwrap_or(true)); (0..nm).map(|m| ((m >> l) & 1 == 1) == p).collect() }
            "true" => vec![true; nm],
            "false" => vec![false; nm],
            "neg" => g(ix(&op[1])).iter().map(|v| !v).collect(),
            "ite" => { let (x, y, z) = (g(ix(&op[1])), g(ix(&op[2])), g(ix(&op[3]))); (0..nm).map(|m| if x[m] { y[m] } else { z[m] }).collect() }
            _ => { let (x, y) = (g(ix(&op[1])), g(ix(&op[2]))); (0..nm).map(|m| match name { "and" => x[m] && y[m], "or" => x[m] || y[m], "iff" => x[m] == y[m], _ => x[m] != y[m] }).collect() }
        };
        ts.push(t);
    }
    ts
}

fn run_bdd(c: &Value) -> CaseResult {
    let order: Vec<VarLabel> = c["order"].as_array().map(|a| a.iter().map(|v| VarLabel::new(v.as_u64().unwrap_or(0))).collect()).unwrap_or_default();
    let nv = order.len();
    let ops: Vec<Value> = c["ops"].as_array().cloned().unwrap_or_default();
    let ts = tt_of(nv, &ops);
    let b = RobddBuilder::<AllIteTable<BddPtr>>::new(VarOrder::new(&order));
    let mut ds: Vec<BddPtr> = vec![];
    let ix = |v: &Value| v.as_u64().unwrap_or(0) as usize;
    for op in &ops {
        let name = op[0].as_str().unwrap_or("");
        let g = |i: usize| ds[i % ds.len().max(1)];
        let r = match name {
            "var" => b.var(VarLabel::new((ix(&op[1]) % nv) as u64), op[2].as_bool().unwrap_or(true)),
            "true" => BddPtr::true_ptr(),
            "false" => BddPtr::false_ptr(),
            "neg" => g(ix(&op[1])).neg(),
            "ite" => b.ite(g(ix(&op[1])), g(ix(&op[2])), g(ix(&op[3]))),
            "and" => b.and(g(ix(&op[1])), g(ix(&op[2]))),
            "or" => b.or(g(ix(&op[1])), g(ix(&op[2]))),
            "iff" => b.iff(g(ix(&op[1])), g(ix(&op[2]))),
            _ => b.xor(g(ix(&op[1])), g(ix(&op[2]))),
        };
        ds.push(r);
    }
    for (k, d) in ds.iter().enumerate() {
        let j = serde_json::to_value(BDDSerializer::from_bdd(*d)).map_err(|e| format!("serde_json failed: {e}"))?;
        let nodes = j["nodes"].as_array().ok_or("no nodes array")?;
        let roots = j["roots"].as_array().ok_or("no roots array")?;
        if roots.len() != 1 { return Err(format!("{} roots for one diagram", roots.len())); }
        for m in 0..(1usize << nv) {
            let a: Vec<bool> = (0..nv).map(|i| (m >> i) & 1 == 1).collect();
            let got = rd_bdd(nodes, &roots[0], &a, nodes.len() + 2)?;
            if got != ts[k][m] { return Err(format!("serialised BDD table of function {k} ({}) reads {got} on assignment {m:#b}, the function is {}", ops[k], ts[k][m])); }
        }
    }
    Ok(())
}

fn run_sdd(c: &Value) -> CaseResult {
    let mut ls = vec![]; vleaves(&c["vtree"], &mut ls);
    let nv = ls.len();
    let ops: Vec<Value> = c["ops"].as_array().cloned().unwrap_or_default();
    let ts = tt_of(nv, &ops);
    let b = CompressionSddBuilder::new(vtree(&c["vtree"]));
    let mut ds: Vec<SddPtr> = vec![];
    let ix = |v: &Value| v.as_u64().unwrap_or(0) as usize;
    for op in &ops {
        let name = op[0].as_str().unwrap_or("");
        let g = |i: usize| ds[i % ds.len().max(1)];
        let r = match name {
            "var" => b.var(VarLabel::new((ix(&op[1]) % nv) as u64), op[2].as_bool().unwrap_or(true)),
            "true" => SddPtr::true_ptr(),
            "false" => SddPtr::false_ptr(),
            "neg" => g(ix(&op[1])).neg(),
            "ite" => b.ite(g(ix(&op[1])), g(ix(&op[2])), g(ix(&op[3]))),
            "and" => b.and(g(ix(&op[1])), g(ix(&op[2]))),
            "or" => b.or(g(ix(&op[1])), g(ix(&op[2]))),
            "iff" => b.iff(g(ix(&op[1])), g(ix(&op[2]))),
            _ => b.xor(g(ix(&op[1])), g(ix(&op[2]))),
        };
        ds.push(r);
    }
    for (k, d) in ds.iter().enumerate() {
        let j = serde_json::to_value(SDDSerializer::from_sdd(*d)).map_err(|e| format!("serde_json failed: {e}"))?;
        let nodes = j["nodes"].as_array().ok_or("no nodes array")?;
        let roots = j["roots"].as_array().ok_or("no roots array")?;
        if roots.len() != 1 { return Err(format!("{} roots for one diagram", roots.len())); }
        for m in 0..(1usize << nv) {
            let a: Vec<bool> = (0..nv).map(|i| (m >> i) & 1 == 1).collect();
            let got = rd_sdd(nodes, &roots[0], &a, nodes.len() + 2)?;
            if got != ts[k][m] { return Err(format!("serialised SDD table of function {k} ({}) reads {got} on assignment {m:#b}, the function is {}", ops[k], ts[k][m])); }
        }
    }
    Ok(())
}

fn run_vtree(c: &Value) -> CaseResult {
    let t = vtree(&c["vtree"]);
    let j = serde_json::to_value(VTreeSerializer::from_vtree(&t)).map_err(|e| format!("serde_json failed: {e}"))?;
    if !same_tree(&j["root"], &c["vtree"]) { return Err(format!("serialised vtree {} is not the tree {}", j["root"], c["vtree"])); }
    Ok(())
}

/// DIMACS text -> Cnf (variable k of the text is label k-1), and Cnf -> DIMACS clause lines -> Cnf
fn run_dimacs(c: &Value) -> CaseResult {
    let nv = c["nv"].as_u64().unwrap_or(1) as usize;
    let cls: Vec<Vec<i64>> = c["clauses"].as_array().map(|a| a.iter().map(|cl| cl.as_array().map(|l| l.iter().map(|x| x.as_i64().unwrap_or(1)).collect()).unwrap_or_default()).collect()).unwrap_or_default();
    let mut text = format!("p cnf {} {}\n", nv, cls.len());
    for cl in &cls { for l in cl { text.push_str(&format!("{} ", l)); } text.push_str("0\n"); }
    let cnf = Cnf::from_dimacs(&text);
    let holds = |cs: &[Vec<rsdd::repr::Literal>], a: &[bool]| cs.iter().all(|cl| cl.iter().any(|l| a[l.label().value() as usize] == l.polarity()));
    for cl in cnf.clauses() { for l in cl { if l.label().value() as usize >= nv { return Err(format!("from_dimacs produced label {} for a text over {} variables", l.label().value(), nv)); } } }
    for m in 0..(1usize << nv) {
        let a: Vec<bool> = (0..nv).map(|i| (m >> i) & 1 == 1).collect();
        let want = cls.iter().all(|cl| cl.iter().any(|l| a[(l.unsigned_abs() - 1) as usize] == (*l > 0)));
        if holds(cnf.clauses(), &a) != want { return Err(format!("Cnf::from_dimacs: the parsed formula is {} on assignment {m:#b} (variable k of the text = bit k-1), the text says {}", !want, want)); }
    }
    // print and re-parse: the same clause sets
    let text2 = format!("p cnf {} {}\n{}\n", nv, cnf.clauses().len(), cnf.to_dimacs());
    let cnf2 = Cnf::from_dimacs(&text2);
    let norm = |cs: &[Vec<rsdd::repr::Literal>]| { let mut v: Vec<Vec<(u64, bool)>> = cs.iter().map(|cl| { let mut x: Vec<(u64, bool)> = cl.iter().map(|l| (l.label().value(), l.polarity())).collect(); x.sort(); x.dedup(); x }).collect(); v.sort(); v.dedup(); v };
    if norm(cnf.clauses()) != norm(cnf2.clauses()) { return Err(format!("to_dimacs then from_dimacs changed the clause sets: {:?} became {:?}", norm(cnf.clauses()), norm(cnf2.clauses()))); }
    Ok(())
}

/// s-expression text -> LogicalSExpr (serde_sexpr) -> LogicalExpr with the documented mapping (names in lexicographic order -> 0, 1, ..)
fn sx_text(e: &Value) -> String {
    let a = e.as_array().unwrap();
    let name = a[0].as_str().unwrap_or("");
    if name == "Var" { return format!("(Var {})", a[1].as_str().unwrap_or("X")); }
    let mut s = format!("({}", name);
    for k in &a[1..] { s.push(' '); s.push_str(&sx_text(k)); }
    s.push(')');
    s
}
fn sx_names(e: &Value, out: &mut Vec<String>) {
    let a = e.as_array().unwrap();
    if a[0] == "Var" { let n = a[1].as_str().unwrap_or("X").to_string(); if !out.contains(&n) { out.push(n); } } else { for k in &a[1..] { sx_names(k, out); } }
}
fn sx_eval(e: &Value, names: &[String], asg: &[bool]) -> bool {
    let a = e.as_array().unwrap();
    let g = |i: usize| sx_eval(&a[i], names, asg);
    match a[0].as_str().unwrap_or("") {
        "Var" => asg[names.iter().position(|n| n == a[1].as_str().unwrap_or("X")).unwrap()],
        "Not" => !g(1), "Or" => g(1) || g(2), "And" => g(1) && g(2), "Iff" => g(1) == g(2), "Xor" => g(1) != g(2),
        _ => if g(1) { g(2) } else { g(3) },
    }
}
fn le_eval(e: &LogicalExpr, asg: &[bool]) -> Result<bool, String> {
    Ok(match e {
        LogicalExpr::Literal(i, p) => *asg.get(*i).ok_or(format!("variable index {i} with {} names", asg.len()))? == *p,
        LogicalExpr::Not(x) => !le_eval(x, asg)?,
        LogicalExpr::And(x, y) => { let (p, q) = (le_eval(x, asg)?, le_eval(y, asg)?); p && q }
        LogicalExpr::Or(x, y) => { let (p, q) = (le_eval(x, asg)?, le_eval(y, asg)?); p || q }
        LogicalExpr::Iff(x, y) => le_eval(x, asg)? == le_eval(y, asg)?,
        LogicalExpr::Xor(x, y) => le_eval(x, asg)? != le_eval(y, asg)?,
        LogicalExpr::Ite { guard, thn, els } => { let (g, t, f) = (le_eval(guard, asg)?, le_eval(thn, asg)?, le_eval(els, asg)?); if g { t } else { f } }
    })
}
/// DIMACS text -> LogicalExpr: variable k of the text is index k of the assignment (what the function does; unit ledimacs states it)
fn run_ledimacs(c: &Value) -> CaseResult {
    let nv = c["nv"].as_u64().unwrap_or(1) as usize;
    let cls: Vec<Vec<i64>> = c["clauses"].as_array().map(|a| a.iter().map(|cl| cl.as_array().map(|l| l.iter().map(|x| x.as_i64().unwrap_or(1)).collect()).unwrap_or_default()).collect()).unwrap_or_default();
    let mut text = format!("p cnf {} {}\n", nv, cls.len());
    for cl in &cls { for l in cl { text.push_str(&format!("{} ", l)); } text.push_str("0\n"); }
    let e = LogicalExpr::from_dimacs(&text);
    for m in 0..(1usize << nv) {
        // index 0 is unused by the text; indices 1..=nv carry the variables
        let a: Vec<bool> = (0..=nv).map(|i| i > 0 && (m >> (i - 1)) & 1 == 1).collect();
        let want = cls.iter().all(|cl| cl.iter().any(|l| a[l.unsigned_abs() as usize] == (*l > 0)));
        let got = le_eval(&e, &a)?;
        if got != want { return Err(format!("LogicalExpr::from_dimacs: the expression is {got} on assignment {m:#b} of the variables 1..={nv}, the text says {want}")); }
    }
    Ok(())
}
fn run_sexpr(c: &Value) -> CaseResult {
    let text = sx_text(&c["expr"]);
    let sx = serde_sexpr::from_str::<LogicalSExpr>(&text).map_err(|e| format!("serde_sexpr rejected {text}: {e}"))?;
    let le = LogicalExpr::from_sexpr(&sx);
    let mut names = vec![]; sx_names(&c["expr"], &mut names);
    names.sort();   // the documented numbering: lexicographic order of the names
    for m in 0..(1usize << names.len()) {
        let a: Vec<bool> = (0..names.len()).map(|i| (m >> i) & 1 == 1).collect();
        let (got, want) = (le_eval(&le, &a)?, sx_eval(&c["expr"], &names, &a));
        if got != want { return Err(format!("from_sexpr({text}) is {got} on assignment {m:#b} of the names {:?} in lexicographic order, the text says {want}", names)); }
    }
    Ok(())
}

pub fn run(c: &Value) -> CaseResult {
    match c["case"].as_str().unwrap_or("") {
        "ser_bdd" => run_bdd(c),
        "ser_sdd" => run_sdd(c),
        "ser_dimacs" => run_dimacs(c),
        "ser_sexpr" => run_sexpr(c),
        "ser_ledimacs" => run_ledimacs(c),
        _ => run_vtree(c),
    }
}

pub fn candidates(seed: u64) -> Vec<Value> {
    let mut out = vec![];
    let mut s = seed.wrapping_add(1717);
    let mut nx = |n: u64| { s = s.wrapping_mul(6364136223846793005).wrapping_add(1442695040888963407); (s >> 33) % n };
    // vtrees: every shape over <= 4 leaves with several labellings, some sparse / large labels
    let vts = [json!(0), json!(7), json!([0, 1]), json!([1, 0]), json!([[0, 1], 2]), json!([0, [1, 2]]), json!([[2, 0], 1]), json!([1, [2, 0]]),
        json!([[0, 1], [2, 3]]), json!([[[3, 1], 0], 2]), json!([2, [0, [3, 1]]]), json!([[1, [3, 0]], 2]), json!([0, [[1, 2], 3]]), json!([[5, 9], [4294967296u64, 3]])];
    for v in vts.iter() { out.push(json!({"case": "ser_vtree", "vtree": v})); }
    // BDDs: every function of three variables as a disjunction of minterm-ish pieces is too many; use programs with sharing and complement edges
    let orders = [json!([0, 1, 2]), json!([2, 0, 1]), json!([1, 2, 0]), json!([0, 1, 2, 3]), json!([3, 1, 0, 2]), json!([2, 3, 1, 0])];
    let svts = [json!([[0, 1], 2]), json!([0, [1, 2]]), json!([[2, 0], 1]), json!([[0, 1], [2, 3]]), json!([[[3, 1], 0], 2]), json!([2, [0, [3, 1]]]), json!([[1, [3, 0]], 2]), json!([0, [1, [2, 3]]])];
    // constants and single literals first
    out.push(json!({"case": "ser_bdd", "order": [0, 1], "ops": [["true"], ["false"], ["var", 0, true], ["var", 1, false], ["neg", 2]]}));
    out.push(json!({"case": "ser_sdd", "vtree": [0, 1], "ops": [["true"], ["false"], ["var", 0, true], ["var", 1, false], ["neg", 2]]}));
    for t in 0..700 {
        let bdd = t % 2 == 0;
        let (shape, nv) = if bdd { let o = orders[nx(6) as usize].clone(); let n = o.as_array().unwrap().len(); (o, n) } else { let v = svts[nx(8) as usize].clone(); let mut l = vec![]; vleaves(&v, &mut l); (v, l.len()) };
        let mut ops: Vec<Value> = (0..nv).map(|l| json!(["var", l, nx(4) != 0])).collect();
        for _ in 0..(4 + nx(9)) {
            let n = ops.len() as u64;
            ops.push(match nx(9) {
                0 => json!(["neg", nx(n)]),
                1 | 2 => json!(["and", nx(n), nx(n)]),
                3 => json!(["or", nx(n), nx(n)]),
                4 => json!(["iff", nx(n), nx(n)]),
                5 | 6 => json!(["xor", nx(n), nx(n)]),
                _ => json!(["ite", nx(n), nx(n), nx(n)]),
            });
        }
        out.push(if bdd { json!({"case": "ser_bdd", "order": shape, "ops": ops}) } else { json!({"case": "ser_sdd", "vtree": shape, "ops": ops}) });
    }
    // DIMACS texts: 1-6 variables (and 11-12, two-digit numbers), 1-6 non-empty clauses of 1-4 literals, repeated and complementary literals allowed
    out.push(json!({"case": "ser_dimacs", "nv": 3, "clauses": [[1, -2, 3]]}));
    out.push(json!({"case": "ser_dimacs", "nv": 2, "clauses": [[-1], [2, 1], [-2, -1]]}));
    out.push(json!({"case": "ser_dimacs", "nv": 2, "clauses": [[1, 2], []]}));
    out.push(json!({"case": "ser_dimacs", "nv": 2, "clauses": [[], [1, -2]]}));
    for t in 0..300 {
        let nv = if t % 10 == 9 { 11 + nx(2) } else { 1 + nx(6) };
        let cls: Vec<Vec<i64>> = (0..(1 + nx(6))).map(|_| (0..(if nx(12) == 0 { 0 } else { 1 + nx(4) })).map(|_| { let v = 1 + nx(nv) as i64; if nx(2) == 0 { v } else { -v } }).collect()).collect();
        out.push(json!({"case": "ser_dimacs", "nv": nv, "clauses": cls}));
    }
    // the same kind of texts (no empty clause, at least one clause) through LogicalExpr::from_dimacs
    for _ in 0..150 {
        let nv = 1 + nx(5);
        let cls: Vec<Vec<i64>> = (0..(1 + nx(5))).map(|_| (0..(1 + nx(4))).map(|_| { let v = 1 + nx(nv) as i64; if nx(2) == 0 { v } else { -v } }).collect()).collect();
        out.push(json!({"case": "ser_ledimacs", "nv": nv, "clauses": cls}));
    }
    // s-expressions without constants over names whose lexicographic order differs from their order of appearance and from numeric order
    let pools: [&[&str]; 4] = [&["X", "Y"], &["b", "a", "c"], &["x10", "x9", "x1"], &["Z", "A", "m", "B"]];
    for t in 0..300 {
        let pool = pools[t % 4];
        fn gen(d: u64, pool: &[&str], nx: &mut dyn FnMut(u64) -> u64) -> Value {
            if d == 0 || nx(4) == 0 { return json!(["Var", pool[nx(pool.len() as u64) as usize]]); }
            match nx(7) {
                0 | 1 => json!(["Not", gen(d - 1, pool, nx)]),
                2 => json!(["Or", gen(d - 1, pool, nx), gen(d - 1, pool, nx)]),
                3 => json!(["And", gen(d - 1, pool, nx), gen(d - 1, pool, nx)]),
                4 => json!(["Iff", gen(d - 1, pool, nx), gen(d - 1, pool, nx)]),
                5 => json!(["Xor", gen(d - 1, pool, nx), gen(d - 1, pool, nx)]),
                _ => json!(["Ite", gen(d - 1, pool, nx), gen(d - 1, pool, nx), gen(d - 1, pool, nx)]),
            }
        }
        let e = gen(1 + (t as u64 % 4), pool, &mut nx);
        out.push(json!({"case": "ser_sexpr", "expr": e}));
    }
    out
}
