//! CNF-side cases on the REAL code: Cnf::eval / is_sat_partial against the propositional definition, and
//! PartialModel bookkeeping against a reference vector of Option<bool>.
use crate::CaseResult;
use rsdd::repr::{Cnf, Literal, PartialModel, VarLabel, VarSet, WmcParams};
use std::collections::BTreeSet;
use rsdd::util::semirings::{FiniteField, Semiring};
use std::collections::HashMap;
use serde_json::{json, Value};

fn lits(c: &Value) -> Vec<Vec<Literal>> {
    c.as_array().map(|cs| cs.iter().map(|cl| cl.as_array().map(|ls| ls.iter().map(|l| {
        let x = l.as_i64().unwrap_or(1);
        Literal::new(VarLabel::new((x.unsigned_abs() - 1) as u64), x > 0)
    }).collect()).unwrap_or_default()).collect()).unwrap_or_default()
}

pub fn run(c: &Value) -> CaseResult {
    match c["case"].as_str().unwrap_or("") {
        "cnf_eval" => {
            let cls = lits(&c["cnf"]);
            let cnf = Cnf::new(&cls);
            let a: Vec<bool> = c["assignment"].as_array().map(|x| x.iter().map(|b| b.as_bool().unwrap_or(false)).collect()).unwrap_or_default();
            let want = cls.iter().all(|cl| cl.iter().any(|l| a[l.label().value() as usize] == l.polarity()));
            let got = cnf.eval(&a);
            if got != want { return Err(format!("eval = {got}, every-clause-has-a-true-literal = {want}")); }
            let pa: Vec<Option<bool>> = c["partial"].as_array().map(|x| x.iter().map(|b| b.as_bool()).collect()).unwrap_or_else(|| a.iter().map(|b| Some(*b)).collect());
            let m = PartialModel::from_assignments(&pa);
            let wantp = cls.iter().all(|cl| cl.iter().any(|l| pa[l.label().value() as usize] == Some(l.polarity())));
            let gotp = cnf.is_sat_partial(&m);
            if gotp != wantp { return Err(format!("is_sat_partial = {gotp}, every-clause-has-a-literal-assigned-true = {wantp}")); }
            Ok(())
        }
        "cnf_condition" => {
            // (F | l) on a == F on a[l.label := l.polarity], for every assignment of the original variables
            let cls = lits(&c["cnf"]);
            let cnf = Cnf::new(&cls);
            let x = c["lit"].as_i64().unwrap_or(1);
            let lit = Literal::new(VarLabel::new((x.unsigned_abs() - 1) as u64), x > 0);
            let r = cnf.condition(lit);
            let nv = c["nvars"].as_u64().unwrap_or(3) as usize;
            if r.num_vars() > nv { return Err(format!("conditioned formula mentions {} variables, the original {}", r.num_vars(), nv)); }
            for m in 0..(1u32 << nv) {
                let a: Vec<bool> = (0..nv).map(|i| (m >> i) & 1 == 1).collect();
                let mut a2 = a.clone();
                if (lit.label().value() as usize) < nv { a2[lit.label().value() as usize] = lit.polarity(); }
                let want = cls.iter().all(|cl| cl.iter().any(|l| a2[l.label().value() as usize] == l.polarity()));
                let got = r.eval(&a);
                if got != want { return Err(format!("condition({x}) evaluates to {got} on {:?}; the formula with the literal set evaluates to {want}", a)); }
            }
            Ok(())
        }
        "cnf_wmc" => {
            // brute-force count in an exact semiring == sum over satisfying assignments of the product of literal weights
            const P: u128 = 1_000_000_007;
            let cls = lits(&c["cnf"]);
            let cnf = Cnf::new(&cls);
            let nv = cnf.num_vars();
            let ws: Vec<(u128, u128)> = c["weights"].as_array().map(|a| a.iter().map(|w| (w[0].as_u64().unwrap_or(1) as u128, w[1].as_u64().unwrap_or(1) as u128)).collect()).unwrap_or_default();
            let mut hm: HashMap<VarLabel, (FiniteField<P>, FiniteField<P>)> = HashMap::new();
            for i in 0..nv { let (l, h) = ws.get(i).cloned().unwrap_or((1, 1)); hm.insert(VarLabel::new(i as u64), (FiniteField::new(l), FiniteField::new(h))); }
            let got = cnf.wmc(&WmcParams::new(hm)).value();
            let mut want: u128 = 0;
            for m in 0..(1u32 << nv) {
                let a: Vec<bool> = (0..nv).map(|i| (m >> i) & 1 == 1).collect();
                if cls.iter().all(|cl| cl.iter().any(|l| a[l.label().value() as usize] == l.polarity())) {
                    let mut w: u128 = 1;
                    for i in 0..nv { let (l, h) = ws.get(i).cloned().unwrap_or((1, 1)); w = w * (if a[i] { h } else { l }) % P; }
                    want = (want + w) % P;
                }
            }
            let _ = FiniteField::<P>::one();
            if got != want { return Err(format!("wmc = {got}, the sum over the {} assignments of {} variables is {want}", 1u32 << nv, nv)); }
            Ok(())
        }
        "varset_ops" => {
            // VarSet against BTreeSet: union / union_with / minus / intersect_varset / difference / iter / len / is_empty
            let mk = |v: &Value| -> (VarSet, BTreeSet<u64>) {
                let mut vs = VarSet::new(); let mut bs = BTreeSet::new();
                for x in v.as_array().cloned().unwrap_or_default() { let x = x.as_u64().unwrap_or(0); vs.insert(VarLabel::new(x)); bs.insert(x); }
                (vs, bs)
            };
            let ((a, sa), (b, sb)) = (mk(&c["a"]), mk(&c["b"]));
            let view = |v: &VarSet| -> BTreeSet<u64> { v.iter().map(|l| l.value()).collect() };
            let chk = |what: &str, got: BTreeSet<u64>, want: BTreeSet<u64>| -> CaseResult { if got == want { Ok(()) } else { Err(format!("VarSet {what}: got {:?}, the set-theoretic result is {:?}", got, want)) } };
            chk("iter", view(&a), sa.clone())?;
            chk("union", view(&a.union(&b)), sa.union(&sb).cloned().collect())?;
            chk("minus", view(&a.minus(&b)), sa.difference(&sb).cloned().collect())?;
            chk("intersect_varset", view(&a.intersect_varset(&b)), sa.intersection(&sb).cloned().collect())?;
            chk("difference", a.difference(&b).map(|l| l.value()).collect(), sa.difference(&sb).cloned().collect())?;
            let mut u = a.clone(); u.union_with(&b);
            chk("union_with", view(&u), sa.union(&sb).cloned().collect())?;
            if a.len() != sa.len() || a.is_empty() != sa.is_empty() { return Err(format!("VarSet len/is_empty: {} / {}, the set has {} elements", a.len(), a.is_empty(), sa.len())); }
            for x in 0..c["upto"].as_u64().unwrap_or(10) { if a.contains(VarLabel::new(x)) != sa.contains(&x) { return Err(format!("VarSet contains({x}) wrong")); } }
            Ok(())
        }
        "pm_build" => {
            // PartialModel constructors and iterators against a vector of Option<bool>
            let pa: Vec<Option<bool>> = c["a"].as_array().map(|x| x.iter().map(|b| b.as_bool()).collect()).unwrap_or_default();
            let pb: Vec<Option<bool>> = c["b"].as_array().map(|x| x.iter().map(|b| b.as_bool()).collect()).unwrap_or_default();
            let n = pa.len();
            let m = PartialModel::from_assignments(&pa);
            let lits: Vec<Literal> = pa.iter().enumerate().filter_map(|(i, v)| v.map(|v| Literal::new(VarLabel::new(i as u64), v))).collect();
            let m2 = PartialModel::from_litvec(&lits, n);
            let total: Vec<bool> = pa.iter().map(|v| v.unwrap_or(false)).collect();
            let m3 = PartialModel::from_total_model(&total);
            for i in 0..n {
                let l = VarLabel::new(i as u64);
                if m.get(l) != pa[i] { return Err(format!("from_assignments: get({i}) = {:?}, expected {:?}", m.get(l), pa[i])); }
                if m2.get(l) != pa[i] { return Err(format!("from_litvec: get({i}) = {:?}, expected {:?}", m2.get(l), pa[i])); }
                if m3.get(l) != Some(total[i]) { return Err(format!("from_total_model: get({i}) = {:?}, expected {:?}", m3.get(l), Some(total[i]))); }
            }
            let got: BTreeSet<(u64, bool)> = m.assignment_iter().map(|l| (l.label().value(), l.polarity())).collect();
            let want: BTreeSet<(u64, bool)> = pa.iter().enumerate().filter_map(|(i, v)| v.map(|v| (i as u64, v))).collect();
            if got != want || m.assignment_iter().count() != want.len() { return Err(format!("assignment_iter yields {:?}, the assigned literals are {:?}", got, want)); }
            // difference: literals of a that are not literals of b
            let mb = PartialModel::from_assignments(&pb);
            let gd: BTreeSet<(u64, bool)> = m.difference(&mb).map(|l| (l.label().value(), l.polarity())).collect();
            let wb: BTreeSet<(u64, bool)> = pb.iter().enumerate().filter_map(|(i, v)| v.map(|v| (i as u64, v))).collect();
            let wd: BTreeSet<(u64, bool)> = want.difference(&wb).cloned().collect();
            if gd != wd { return Err(format!("difference yields {:?}, expected {:?}", gd, wd)); }
            Ok(())
        }
        "pm_ops" => {
            let n = c["nvars"].as_u64().unwrap_or(4) as usize;
            let mut m = PartialModel::new(n);
            let mut r: Vec<Option<bool>> = vec![None; n];
            for (k, op) in c["ops"].as_array().cloned().unwrap_or_default().iter().enumerate() {
                let l = op[1].as_u64().unwrap_or(0) as usize;
                match op[0].as_str().unwrap_or("") {
                    "set" => { let v = op[2].as_bool().unwrap_or(true); m.set(VarLabel::new(l as u64), v); r[l] = Some(v); }
                    _ => { m.unset(VarLabel::new(l as u64)); r[l] = None; }
                }
                for x in 0..n {
                    let lbl = VarLabel::new(x as u64);
                    if m.get(lbl) != r[x] { return Err(format!("after op {k}: get({x}) = {:?}, expected {:?}", m.get(lbl), r[x])); }
                    if m.is_set(lbl) != r[x].is_some() { return Err(format!("after op {k}: is_set({x}) wrong")); }
                    if m.true_assignments.contains(lbl) && m.false_assignments.contains(lbl) { return Err(format!("after op {k}: variable {x} is in both sets")); }
                    for pol in [true, false] {
                        let lit = Literal::new(lbl, pol);
                        if m.lit_implied(lit) != (r[x] == Some(pol)) { return Err(format!("after op {k}: lit_implied({x},{pol}) wrong")); }
                        if m.lit_neg_implied(lit) != (r[x] == Some(!pol)) { return Err(format!("after op {k}: lit_neg_implied({x},{pol}) wrong")); }
                    }
                }
            }
            Ok(())
        }
        k => Err(format!("unknown case {k}")),
    }
}

pub fn candidates(seed: u64) -> Vec<Value> {
    let mut out = vec![];
    let cnfs = vec![json!([]), json!([[]]), json!([[1]]), json!([[1, -1]]), json!([[1, 2], [-2, 3]]), json!([[1, 1, 2], [-3]]), json!([[1, 2, 3], [], [2]])];
    for cnf in cnfs.iter() {
        for m in 0..8u32 {
            let a: Vec<bool> = (0..3).map(|i| (m >> i) & 1 == 1).collect();
            out.push(json!({"case": "cnf_eval", "cnf": cnf, "assignment": a}));
            for hole in 0..3 {
                let p: Vec<Value> = (0..3).map(|i| if i == hole { Value::Null } else { json!(a[i]) }).collect();
                out.push(json!({"case": "cnf_eval", "cnf": cnf, "assignment": a, "partial": p}));
            }
        }
    }
    // every partial model over FOUR variables (a universe larger than any of these formulas mentions), for is_sat_partial
    let more = vec![json!([[-1]]), json!([[-1, 2], [-2]]), json!([[-2, -3], [1]]), json!([[-1, -2, -3]])];
    for cnf in cnfs.iter().chain(more.iter()) {
        for code in 0..81u32 {
            let p: Vec<Value> = (0..4).map(|i| match (code / 3u32.pow(i)) % 3 { 0 => Value::Null, 1 => json!(true), _ => json!(false) }).collect();
            let a: Vec<bool> = (0..4).map(|i| (code / 3u32.pow(i)) % 3 == 1).collect();
            out.push(json!({"case": "cnf_eval", "cnf": cnf, "assignment": a, "partial": p}));
        }
    }
    for cnf in cnfs.iter() {
        for l in [1i64, -1, 2, -2, 3, -3] { out.push(json!({"case": "cnf_condition", "cnf": cnf, "lit": l, "nvars": 3})); }
        out.push(json!({"case": "cnf_wmc", "cnf": cnf, "weights": [[1, 1], [1, 1], [1, 1]]}));
        out.push(json!({"case": "cnf_wmc", "cnf": cnf, "weights": [[2, 3], [5, 7], [11, 13]]}));
    }
    // sizes beyond the small cases: clauses of 9-12 literals over 10-12 variables (complementary and repeated literals
    // included) for condition / wmc / eval, and labels beyond 64 for the set and model bookkeeping
    {
        let mut s2 = seed.wrapping_add(777001);
        let mut nx2 = |n: u64| { s2 = s2.wrapping_mul(6364136223846793005).wrapping_add(1442695040888963407); (s2 >> 33) % n };
        for _ in 0..12 {
            let nv = 10 + nx2(3);
            let mut cnf: Vec<Vec<i64>> = vec![];
            for _ in 0..(1 + nx2(3)) {
                let w = 9 + nx2(4);
                let mut cl: Vec<i64> = (0..w).map(|_| { let v = 1 + nx2(nv) as i64; if nx2(2) == 0 { v } else { -v } }).collect();
                let v = 1 + nx2(nv) as i64; cl.push(v); cl.push(-v);     // a complementary pair
                cnf.push(cl);
            }
            for _ in 0..nx2(3) { cnf.push((0..1 + nx2(3)).map(|_| { let v = 1 + nx2(nv) as i64; if nx2(2) == 0 { v } else { -v } }).collect()); }
            cnf.push(vec![nv as i64]);
            for l in 1..=nv as i64 { out.push(json!({"case": "cnf_condition", "cnf": cnf, "lit": l, "nvars": nv})); out.push(json!({"case": "cnf_condition", "cnf": cnf, "lit": -l, "nvars": nv})); }
            let w: Vec<Vec<u64>> = (0..nv).map(|_| vec![nx2(50), nx2(50)]).collect();
            out.push(json!({"case": "cnf_wmc", "cnf": cnf, "weights": w}));
        }
        for _ in 0..40 {
            let a: Vec<u64> = (0..nx2(8)).map(|_| nx2(140)).collect();
            let b: Vec<u64> = (0..nx2(8)).map(|_| nx2(140)).collect();
            out.push(json!({"case": "varset_ops", "a": a, "b": b, "upto": 140}));
            let opt = |k: u64| match k { 0 | 1 | 2 => Value::Null, 3 => json!(true), _ => json!(false) };
            let pa: Vec<Value> = (0..70).map(|_| opt(nx2(5))).collect();
            let pb: Vec<Value> = (0..70).map(|_| opt(nx2(5))).collect();
            out.push(json!({"case": "pm_build", "a": pa, "b": pb}));
        }
    }
    let mut s = seed.wrapping_add(4242);
    let mut nx = |n: u64| { s = s.wrapping_mul(6364136223846793005).wrapping_add(1442695040888963407); (s >> 33) % n };
    for _ in 0..300 {
        let ncl = nx(5);
        let cnf: Vec<Vec<i64>> = (0..ncl).map(|_| (0..nx(4)).map(|_| { let v = 1 + nx(4) as i64; if nx(2) == 0 { v } else { -v } }).collect()).collect();
        let l = 1 + nx(4) as i64;
        out.push(json!({"case": "cnf_condition", "cnf": cnf, "lit": if nx(2) == 0 { l } else { -l }, "nvars": 4}));
        let w: Vec<Vec<u64>> = (0..4).map(|_| vec![nx(50), nx(50)]).collect();
        out.push(json!({"case": "cnf_wmc", "cnf": cnf, "weights": w}));
    }
    for _ in 0..300 {
        let a: Vec<u64> = (0..nx(6)).map(|_| nx(10)).collect();
        let b: Vec<u64> = (0..nx(6)).map(|_| nx(10)).collect();
        out.push(json!({"case": "varset_ops", "a": a, "b": b}));
        let opt = |k: u64| match k { 0 => Value::Null, 1 => json!(true), _ => json!(false) };
        let pa: Vec<Value> = (0..5).map(|_| opt(nx(3))).collect();
        let pb: Vec<Value> = (0..5).map(|_| opt(nx(3))).collect();
        out.push(json!({"case": "pm_build", "a": pa, "b": pb}));
    }
    for _ in 0..300 {
        let ops: Vec<Value> = (0..8).map(|_| if nx(3) == 0 { json!(["unset", nx(4)]) } else { json!(["set", nx(4), nx(2) == 0]) }).collect();
        out.push(json!({"case": "pm_ops", "nvars": 4, "ops": ops}));
    }
    out
}
